# Arguments and guards of the WAL calls at their call sites in
# src/ingester/mod.rs (C01), translated into coq/generated/Funs.v so that a
# changed bound (`flushed_up_to` vs `flushed_up_to + 1`, `flushed_seq + 1` vs
# `flushed_seq`), a changed guard or a changed persisted value changes the
# statements of Proofs/IngestDurTie.v and re-opens the proofs of C01.
_FU = [("flushed_up_to", "Z")]
_FS = [("flushed_seq", "Z")]
ENTRIES = [
    # flush_batches: wal.lock().await.truncate_before(<expr>).await
    dict(name="ingest_flush_truncate_bound", file="src/ingester/mod.rs",
         expr=r"async fn flush_batches\(.*?wal\.lock\(\)\.await\.truncate_before\(([^()]*?)\)\.await",
         params=_FU, ret="Z", props=["C01"]),
    # flush_batches: if <expr> { ... truncate / persist ... }
    dict(name="ingest_flush_mark_guard", file="src/ingester/mod.rs",
         expr=r"async fn flush_batches\(.*?let flushed_up_to = self\.last_wal_seq\.load\(Ordering::Acquire\);.*?\n\s*if ([^{};]*?) \{\s*if let Some\(wal\) = self\.wal\.as_ref\(\)",
         params=_FU, ret="bool", props=["C01"]),
    # flush_batches: self.last_flushed_seq.store(<expr>, Ordering::Release)
    dict(name="ingest_flush_lfs_value", file="src/ingester/mod.rs",
         expr=r"async fn flush_batches\(.*?self\.last_flushed_seq\s*\.store\(([^,()]*?), Ordering::Release\);",
         params=_FU, ret="Z", props=["C01"]),
    # flush_batches: persist_flushed_seq(&self.config.wal.wal_dir, <expr>)
    dict(name="ingest_flush_persist_value", file="src/ingester/mod.rs",
         expr=r"async fn flush_batches\(.*?persist_flushed_seq\(&self\.config\.wal\.wal_dir, ([^()]*?)\)",
         params=_FU, ret="Z", props=["C01"]),
    # ensure_wal: wal.read_entries_after(<expr>)?
    dict(name="ingest_recover_read_after", file="src/ingester/mod.rs",
         expr=r"pub async fn ensure_wal\(.*?let entries = wal\.read_entries_after\(([^()]*?)\)\?;",
         params=_FS, ret="Z", props=["C01"]),
    # ensure_wal: if <expr> { wal.truncate_before(<expr>).await?; }
    dict(name="ingest_recover_truncate_guard", file="src/ingester/mod.rs",
         expr=r"pub async fn ensure_wal\(.*?// Truncate already-flushed segments\s*let mut wal = wal;\s*if ([^{};]*?) \{\s*wal\.truncate_before\(",
         params=_FS, ret="bool", props=["C01"]),
    dict(name="ingest_recover_truncate_bound", file="src/ingester/mod.rs",
         expr=r"pub async fn ensure_wal\(.*?let mut wal = wal;\s*if [^{};]*? \{\s*wal\.truncate_before\(([^()]*?)\)\.await\?;",
         params=_FS, ret="Z", props=["C01"]),
]
