# Argument expressions of the WAL calls made by the ingester (src/ingester/mod.rs),
# translated into coq/generated/Funs.v so that the caller discipline proved for
# flush_ops / ensure_wal_ops (C05_flush_disciplined, C05_ensure_wal_disciplined)
# is re-checked against what the call sites pass NOW (Proofs/WalTie.v).
_M = "src/ingester/mod.rs"
_FL = r"async fn flush_batches\(.*?let flushed_up_to = self\.last_wal_seq\.load\(Ordering::Acquire\);"
ENTRIES = [
    # flush_batches: `if <guard> { ... truncate_before(<bound>) ... persist_flushed_seq(dir, <mark>) ... }`
    dict(name="wal_flush_guard", file=_M,
         expr=_FL + r".*?\n\s*if ([^{};]*?) \{\s*if let Some\(wal\) = self\.wal\.as_ref\(\) \{",
         params=[("flushed_up_to", "Z")], ret="bool", props=["C05", "C01"]),
    dict(name="wal_flush_truncate_bound", file=_M,
         expr=_FL + r".*?wal\.lock\(\)\.await\.truncate_before\(([^{};]*?)\)\.await",
         params=[("flushed_up_to", "Z")], ret="Z", props=["C05", "C01"]),
    dict(name="wal_flush_persist_mark", file=_M,
         expr=_FL + r".*?persist_flushed_seq\(&self\.config\.wal\.wal_dir, ([^{};]*?)\) \{",
         params=[("flushed_up_to", "Z")], ret="Z", props=["C05", "C01"]),
    # ensure_wal: `if <guard> { wal.truncate_before(<bound>).await?; }`
    dict(name="wal_ensure_guard", file=_M,
         expr=r"pub async fn ensure_wal\(.*?let mut wal = wal;\s*if ([^{};]*?) \{\s*wal\.truncate_before\(",
         params=[("flushed_seq", "Z")], ret="bool", props=["C05", "C01"]),
    dict(name="wal_ensure_truncate_bound", file=_M,
         expr=r"pub async fn ensure_wal\(.*?let mut wal = wal;\s*if [^{};]*? \{\s*wal\.truncate_before\(([^{};]*?)\)\.await\?;",
         params=[("flushed_seq", "Z")], ret="Z", props=["C05", "C01"]),
    # ensure_wal reads back the entries above the mark it loaded
    dict(name="wal_ensure_read_after", file=_M,
         expr=r"pub async fn ensure_wal\(.*?let entries = wal\.read_entries_after\(([^{};]*?)\)\?;",
         params=[("flushed_seq", "Z")], ret="Z", props=["C05", "C01"]),
]
