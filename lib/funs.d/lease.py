# Comparison predicates of the compaction-lease code (C08), translated into
# coq/generated/Funs.v so that a changed operator (<= vs <, > vs >=, == vs !=)
# or boolean structure changes the model and re-opens the proofs.
# LeaseStatus is rendered as Z (Active = 0, Completed = 1, Failed = 2); the
# constant `LeaseStatus::Active` is a parameter that the model instantiates with 0.
_ST = [("lease.status", "Z"), ("LeaseStatus::Active", "Z"), ("lease.expires_at", "Z"), ("now", "Z")]
_SL = [("l.status", "Z"), ("LeaseStatus::Active", "Z"), ("l.expires_at", "Z"), ("now", "Z")]
ENTRIES = [
    # ObjectStoreMetadataClient::acquire_lease: leases.leases.retain(|_, lease| { <expr> });
    dict(name="lease_s3_acquire_keep", file="src/metadata/s3.rs",
         expr=r"async fn acquire_lease\(.*?// Scavenge expired active leases\s*leases\.leases\.retain\(\|_, lease\| \{\s*([^{};]*?)\s*\}\);",
         params=_ST, ret="bool", props=["C08"]),
    # ... .values().filter(|l| <expr>).flat_map(...)  (the chunks that are taken)
    dict(name="lease_s3_acquire_live", file="src/metadata/s3.rs",
         expr=r"async fn acquire_lease\(.*?let leased_chunks: std::collections::HashSet<&str> = leases\s*\.leases\s*\.values\(\)\s*\.filter\(\|l\| ([^{};|]*?)\)\s*\.flat_map\(\|l\| l\.chunks\.iter\(\)\.map\(\|c\| c\.as_str\(\)\)\)\s*\.collect\(\);",
         params=_SL, ret="bool", props=["C08"]),
    # renew_lease: if <expr> { ... return Err(Cannot renew non-active lease) }
    dict(name="lease_s3_renew_refuse", file="src/metadata/s3.rs",
         expr=r"async fn renew_lease\(.*?if let Some\(lease\) = leases\.leases\.get_mut\(lease_id\) \{\s*if ([^{};]*?) \{",
         params=_ST, ret="bool", props=["C08"]),
    # scavenge_leases: retain(|_, lease| { if <cond> { <then> } else { false } })
    dict(name="lease_s3_scavenge_cond", file="src/metadata/s3.rs",
         expr=r"async fn scavenge_leases\(.*?leases\.leases\.retain\(\|_, lease\| \{\s*if ([^{};]*?) \{\s*[^{};]*?\s*\} else \{\s*(?://[^\n]*\s*)*false\s*\}\s*\}\);",
         params=_ST, ret="bool", props=["C08"]),
    dict(name="lease_s3_scavenge_then", file="src/metadata/s3.rs",
         expr=r"async fn scavenge_leases\(.*?leases\.leases\.retain\(\|_, lease\| \{\s*if [^{};]*? \{\s*([^{};]*?)\s*\} else \{\s*(?://[^\n]*\s*)*false\s*\}\s*\}\);",
         params=_ST, ret="bool", props=["C08"]),
    # LocalMetadataClient
    dict(name="lease_local_acquire_keep", file="src/metadata/local.rs",
         expr=r"async fn acquire_lease\(.*?// Scavenge expired active leases\s*leases\s*\.leases\s*\.retain\(\|_, lease\| ([^{};]*?)\);",
         params=_ST, ret="bool", props=["C08"]),
    dict(name="lease_local_acquire_live", file="src/metadata/local.rs",
         expr=r"async fn acquire_lease\(.*?let leased_chunks: std::collections::HashSet<&str> = leases\s*\.leases\s*\.values\(\)\s*\.filter\(\|l\| ([^{};|]*?)\)\s*\.flat_map\(\|l\| l\.chunks\.iter\(\)\.map\(\|c\| c\.as_str\(\)\)\)\s*\.collect\(\);",
         params=_SL, ret="bool", props=["C08"]),
    dict(name="lease_local_renew_refuse", file="src/metadata/local.rs",
         expr=r"async fn renew_lease\(.*?if let Some\(lease\) = leases\.leases\.get_mut\(lease_id\) \{\s*if ([^{};]*?) \{",
         params=_ST, ret="bool", props=["C08"]),
    dict(name="lease_local_scavenge_cond", file="src/metadata/local.rs",
         expr=r"async fn scavenge_leases\(.*?leases\.leases\.retain\(\|_, lease\| \{\s*if ([^{};]*?) \{\s*[^{};]*?\s*\} else \{\s*false\s*\}\s*\}\);",
         params=_ST, ret="bool", props=["C08"]),
    dict(name="lease_local_scavenge_then", file="src/metadata/local.rs",
         expr=r"async fn scavenge_leases\(.*?leases\.leases\.retain\(\|_, lease\| \{\s*if [^{};]*? \{\s*([^{};]*?)\s*\} else \{\s*false\s*\}\s*\}\);",
         params=_ST, ret="bool", props=["C08"]),
]
