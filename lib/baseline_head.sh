#!/bin/bash
# Runs the pinned baseline suite (hooks feature OFF) on a scratch worktree of /repo's HEAD,
# so uncommitted work in /repo does not interfere.  Output: /tmp/baseline-head.{log,sum}
WT=/tmp/wt-base
export CARGO_TARGET_DIR=/tmp/confirm-target CARGO_NET_OFFLINE=true CARGO_PROFILE_DEV_DEBUG=0 CARGO_PROFILE_TEST_DEBUG=0
HEAD=$(git -C /repo rev-parse HEAD)
if [ ! -d "$WT" ]; then git -C /repo worktree add --detach "$WT" HEAD -q; fi
git -C "$WT" checkout -q -- . ; git -C "$WT" clean -fdq; git -C "$WT" checkout -q --detach "$HEAD"
cd "$WT"
cargo nextest run --workspace --no-fail-fast --tool-config-file pb:/w/lib/nextest.toml --profile pb --test-threads 8 --offline > /tmp/baseline-head.log 2>&1
{ echo "HEAD $HEAD"; grep -E "^\s+(Summary|FAIL|TIMEOUT|SIGABRT|SIGSEGV)" /tmp/baseline-head.log | sort -u; } > /tmp/baseline-head.sum
cat /tmp/baseline-head.sum
