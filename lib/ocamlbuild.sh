#!/bin/bash
# Builds one model runner:  lib/ocamlbuild.sh <name> <extracted_module_basename> <driver.ml>
#   e.g. lib/ocamlbuild.sh c07 catalog_model c07_main.ml   ->  .cache/bin/modelrun-c07
# The extracted .ml/.mli come from coq/theories/Extract (written to ocaml/gen by coqc).
set -e
ROOT=$(cd "$(dirname "$0")/.." && pwd)
NAME=$1; MODEL=$2; DRIVER=$3
B=$ROOT/.cache/ocaml/$NAME
mkdir -p "$B" "$ROOT/.cache/bin"
MOD=$(echo "${MODEL:0:1}" | tr a-z A-Z)${MODEL:1}
cp "$ROOT/ocaml/gen/$MODEL.ml" "$ROOT/ocaml/gen/$MODEL.mli" "$B/"
{ echo "open $MOD"; cat "$ROOT/ocaml/drivers/conv.ml"; echo; cat "$ROOT/ocaml/drivers/$DRIVER"; } > "$B/driver_$NAME.ml"
cd "$B"
# skip when nothing changed
SUM=$(cat $MODEL.ml $MODEL.mli driver_$NAME.ml | md5sum | cut -d' ' -f1)
if [ -x "$ROOT/.cache/bin/modelrun-$NAME" ] && [ "$(cat .sum 2>/dev/null)" = "$SUM" ]; then exit 0; fi
ocamlfind ocamlopt -w -a -O2 $MODEL.mli $MODEL.ml driver_$NAME.ml -o "$ROOT/.cache/bin/modelrun-$NAME.tmp" 2>/dev/null || \
ocamlfind ocamlopt -w -a $MODEL.mli $MODEL.ml driver_$NAME.ml -o "$ROOT/.cache/bin/modelrun-$NAME.tmp"
mv "$ROOT/.cache/bin/modelrun-$NAME.tmp" "$ROOT/.cache/bin/modelrun-$NAME"
echo "$SUM" > .sum
