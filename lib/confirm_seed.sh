#!/bin/bash
# Confirms a seeded change independently of the agent that wrote it:
#   lib/confirm_seed.sh <dir containing patch.diff and demo.rs> [worktree]
# 1. demo passes on the unchanged tree (current /repo HEAD)
# 2. demo fails with the patch applied
# 3. the existing suite (minus the baseline's known always-timing-out test) passes with the patch
# Writes <dir>/confirm.json and <dir>/confirm.log.  Uses a scratch worktree, never /repo itself.
D=$(cd "$1" && pwd); WT=${2:-/tmp/wt-confirm}
export CARGO_TARGET_DIR=${CONFIRM_TARGET:-/tmp/confirm-target} CARGO_NET_OFFLINE=true CARGO_PROFILE_DEV_DEBUG=0 CARGO_PROFILE_TEST_DEBUG=0
LOG=$D/confirm.log; : > "$LOG"
HEAD=$(git -C /repo rev-parse HEAD)
if [ ! -d "$WT" ]; then git -C /repo worktree add --detach "$WT" HEAD -q >>"$LOG" 2>&1; fi
git -C "$WT" checkout -q -- . ; git -C "$WT" clean -fdq; git -C "$WT" checkout -q --detach "$HEAD"
cp "$D/demo.rs" "$WT/tests/seeded_demo.rs"
FEAT=""; grep -q 'feature = "verif_hooks"' "$D/demo.rs" && FEAT="--features verif_hooks"
cd "$WT"
echo "== demo on unchanged tree ($HEAD)" >>"$LOG"
cargo test --offline $FEAT --test seeded_demo >>"$LOG" 2>&1; clean_rc=$?
applies=0
git apply --check "$D/patch.diff" >>"$LOG" 2>&1 && applies=1
demo_rc=-1; suite_rc=-1; summary=""
if [ $applies = 1 ]; then
  git apply "$D/patch.diff"
  echo "== demo with the change" >>"$LOG"
  cargo test --offline $FEAT --test seeded_demo >>"$LOG" 2>&1; demo_rc=$?
  rm -f tests/seeded_demo.rs
  echo "== existing suite with the change" >>"$LOG"
  cargo nextest run --workspace --no-fail-fast --retries 2 --test-threads 8 --offline -E 'not test(test_full_split_execution)' >"$D/suite.log" 2>&1; suite_rc=$?
  summary=$(grep -E "^\s+Summary" "$D/suite.log" | tail -1)
  if [ $suite_rc != 0 ]; then
    # tests that failed under machine load are re-run alone, single-threaded; the suite counts as
    # passing only if every one of them passes then
    failed=$(grep -E "^\s+(FAIL|TIMEOUT|SIGABRT|SIGSEGV) " "$D/suite.log" | sed -E 's/.*\) +//' | awk '{print $NF}' | sort -u)
    if [ -n "$failed" ]; then
      ok_all=1
      for t in $failed; do
        name=${t##*::}
        echo "== re-running $t alone" >>"$LOG"
        cargo nextest run --workspace --offline --test-threads 1 -E "test(=$name) | test(/::$name\$/)" >>"$LOG" 2>&1 || ok_all=0
      done
      if [ $ok_all = 1 ]; then suite_rc=0; summary="$summary; failing tests passed when re-run alone: $(echo $failed | tr '\n' ' ')"; fi
    fi
  fi
  grep -E "^\s+(FAIL|TIMEOUT|SIGABRT|SIGSEGV)" "$D/suite.log" | sort -u | head -20 >>"$LOG"
  echo "$summary" >>"$LOG"
  tail -c 20000 "$D/suite.log" > "$D/suite.tail.log"; rm -f "$D/suite.log"
fi
git -C "$WT" checkout -q -- . ; git -C "$WT" clean -fdq
ok=false
if [ $clean_rc = 0 ] && [ $applies = 1 ] && [ $demo_rc != 0 ] && [ $suite_rc = 0 ]; then ok=true; fi
cat > "$D/confirm.json" <<JSON
{"repo_head": "$HEAD", "patch_applies": $applies, "demo_passes_without_change": $([ $clean_rc = 0 ] && echo true || echo false),
 "demo_fails_with_change": $([ $demo_rc != 0 ] && [ $demo_rc != -1 ] && echo true || echo false),
 "existing_suite_passes_with_change": $([ $suite_rc = 0 ] && echo true || echo false),
 "suite_summary": "$(echo $summary | tr -d '"')", "confirmed": $ok}
JSON
cat "$D/confirm.json"
