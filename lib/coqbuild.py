#!/usr/bin/env python3
"""Coq build helper: regenerates _CoqProject / Makefile from the file list,
runs `make <targets>` under a global lock (full .vo builds, never -vos), and
reports output.  Usage:  lib/coqbuild.py [target.vo ...]   (no target = all)
"""
import fcntl
import glob
import os
import subprocess
import sys
import time

ROOT = os.path.abspath(os.path.join(os.path.dirname(__file__), ".."))
COQ = os.path.join(ROOT, "coq")
CACHE = os.path.join(ROOT, ".cache")


def vfiles():
    fs = sorted(glob.glob(os.path.join(COQ, "theories", "**", "*.v"), recursive=True))
    fs += sorted(glob.glob(os.path.join(COQ, "generated", "*.v")))
    return [os.path.relpath(f, COQ) for f in fs]


def write_if_changed(path, text):
    old = None
    if os.path.exists(path):
        with open(path) as f:
            old = f.read()
    if old != text:
        with open(path, "w") as f:
            f.write(text)
        return True
    return False


class Lock:
    def __init__(self, name):
        os.makedirs(CACHE, exist_ok=True)
        self.path = os.path.join(CACHE, name + ".lock")

    def __enter__(self):
        self.f = open(self.path, "w")
        fcntl.flock(self.f, fcntl.LOCK_EX)
        return self

    def __exit__(self, *a):
        fcntl.flock(self.f, fcntl.LOCK_UN)
        self.f.close()


def prepare():
    """(Re)create _CoqProject and Makefile when the file list changed."""
    proj = "-Q theories CS\n-Q generated CSGen\n-arg -w -arg -deprecated-hint-without-locality,-deprecated-instance-without-locality\n" + "\n".join(vfiles()) + "\n"
    changed = write_if_changed(os.path.join(COQ, "_CoqProject"), proj)
    if changed or not os.path.exists(os.path.join(COQ, "Makefile")):
        subprocess.run(["coq_makefile", "-f", "_CoqProject", "-o", "Makefile"], cwd=COQ, check=True,
                       stdout=subprocess.DEVNULL, stderr=subprocess.DEVNULL)


def make(targets, timeout=1500, force=()):
    """Returns (ok, output, seconds).  `force` lists .vo files removed first so
    that their Print Assumptions output is produced again."""
    t0 = time.time()
    with Lock("coq"):
        prepare()
        for f in force:
            for ext in (".vo", ".vok", ".vos", ".glob"):
                try:
                    os.remove(os.path.join(COQ, f[:-3] + ext) if f.endswith(".vo") else os.path.join(COQ, f + ext))
                except OSError:
                    pass
        cmd = ["timeout", str(timeout), "make", "-j16"] + list(targets)
        p = subprocess.run(cmd, cwd=COQ, stdout=subprocess.PIPE, stderr=subprocess.STDOUT, text=True)
    return p.returncode == 0, p.stdout, time.time() - t0


if __name__ == "__main__":
    ok, out, secs = make(sys.argv[1:])
    sys.stdout.write(out)
    print(f"[coqbuild] {'ok' if ok else 'FAILED'} in {secs:.1f}s")
    sys.exit(0 if ok else 1)
