# constants of the ingest group (C01): the WAL entry header length enters the
# segment-rotation test of the abstract WAL in Model/IngestDur.v
ENTRIES = [
    ("INGEST_WAL_HEADER_LEN", "src/ingester/wal.rs",
     r"const HEADER_LEN: usize = ([0-9_]+);", "N", ["C01"]),
]
