# Constants of the write-routing code (C19), read from the Rust sources on every run.
ENTRIES = [
    # NodeInfo::can_accept_writes: `&& self.load_percent < 95`
    ("ROUTER_LOAD_THRESHOLD", "src/cluster/node_registry.rs",
     r"pub fn can_accept_writes\(&self\) -> bool \{\s*matches!\(self\.status, NodeStatus::Healthy\)\s*&& matches!\(self\.node_type, NodeType::Ingester \| NodeType::Combined\)\s*&& self\.load_percent < ([0-9_]+)\s*\}",
     "N", ["C19"]),
    # ConsistentHashRing::new: `virtual_nodes: 100,`
    ("ROUTER_VIRTUAL_NODES", "src/cluster/shard_assignment.rs",
     r"fn new\(\) -> Self \{\s*Self \{\s*ring: std::collections::BTreeMap::new\(\),\s*virtual_nodes: ([0-9_]+),", "N", ["C19"]),
    # DistributedWriteRouter::route_write: `for _attempt in 0..MAX_ROUTE_ATTEMPTS`
    ("ROUTER_MAX_ROUTE_ATTEMPTS", "src/cluster/write_router.rs",
     r"const MAX_ROUTE_ATTEMPTS: usize = ([0-9_]+);", "N", ["C19"]),
    # ... and the loop really is bounded by that constant
    ("ROUTER_ROUTE_LOOP_BOUND", "src/cluster/write_router.rs",
     r"pub async fn route_write\(&self, shard_id: &str\) -> Result<Option<NodeInfo>> \{[^{}]*for _attempt in 0\.\.(MAX_ROUTE_ATTEMPTS) \{",
     "alias:ROUTER_MAX_ROUTE_ATTEMPTS", ["C19"]),
]
