# Constants of the compaction procedure and its leases (C03), one per use site.
ENTRIES = [
    # lease TTL given by acquire_lease, in-memory backend (seconds)
    ("C03_LOCAL_ACQUIRE_TTL_SECS", "src/metadata/local.rs",
     r"async fn acquire_lease\(.*?expires_at: now \+ chrono::Duration::seconds\(([0-9_]+)\),", "Z", ["C03"]),
    # lease extension of renew_lease, in-memory backend (seconds)
    ("C03_LOCAL_RENEW_TTL_SECS", "src/metadata/local.rs",
     r"async fn renew_lease\(.*?lease\.expires_at = chrono::Utc::now\(\) \+ chrono::Duration::seconds\(([0-9_]+)\);", "Z", ["C03"]),
    # lease TTL given by acquire_lease, object-store backend (seconds)
    ("C03_S3_ACQUIRE_TTL_SECS", "src/metadata/s3.rs",
     r"async fn acquire_lease\(.*?let lease_ttl = std::time::Duration::from_secs\(([0-9_]+)\);", "Z", ["C03"]),
    # lease extension of renew_lease, object-store backend (seconds)
    ("C03_S3_RENEW_TTL_SECS", "src/metadata/s3.rs",
     r"async fn renew_lease\(.*?let extension = std::time::Duration::from_secs\(([0-9_]+)\);", "Z", ["C03"]),
    # period of the renewal task spawned per leased group (seconds)
    ("C03_RENEWAL_PERIOD_SECS", "src/compactor/mod.rs",
     r"fn spawn_lease_renewal\(.*?let renewal_interval = Duration::from_secs\(([0-9_]+)\);", "Z", ["C03"]),
    # has_capacity: active_compactions < max_concurrent_compactions
    ("C03_MAX_CONCURRENT", "src/compactor/mod.rs",
     r"max_concurrent_compactions: ([0-9_]+),", "N", ["C03"]),
]
