# Constants of the time-range extraction of QueryEngine (C04), read from
# src/query/engine.rs on every run.
ENTRIES = [
    # `let hour_ago = now - 3_600_000_000_000;` : width of the default window
    ("TE_DEFAULT_WINDOW_NANOS", "src/query/engine.rs",
     r"pub async fn extract_time_range\(.*?let hour_ago = now - ([0-9_]+);",
     "Z", ["C04"]),
    # extract_timestamp_value: scaling of timestamp literals to nanoseconds
    ("TE_MICRO_SCALE", "src/query/engine.rs",
     r"fn extract_timestamp_value\(.*?TimestampMicrosecond\(Some\(v\), _\)\) => \{?\s*v\.checked_mul\(([0-9_]+)\)",
     "Z", ["C04"]),
    ("TE_MILLI_SCALE", "src/query/engine.rs",
     r"fn extract_timestamp_value\(.*?TimestampMillisecond\(Some\(v\), _\)\) => \{?\s*v\.checked_mul\(([0-9_]+)\)",
     "Z", ["C04"]),
    ("TE_SEC_SCALE", "src/query/engine.rs",
     r"fn extract_timestamp_value\(.*?TimestampSecond\(Some\(v\), _\)\) => \{?\s*v\.checked_mul\(([0-9_]+)\)",
     "Z", ["C04"]),
]
