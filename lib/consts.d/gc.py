# Constants of the GC / retention code (C09), read from the Rust sources on every run.
ENTRIES = [
    # `retention_days as i64 * 24 * 3600 * 1_000_000_000` (enforce_retention)
    ("GC_NANOS_PER_DAY", "src/compactor/mod.rs",
     r"async fn enforce_retention\(&self\).*?let retention_nanos =\s*\(?self\.config\.retention_days as i64\)?\s*(?:\*|\.saturating_mul\()\s*([0-9_ *]+[0-9])\)?;",
     "Z", ["C09"]),
    # the skew margin of the clock Compactor::new installs: BoundedClock::default()
    ("GC_DEFAULT_SKEW_SECS", "src/clock.rs",
     r"impl Default for BoundedClock \{.*?Self::new\(std::time::Duration::from_secs\(([0-9_]+)\)\)",
     "Z", ["C09"]),
    # default grace period of CompactorConfig
    ("GC_DEFAULT_GRACE_SECS", "src/compactor/mod.rs",
     r"gc_grace_period: Duration::from_secs\(([0-9_]+)\)",
     "Z", ["C09"]),
]
