# Constants of the compaction selection / cycle code (C20), one per use site.
ENTRIES = [
    # compact_level skips candidate groups with fewer members than this
    ("COMPACT_LEVEL_MIN_GROUP", "src/compactor/mod.rs",
     r"async fn compact_level\(&self, level: usize\).*?for group in candidates \{\s*if group\.len\(\) < ([0-9_]+) \{\s*continue;",
     "N", ["C20"]),
    # the in-memory get_level_candidates emits a full group only with at least this many members
    ("LOCAL_LEVEL_MIN_GROUP", "src/metadata/local.rs",
     r"async fn get_level_candidates\(.*?if current_size >= target_size \{\s*if current_group\.len\(\) >= ([0-9_]+) \{",
     "N", ["C20"]),
    # target_size_for_level: levels >= 3 use l2_target_size times this factor
    ("L3_TARGET_FACTOR", "src/compactor/mod.rs",
     r"fn target_size_for_level\(&self, level: usize\) -> usize \{.*?_ => self\.config\.l2_target_size \* ([0-9_]+),",
     "N", ["C20"]),
    # has_capacity: active_compactions < max_concurrent_compactions
    ("MAX_CONCURRENT_COMPACTIONS", "src/compactor/mod.rs",
     r"max_concurrent_compactions: ([0-9_]+),", "N", ["C20"]),
]
