# Constants of src/ingester/wal.rs used by Model/Wal.v (C05).
# Encoder and decoder offsets are captured per use site, so that the proofs
# (header_roundtrip, wal_layout_agrees) have to show that both sides agree.
_W = "src/ingester/wal.rs"
_P = ["C05"]
ENTRIES = [
    ("WAL_HEADER_LEN", _W, r"const HEADER_LEN: usize = ([0-9_]+);", "N", _P),
    ("WAL_VERSION", _W, r"const VERSION: u8 = ([0-9_]+);", "N", _P),
    ("WAL_FLAG_COMPRESSED", _W, r"const FLAG_COMPRESSED: u8 = 0x0([0-9]);", "N", _P),
    # the magic itself is a byte string; the pattern only matches while it is b"CSWA"
    ("WAL_MAGIC_LEN", _W, r"const MAGIC: &\[u8; ([0-9]+)\] = b\"CSWA\";", "N", _P),
    # encode_header
    ("WAL_ENC_MAGIC_HI", _W, r"fn encode_header\(.*?header\[0\.\.([0-9]+)\]\.copy_from_slice\(MAGIC\);", "N", _P),
    ("WAL_ENC_VERSION_AT", _W, r"fn encode_header\(.*?header\[([0-9]+)\] = VERSION;", "N", _P),
    ("WAL_ENC_FLAGS_AT", _W, r"fn encode_header\(.*?header\[([0-9]+)\] = flags;", "N", _P),
    ("WAL_ENC_SEQ_LO", _W, r"fn encode_header\(.*?header\[([0-9]+)\.\.[0-9]+\]\.copy_from_slice\(&seq\.to_le_bytes\(\)\);", "N", _P),
    ("WAL_ENC_SEQ_HI", _W, r"fn encode_header\(.*?header\[[0-9]+\.\.([0-9]+)\]\.copy_from_slice\(&seq\.to_le_bytes\(\)\);", "N", _P),
    ("WAL_ENC_LEN_LO", _W, r"fn encode_header\(.*?header\[([0-9]+)\.\.[0-9]+\]\.copy_from_slice\(&\(payload\.len\(\) as u32\)\.to_le_bytes\(\)\);", "N", _P),
    ("WAL_ENC_LEN_HI", _W, r"fn encode_header\(.*?header\[[0-9]+\.\.([0-9]+)\]\.copy_from_slice\(&\(payload\.len\(\) as u32\)\.to_le_bytes\(\)\);", "N", _P),
    ("WAL_ENC_CRC_LO", _W, r"fn encode_header\(.*?header\[([0-9]+)\.\.[0-9]+\]\.copy_from_slice\(&hasher\.finalize\(\)\.to_le_bytes\(\)\);", "N", _P),
    ("WAL_ENC_CRC_HI", _W, r"fn encode_header\(.*?header\[[0-9]+\.\.([0-9]+)\]\.copy_from_slice\(&hasher\.finalize\(\)\.to_le_bytes\(\)\);", "N", _P),
    # decode_header
    ("WAL_DEC_MAGIC_HI", _W, r"fn decode_header\(.*?if &header\[0\.\.([0-9]+)\] != MAGIC", "N", _P),
    ("WAL_DEC_VERSION_AT", _W, r"fn decode_header\(.*?if header\[([0-9]+)\] != VERSION", "N", _P),
    ("WAL_DEC_FLAGS_AT", _W, r"fn decode_header\(.*?let flags = header\[([0-9]+)\];", "N", _P),
    ("WAL_DEC_SEQ_LO", _W, r"fn decode_header\(.*?let seq = u64::from_le_bytes\(header\[([0-9]+)\.\.[0-9]+\]", "N", _P),
    ("WAL_DEC_SEQ_HI", _W, r"fn decode_header\(.*?let seq = u64::from_le_bytes\(header\[[0-9]+\.\.([0-9]+)\]", "N", _P),
    ("WAL_DEC_LEN_LO", _W, r"fn decode_header\(.*?let len = u32::from_le_bytes\(header\[([0-9]+)\.\.[0-9]+\]", "N", _P),
    ("WAL_DEC_LEN_HI", _W, r"fn decode_header\(.*?let len = u32::from_le_bytes\(header\[[0-9]+\.\.([0-9]+)\]", "N", _P),
    ("WAL_DEC_CRC_LO", _W, r"fn decode_header\(.*?let crc = u32::from_le_bytes\(header\[([0-9]+)\.\.[0-9]+\]", "N", _P),
    ("WAL_DEC_CRC_HI", _W, r"fn decode_header\(.*?let crc = u32::from_le_bytes\(header\[[0-9]+\.\.([0-9]+)\]", "N", _P),
    # flushed-sequence file and first segment
    ("WAL_FLUSHED_LEN", _W, r"fn load_flushed_seq\(.*?Ok\(bytes\) if bytes\.len\(\) == ([0-9]+) =>", "N", _P),
    ("WAL_FIRST_SEGMENT_ID", _W, r"pub async fn open\(config: WalConfig\).*?\} else \{\s*let id = ([0-9]+);", "N", _P),
]
