# constants of the shard splitter (C14)
ENTRIES = [
    ("SPLIT_ROUND_NANOS", "src/sharding/mod.rs",
     r"pub fn round_to_5min\(timestamp: i64\) -> i64 \{\s*let nanos_per_5min = ([0-9_ *]+i64);\s*\(timestamp / nanos_per_5min\) \* nanos_per_5min",
     "Z", ["C14"]),
    ("SPLIT_BATCH_ROWS", "src/sharding/splitter.rs",
     r"async fn run_backfill_with_progress\(.*?ParquetRecordBatchReaderBuilder::try_new\(bytes\)\?\s*\.with_batch_size\(([0-9_]+)\)",
     "N", ["C14"]),
]
