# Constants of the compaction-lease code (C08), one per use site.
ENTRIES = [
    # ObjectStoreMetadataClient::acquire_lease: `let lease_ttl = Duration::from_secs(300)`
    ("S3_LEASE_TTL_SECS", "src/metadata/s3.rs",
     r"async fn acquire_lease\(.*?let lease_ttl = std::time::Duration::from_secs\(([0-9_]+)\);",
     "Z", ["C08"]),
    # ObjectStoreMetadataClient::renew_lease: `let extension = Duration::from_secs(300)`
    ("S3_LEASE_RENEW_EXT_SECS", "src/metadata/s3.rs",
     r"async fn renew_lease\(.*?let extension = std::time::Duration::from_secs\(([0-9_]+)\);",
     "Z", ["C08"]),
    # LocalMetadataClient::acquire_lease: `expires_at: now + chrono::Duration::seconds(300)`
    ("LOCAL_LEASE_TTL_SECS", "src/metadata/local.rs",
     r"async fn acquire_lease\(.*?expires_at: now \+ chrono::Duration::seconds\(([0-9_]+)\),",
     "Z", ["C08"]),
    # LocalMetadataClient::renew_lease: `lease.expires_at = Utc::now() + chrono::Duration::seconds(300)`
    ("LOCAL_LEASE_RENEW_EXT_SECS", "src/metadata/local.rs",
     r"async fn renew_lease\(.*?lease\.expires_at = chrono::Utc::now\(\) \+ chrono::Duration::seconds\(([0-9_]+)\);",
     "Z", ["C08"]),
    # Compactor::spawn_lease_renewal: `let renewal_interval = Duration::from_secs(120)`
    ("LEASE_RENEW_PERIOD_SECS", "src/compactor/mod.rs",
     r"fn spawn_lease_renewal\(.*?let renewal_interval = Duration::from_secs\(([0-9_]+)\);",
     "Z", ["C08"]),
]
