#!/bin/bash
# Runs the repository's pinned test suite with the verif_hooks feature OFF and
# prints a pass/fail summary.  Usage: lib/baseline.sh [logfile]
LOG=${1:-/tmp/baseline.log}
cd /repo || exit 2
export CARGO_NET_OFFLINE=true
if command -v cargo-nextest >/dev/null && [ -f /w/lib/nextest.toml ]; then
  cargo nextest run --workspace --no-fail-fast --tool-config-file pb:/w/lib/nextest.toml --profile pb --test-threads 8 --offline >"$LOG" 2>&1
else
  cargo test --workspace --no-fail-fast --offline >"$LOG" 2>&1
fi
rc=$?
grep -E "^\s+(Summary|FAIL|SIGABRT|TIMEOUT)|test result:|FAILED|failed" "$LOG" | sort | uniq -c | tail -30
exit $rc
