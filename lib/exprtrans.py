#!/usr/bin/env python3
"""Expression translator: regenerates coq/generated/Funs.v from small pure
Rust functions / expressions in /repo on every run, so that the theorems using
them are re-checked against what the code says now (not only against
constants).

Supported Rust fragment: a body made of `let x = e;` bindings followed by a
final expression; expressions over i64/u64/usize values and bools with
  literals (1_000i64), identifiers, `self.f` / `a.b` field paths, `Self::C`
  constants (resolved in the same file), parentheses, unary `!` `-`,
  `* / % + -`, `< <= > >= == !=`, `&& ||`, `as <int type>` (ignored),
  method calls `.max(e)` `.min(e)` `.abs()`.
Integer arithmetic is translated to unbounded Z (`/` = Z.quot, `%` = Z.rem:
Rust truncates toward zero); overflow is NOT modelled here — models that care
add the range checks themselves.

Entries live in lib/funs.d/*.py as
  ENTRIES = [dict(name="coq_name", file="src/x.rs",
                  fn=r"fn overlaps\\(&self, other: &TimeRange\\) -> bool",   # body located by brace matching
                  # or: expr=r"regex with one group capturing `let` statements / an expression", result="var",
                  params=[("self.start","Z"),("self.end","Z"),("other.start","Z"),("other.end","Z")],
                  ret="bool", props=["C07"]), ...]
"""
import glob
import os
import re
import runpy
import sys

REPO = os.environ.get("VERIF_REPO", "/repo")
HERE = os.path.dirname(os.path.abspath(__file__))


class TransError(Exception):
    pass


TOKEN = re.compile(r"\s*(?:(\d[\d_]*)(?:i64|u64|i32|u32|usize|u8|i128|u128)?|([A-Za-z_][A-Za-z_0-9]*(?:(?:::|\.)[A-Za-z_][A-Za-z_0-9]*)*)|(&&|\|\||<=|>=|==|!=|[-+*/%<>!().,]))")


def tokenize(src):
    toks, i = [], 0
    src = src.strip()
    while i < len(src):
        m = TOKEN.match(src, i)
        if not m or m.end() == i:
            raise TransError(f"cannot tokenize at: {src[i:i+30]!r}")
        if m.group(1) is not None:
            toks.append(("num", int(m.group(1).replace("_", ""))))
        elif m.group(2) is not None:
            toks.append(("id", m.group(2)))
        else:
            toks.append(("op", m.group(3)))
        i = m.end()
    return toks


BIN = {"||": 1, "&&": 2, "==": 3, "!=": 3, "<": 3, "<=": 3, ">": 3, ">=": 3, "+": 5, "-": 5, "*": 6, "/": 6, "%": 6}


class Parser:
    def __init__(self, toks, env, consts):
        self.t, self.i, self.env, self.consts = toks, 0, env, consts

    def peek(self):
        return self.t[self.i] if self.i < len(self.t) else (None, None)

    def eat(self, kind=None, val=None):
        k, v = self.peek()
        if k is None or (kind and k != kind) or (val is not None and v != val):
            raise TransError(f"expected {val or kind}, got {v!r}")
        self.i += 1
        return v

    # returns (coq_text, type) with type in {"Z","bool"}
    def expr(self, minp=0):
        lhs = self.unary()
        while True:
            k, v = self.peek()
            if k == "id" and v == "as":
                self.i += 1
                self.eat("id")
                continue
            if k != "op" or v not in BIN or BIN[v] < minp:
                return lhs
            self.i += 1
            rhs = self.expr(BIN[v] + 1)
            lhs = self.binop(v, lhs, rhs)

    def binop(self, op, a, b):
        (x, tx), (y, ty) = a, b
        if op in ("&&", "||"):
            if tx != "bool" or ty != "bool":
                raise TransError(f"{op} on non-bool")
            return (f"({'andb' if op == '&&' else 'orb'} {x} {y})", "bool")
        if tx != "Z" or ty != "Z":
            if op in ("==", "!=") and tx == ty == "bool":
                e = f"(Bool.eqb {x} {y})"
                return (e if op == "==" else f"(negb {e})", "bool")
            raise TransError(f"{op} on non-integer operands")
        m = {"+": "Z.add", "-": "Z.sub", "*": "Z.mul", "/": "Z.quot", "%": "Z.rem"}
        if op in m:
            return (f"({m[op]} {x} {y})", "Z")
        c = {"<": "Z.ltb", "<=": "Z.leb", ">": "Z.gtb", ">=": "Z.geb", "==": "Z.eqb"}
        if op in c:
            return (f"({c[op]} {x} {y})", "bool")
        if op == "!=":
            return (f"(negb (Z.eqb {x} {y}))", "bool")
        raise TransError(f"operator {op}")

    def unary(self):
        k, v = self.peek()
        if k == "op" and v == "!":
            self.i += 1
            x, t = self.unary()
            if t != "bool":
                raise TransError("! on non-bool")
            return self.postfix((f"(negb {x})", "bool"))
        if k == "op" and v == "-":
            self.i += 1
            x, t = self.unary()
            return self.postfix((f"(Z.opp {x})", "Z"))
        return self.postfix(self.atom())

    def postfix(self, e):
        while True:
            k, v = self.peek()
            if k == "op" and v == "." and self.i + 1 < len(self.t) and self.t[self.i + 1][0] == "id":
                meth = self.t[self.i + 1][1]
                self.i += 2
                self.eat("op", "(")
                if meth in ("max", "min"):
                    a = self.expr()
                    self.eat("op", ")")
                    e = (f"(Z.{meth} {e[0]} {a[0]})", "Z")
                elif meth == "abs":
                    self.eat("op", ")")
                    e = (f"(Z.abs {e[0]})", "Z")
                else:
                    raise TransError(f"method {meth}")
            else:
                return e

    def atom(self):
        k, v = self.peek()
        if k == "num":
            self.i += 1
            return (f"({v})%Z", "Z")
        if k == "op" and v == "(":
            self.i += 1
            e = self.expr()
            self.eat("op", ")")
            return e
        if k == "id":
            self.i += 1
            # `a.b.max(` : a method call on the path `a.b`, not a field named max
            nk, nv = self.peek()
            if nk == "op" and nv == "(" and "." in v and v.rsplit(".", 1)[1] in ("max", "min", "abs"):
                base, meth = v.rsplit(".", 1)
                self.t[self.i - 1] = ("id", base)
                self.t.insert(self.i, ("id", meth))
                self.t.insert(self.i, ("op", "."))
                self.i -= 1
                return self.atom()
            if v in ("true", "false"):
                return (v, "bool")
            if v in self.env:
                return self.env[v]
            if v.startswith("Self::") and v[6:] in self.consts:
                return (f"({self.consts[v[6:]]})%Z", "Z")
            if v in self.consts:
                return (f"({self.consts[v]})%Z", "Z")
            raise TransError(f"unknown identifier {v}")
        raise TransError(f"unexpected token {v!r}")


def match_braces(text, start):
    depth, i = 0, start
    while i < len(text):
        if text[i] == "{":
            depth += 1
        elif text[i] == "}":
            depth -= 1
            if depth == 0:
                return text[start + 1:i]
        i += 1
    raise TransError("unbalanced braces")


def strip_rust_comments(s):
    s = re.sub(r"//[^\n]*", "", s)
    return re.sub(r"/\*.*?\*/", "", s, flags=re.S)


def file_consts(text):
    out = {}
    for m in re.finditer(r"const\s+([A-Z_][A-Z_0-9]*)\s*:\s*(?:i64|u64|u32|usize|i32)\s*=\s*([0-9_*+\- ()]+);", text):
        try:
            out[m.group(1)] = int(eval(m.group(2).replace("_", ""), {"__builtins__": {}}, {}))
        except Exception:
            pass
    return out


def translate(entry, repo=REPO):
    path = os.path.join(repo, entry["file"])
    text = open(path, encoding="utf-8").read()
    consts = file_consts(text)
    if "fn" in entry:
        m = re.search(entry["fn"], text)
        if not m:
            raise TransError(f"{entry['name']}: function not found in {entry['file']}")
        body = match_braces(text, text.index("{", m.end()))
    else:
        m = re.search(entry["expr"], text, re.S)
        if not m:
            raise TransError(f"{entry['name']}: expression not found in {entry['file']}")
        body = m.group(1)
    body = strip_rust_comments(body).strip()
    if entry.get("result"):
        body = body.rstrip().rstrip(";") + "; " + entry["result"]
    env = {}
    binders = []
    for rust, ty in entry["params"]:
        coq = re.sub(r"[^A-Za-z0-9_]", "_", rust)
        env[rust] = (coq, ty)
        binders.append(f"({coq} : {ty})")
    lets = []
    stmts = [s.strip() for s in body.split(";")]
    final = stmts[-1]
    for st in stmts[:-1]:
        if not st:
            continue
        m = re.match(r"let\s+(?:mut\s+)?([a-z_][a-z_0-9]*)\s*(?::\s*[A-Za-z0-9_]+)?\s*=\s*(.*)$", st, re.S)
        if not m:
            raise TransError(f"{entry['name']}: unsupported statement {st[:40]!r}")
        p = Parser(tokenize(m.group(2)), env, consts)
        e = p.expr()
        if p.i != len(p.t):
            raise TransError(f"{entry['name']}: trailing tokens in let")
        env[m.group(1)] = (m.group(1), e[1])
        lets.append(f"let {m.group(1)} := {e[0]} in")
    if not final:
        raise TransError(f"{entry['name']}: no final expression")
    p = Parser(tokenize(final), env, consts)
    e = p.expr()
    if p.i != len(p.t):
        raise TransError(f"{entry['name']}: trailing tokens: {p.t[p.i:]}")
    if e[1] != entry["ret"]:
        raise TransError(f"{entry['name']}: result type {e[1]} != {entry['ret']}")
    body_coq = " ".join(lets + [e[0]])
    return f"(* translated from {entry['file']} *)\nDefinition {entry['name']} {' '.join(binders)} : {entry['ret']} :=\n  {body_coq}."


def entries():
    out = []
    for f in sorted(glob.glob(os.path.join(HERE, "funs.d", "*.py"))):
        out += list(runpy.run_path(f).get("ENTRIES", []))
    return out


def regenerate(dest, repo=REPO):
    defs, errors = [], {}
    for e in entries():
        try:
            defs.append(translate(e, repo))
        except (TransError, OSError) as ex:
            errors[e["name"]] = str(ex)
    text = "(* GENERATED by lib/exprtrans.py from the Rust sources under /repo on every run.\n   Do not edit. *)\nFrom Coq Require Import ZArith Bool.\n\n" + "\n\n".join(defs) + "\n"
    old = open(dest).read() if os.path.exists(dest) else None
    if old != text:
        os.makedirs(os.path.dirname(dest), exist_ok=True)
        with open(dest + ".tmp", "w") as f:
            f.write(text)
        os.replace(dest + ".tmp", dest)
    return errors


def used_by(name):
    for e in entries():
        if e["name"] == name:
            return e.get("props", [])
    return []


if __name__ == "__main__":
    dest = sys.argv[1] if len(sys.argv) > 1 else os.path.join(HERE, "..", "coq", "generated", "Funs.v")
    errs = regenerate(os.path.abspath(dest))
    print(open(dest).read())
    for k, v in errs.items():
        print(f"ERROR {k}: {v}", file=sys.stderr)
    sys.exit(1 if errs else 0)
