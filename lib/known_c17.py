import json, fcntl
p='/verif/known-findings.json'
new=[
 {"property":"C17","class":"protobuf-length-overflow","status":"fixed","commit":"10ed38f",
  "text":"fixed: property=C17 10ed38f remote-write protobuf reader computed 'pos + length as usize' unchecked: a length varint near 2^64 panicked (debug: add overflow; release: slice index starts at 11 but ends at 5) on a known field and moved the cursor backwards on a skipped unknown field (release: endless loop); witnesses: 0a ff*9 01 ; 0a fa ff*8 01 ; 1a f5 ff*8 01 (Coq: C17_legacy_refuted_len_overflow, C17_witnesses_answered_today)"},
 {"property":"C17","class":"timestamp-ms-to-ns-overflow","status":"fixed","commit":"3374538",
  "text":"fixed: property=C17 3374538 convert_prom_to_arrow multiplied timestamp_ms by 1_000_000 unchecked: panic in debug builds, silently wrapped (unrelated, often negative) nanosecond timestamp in release builds for |timestamp_ms| > i64::MAX/10^6; witness: one sample with timestamp_ms = 2^62"},
 {"property":"C17","class":"value-2p63-saturating-cast","status":"fixed","commit":"5679380",
  "text":"fixed: property=C17 5679380 sample value 2^63 (f64 bits 0x43E0000000000000) was routed through 'val as i64' (saturates to 2^63-1, converts back to 2^63, passes the lossless test) and stored in value_u64 as 9223372036854775807; witness: one sample with value 9223372036854775808.0 (Coq: C17_legacy_refuted_2p63)"},
 {"property":"C17","class":"zero-row-batch-panics-ingester","status":"fixed","commit":"c9ce3e7",
  "text":"fixed: property=C17 c9ce3e7 a remote-write request whose series carry no samples (2-byte body 0a 00, snappy-compressed) and an Arrow Flight DoPut with an empty batch reached Ingester::write with a zero-row batch; compute_shard_id read row 0 and panicked the request task ('Trying to access an element at index 0 from a StringArray of length 0')"},
 {"property":"C17","class":"flight-ipc-decoder-panics","status":"fixed","commit":"acb8c26",
  "text":"fixed: property=C17 acb8c26 FlightIngestService::process_stream called arrow-ipc's flight_data_to_batches on hostile frames unprotected; truncated bodies and mutated headers panicked the request task ('the offset of the new Buffer cannot exceed the existing length', 'not implemented: Type <UNKNOWN 127>', 'assertion failed: total_len <= bit_len', unwrap on None): 83 of 400 mutated DoPut streams"},
 {"property":"C17","class":"otlp-int-precision","status":"open",
  "what":"OTLP NumberDataPoint AsInt(v) is stored as 'v as f64' in the only value column (value_f64): integers that f64 cannot represent (|v| > 2^53 in general) are rounded, so the stored value is not numerically equal; the same for a histogram count standing in for a missing sum. A repair needs an integer value column in the OTLP conversion (schema change), not a local patch.",
  "witness":"gauge point AsInt(9007199254740993) -> value_f64 = 9007199254740992.0 (bits 0x4340000000000000); Coq: C17_otlp_refuted_int_precision, classifier Otlp.known_int_precision; everything outside the class: C17_otlp_modulo_known"},
 {"property":"C17","class":"otlp-time-wrap","status":"open",
  "what":"OTLP time_unix_nano (u64) is stored as 'time_unix_nano as i64': values from 2^63 on wrap to negative timestamps instead of being rejected. export_request_to_data_points is infallible (returns Vec), so rejecting needs an API change.",
  "witness":"gauge point with time_unix_nano = 9223372036854775808 -> timestamp -9223372036854775808; Coq: C17_otlp_refuted_time_wrap, classifier Otlp.known_time_wrap; everything outside the class: C17_otlp_modulo_known"},
]
with open(p,'r+') as f:
    fcntl.flock(f, fcntl.LOCK_EX)
    k=json.load(f)
    have={(x['property'],x['class']) for x in k['findings']}
    added=0
    for n in new:
        if (n['property'],n['class']) not in have:
            k['findings'].append(n); added+=1
    f.seek(0); f.truncate()
    json.dump(k,f,indent=1)
    f.write("\n")
print("added",added,"total",len(k['findings']))
