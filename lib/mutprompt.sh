#!/bin/bash
# Prints the prompt for a mutation sub-agent for property $1 (worktree /tmp/wt-<id>), $2 = extra test hints
ID=$1; lid=$(echo $ID | tr A-Z a-z)
git -C /repo worktree add --detach /tmp/wt-$lid HEAD -q 2>/dev/null
mkdir -p /tmp/mut-out/$lid
P=$(jq -r "select(.id==\"$ID\") | \"TITLE: \(.title)\nSTATEMENT: \(.statement)\nQUANTIFIER: \(.quantifier.text)\nANCHOR FILES: \(.anchors.files|join(\", \"))\"" /verif/properties.jsonl)
cat <<EOT
You are testing how well a semantic property of a Rust project is protected. You work ONLY inside the scratch git worktree /tmp/wt-$lid (a checkout of the project \`cardinalsin\`, a time-series database on object storage) and the output directory /tmp/mut-out/$lid. Do not read or write anything under /verif or /repo. The sandbox is offline; build with \`cd /tmp/wt-$lid && CARGO_TARGET_DIR=/tmp/mt-$lid CARGO_PROFILE_DEV_DEBUG=0 CARGO_PROFILE_TEST_DEBUG=0 cargo test --offline ...\` (always with exactly these three settings: a private target directory for this worktree — never share a target directory with another checkout, cargo would mix up the builds — and no debug info to save disk; the first build takes 6-10 minutes: be patient, use long timeouts; when you are completely finished delete it with \`rm -rf /tmp/mt-$lid\`; the shell prints a harmless conda warning).

The property (it is supposed to hold for the code as it is now; recent commits in \`git log\` fixed earlier violations of it):
$P

Your task: produce THREE different, realistic changes to the project's source (each a small patch that a plausible refactoring / optimisation / bug-fix attempt could introduce — not sabotage that any ordinary use would expose at once) such that each one
  (1) still compiles,
  (2) still passes the project's existing test suite — run at least the tests that touch the code you changed ($2) and the unit tests \`cargo test --offline --lib\`,
  (3) BREAKS the property above, and needs something specific to manifest: a particular interleaving, a crash or fault at a particular point, a multi-step sequence of operations, an unusual input, or two cooperating sites that each look fine alone.
For each change write a demonstration: a new integration test file (tests/seeded_${lid}_<n>.rs; it may use only the crate's public API and its normal dev-dependencies; if the demonstration needs internals that are only public behind the cargo feature \`verif_hooks\`, say so in the notes and gate the file with \`#![cfg(feature = "verif_hooks")]\` plus the command line to run it) that FAILS with the change applied and PASSES on the unchanged worktree (verify both directions yourself).
Save, for n = 1..3, into /tmp/mut-out/$lid/<n>/: \`patch.diff\` (output of \`git diff\` for the source change only, applicable with \`git apply\` to a clean checkout), \`demo.rs\` (the demonstration test file), and \`notes.md\` (which clause of the property it breaks, what is needed to manifest it, the exact commands you ran and their outcomes). Leave the worktree clean at the end (\`git checkout -- . && git clean -fd tests/\`). Make the three changes genuinely different in mechanism and location.
EOT
