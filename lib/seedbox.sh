#!/bin/bash
# Development-time mutation sandbox, isolated from /repo and /verif so that
# builders working there are not disturbed:
#   lib/seedbox.sh sync                 refresh /tmp/seed/{repo,verif} from /repo HEAD and /verif's working tree
#   lib/seedbox.sh run <patch> <Cxx>..  apply the patch to /tmp/seed/repo, run ./check for the properties, revert
# (The registered checks themselves always run in /verif against /repo.)
set -u
S=/tmp/seed
case "$1" in
 sync)
  mkdir -p $S
  if [ ! -d $S/repo ]; then git -C /repo worktree add --detach $S/repo HEAD -q; else git -C $S/repo checkout -q --detach "$(git -C /repo rev-parse HEAD)"; fi
  mkdir -p $S/verif
  rsync -a --delete --exclude harness/target --exclude .cache/run --exclude replays --exclude .git /verif/ $S/verif/
  sed -i "s|path = \"/repo\"|path = \"$S/repo\"|" $S/verif/harness/Cargo.toml
  ;;
 run)
  patch=$2; shift 2
  git -C $S/repo checkout -q -- . && git -C $S/repo clean -fdq
  git -C $S/repo apply "$patch" || { echo "patch does not apply"; exit 2; }
  rc=0
  for p in "$@"; do (cd $S/verif && VERIF_REPO=$S/repo ./check "$p") || rc=1; done
  git -C $S/repo checkout -q -- . && git -C $S/repo clean -fdq
  exit $rc
  ;;
esac
