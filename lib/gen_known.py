#!/usr/bin/env python3
"""Merges known-findings.d/Cxx.json (one file per property, owned by that
property's builder) into the committed known-findings.json.  Never run by a
check: the checks only read known-findings.json."""
import glob, json, os
ROOT = os.path.abspath(os.path.join(os.path.dirname(__file__), ".."))
out = []
for f in sorted(glob.glob(os.path.join(ROOT, "known-findings.d", "*.json"))):
    out += json.load(open(f)).get("findings", [])
doc = {"comment": "Genuine defects of jeremyudis/cardinalsin found by the checks. status=open entries are printed as KNOWN-FINDING and suppress only violations of exactly that class (class = value computed by the property's executable classifier); status=fixed entries suppress nothing (text: 'fixed: property=<id> <commit> <what failed>'). Generated from known-findings.d/*.json by lib/gen_known.py; never modified at run time.",
       "findings": out}
json.dump(doc, open(os.path.join(ROOT, "known-findings.json"), "w"), indent=1)
print(len(out), "entries")
