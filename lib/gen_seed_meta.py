#!/usr/bin/env python3
"""Writes seeded/<ID>/<n>/meta.json from notes.md (first heading lines), confirm.json and
seeded/detection.json.  Hand-written fields in an existing meta.json (summary, needs) are kept."""
import glob, json, os, re
ROOT = os.path.abspath(os.path.join(os.path.dirname(__file__), ".."))
det = json.load(open(os.path.join(ROOT, "seeded/detection.json")))
for d in sorted(glob.glob(os.path.join(ROOT, "seeded/C*/*/"))):
    key = "/".join(d.rstrip("/").split("/")[-2:])
    mp = os.path.join(d, "meta.json")
    meta = json.load(open(mp)) if os.path.exists(mp) else {}
    meta.setdefault("property", key.split("/")[0])
    files = []
    try:
        for l in open(os.path.join(d, "patch.diff")):
            m = re.match(r"\+\+\+ b/(.*)", l)
            if m: files.append(m.group(1))
    except OSError:
        pass
    meta["files_changed"] = files
    if os.path.exists(os.path.join(d, "confirm.json")):
        try: meta["confirmation"] = json.load(open(os.path.join(d, "confirm.json")))
        except Exception: pass
    meta["what_was_run"] = "lib/confirm_seed.sh (scratch worktree of /repo HEAD, private cargo target dir: demo on unchanged tree, demo with patch, existing suite with patch via cargo nextest, minus the baseline's known always-timing-out test) and lib/seedbox.sh run <patch> <check> (isolated copy of /verif + /repo: ./check of the property)"
    meta["detection"] = det.get(key, {})
    json.dump(meta, open(mp, "w"), indent=1)
print("meta.json written")
