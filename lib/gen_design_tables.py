#!/usr/bin/env python3
"""Rewrites the generated sections of DESIGN.md (between <!-- BEGIN:x --> and
<!-- END:x --> markers) from seeded/detection.json, seeded/*/*/confirm.json,
known-findings.json, /repo's git log."""
import glob, json, os, re, subprocess
ROOT = os.path.abspath(os.path.join(os.path.dirname(__file__), ".."))
def section(text, name, body):
    b, e = f"<!-- BEGIN:{name} -->", f"<!-- END:{name} -->"
    if b not in text:
        return text + f"\n{b}\n{body}\n{e}\n"
    return re.sub(re.escape(b) + r".*?" + re.escape(e), lambda m: b + "\n" + body + "\n" + e, text, flags=re.S)
det = json.load(open(os.path.join(ROOT, "seeded/detection.json")))
rows = ["| seeded change | breaks | needs | confirmed (demo passes without / fails with the change, suite passes) | first run of the checks | after strengthening |", "|---|---|---|---|---|---|"]
for d in sorted(glob.glob(os.path.join(ROOT, "seeded/C*/*/"))):
    key = "/".join(d.rstrip("/").split("/")[-2:])
    meta = {}
    mp = os.path.join(d, "meta.json")
    if os.path.exists(mp):
        meta = json.load(open(mp))
    cf = {}
    if os.path.exists(os.path.join(d, "confirm.json")):
        try: cf = json.load(open(os.path.join(d, "confirm.json")))
        except Exception: cf = {}
    r = det.get(key, {})
    conf = "yes" if cf.get("confirmed") else ("pending" if not cf else f"no ({'demo ' if not cf.get('demo_fails_with_change') else ''}{'suite: ' + cf.get('suite_summary','') if not cf.get('existing_suite_passes_with_change') else ''})")
    rows.append(f"| seeded/{key}: {meta.get('summary','')} | {meta.get('property', key.split('/')[0])} | {meta.get('needs','')} | {conf} | {r.get('first','not run yet')} | {r.get('final','—')} |")
seeds = "\n".join(rows)
known = json.load(open(os.path.join(ROOT, "known-findings.json")))["findings"]
fx = ["| commit | property | class | defect |", "|---|---|---|---|"]
for k in known:
    if k["status"] == "fixed":
        txt = k.get("text", "")
        txt = re.sub(r"^fixed: property=\S+ \S+ ", "", txt)
        fx.append(f"| {k.get('commit','')} | {k['property']} | {k['class']} | {txt[:600]} |")
op = ["| property | class | what fails | witness |", "|---|---|---|---|"]
for k in known:
    if k["status"] == "open":
        op.append(f"| {k['property']} | {k['class']} | {k.get('what','')[:700]} | {k.get('witness','')[:400]} |")
log = subprocess.run(["git", "-C", "/repo", "log", "--reverse", "--format=%h %s", "72a143e..HEAD"], capture_output=True, text=True).stdout.strip().splitlines()
commits = "\n".join("* `" + l.split(" ", 1)[0] + "` " + l.split(" ", 1)[1] for l in log)
p = os.path.join(ROOT, "DESIGN.md")
t = open(p).read()
t = section(t, "seeds", seeds)
t = section(t, "fixed", "\n".join(fx))
t = section(t, "open", "\n".join(op))
t = section(t, "commits", commits)
open(p, "w").write(t)
print("DESIGN.md tables regenerated:", len(rows) - 2, "seeds,", len(fx) - 2, "fixed,", len(op) - 2, "open,", len(log), "commits")
