#!/bin/bash
# lib/import_round2.sh C20   -> copies /tmp/mut-out/c20b/{1,2,3} to seeded/C20/{4,5,6}
ID=$1; lid=$(echo $ID | tr A-Z a-z)b
for n in 1 2 3; do m=$((n+3)); [ -f /tmp/mut-out/$lid/$n/patch.diff ] || continue; mkdir -p /verif/seeded/$ID/$m; cp /tmp/mut-out/$lid/$n/{patch.diff,demo.rs,notes.md} /verif/seeded/$ID/$m/; done
ls /verif/seeded/$ID
