#!/bin/bash
# Final-phase run of seeded changes against /repo ITSELF (the prescribed way):
#   git -C /repo apply <patch>; ./check <ID>; git -C /repo checkout -- .
# usage: lib/final_repo_seed_run.sh ID/n[:CHECK] ...   (log: seeded/final_repo_runs.log)
cd /verif
LOG=/verif/seeded/final_repo_runs.log
for spec in "$@"; do
  key=${spec%%:*}; chk=${spec##*:}; [ "$chk" = "$spec" ] && chk=${key%%/*}
  patch=/verif/seeded/$key/patch.diff
  [ -f "$patch" ] || continue
  if [ -n "$(git -C /repo status --porcelain)" ]; then echo "/repo is dirty, refusing" | tee -a $LOG; exit 2; fi
  echo "=== $key against ./check $chk on /repo ($(date -u +%FT%TZ), repo $(git -C /repo rev-parse --short HEAD))" >> $LOG
  if ! git -C /repo apply "$patch"; then echo "patch does not apply" >> $LOG; continue; fi
  ./check $chk 2>&1 | grep -v "^KNOWN-FINDING" | tail -3 | cut -c1-250 >> $LOG
  git -C /repo checkout -- . ; git -C /repo clean -fdq -- src tests
done
echo "=== done $(date -u +%FT%TZ)" >> $LOG
