#!/usr/bin/env python3
"""Regenerates MANIFEST.json from lib/props.d/*.json + lib/manifest_base.json.
(The manifest is a committed file; this script only keeps it consistent.)"""
import glob, json, os
ROOT = os.path.abspath(os.path.join(os.path.dirname(__file__), ".."))
base = json.load(open(os.path.join(ROOT, "lib", "manifest_base.json")))
props = {}
for f in sorted(glob.glob(os.path.join(ROOT, "lib", "props.d", "*.json"))):
    p = json.load(open(f)); props[p["id"]] = p
all_ids = [json.loads(l)["id"] for l in open(os.path.join(ROOT, "properties.jsonl")) if l.strip()]
checks = []
for pid in all_ids:
    if pid not in props or not props[pid].get("registered", True):
        continue
    p = props[pid]
    checks.append({
        "property_id": pid,
        "quick_cmd": f"./check {pid} --tier quick",
        "thorough_cmd": f"./check {pid} --tier thorough",
        "evidence_file": f"/verif/evidence/{pid}.json",
        "replay_cmd_template": "./check --replay {path}",
        "engine": "coq-proof+correspondence",
        "level_claimed": {"category": "proof", "text": p["level_text"], "design_ref": p.get("design_ref", "DESIGN.md §5")},
        "level_note": p["level_note"],
        "technique": p["technique"],
    })
na = [{"property_id": pid, "reason": base["not_applicable_reasons"].get(pid, "no check registered yet: model, proof and correspondence for this property are still being built (see DESIGN.md)")}
      for pid in all_ids if pid not in {c["property_id"] for c in checks}]
man = {k: v for k, v in base.items() if k != "not_applicable_reasons"}
import subprocess
try:
    hooks = subprocess.run(["git", "-C", "/repo", "log", "--format=%h %s", "--grep=^verif hooks"], capture_output=True, text=True).stdout.strip().splitlines()
    if hooks:
        man["hooks"]["source_commits"] = [h for h in reversed(hooks)]
except Exception:
    pass
man["engines"][0]["serves_properties"] = [c["property_id"] for c in checks]
man["checks"] = checks
man["not_applicable"] = na
json.dump(man, open(os.path.join(ROOT, "MANIFEST.json"), "w"), indent=1)
print(f"{len(checks)} checks, {len(na)} not applicable")
