(* Model/Pred.v — WHERE-clause predicates of the supported query family and
   their row semantics under SQL three-valued logic (C04; shared shape with
   C12 / C18).

   The AST is the shape of the DataFusion `Expr` trees that
   `QueryEngine::extract_time_from_expr` and `convert_expr_to_predicate`
   (src/query/engine.rs) look at:

     timestamp <op> literal      PCmp      (column on the left)
     literal <op> timestamp      PCmpR     (column on the right)
     timestamp [NOT] BETWEEN a AND b       PBetween
     anything that does not mention the timestamp column (label / value
       predicates: `host = 'a'`, `'a' = host`, `host IN (..)`,
       `host NOT BETWEEN ..`, `value_f64 > 1.5`, `host IS NULL` ...)       PLabel
     AND / OR / NOT

   Literal kinds as the code sees them: an Int64 literal, a timestamp literal
   of one of the four Arrow units, a now()-relative expression, and "other"
   (Utf8 / Float64 / UInt64 literal, CAST, function call, arithmetic ...).

   Only definitions here (no proofs). *)
From CS Require Import Base.Prelude.
Open Scope Z_scope.

(* ---------- SQL three-valued logic: None is NULL / unknown ---------- *)
Definition tv := option bool.

Definition and3 (a b : tv) : tv :=
  match a, b with
  | Some false, _ => Some false
  | _, Some false => Some false
  | Some true, Some true => Some true
  | _, _ => None
  end.

Definition or3 (a b : tv) : tv :=
  match a, b with
  | Some true, _ => Some true
  | _, Some true => Some true
  | Some false, Some false => Some false
  | _, _ => None
  end.

Definition not3 (a : tv) : tv :=
  match a with Some b => Some (negb b) | None => None end.

(* a WHERE clause keeps a row iff the predicate is TRUE (not FALSE, not NULL) *)
Definition is_true (a : tv) : bool :=
  match a with Some true => true | _ => false end.

(* ---------- syntax ---------- *)
Inductive cmpop := OEq | ONe | OLt | OLe | OGt | OGe.

Definition zcmp (op : cmpop) (a b : Z) : bool :=
  match op with
  | OEq => a =? b
  | ONe => negb (a =? b)
  | OLt => a <? b
  | OLe => a <=? b
  | OGt => b <? a
  | OGe => b <=? a
  end.

Inductive tunit := USec | UMilli | UMicro | UNano.

(* nanoseconds per unit: the meaning of a timestamp literal *)
Definition unit_nanos (u : tunit) : Z :=
  match u with
  | USec => 1000000000
  | UMilli => 1000000
  | UMicro => 1000
  | UNano => 1
  end.

Inductive lit :=
| LInt (v : Z)               (* integer literal; Int64 when it fits, UInt64 above *)
| LTs (u : tunit) (v : Z)    (* ScalarValue::Timestamp{Second,Millisecond,Microsecond,Nanosecond}(v) *)
| LNow (delta : Z)           (* now() + delta nanoseconds: an expression, not a literal *)
| LOther (k : N).            (* any other operand (string, float, cast, call ...), interned as k *)

Inductive pred :=
| PCmp (op : cmpop) (l : lit)                 (* timestamp op l *)
| PCmpR (op : cmpop) (l : lit)                (* l op timestamp *)
| PBetween (neg : bool) (lo hi : lit)         (* timestamp [NOT] BETWEEN lo AND hi *)
| PLabel (k : N) (conv : bool)                (* atom k over non-timestamp columns; conv = it has the
                                                 `column <op> literal` / IN / BETWEEN shape that
                                                 convert_expr_to_predicate turns into a ColumnPredicate *)
| PAnd (a b : pred)
| POr (a b : pred)
| PNot (a : pred).

(* ---------- rows and interpretations ---------- *)
(* A row is an opaque id plus its timestamp; every other column is seen only
   through the truth value of the atoms. *)
Record row := mkRow { r_id : N; r_ts : Z }.

Record interp := mkInterp {
  i_now : Z;                                   (* value of now() for the statement *)
  i_other : N -> cmpop -> bool -> row -> tv;   (* truth of `timestamp op other_k` (bool = operands reversed) *)
  i_label : N -> N -> tv                       (* truth of label atom k on the row with the given id *)
}.

Definition lit_val (I : interp) (l : lit) : option Z :=
  match l with
  | LInt v => Some v
  | LTs u v => Some (v * unit_nanos u)
  | LNow d => Some (i_now I + d)
  | LOther _ => None
  end.

(* truth of `timestamp op l` (rev = false) or `l op timestamp` (rev = true) *)
Definition cmp_sem (I : interp) (op : cmpop) (rev : bool) (l : lit) (r : row) : tv :=
  match l with
  | LOther k => i_other I k op rev r
  | _ => match lit_val I l with
         | Some v => Some (if rev then zcmp op v (r_ts r) else zcmp op (r_ts r) v)
         | None => None
         end
  end.

Fixpoint sem (I : interp) (p : pred) (r : row) : tv :=
  match p with
  | PCmp op l => cmp_sem I op false l r
  | PCmpR op l => cmp_sem I op true l r
  | PBetween neg lo hi =>
      let b := and3 (cmp_sem I OGe false lo r) (cmp_sem I OLe false hi r) in
      if neg then not3 b else b
  | PLabel k _ => i_label I k (r_id r)
  | PAnd a b => and3 (sem I a r) (sem I b r)
  | POr a b => or3 (sem I a r) (sem I b r)
  | PNot a => not3 (sem I a r)
  end.

Definition sat (I : interp) (p : pred) (r : row) : bool := is_true (sem I p r).

(* rows have to pass every Filter node of the plan *)
Definition sat_all (I : interp) (fs : list pred) (r : row) : bool :=
  forallb (fun f => sat I f r) fs.

(* ---------- metadata-level column predicates (ColumnPredicate) ---------- *)
(* Leaves stay the opaque atoms they were converted from. *)
Inductive cpred :=
| CLeaf (k : N)
| CAnd (a b : cpred)
| COr (a b : cpred)
| CNot (a : cpred).

Fixpoint csem (I : interp) (c : cpred) (r : row) : tv :=
  match c with
  | CLeaf k => i_label I k (r_id r)
  | CAnd a b => and3 (csem I a r) (csem I b r)
  | COr a b => or3 (csem I a r) (csem I b r)
  | CNot a => not3 (csem I a r)
  end.
