(* Model/IngestDur.v — executable model of the ingester's write / flush /
   recovery path WITH the write-ahead log, storage faults and crashes
   (property C01).  Definitions only.

   Follows src/ingester/mod.rs as it is today:
     Ingester::write            zero-row batch -> Ok; WAL append (seq); last_wal_seq := seq;
                                append_to_buffer_and_maybe_flush
     flush_batches              PUT chunk; register_chunk; flushed_up_to := last_wal_seq;
                                if flushed_up_to > 0 { truncate_before; last_flushed_seq :=;
                                persist_flushed_seq }; on any error the taken batches are dropped
     run_flush_timer            tick (check, take, flush; errors only logged), shutdown flush
     ensure_wal                 load flushed mark; open; replay entries newer than the mark
                                (flushing the recovery buffer on a schema change, with
                                last_wal_seq := highest replayed seq); truncate_before(mark+1)

   The WAL is ABSTRACT here: a directory of segments, each a list of complete
   entries (seq, batch, payload length), plus the persisted flushed mark.  The
   byte-level framing, torn tails and the sequence restart on an empty tail
   segment are C05's subject (Model/Wal.v); this model assumes what C05
   establishes after its two repairs: `open` sees exactly the complete entries
   and continues with max(last seq, flushed mark) + 1.  Appends are atomic and
   synced (sync mode EveryWrite); local file operations do not fail.

   Durable state: WAL segments, flushed mark, catalog.  Volatile state: buffer,
   last_wal_seq, last_flushed_seq, the WAL handle's next_seq / current_size,
   all program counters.  Ghost state (never read by a transition): the WAL
   sequence number carried with every buffered batch, the batches dropped by a
   failed flush, the sticky classifier flag. *)
From CS Require Import Base.Prelude Model.Ingest.
From CSGen Require Import Consts.
Open Scope N_scope.

(* a batch together with the (ghost) sequence number of its WAL entry *)
Definition sb := (N * batch)%type.
Definition sb_rows (l : list sb) : list row := rows_of (map snd l).

(* a write request: the batch, the length of its IPC encoding, and
   get_array_memory_size() of the batch decoded back from that encoding (the
   replayed copy occupies memory differently from the original) *)
Record wreq := mkReq { rq_b : batch; rq_len : N; rq_rsize : N }.

Record wentry := mkWe { we_seq : N; we_b : batch; we_len : N; we_rsize : N }.
(* the batch as ensure_wal decodes it from the entry *)
Definition we_sb (e : wentry) : sb :=
  (we_seq e, mkBatch (b_schema (we_b e)) (b_rows (we_b e)) (we_rsize e)).

Record dcfg := mkDcfg { dc_c : cfg; dc_max_seg : N (* WalConfig::max_segment_size *) }.

(* ---------------- WriteBuffer over sequence-tagged batches ---------------- *)
Record dbuffer := mkDb { db_items : list sb; db_rows : N; db_bytes : N }.
Definition db_empty : dbuffer := mkDb [] 0 0.
Definition db_append (bf : dbuffer) (e : sb) : dbuffer :=
  mkDb (db_items bf ++ [e]) (db_rows bf + N.of_nat (length (b_rows (snd e)))) (db_bytes bf + b_size (snd e)).
Definition db_compatible (bf : dbuffer) (e : sb) : bool :=
  match db_items bf with [] => true | x :: _ => N.eqb (b_schema (snd x)) (b_schema (snd e)) end.
Definition db_is_empty (bf : dbuffer) : bool := match db_items bf with [] => true | _ => false end.
Definition db_should_flush (c : cfg) (bf : dbuffer) : bool :=
  (cf_flush_rows c <=? db_rows bf) || (cf_flush_bytes c <=? db_bytes bf).

(* ---------------- durable and volatile state ---------------- *)
Record durable := mkD {
  d_segs : list (list wentry);   (* closed segment files, oldest first          *)
  d_active : list wentry;        (* the last segment file                       *)
  d_flushed : N;                 (* flushed_seq file (0 when absent)            *)
  d_cat : list (list sb)         (* catalog: one element per registered chunk   *)
}.

Record volatile := mkV {
  v_buf : dbuffer;
  v_lws : N;                     (* Ingester::last_wal_seq                      *)
  v_lfs : N;                     (* Ingester::last_flushed_seq (written only)   *)
  v_next : N;                    (* WriteAheadLog::next_seq                     *)
  v_size : N;                    (* WriteAheadLog::current_size                 *)
  v_dropped : list sb            (* ghost: batches dropped by a failed flush    *)
}.

Definition wal_entries (d : durable) : list wentry := concat (d_segs d) ++ d_active d.
Definition wal_sbs (d : durable) : list sb := map we_sb (wal_entries d).
Definition cat_sbs (d : durable) : list sb := concat (d_cat d).
Definition dcat_rows (d : durable) : list row := sb_rows (cat_sbs d).
(* what ensure_wal replays: entries newer than the persisted mark *)
Definition replay_sbs (d : durable) : list sb :=
  filter (fun e => d_flushed d <? fst e) (wal_sbs d).
Definition replay_rows (d : durable) : list row := sb_rows (replay_sbs d).

Definition entry_size (e : wentry) : N := Consts.INGEST_WAL_HEADER_LEN + we_len e.
Definition seg_size (sg : list wentry) : N := fold_right (fun e a => entry_size e + a) 0 sg.

Fixpoint last_seq (sg : list wentry) : option N :=
  match sg with [] => None | [e] => Some (we_seq e) | _ :: r => last_seq r end.

(* last_sequence_in_segments: last entry of the last non-empty segment *)
Definition max_seq_of (d : durable) : N :=
  match last_seq (wal_entries d) with Some s => s | None => 0 end.

(* WriteAheadLog::append_payload *)
Definition wal_append (c : dcfg) (d : durable) (v : volatile) (r : wreq) : durable * volatile * sb :=
  let seq := v_next v in
  let e := mkWe seq (rq_b r) (rq_len r) (rq_rsize r) in
  let esz := entry_size e in
  let rot := (0 <? dc_max_seg c) && (dc_max_seg c <? v_size v + esz) in
  let segs := if rot then d_segs d ++ [d_active d] else d_segs d in
  let act := if rot then [] else d_active d in
  let sz := if rot then 0 else v_size v in
  (mkD segs (act ++ [e]) (d_flushed d) (d_cat d),
   mkV (v_buf v) (v_lws v) (v_lfs v) (seq + 1) (sz + esz) (v_dropped v),
   (seq, rq_b r)).

(* WriteAheadLog::truncate_before over the closed segments: remove leading
   segments whose last seq is < bound; an empty segment file is skipped (kept);
   stop at the first segment that does not qualify *)
Fixpoint trunc (bound : N) (segs : list (list wentry)) : list (list wentry) :=
  match segs with
  | [] => []
  | sg :: r =>
      match last_seq sg with
      | None => sg :: trunc bound r
      | Some l => if l <? bound then trunc bound r else sg :: r
      end
  end.

Definition set_segs (d : durable) (segs : list (list wentry)) : durable :=
  mkD segs (d_active d) (d_flushed d) (d_cat d).
Definition set_flushed (d : durable) (m : N) : durable :=
  mkD (d_segs d) (d_active d) m (d_cat d).
(* the active segment is closed and a new empty one exists *)
Definition rotated (d : durable) : durable :=
  mkD (d_segs d ++ [d_active d]) [] (d_flushed d) (d_cat d).
Definition add_cat (d : durable) (bs : list sb) : durable :=
  mkD (d_segs d) (d_active d) (d_flushed d) (d_cat d ++ [bs]).

Definition set_vbuf (v : volatile) (bf : dbuffer) : volatile :=
  mkV bf (v_lws v) (v_lfs v) (v_next v) (v_size v) (v_dropped v).
Definition set_lws (v : volatile) (s : N) : volatile :=
  mkV (v_buf v) s (v_lfs v) (v_next v) (v_size v) (v_dropped v).
Definition set_lfs (v : volatile) (s : N) : volatile :=
  mkV (v_buf v) (v_lws v) s (v_next v) (v_size v) (v_dropped v).
Definition add_dropped (v : volatile) (bs : list sb) : volatile :=
  mkV (v_buf v) (v_lws v) (v_lfs v) (v_next v) (v_size v) (bs ++ v_dropped v).

(* the volatile state of a freshly started process, after WriteAheadLog::open *)
Definition v_fresh (d : durable) : volatile :=
  mkV db_empty 0 (d_flushed d) (N.max (max_seq_of d) (d_flushed d) + 1) (seg_size (d_active d)) [].
(* no process *)
Definition v_dead : volatile := mkV db_empty 0 0 0 0 [].

(* ---------------- program counters ---------------- *)
Inductive dcont :=
| DRetry (e : sb)                              (* schema-change path: retry the append of e    *)
| DDone (e : sb)                               (* threshold path: the write of e returns       *)
| DTimer                                       (* timer tick                                   *)
| DShutK                                       (* shutdown flush                               *)
| DRecover (rest : list sb) (maxs fl0 : N).    (* ensure_wal: continue the replay loop         *)

Inductive dpc :=
| QIdle
| QWal (r : wreq)                        (* before the WAL append                                   *)
| QSeq (e : sb)                          (* appended (pause: after_wal_append); before the seq store *)
| QLock (e : sb)                         (* stored (pause: after_seq_store); before the buffer lock  *)
| QRelock (e : sb)                       (* schema-change flush done: `continue`, lock again         *)
| QPut (bs : list sb) (k : dcont)        (* flush_batches: at the PUT                                *)
| QReg (bs : list sb) (k : dcont)        (* at register_chunk                                        *)
| QLoad (k : dcont)                      (* registered (pause: after_register); before the seq load  *)
| QTrunc (s : N) (k : dcont)             (* loaded (pause: after_load_seq); before truncate          *)
| QPersist (s : N) (k : dcont)           (* truncated (pause: after_truncate); before persist        *)
| QFin (k : dcont)                       (* persisted (pause: after_persist)                         *)
| QCheck | QTake | QShutTake | QStopped  (* timer                                                    *)
| QScan (rest : list sb) (maxs fl0 : N)  (* ensure_wal: head of the replay loop                      *)
| QRFinish (maxs fl0 : N).               (* ensure_wal: after the loop                               *)

Inductive wres := ROk | RFull | RErr | RLost.

Record dwthread := mkDw {
  dw_pc : dpc;
  dw_todo : list wreq;
  dw_res : list (sb * wres)      (* finished writes (ghost seq 0 when none was assigned) *)
}.

Inductive mode := MDown | MRec | MUp.

Record dstate := mkDs {
  ds_d : durable;
  ds_v : volatile;
  ds_mode : mode;
  ds_ws : list dwthread;
  ds_tm : dpc;          (* flush timer task        *)
  ds_rec : dpc;         (* ensure_wal              *)
  ds_shut : bool;       (* shutdown token          *)
  ds_flag : N           (* ghost, sticky: 0 = none, 1 = K1 (in-flight ack), 2 = K2 (failed flush) *)
}.

Inductive fault := FNone | FBefore | FAfter.

Inductive dlabel :=
| DW (i : nat) (f : fault)    (* writer i performs its next step; f applies if it is a PUT / register *)
| DT (f : fault)              (* the timer task performs its next step                                *)
| DTick                       (* an interval tick fires and its time condition holds                  *)
| DShut                       (* the shutdown token is cancelled                                      *)
| DRec (f : fault)            (* start ensure_wal on a new process / ensure_wal performs its next step *)
| DCrash                      (* the process dies                                                      *)
| DCrashRot.                  (* the process dies while an append (of a write that is never acknowledged)
                                 is rotating: a new, still empty segment file is left behind            *)

(* ---------------- ghost: batches that exist only in volatile memory ---------------- *)
Definition cont_live (k : dcont) : list sb :=
  match k with DRetry e => [e] | DRecover rest _ _ => rest | _ => [] end.
Definition pc_live (p : dpc) : list sb :=
  match p with
  | QSeq e | QLock e | QRelock e => [e]
  | QPut bs k | QReg bs k => bs ++ cont_live k
  | QLoad k | QTrunc _ k | QPersist _ k | QFin k => cont_live k
  | QScan rest _ _ => rest
  | _ => []
  end.
(* every WAL-logged batch that is not (known to be) in the catalog: buffered,
   held by a writer, taken by a running flush, waiting to be replayed, or
   dropped by a failed flush *)
Definition unsafe_sbs (s : dstate) : list sb :=
  db_items (v_buf (ds_v s)) ++ flat_map (fun w => pc_live (dw_pc w)) (ds_ws s)
  ++ pc_live (ds_tm s) ++ pc_live (ds_rec s) ++ v_dropped (ds_v s).

Definition covers (m : N) (l : list sb) : bool := existsb (fun e => fst e <=? m) l.

(* the classifier: evaluated when a flush reads last_wal_seq.  The value read
   will be persisted as the flushed mark; if it reaches the sequence number of
   a batch that is not in the catalog, that batch is no longer replayed after a
   crash.  Class 2 when such a batch was dropped by a failed flush, else 1. *)
Definition classify (s : dstate) : N :=
  let m := v_lws (ds_v s) in
  if covers m (v_dropped (ds_v s)) then 2
  else if covers m (unsafe_sbs s) then 1 else 0.

(* ---------------- flush_batches, step by step ---------------- *)
Inductive dfres :=
| GPc (p : dpc)
| GOk (k : dcont)       (* flush_batches returned Ok  *)
| GErr (k : dcont).     (* flush_batches returned Err *)

Definition dbegin_flush (bs : list sb) (k : dcont) : dfres :=
  match bs with [] => GOk k | _ => GPc (QPut bs k) end.

(* has_wal: self.wal is Some (false while ensure_wal runs) *)
Definition dflush_step (has_wal : bool) (f : fault) (d : durable) (v : volatile) (p : dpc)
  : option (durable * volatile * dfres) :=
  match p with
  | QPut bs k =>
      match f with
      | FNone => Some (d, v, GPc (QReg bs k))
      | _ => Some (d, add_dropped v bs, GErr k)          (* the object may exist; nothing refers to it *)
      end
  | QReg bs k =>
      match f with
      | FNone => Some (add_cat d bs, v, GPc (QLoad k))
      | FBefore => Some (d, add_dropped v bs, GErr k)
      | FAfter => Some (add_cat d bs, v, GErr k)         (* registered, but the caller sees an error   *)
      end
  | QLoad k => Some (d, v, GPc (QTrunc (v_lws v) k))
  | QTrunc s k =>
      if 0 <? s
      then Some (if has_wal then set_segs d (trunc s (d_segs d)) else d, v, GPc (QPersist s k))
      else Some (d, v, GOk k)
  | QPersist s k => Some (set_flushed d s, set_lfs v s, GPc (QFin k))
  | QFin k => Some (d, v, GOk k)
  | _ => None
  end.

(* ---------------- writers ---------------- *)
Definition dw_set (w : dwthread) (p : dpc) : dwthread := mkDw p (dw_todo w) (dw_res w).
Definition dw_finish (w : dwthread) (e : sb) (r : wres) : dwthread :=
  mkDw QIdle (dw_todo w) (dw_res w ++ [(e, r)]).

Definition dw_after (r : dfres) (w : dwthread) : dwthread :=
  match r with
  | GPc p => dw_set w p
  | GOk (DRetry e) => dw_set w (QRelock e)
  | GOk (DDone e) => dw_finish w e ROk
  | GErr (DRetry e) | GErr (DDone e) => dw_finish w e RErr
  | GOk _ | GErr _ => dw_set w QIdle
  end.

Definition dwstep (c : dcfg) (f : fault) (d : durable) (v : volatile) (w : dwthread)
  : durable * volatile * dwthread :=
  match dw_pc w with
  | QIdle =>
      match dw_todo w with
      | [] => (d, v, w)
      | r :: rest =>
          match b_rows (rq_b r) with
          | [] => (d, v, mkDw QIdle rest (dw_res w ++ [((0, rq_b r), ROk)]))   (* zero-row batch: Ok, nothing stored *)
          | _ => (d, v, mkDw (QWal r) rest (dw_res w))
          end
      end
  | QWal r => let '(d', v', e) := wal_append c d v r in (d', v', dw_set w (QSeq e))
  | QSeq e => (d, set_lws v (fst e), dw_set w (QLock e))
  | QLock e | QRelock e =>
      let bf := v_buf v in
      if negb (db_compatible bf e) then
        (d, set_vbuf v db_empty, dw_after (dbegin_flush (db_items bf) (DRetry e)) w)
      else if cf_max_bytes (dc_c c) <? db_bytes bf + b_size (snd e) then
        (d, v, dw_finish w e RFull)
      else
        let bf1 := db_append bf e in
        if db_should_flush (dc_c c) bf1 then
          (d, set_vbuf v db_empty, dw_after (dbegin_flush (db_items bf1) (DDone e)) w)
        else
          (d, set_vbuf v bf1, dw_finish w e ROk)
  | p =>
      match dflush_step true f d v p with
      | Some (d', v', r) => (d', v', dw_after r w)
      | None => (d, v, w)
      end
  end.

(* ---------------- timer ---------------- *)
Definition dt_after (r : dfres) : dpc :=
  match r with
  | GPc p => p
  | GOk DShutK | GErr DShutK => QStopped
  | GOk _ | GErr _ => QIdle
  end.

Definition dtstep (shut : bool) (f : fault) (d : durable) (v : volatile) (p : dpc)
  : durable * volatile * dpc :=
  match p with
  | QIdle => if shut then (d, v, QShutTake) else (d, v, QIdle)
  | QCheck => if negb (db_is_empty (v_buf v)) then (d, v, QTake) else (d, v, QIdle)
  | QTake => (d, set_vbuf v db_empty, dt_after (dbegin_flush (db_items (v_buf v)) DTimer))
  | QShutTake => (d, set_vbuf v db_empty, dt_after (dbegin_flush (db_items (v_buf v)) DShutK))
  | QStopped => (d, v, QStopped)
  | p =>
      match dflush_step true f d v p with
      | Some (d', v', r) => (d', v', dt_after r)
      | None => (d, v, p)
      end
  end.

(* ---------------- ensure_wal ---------------- *)
(* outcome of one recovery step *)
Inductive rres :=
| RPc (p : dpc)
| RUp            (* ensure_wal returned Ok: the process is up      *)
| RFail.         (* ensure_wal returned Err: the process is given up *)

Definition dr_after (r : dfres) : rres :=
  match r with
  | GPc p => RPc p
  | GOk (DRecover rest maxs fl0) => RPc (QScan rest maxs fl0)
  | GOk _ => RPc QIdle
  | GErr _ => RFail
  end.

Definition drstep (f : fault) (d : durable) (v : volatile) (p : dpc) : durable * volatile * rres :=
  match p with
  | QScan rest maxs fl0 =>
      match rest with
      | [] => (d, v, RPc (QRFinish maxs fl0))
      | e :: r =>
          if db_compatible (v_buf v) e
          then (d, set_vbuf v (db_append (v_buf v) e), RPc (QScan r (N.max maxs (fst e)) fl0))
          else (d, set_lws (set_vbuf v db_empty) maxs,
                dr_after (dbegin_flush (db_items (v_buf v)) (DRecover rest maxs fl0)))
      end
  | QRFinish maxs fl0 =>
      let v1 := if fl0 <? maxs then set_lws v maxs else v in
      let d1 := if 0 <? fl0 then set_segs d (trunc (fl0 + 1) (d_segs d)) else d in
      (d1, v1, RUp)
  | p =>
      match dflush_step false f d v p with
      | Some (d', v', r) => (d', v', dr_after r)
      | None => (d, v, RPc p)
      end
  end.

(* ---------------- crash ---------------- *)
Definition pc_batch (p : dpc) : option sb :=
  match p with
  | QWal r => Some (0, rq_b r)
  | QSeq e | QLock e | QRelock e => Some e
  | QPut _ (DRetry e) | QPut _ (DDone e) | QReg _ (DRetry e) | QReg _ (DDone e)
  | QLoad (DRetry e) | QLoad (DDone e) | QTrunc _ (DRetry e) | QTrunc _ (DDone e)
  | QPersist _ (DRetry e) | QPersist _ (DDone e) | QFin (DRetry e) | QFin (DDone e) => Some e
  | _ => None
  end.

Definition crash_w (w : dwthread) : dwthread :=
  match pc_batch (dw_pc w) with
  | Some e => dw_finish w e RLost
  | None => dw_set w QIdle
  end.


(* ---------------- global step ---------------- *)
Definition set_flag (s : dstate) (p : dpc) : N :=
  match p with
  | QLoad _ => if ds_flag s =? 0 then classify s else ds_flag s
  | _ => ds_flag s
  end.

Definition dstep (c : dcfg) (l : dlabel) (s : dstate) : dstate :=
  match l with
  | DW i f =>
      match ds_mode s, nth_error (ds_ws s) i with
      | MUp, Some w =>
          let '(d', v', w') := dwstep c f (ds_d s) (ds_v s) w in
          mkDs d' v' MUp (upd i w' (ds_ws s)) (ds_tm s) (ds_rec s) (ds_shut s) (set_flag s (dw_pc w))
      | _, _ => s
      end
  | DT f =>
      match ds_mode s with
      | MUp =>
          let '(d', v', p') := dtstep (ds_shut s) f (ds_d s) (ds_v s) (ds_tm s) in
          mkDs d' v' MUp (ds_ws s) p' (ds_rec s) (ds_shut s) (set_flag s (ds_tm s))
      | _ => s
      end
  | DTick =>
      match ds_mode s, ds_tm s with
      | MUp, QIdle => if ds_shut s then s
                      else mkDs (ds_d s) (ds_v s) MUp (ds_ws s) QCheck (ds_rec s) (ds_shut s) (ds_flag s)
      | _, _ => s
      end
  | DShut =>
      match ds_mode s with
      | MUp => mkDs (ds_d s) (ds_v s) MUp (ds_ws s) (ds_tm s) (ds_rec s) true (ds_flag s)
      | _ => s
      end
  | DRec f =>
      match ds_mode s with
      | MUp => s
      | MDown =>
          let d := ds_d s in
          mkDs d (v_fresh d) MRec (ds_ws s) QIdle (QScan (replay_sbs d) (d_flushed d) (d_flushed d))
               false (ds_flag s)
      | MRec =>
          let '(d', v', r) := drstep f (ds_d s) (ds_v s) (ds_rec s) in
          let fl := set_flag s (ds_rec s) in
          match r with
          | RPc p => mkDs d' v' MRec (ds_ws s) QIdle p false fl
          | RUp => mkDs d' v' MUp (ds_ws s) QIdle QIdle false fl
          | RFail => mkDs d' v_dead MDown (ds_ws s) QIdle QIdle false fl
          end
      end
  | DCrash =>
      match ds_mode s with
      | MDown => s
      | _ => mkDs (ds_d s) v_dead MDown (map crash_w (ds_ws s)) QIdle QIdle false (ds_flag s)
      end
  | DCrashRot =>
      match ds_mode s with
      | MDown => s
      | _ => mkDs (rotated (ds_d s)) v_dead MDown (map crash_w (ds_ws s)) QIdle QIdle false (ds_flag s)
      end
  end.

Definition drun (c : dcfg) (ls : list dlabel) (s : dstate) : dstate :=
  fold_left (fun s l => dstep c l s) ls s.

Definition d_init : durable := mkD [] [] 0 [].
Definition dinit (todos : list (list wreq)) : dstate :=
  mkDs d_init v_dead MDown (map (fun t => mkDw QIdle t []) todos) QIdle QIdle false 0.

(* ---------------- the property ---------------- *)
Definition acked_sbs (s : dstate) : list sb :=
  flat_map (fun w => flat_map (fun x : sb * wres => match snd x with ROk => [fst x] | _ => [] end) (dw_res w))
           (ds_ws s).

(* every row of every acknowledged write is in a registered chunk or in a WAL
   entry that the next ensure_wal replays *)
Definition Durable (s : dstate) : Prop :=
  forall e r, In e (acked_sbs s) -> In r (b_rows (snd e)) ->
  In r (dcat_rows (ds_d s)) \/ In r (replay_rows (ds_d s)).

Definition row_eqb (a b : row) : bool := N.eqb (r_id a) (r_id b) && Z.eqb (r_ts a) (r_ts b).
Definition mem_row (r : row) (l : list row) : bool := existsb (row_eqb r) l.
Definition durable_b (s : dstate) : bool :=
  forallb (fun e : sb => forallb (fun r => mem_row r (dcat_rows (ds_d s)) || mem_row r (replay_rows (ds_d s)))
                                 (b_rows (snd e)))
          (acked_sbs s).

Definition known_class (c : dcfg) (todos : list (list wreq)) (ls : list dlabel) : N :=
  ds_flag (drun c ls (dinit todos)).

(* ---------------- steps at the granularity of the harness ---------------- *)
Definition dw_parked (w : dwthread) : bool :=
  match dw_pc w with QWal _ | QRelock _ => false | _ => true end.
Definition dt_parked (s : dstate) : bool :=
  match ds_tm s with
  | QIdle => negb (ds_shut s)
  | QCheck | QTake | QShutTake => false
  | _ => true
  end.
Definition dr_parked (s : dstate) : bool :=
  match ds_mode s with
  | MRec => match ds_rec s with QScan _ _ _ | QRFinish _ _ => false | _ => true end
  | _ => true
  end.

Fixpoint dsettle_w (c : dcfg) (fuel : nat) (i : nat) (s : dstate) : dstate :=
  match fuel with
  | O => s
  | S f =>
      match ds_mode s, nth_error (ds_ws s) i with
      | MUp, Some w => if dw_parked w then s else dsettle_w c f i (dstep c (DW i FNone) s)
      | _, _ => s
      end
  end.
Fixpoint dsettle_t (c : dcfg) (fuel : nat) (s : dstate) : dstate :=
  match fuel with
  | O => s
  | S f => match ds_mode s with
           | MUp => if dt_parked s then s else dsettle_t c f (dstep c (DT FNone) s)
           | _ => s
           end
  end.
Fixpoint dsettle_r (c : dcfg) (fuel : nat) (s : dstate) : dstate :=
  match fuel with
  | O => s
  | S f => if dr_parked s then s else dsettle_r c f (dstep c (DRec FNone) s)
  end.

Definition dmacro (c : dcfg) (fuel : nat) (l : dlabel) (s : dstate) : dstate :=
  match l with
  | DW i _ => dsettle_w c fuel i (dstep c l s)
  | DT _ | DTick | DShut => dsettle_t c fuel (dstep c l s)
  | DRec _ => dsettle_r c fuel (dstep c l s)
  | DCrash | DCrashRot => dstep c l s
  end.
