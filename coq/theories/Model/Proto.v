(* Model/Proto.v — executable model of the hand-written protobuf reader of the
   Prometheus remote-write receiver (src/api/ingest/prometheus.rs):
   read_varint, delimited_end, parse_write_request / parse_timeseries /
   parse_label / parse_sample, unknown-field skipping, String::from_utf8_lossy,
   plus a canonical encoder that exists only in the model.

   Conventions
   * bytes are [list N]; u8 / u64 / usize values are [N]; i64 values are [Z].
   * every usize addition that the code performs on wire-controlled values
     goes through [uadd]: in a debug build an overflow is a [Panic], in a
     release build it wraps modulo 2^64.  A slice [data[s..e]] with e < s or
     e > len is a [Panic].  Every `while pos < data.len()` loop runs on explicit
     fuel (length + 1 iterations); exhausting it is [Hang] — it can only
     happen when `pos` moves backwards.
   * [c_checked = true] is the code that exists today (lengths validated by
     `delimited_end`); [c_checked = false] is the code before commit 10ed38f
     (`pos + length as usize` unchecked), kept for the recorded witnesses.

   Only definitions here (no proofs). *)
From CS Require Import Base.Prelude.
Open Scope N_scope.

Definition bytes := list N.

Definition U64 : N := 18446744073709551616.        (* 2^64 *)
Definition I63 : N := 9223372036854775808.         (* 2^63 *)

Inductive build := Debug | Release.
Record cfg := mkCfg { c_mode : build; c_checked : bool }.
Definition current (m : build) : cfg := mkCfg m true.
Definition legacy (m : build) : cfg := mkCfg m false.

Definition obind {A B : Type} (o : outcome A) (f : A -> outcome B) : outcome B :=
  match o with
  | Done a => f a
  | Failed c => Failed c
  | Panic => Panic
  | Hang => Hang
  end.

(* ---- error enum (Error::InvalidSchema messages of prometheus.rs) ---- *)
Definition E_TRUNC_VARINT : N := 1.       (* "Truncated varint" *)
Definition E_VARINT_LONG : N := 2.        (* "Varint too long" *)
Definition E_TRUNC_TIMESERIES : N := 3.   (* "Truncated timeseries" *)
Definition E_TRUNC_LABEL : N := 4.        (* "Truncated label" *)
Definition E_TRUNC_SAMPLE : N := 5.       (* "Truncated sample" *)
Definition E_TRUNC_LABEL_NAME : N := 6.   (* "Truncated label name" *)
Definition E_TRUNC_LABEL_VALUE : N := 7.  (* "Truncated label value" *)
Definition E_TRUNC_FIELD : N := 8.        (* "Truncated field" (skipped unknown field) *)
Definition E_TRUNC_SAMPLE_VALUE : N := 9. (* "Truncated sample value" *)
Definition E_WIRE_REQUEST : N := 10.      (* "Unknown wire type .. for field .." *)
Definition E_WIRE_TIMESERIES : N := 11.   (* "Unknown wire type in timeseries" *)
Definition E_WIRE_LABEL : N := 12.        (* "Unknown wire type in label" *)
Definition E_WIRE_SAMPLE : N := 13.       (* "Unknown wire type in sample" *)

(* ---- usize arithmetic and slicing ---- *)
Definition uadd (m : build) (a b : N) : outcome N :=
  if a + b <? U64 then Done (a + b)
  else match m with Debug => Panic | Release => Done ((a + b) mod U64) end.

(* &data[s..e] *)
Definition slice (data : bytes) (s e : N) : outcome bytes :=
  if e <? s then Panic
  else if N.of_nat (length data) <? e then Panic
  else Done (firstn (N.to_nat (e - s)) (skipn (N.to_nat s) data)).

(* ---- read_varint ----
   loop { if pos >= data.len() {Err}; byte = data[pos]; pos += 1;
          result |= ((byte & 0x7F) as u64) << shift;      // bits above 63 are dropped
          if byte & 0x80 == 0 { return Ok((result, pos)) }
          shift += 7; if shift >= 64 { Err } }
   [rest] is data[pos..]; `pos += 1` cannot overflow because pos < data.len(). *)
Fixpoint varint_loop (rest : bytes) (pos shift result : N) : outcome (N * N) :=
  match rest with
  | [] => Failed E_TRUNC_VARINT
  | b :: rest' =>
      let pos' := pos + 1 in
      let result' := N.lor result (N.shiftl (N.land b 127) shift mod U64) in
      if N.land b 128 =? 0 then Done (result', pos')
      else
        let shift' := shift + 7 in
        if 64 <=? shift' then Failed E_VARINT_LONG
        else varint_loop rest' pos' shift' result'
  end.

Definition read_varint (data : bytes) (start : N) : outcome (N * N) :=
  varint_loop (skipn (N.to_nat start) data) start 0 0.

(* ---- end offset of a length-delimited field ----
   today:  delimited_end(data, pos, length, what)
             usize::try_from(length).ok().and_then(|l| pos.checked_add(l)) ; Some(end) if end <= len
           (usize::try_from never fails on a 64-bit target; length < 2^64)
   before 10ed38f, known field:  end = pos + length as usize; if end > len {Err}
                   skipped field: pos = new_pos + length as usize            *)
Definition delimited_end (len pos length code : N) : outcome N :=
  if pos + length <? U64
  then (if pos + length <=? len then Done (pos + length) else Failed code)
  else Failed code.

Definition known_end (c : cfg) (len pos length code : N) : outcome N :=
  if c_checked c then delimited_end len pos length code
  else obind (uadd (c_mode c) pos length) (fun e => if len <? e then Failed code else Done e).

Definition skip_end (c : cfg) (len pos length : N) : outcome N :=
  if c_checked c then delimited_end len pos length E_TRUNC_FIELD
  else uadd (c_mode c) pos length.

(* the four "skip unknown field" arms followed by the catch-all error arm *)
Definition skip_field (c : cfg) (code_wire : N) (wt : N) (data : bytes) (len pos : N) : outcome N :=
  if wt =? 0 then obind (read_varint data pos) (fun r => Done (snd r))
  else if wt =? 1 then uadd (c_mode c) pos 8
  else if wt =? 2 then obind (read_varint data pos) (fun r => skip_end c len (snd r) (fst r))
  else if wt =? 5 then uadd (c_mode c) pos 4
  else Failed code_wire.

(* the five lines every known length-delimited arm starts with:
     let (length, new_pos) = read_varint(data, pos)?; pos = new_pos;
     let end = delimited_end(data, pos, length, what)?;   (before 10ed38f: pos + length, if end > len {Err})
     ... &data[pos..end] ... ; pos = end;
   returns the payload slice and the end offset *)
Definition read_delim (c : cfg) (data : bytes) (len pos code : N) : outcome (bytes * N) :=
  obind (read_varint data pos) (fun r =>
  obind (known_end c len (snd r) (fst r) code) (fun e =>
  obind (slice data (snd r) e) (fun bs => Done (bs, e)))).

(* ---- the message loop shared by the four parsers ----
   while pos < data.len() {
     (tag, new_pos) = read_varint(data, pos)?; pos = new_pos;
     field_number = tag >> 3; wire_type = tag & 7;
     match (field_number, wire_type) { <known arms> ; <skip arms> ; _ => Err } }
   A handler returns [None] when (field, wire type) is not one of the known
   arms of that parser, otherwise the new accumulator and position. *)
Definition handler (A : Type) := N -> N -> N -> A -> option (outcome (A * N)).

Fixpoint msg_loop {A : Type} (c : cfg) (code_wire : N) (h : handler A)
         (fuel : nat) (data : bytes) (len pos : N) (acc : A) : outcome A :=
  if pos <? len then
    match fuel with
    | O => Hang
    | S fuel' =>
        obind (read_varint data pos) (fun r =>
          let tag := fst r in
          let pos1 := snd r in
          let field := N.shiftr tag 3 in
          let wt := N.land tag 7 in
          match h field wt pos1 acc with
          | Some o => obind o (fun r2 => msg_loop c code_wire h fuel' data len (snd r2) (fst r2))
          | None => obind (skip_field c code_wire wt data len pos1)
                          (fun pos2 => msg_loop c code_wire h fuel' data len pos2 acc)
          end)
    end
  else Done acc.

Definition parse_msg {A : Type} (c : cfg) (code_wire : N)
           (h : bytes -> N -> handler A) (data : bytes) (init : A) : outcome A :=
  let len := N.of_nat (length data) in
  msg_loop c code_wire (h data len) (S (length data)) data len 0 init.

(* ---- String::from_utf8_lossy (core::str::lossy::Utf8Chunks): every maximal
   invalid prefix of a UTF-8 sequence becomes one U+FFFD (EF BF BD) ---- *)
Definition REPL : bytes := [239; 191; 189].
Definition is_cont (b : N) : bool := (128 <=? b) && (b <=? 191).
Definition in_range (lo hi b : N) : bool := (lo <=? b) && (b <=? hi).
(* second byte allowed after a 3-byte lead / a 4-byte lead *)
Definition ok3 (b0 b1 : N) : bool :=
  if b0 =? 224 then in_range 160 191 b1
  else if in_range 225 236 b0 then in_range 128 191 b1
  else if b0 =? 237 then in_range 128 159 b1
  else in_range 128 191 b1.                      (* 0xEE..0xEF *)
Definition ok4 (b0 b1 : N) : bool :=
  if b0 =? 240 then in_range 144 191 b1
  else if in_range 241 243 b0 then in_range 128 191 b1
  else in_range 128 143 b1.                      (* 0xF4 *)

Fixpoint utf8_lossy (l : bytes) : bytes :=
  match l with
  | [] => []
  | b0 :: r0 =>
      if b0 <? 128 then b0 :: utf8_lossy r0
      else if in_range 194 223 b0 then
        match r0 with
        | b1 :: r1 => if is_cont b1 then b0 :: b1 :: utf8_lossy r1 else REPL ++ utf8_lossy r0
        | [] => REPL
        end
      else if in_range 224 239 b0 then
        match r0 with
        | b1 :: r1 =>
            if ok3 b0 b1 then
              match r1 with
              | b2 :: r2 => if is_cont b2 then b0 :: b1 :: b2 :: utf8_lossy r2 else REPL ++ utf8_lossy r1
              | [] => REPL
              end
            else REPL ++ utf8_lossy r0
        | [] => REPL
        end
      else if in_range 240 244 b0 then
        match r0 with
        | b1 :: r1 =>
            if ok4 b0 b1 then
              match r1 with
              | b2 :: r2 =>
                  if is_cont b2 then
                    match r2 with
                    | b3 :: r3 => if is_cont b3 then b0 :: b1 :: b2 :: b3 :: utf8_lossy r3
                                  else REPL ++ utf8_lossy r2
                    | [] => REPL
                    end
                  else REPL ++ utf8_lossy r1
              | [] => REPL
              end
            else REPL ++ utf8_lossy r0
        | [] => REPL
        end
      else REPL ++ utf8_lossy r0                  (* 0x80..0xC1, 0xF5..0xFF *)
  end.

(* ---- decoded request ---- *)
Record label := mkLabel { l_name : bytes; l_value : bytes }.
Record sample := mkSample { s_ts : Z; s_bits : N }.     (* timestamp_ms: i64, value: f64 bit pattern *)
Record series := mkSeries { ts_labels : list label; ts_samples : list sample }.
Definition request := list series.

(* u64 -> i64 reinterpretation (`ts as i64`) and back *)
Definition as_i64 (v : N) : Z := if v <? I63 then Z.of_N v else (Z.of_N v - Z.of_N U64)%Z.
Definition as_u64 (z : Z) : N := Z.to_N (z mod Z.of_N U64)%Z.

(* f64::from_le_bytes *)
Fixpoint le_value (bs : bytes) : N :=
  match bs with [] => 0 | b :: r => b + 256 * le_value r end.

(* ---- parse_sample ---- *)
Definition sample_handler (c : cfg) (data : bytes) (len : N) : handler sample :=
  fun field wt pos acc =>
    if (field =? 1) && (wt =? 1) then
      Some (obind (uadd (c_mode c) pos 8) (fun e =>           (* if pos + 8 > data.len() *)
              if len <? e then Failed E_TRUNC_SAMPLE_VALUE
              else obind (slice data pos e) (fun bs =>          (* data[pos..pos + 8] *)
                     Done (mkSample (s_ts acc) (le_value bs), e))))   (* pos += 8 *)
    else if (field =? 2) && (wt =? 0) then
      Some (obind (read_varint data pos) (fun r => Done (mkSample (as_i64 (fst r)) (s_bits acc), snd r)))
    else None.

Definition parse_sample (c : cfg) (data : bytes) : outcome sample :=
  parse_msg c E_WIRE_SAMPLE (sample_handler c) data (mkSample 0%Z 0).

(* ---- parse_label ---- *)
Definition label_handler (c : cfg) (data : bytes) (len : N) : handler label :=
  fun field wt pos acc =>
    if (field =? 1) && (wt =? 2) then
      Some (obind (read_delim c data len pos E_TRUNC_LABEL_NAME) (fun r =>
              Done (mkLabel (utf8_lossy (fst r)) (l_value acc), snd r)))
    else if (field =? 2) && (wt =? 2) then
      Some (obind (read_delim c data len pos E_TRUNC_LABEL_VALUE) (fun r =>
              Done (mkLabel (l_name acc) (utf8_lossy (fst r)), snd r)))
    else None.

Definition parse_label (c : cfg) (data : bytes) : outcome label :=
  parse_msg c E_WIRE_LABEL (label_handler c) data (mkLabel [] []).

(* ---- parse_timeseries ---- *)
Definition series_handler (c : cfg) (data : bytes) (len : N) : handler series :=
  fun field wt pos acc =>
    if (field =? 1) && (wt =? 2) then
      Some (obind (read_delim c data len pos E_TRUNC_LABEL) (fun r =>
            obind (parse_label c (fst r)) (fun l =>
              Done (mkSeries (ts_labels acc ++ [l]) (ts_samples acc), snd r))))
    else if (field =? 2) && (wt =? 2) then
      Some (obind (read_delim c data len pos E_TRUNC_SAMPLE) (fun r =>
            obind (parse_sample c (fst r)) (fun s =>
              Done (mkSeries (ts_labels acc) (ts_samples acc ++ [s]), snd r))))
    else None.

Definition parse_timeseries (c : cfg) (data : bytes) : outcome series :=
  parse_msg c E_WIRE_TIMESERIES (series_handler c) data (mkSeries [] []).

(* ---- parse_write_request ---- *)
Definition request_handler (c : cfg) (data : bytes) (len : N) : handler request :=
  fun field wt pos acc =>
    if (field =? 1) && (wt =? 2) then
      Some (obind (read_delim c data len pos E_TRUNC_TIMESERIES) (fun r =>
            obind (parse_timeseries c (fst r)) (fun ts =>
              Done (acc ++ [ts], snd r))))
    else None.

Definition parse_write_request (c : cfg) (data : bytes) : outcome request :=
  parse_msg c E_WIRE_REQUEST (request_handler c) data [].

(* ==================================================================== *)
(* Canonical encoder (model only; the harness has a hand encoder that
   mirrors it and adds non-canonical variants). *)

Fixpoint enc_varint_fuel (fuel : nat) (n : N) : bytes :=
  match fuel with
  | O => []
  | S f => if n <? 128 then [n] else N.lor (N.land n 127) 128 :: enc_varint_fuel f (N.shiftr n 7)
  end.
(* ten bytes are enough for every value below 2^64 *)
Definition enc_varint (n : N) : bytes := enc_varint_fuel 10 n.

Definition enc_tag (field wt : N) : bytes := enc_varint (field * 8 + wt).

Definition enc_delim (field : N) (payload : bytes) : bytes :=
  enc_tag field 2 ++ enc_varint (N.of_nat (length payload)) ++ payload.

Fixpoint le_bytes (k : nat) (n : N) : bytes :=
  match k with O => [] | S k' => n mod 256 :: le_bytes k' (n / 256) end.

Definition enc_sample (s : sample) : bytes :=
  enc_tag 1 1 ++ le_bytes 8 (s_bits s) ++ enc_tag 2 0 ++ enc_varint (as_u64 (s_ts s)).

Definition enc_label (l : label) : bytes :=
  enc_delim 1 (l_name l) ++ enc_delim 2 (l_value l).

Definition enc_series (t : series) : bytes :=
  concat (map (fun l => enc_delim 1 (enc_label l)) (ts_labels t)) ++
  concat (map (fun s => enc_delim 2 (enc_sample s)) (ts_samples t)).

Definition enc_request (r : request) : bytes :=
  concat (map (fun t => enc_delim 1 (enc_series t)) r).

(* well-formed requests: what a conforming sender produces *)
Definition wf_bytes (s : bytes) : Prop := Forall (fun b => b < 256) s.
Definition wf_string (s : bytes) : Prop := wf_bytes s /\ utf8_lossy s = s.   (* valid UTF-8 *)
Definition wf_label (l : label) : Prop := wf_string (l_name l) /\ wf_string (l_value l).
Definition wf_sample (s : sample) : Prop :=
  (- Z.of_N I63 <= s_ts s < Z.of_N I63)%Z /\ s_bits s < U64.
Definition wf_series (t : series) : Prop :=
  Forall wf_label (ts_labels t) /\ Forall wf_sample (ts_samples t).
Definition wf_request (r : request) : Prop := Forall wf_series r.
