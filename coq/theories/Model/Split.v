(* Model/Split.v — executable model of the five-phase shard split with
   persistent progress (src/sharding/splitter.rs: execute_split_with_monitoring,
   resume_split, run_from_phase, run_backfill_with_progress, run_cutover,
   create_new_shard, cleanup, split_batch, write_chunk_to_path,
   backfill_chunk_path, calculate_split_point) over the split / shard / chunk
   methods of a MetadataClient (src/metadata/local.rs and src/metadata/s3.rs
   behave alike at the granularity of one call: start_split, get_split_state,
   update_split_progress, complete_split, get_chunks_for_shard,
   get_shard_metadata, update_shard_metadata, register_chunk, delete_chunk).

   The splitter is a sequential program over numbered external requests
   (object-store requests of the splitter itself and metadata-client calls).
   A fault plan assigns to request indices of one run one of four modes: fail
   before effect, fail after effect, crash before, crash after.  Definitions
   only (no proofs) — the proofs are in Proofs/SplitProofs.v.

   Chunk paths: the old shard's chunks are numbered (N); a back-filled chunk of
   a new shard is named by (side, source chunk, batch index) exactly as
   backfill_chunk_path does.  `get_chunks_for_shard` (substring match on paths
   in the code) is ownership by construction here. *)
From CS Require Import Base.Prelude.
From CSGen Require Import Consts.
Open Scope Z_scope.

(* ------------------------------------------------------------------ *)
(* Data                                                                 *)
(* ------------------------------------------------------------------ *)
Inductive phase := PhPrep | PhDual | PhBackfill | PhCutover | PhCleanup.

(* `phase as u8` *)
Definition phase_rank (p : phase) : N :=
  match p with PhPrep => 0 | PhDual => 1 | PhBackfill => 2 | PhCutover => 3 | PhCleanup => 4 end%N.

Inductive side := SA | SB.
Inductive shard := ShOld | ShNew (sd : side).

Definition side_eqb (a b : side) : bool :=
  match a, b with SA, SA => true | SB, SB => true | _, _ => false end.

(* key of a back-filled chunk: "{new_shard}/backfill_{hex(source)}_{batch}_{a|b}.parquet" *)
Record nkey := mkNK { nk_side : side; nk_src : N; nk_batch : N }.

Definition nkey_eqb (a b : nkey) : bool :=
  side_eqb (nk_side a) (nk_side b) && N.eqb (nk_src a) (nk_src b) && N.eqb (nk_batch a) (nk_batch b).

(* a row: (id, timestamp) *)
Definition row := (Z * Z)%type.
Definition row_ts (r : row) : Z := snd r.

Inductive sstate := StActive | StSplitting | StPending.

Record shardmeta := mkShard {
  sh_gen : N; sh_lo : Z; sh_hi : Z; sh_state : sstate; sh_min : Z; sh_max : Z }.

(* SplitProgress (the fence token, the shard ids are constant per split) *)
Record progress := mkProg {
  pg_phase : option phase;       (* completed_phase *)
  pg_a : bool; pg_b : bool; pg_old : bool;
  pg_done : list N;              (* backfilled_chunks (a set of source chunks) *)
  pg_total : N;                  (* backfill_total_chunks *)
  pg_point : Z }.                (* split_point *)

(* SplitState; backfill_progress is the quotient sp_num / sp_den *)
Record splitst := mkSplit { sp_phase : phase; sp_num : N; sp_den : N; sp_point : Z }.

Record cmeta := mkCM { cm_min : Z; cm_max : Z; cm_rows : N }.

(* durable state: progress object, split state, shard metadata, catalog, objects *)
Record st := mkSt {
  s_prog : option progress;
  s_split : option splitst;
  s_old : option shardmeta;
  s_a : option shardmeta;
  s_b : option shardmeta;
  s_ocat : list (N * cmeta);          (* catalog entries of the old shard *)
  s_oobj : list (N * list row);       (* chunk objects of the old shard   *)
  s_ncat : list (nkey * cmeta);       (* catalog entries of the new shards *)
  s_nobj : list (nkey * list row) }.  (* chunk objects of the new shards   *)

Definition set_prog (s : st) (p : option progress) : st :=
  mkSt p (s_split s) (s_old s) (s_a s) (s_b s) (s_ocat s) (s_oobj s) (s_ncat s) (s_nobj s).
Definition set_split (s : st) (x : option splitst) : st :=
  mkSt (s_prog s) x (s_old s) (s_a s) (s_b s) (s_ocat s) (s_oobj s) (s_ncat s) (s_nobj s).
Definition get_shard_of (s : st) (w : shard) : option shardmeta :=
  match w with ShOld => s_old s | ShNew SA => s_a s | ShNew SB => s_b s end.
Definition set_shard (s : st) (w : shard) (m : option shardmeta) : st :=
  match w with
  | ShOld => mkSt (s_prog s) (s_split s) m (s_a s) (s_b s) (s_ocat s) (s_oobj s) (s_ncat s) (s_nobj s)
  | ShNew SA => mkSt (s_prog s) (s_split s) (s_old s) m (s_b s) (s_ocat s) (s_oobj s) (s_ncat s) (s_nobj s)
  | ShNew SB => mkSt (s_prog s) (s_split s) (s_old s) (s_a s) m (s_ocat s) (s_oobj s) (s_ncat s) (s_nobj s)
  end.
Definition set_ocat (s : st) (c : list (N * cmeta)) : st :=
  mkSt (s_prog s) (s_split s) (s_old s) (s_a s) (s_b s) c (s_oobj s) (s_ncat s) (s_nobj s).
Definition set_oobj (s : st) (c : list (N * list row)) : st :=
  mkSt (s_prog s) (s_split s) (s_old s) (s_a s) (s_b s) (s_ocat s) c (s_ncat s) (s_nobj s).
Definition set_ncat (s : st) (c : list (nkey * cmeta)) : st :=
  mkSt (s_prog s) (s_split s) (s_old s) (s_a s) (s_b s) (s_ocat s) (s_oobj s) c (s_nobj s).
Definition set_nobj (s : st) (c : list (nkey * list row)) : st :=
  mkSt (s_prog s) (s_split s) (s_old s) (s_a s) (s_b s) (s_ocat s) (s_oobj s) (s_ncat s) c.

(* ------------------------------------------------------------------ *)
(* Requests, faults, the run monad                                      *)
(* ------------------------------------------------------------------ *)
Inductive fmode := FB | FA | CB | CA.

Inductive err := EInjected | ENoSplit | EBackfill | ENoShard | EStale | ENoObj.

Inductive res (A : Type) : Type := ROk (a : A) | RErr (e : err) | RCrash.
Arguments ROk {A} a.
Arguments RErr {A} e.
Arguments RCrash {A}.

(* what a request is, for the trace compared with the implementation *)
Inductive tag :=
| TPp (p : progress) | TPg | TPd
| TMs (pt : Z) | TMq | TMu (ph : phase) (num den : N) | TMx
| TMc | TOg (i : N) | TOp (k : nkey) | TMr (k : nkey) (m : cmeta)
| TMh (w : shard) | TMw (w : shard) (expected : N) (m : shardmeta)
| TOd | TMd.

Record world := mkW { w_st : st; w_n : nat; w_plan : list (nat * fmode); w_trace : list tag }.

Definition M (A : Type) : Type := world -> world * res A.

Fixpoint plan_get (k : nat) (pl : list (nat * fmode)) : option fmode :=
  match pl with
  | [] => None
  | (j, m) :: r => if Nat.eqb j k then Some m else plan_get k r
  end.

Definition ret {A} (a : A) : M A := fun w => (w, ROk a).
Definition fail {A} (e : err) : M A := fun w => (w, RErr e).
Definition bind {A B} (m : M A) (f : A -> M B) : M B := fun w =>
  match m w with
  | (w', ROk a) => f a w'
  | (w', RErr e) => (w', RErr e)
  | (w', RCrash) => (w', RCrash)
  end.

Notation "x <- m ;; f" := (bind m (fun x => f)) (at level 61, m at next level, right associativity).
Notation "m ;; f" := (bind m (fun _ => f)) (at level 61, right associativity).

(* `match r { Ok(_) => {}, Err(e) => warn!(..) }` *)
Definition ignore_err (m : M unit) : M unit := fun w =>
  match m w with
  | (w', RErr _) => (w', ROk tt)
  | x => x
  end.

(* The k-th request of the run: counted, traced, and subjected to the plan. *)
Definition request {A} (t : tag) (eff : st -> st * res A) : M A := fun w =>
  let k := w_n w in
  let s := w_st w in
  let tr := t :: w_trace w in
  match plan_get k (w_plan w) with
  | None => let (s', r) := eff s in (mkW s' (S k) (w_plan w) tr, r)
  | Some FB => (mkW s (S k) (w_plan w) tr, RErr EInjected)
  | Some FA => (mkW (fst (eff s)) (S k) (w_plan w) tr, RErr EInjected)
  | Some CB => (mkW s (S k) (w_plan w) tr, RCrash)
  | Some CA => (mkW (fst (eff s)) (S k) (w_plan w) tr, RCrash)
  end.

(* ------------------------------------------------------------------ *)
(* The individual requests                                              *)
(* ------------------------------------------------------------------ *)
(* object store: progress object *)
Definition persist (p : progress) : M unit :=
  request (TPp p) (fun s => (set_prog s (Some p), ROk tt)).
Definition load_progress : M (option progress) :=
  request TPg (fun s => (s, ROk (s_prog s))).
Definition remove_progress : M unit :=
  request TPd (fun s => (set_prog s None, ROk tt)).

(* metadata: split state *)
Definition start_split (pt : Z) : M unit :=
  request (TMs pt) (fun s => (set_split s (Some (mkSplit PhPrep 0 1 pt)), ROk tt)).
Definition get_split_state : M (option splitst) :=
  request TMq (fun s => (s, ROk (s_split s))).
(* no split state: both backends return Ok without doing anything *)
Definition upd_split (num den : N) (ph : phase) : M unit :=
  request (TMu ph num den) (fun s =>
    match s_split s with
    | Some x => (set_split s (Some (mkSplit ph num den (sp_point x))), ROk tt)
    | None => (s, ROk tt)
    end).
Definition complete_split : M unit :=
  request TMx (fun s => (set_split s None, ROk tt)).

(* metadata: shards.  update_shard_metadata(id, m, expected) *)
Definition with_gen (m : shardmeta) (g : N) : shardmeta :=
  mkShard g (sh_lo m) (sh_hi m) (sh_state m) (sh_min m) (sh_max m).
Definition get_shard (w : shard) : M (option shardmeta) :=
  request (TMh w) (fun s => (s, ROk (get_shard_of s w))).
Definition update_shard (w : shard) (m : shardmeta) (expected : N) : M unit :=
  request (TMw w expected m) (fun s =>
    match get_shard_of s w with
    | Some c => if N.eqb (sh_gen c) expected
                then (set_shard s w (Some (with_gen m (expected + 1)%N)), ROk tt)
                else (s, RErr EStale)
    | None => if N.eqb expected 0
              then (set_shard s w (Some (with_gen m (expected + 1)%N)), ROk tt)
              else (s, RErr ENoShard)
    end).

(* metadata: catalog *)
Definition get_chunks_old : M (list (N * cmeta)) :=
  request TMc (fun s => (s, ROk (s_ocat s))).
Definition register_chunk (k : nkey) (m : cmeta) : M unit :=
  request (TMr k m) (fun s => (set_ncat s (aset nkey_eqb k m (s_ncat s)), ROk tt)).
Definition delete_chunk_old (i : N) : M unit :=
  request TMd (fun s => (set_ocat s (adel N.eqb i (s_ocat s)), ROk tt)).

(* object store: chunk objects *)
Definition get_obj_old (i : N) : M (list row) :=
  request (TOg i) (fun s =>
    match aget N.eqb i (s_oobj s) with
    | Some rows => (s, ROk rows)
    | None => (s, RErr ENoObj)
    end).
Definition put_obj_new (k : nkey) (rows : list row) : M unit :=
  request (TOp k) (fun s => (set_nobj s (aset nkey_eqb k rows (s_nobj s)), ROk tt)).
Definition del_obj_old (i : N) : M unit :=
  request TOd (fun s => (set_oobj s (adel N.eqb i (s_oobj s)), ROk tt)).

(* ------------------------------------------------------------------ *)
(* Pure helpers                                                         *)
(* ------------------------------------------------------------------ *)
(* calculate_split_point: min + (max - min) / 2 rounded down (toward zero) to
   the 5-minute grid.  i64 overflow of max - min is outside the model. *)
Definition calc_split_point (mn mx : Z) : Z :=
  let mid := mn + Z.quot (mx - mn) 2 in
  Z.quot mid Consts.SPLIT_ROUND_NANOS * Consts.SPLIT_ROUND_NANOS.

Definition is_lower (pt : Z) (r : row) : bool := row_ts r <? pt.
Definition is_upper (pt : Z) (r : row) : bool := negb (is_lower pt r).

(* the Parquet reader yields batches of at most `with_batch_size(..)` rows *)
Definition batch_rows : nat := N.to_nat Consts.SPLIT_BATCH_ROWS.

Fixpoint batches_aux (fuel b : nat) (l : list row) : list (list row) :=
  match fuel with
  | O => []
  | S f => match l with
           | [] => []
           | _ => firstn b l :: batches_aux f b (skipn b l)
           end
  end.
Definition batches_by (b : nat) (l : list row) : list (list row) := batches_aux (length l) b l.

(* what one batch contributes: a lower chunk if any row is below the split
   point, an upper chunk if any row is at or above it *)
Definition outs_batch (pt : Z) (src i : N) (batch : list row) : list (nkey * list row) :=
  let a := filter (is_lower pt) batch in
  let b := filter (is_upper pt) batch in
  (match a with [] => [] | _ => [(mkNK SA src i, a)] end) ++
  (match b with [] => [] | _ => [(mkNK SB src i, b)] end).

Fixpoint outs_from (pt : Z) (src i : N) (bs : list (list row)) : list (nkey * list row) :=
  match bs with
  | [] => []
  | b :: r => outs_batch pt src i b ++ outs_from pt src (N.succ i) r
  end.

Definition outs_by (b : nat) (pt : Z) (src : N) (rows : list row) : list (nkey * list row) :=
  outs_from pt src 0%N (batches_by b rows).
Definition outs (pt : Z) (src : N) (rows : list row) : list (nkey * list row) :=
  outs_by batch_rows pt src rows.

(* ChunkMetadata written by write_chunk_to_path (size is not observed) *)
Definition list_min (l : list Z) : Z :=
  match l with [] => 0 | x :: r => fold_left Z.min r x end.
Definition list_max (l : list Z) : Z :=
  match l with [] => 0 | x :: r => fold_left Z.max r x end.
Definition meta_of (rows : list row) : cmeta :=
  mkCM (list_min (map row_ts rows)) (list_max (map row_ts rows)) (N.of_nat (length rows)).

(* chunks.sort_by(path): source chunks in path order *)
Fixpoint insert_sorted (x : N) (l : list N) : list N :=
  match l with
  | [] => [x]
  | y :: r => if N.leb x y then x :: l else y :: insert_sorted x r
  end.
Definition isort (l : list N) : list N := fold_right insert_sorted [] l.

Definition set_phase (p : progress) (ph : phase) : progress :=
  mkProg (Some ph) (pg_a p) (pg_b p) (pg_old p) (pg_done p) (pg_total p) (pg_point p).
Definition set_bf (p : progress) (done : list N) (total : N) : progress :=
  mkProg (pg_phase p) (pg_a p) (pg_b p) (pg_old p) done total (pg_point p).
Definition add_done (p : progress) (i : N) : progress :=
  set_bf p (if memN i (pg_done p) then pg_done p else pg_done p ++ [i]) (pg_total p).
Definition set_a (p : progress) : progress :=
  mkProg (pg_phase p) true (pg_b p) (pg_old p) (pg_done p) (pg_total p) (pg_point p).
Definition set_b (p : progress) : progress :=
  mkProg (pg_phase p) (pg_a p) true (pg_old p) (pg_done p) (pg_total p) (pg_point p).
Definition set_oldflag (p : progress) : progress :=
  mkProg (pg_phase p) (pg_a p) (pg_b p) true (pg_done p) (pg_total p) (pg_point p).

Definition next_phase (p : progress) : option phase :=
  match pg_phase p with
  | None => Some PhPrep
  | Some PhPrep => Some PhDual
  | Some PhDual => Some PhBackfill
  | Some PhBackfill => Some PhCutover
  | Some PhCutover => Some PhCleanup
  | Some PhCleanup => None
  end.

(* ------------------------------------------------------------------ *)
(* The splitter                                                         *)
(* ------------------------------------------------------------------ *)
(* write_chunk_to_path for every output of one source chunk, in order *)
Fixpoint write_outs (l : list (nkey * list row)) : M unit :=
  match l with
  | [] => ret tt
  | (k, rows) :: r => put_obj_new k rows ;; register_chunk k (meta_of rows) ;; write_outs r
  end.

(* the `for chunk_entry in &chunks` loop of run_backfill_with_progress *)
Fixpoint bf_loop (ids : list N) (p : progress) (completed total : N) : M progress :=
  match ids with
  | [] => ret p
  | i :: rest =>
    if memN i (pg_done p) then bf_loop rest p completed total
    else
      rows <- get_obj_old i ;;
      write_outs (outs (pg_point p) i rows) ;;
      let p' := add_done p i in
      persist p' ;;
      let c' := (completed + 1)%N in
      upd_split c' total PhBackfill ;;
      bf_loop rest p' c' total
  end.

Definition run_backfill (p : progress) : M progress :=
  chunks <- get_chunks_old ;;
  let ids := isort (map fst chunks) in
  let p1 := set_bf p (filter (fun i => memN i ids) (pg_done p)) (N.of_nat (length ids)) in
  persist p1 ;;
  if N.eqb (pg_total p1) 0 then upd_split 1 1 PhBackfill ;; ret p1
  else
    let completed := N.of_nat (length (pg_done p1)) in
    upd_split completed (pg_total p1) PhBackfill ;;
    if N.eqb completed (pg_total p1) then ret p1
    else bf_loop ids p1 completed (pg_total p1).

(* create_new_shard: skip the write when an interrupted attempt already
   created the shard with the same ranges and state *)
Definition sstate_eqb (a b : sstate) : bool :=
  match a, b with
  | StActive, StActive => true | StSplitting, StSplitting => true | StPending, StPending => true
  | _, _ => false
  end.
Definition same_shard (e m : shardmeta) : bool :=
  Z.eqb (sh_lo e) (sh_lo m) && Z.eqb (sh_hi e) (sh_hi m) && sstate_eqb (sh_state e) (sh_state m)
  && Z.eqb (sh_min e) (sh_min m) && Z.eqb (sh_max e) (sh_max m).

Definition create_new_shard (sd : side) (m : shardmeta) : M unit :=
  ex <- get_shard (ShNew sd) ;;
  match ex with
  | Some e => if same_shard e m then ret tt else update_shard (ShNew sd) m 0
  | None => update_shard (ShNew sd) m 0
  end.

Definition with_state (m : shardmeta) (x : sstate) : shardmeta :=
  mkShard (sh_gen m) (sh_lo m) (sh_hi m) x (sh_min m) (sh_max m).

Definition run_cutover (p : progress) : M progress :=
  oss <- get_split_state ;;
  match oss with
  | None => if pg_a p && pg_b p && pg_old p then ret p else fail ENoSplit
  | Some ss =>
    if N.ltb (sp_num ss) (sp_den ss) then fail EBackfill else
    oom <- get_shard ShOld ;;
    match oom with
    | None => fail ENoShard
    | Some om =>
      let pt := sp_point ss in
      p1 <- (if pg_a p then ret p
             else create_new_shard SA (mkShard 0 (sh_lo om) pt StActive (sh_min om) pt) ;;
                  persist (set_a p) ;; ret (set_a p)) ;;
      p2 <- (if pg_b p1 then ret p1
             else create_new_shard SB (mkShard 0 pt (sh_hi om) StActive pt (sh_max om)) ;;
                  persist (set_b p1) ;; ret (set_b p1)) ;;
      p3 <- (if pg_old p2 then ret p2
             else update_shard ShOld (with_state om StPending) (sh_gen om) ;;
                  persist (set_oldflag p2) ;; ret (set_oldflag p2)) ;;
      complete_split ;;
      ret p3
    end
  end.

Fixpoint cleanup_loop (ids : list N) : M unit :=
  match ids with
  | [] => ret tt
  | i :: r => ignore_err (del_obj_old i) ;; ignore_err (delete_chunk_old i) ;; cleanup_loop r
  end.

Definition cleanup : M unit :=
  chunks <- get_chunks_old ;;
  cleanup_loop (map fst chunks).

(* run_from_phase: phases below `start` are skipped *)
Definition run_from_phase (p : progress) (start : phase) : M unit :=
  p1 <- (if N.ltb (phase_rank PhDual) (phase_rank start) then ret p
         else upd_split 0 1 PhDual ;; persist (set_phase p PhDual) ;; ret (set_phase p PhDual)) ;;
  p2 <- (if N.ltb (phase_rank PhBackfill) (phase_rank start) then ret p1
         else q <- run_backfill p1 ;; persist (set_phase q PhBackfill) ;; ret (set_phase q PhBackfill)) ;;
  p3 <- (if N.ltb (phase_rank PhCutover) (phase_rank start) then ret p2
         else q <- run_cutover p2 ;; persist (set_phase q PhCutover) ;; ret (set_phase q PhCutover)) ;;
  cleanup ;;
  remove_progress.

(* execute_split_with_monitoring(shard) *)
Definition execute (arg : shardmeta) : M unit :=
  let pt := calc_split_point (sh_min arg) (sh_max arg) in
  let p0 := mkProg None false false false [] 0 pt in
  persist p0 ;;
  start_split pt ;;
  persist (set_phase p0 PhPrep) ;;
  run_from_phase (set_phase p0 PhPrep) PhDual.

(* resume_split(old_shard) *)
Definition resume : M bool :=
  op <- load_progress ;;
  match op with
  | None => ret false
  | Some p =>
    match next_phase p with
    | None => remove_progress ;; ret true
    | Some PhPrep =>
      start_split (pg_point p) ;;
      persist (set_phase p PhPrep) ;;
      run_from_phase (set_phase p PhPrep) PhDual ;;
      ret true
    | Some ph => run_from_phase p ph ;; ret true
    end
  end.

(* ------------------------------------------------------------------ *)
(* Scripts: the initial run, then resumes, each under its own plan      *)
(* ------------------------------------------------------------------ *)
Definition fresh (s : st) (plan : list (nat * fmode)) : world := mkW s 0 plan [].

Inductive outcome_kind := KOk | KTrue | KFalse | KErr (e : err) | KCrash.

Definition run_execute (arg : shardmeta) (s : st) (plan : list (nat * fmode)) : world * outcome_kind :=
  match execute arg (fresh s plan) with
  | (w, ROk _) => (w, KOk)
  | (w, RErr e) => (w, KErr e)
  | (w, RCrash) => (w, KCrash)
  end.

Definition run_resume (s : st) (plan : list (nat * fmode)) : world * outcome_kind :=
  match resume (fresh s plan) with
  | (w, ROk true) => (w, KTrue)
  | (w, ROk false) => (w, KFalse)
  | (w, RErr e) => (w, KErr e)
  | (w, RCrash) => (w, KCrash)
  end.

Fixpoint run_resumes (s : st) (plans : list (list (nat * fmode))) : list (world * outcome_kind) :=
  match plans with
  | [] => []
  | pl :: r => let x := run_resume s pl in x :: run_resumes (w_st (fst x)) r
  end.

Definition run_script (arg : shardmeta) (s : st) (script : list (list (nat * fmode))) : list (world * outcome_kind) :=
  match script with
  | [] => []
  | pl :: r => let x := run_execute arg s pl in x :: run_resumes (w_st (fst x)) r
  end.

(* the state after a script *)
Definition resumes_state (s : st) (plans : list (list (nat * fmode))) : st :=
  fold_left (fun s pl => w_st (fst (run_resume s pl))) plans s.
Definition script_state (arg : shardmeta) (s : st) (script : list (list (nat * fmode))) : st :=
  match script with
  | [] => s
  | pl :: r => resumes_state (w_st (fst (run_execute arg s pl))) r
  end.

(* the world before the split: an active old shard whose chunks are registered
   and stored, nothing else *)
Definition init_state (arg : shardmeta) (chunks : list (N * list row)) : st :=
  mkSt None None (Some arg) None None
       (map (fun c => (fst c, meta_of (snd c))) chunks) chunks [] [].

(* rows a new shard serves: the objects of its registered chunks *)
Definition rows_of (sd : side) (s : st) : list row :=
  flat_map (fun e => if side_eqb (nk_side (fst e)) sd
                     then match aget nkey_eqb (fst e) (s_nobj s) with Some r => r | None => [] end
                     else []) (s_ncat s).
(* registered chunks of the new shards whose object is missing *)
Definition dangling (s : st) : list nkey :=
  flat_map (fun e => match aget nkey_eqb (fst e) (s_nobj s) with Some _ => [] | None => [fst e] end) (s_ncat s).
