(* Model/Wal.v — byte-level executable model of the ingester's write-ahead log
   (C05; reused by C01).

   Follows src/ingester/wal.rs function by function (encode_header,
   decode_header, read_entries_from_path, list_segments, WriteAheadLog::open,
   append_payload, rotate, truncate_before, read_entries, read_entries_after,
   last_sequence_in_segments, persist_flushed_seq, load_flushed_seq) and the
   two call sites of src/ingester/mod.rs (ensure_wal, the tail of
   flush_batches).  The model describes the code *after* the two repairs
   (`fix:` commits): open cuts the active segment back to its last complete
   entry, and open never starts below the persisted flushed mark.

   Byte strings are [list N] (values < 256 where it matters).  The directory is
   the id-sorted listing of the segment files (what list_segments returns)
   plus the optional flushed_seq file.  A crash loses the handle; the only
   intra-operation crash is a write cut at a byte (prefix semantics).

   Only definitions here (no proofs).  Layout constants come from
   generated/Consts.v (read from the Rust source on every run). *)
From CS Require Import Base.Prelude.
From CSGen Require Import Consts.
Open Scope N_scope.

Definition bytes := list N.
Definition lenN {A : Type} (l : list A) : N := N.of_nat (length l).

Definition U64_LIMIT : N := 18446744073709551616.   (* 2^64 *)
Definition U32_LIMIT : N := 4294967296.             (* 2^32 *)

(* ---------- little-endian integers ---------- *)
Fixpoint le_bytes (n : nat) (x : N) : bytes :=
  match n with
  | O => []
  | S k => (x mod 256) :: le_bytes k (x / 256)
  end.

Fixpoint le_val (bs : bytes) : N :=
  match bs with
  | [] => 0
  | b :: r => b + 256 * le_val r
  end.

Fixpoint bytes_eqb (a b : bytes) : bool :=
  match a, b with
  | [], [] => true
  | x :: a', y :: b' => (x =? y) && bytes_eqb a' b'
  | _, _ => false
  end.

(* header[a..b] *)
Definition slice (a b : N) (l : bytes) : bytes :=
  firstn (N.to_nat (b - a)) (skipn (N.to_nat a) l).

(* ---------- CRC-32 / IEEE 802.3 (what crc32fast computes) ----------
   reflected polynomial 0xEDB88320, initial value and final xor 0xFFFFFFFF,
   one bit at a time. *)
Definition CRC_POLY : N := 3988292384.
Definition MASK32 : N := 4294967295.

Definition crc_bit (c : N) : N :=
  if N.odd c then N.lxor (N.div2 c) CRC_POLY else N.div2 c.

Definition crc_byte (c b : N) : N :=
  crc_bit (crc_bit (crc_bit (crc_bit (crc_bit (crc_bit (crc_bit (crc_bit (N.lxor c b)))))))).

Definition crc32 (bs : bytes) : N := N.lxor (fold_left crc_byte bs MASK32) MASK32.

(* ---------- entry framing ---------- *)
Record entry := mkEntry { e_seq : N; e_flags : N; e_payload : bytes }.

Definition MAGIC : bytes := [67; 83; 87; 65].   (* b"CSWA" *)

(* encode_header: [0..4) magic, [4] version, [5] flags, [6..14) seq LE,
   [14..18) payload.len() as u32 LE, [18..22) crc32(payload) LE *)
Definition encode_header (seq flags : N) (pl : bytes) : bytes :=
  MAGIC ++ [WAL_VERSION] ++ [flags mod 256] ++ le_bytes 8 seq
        ++ le_bytes 4 (lenN pl) ++ le_bytes 4 (crc32 pl).

Definition enc_entry (e : entry) : bytes :=
  encode_header (e_seq e) (e_flags e) (e_payload e) ++ e_payload e.

Definition enc_entries (es : list entry) : bytes := flat_map enc_entry es.

(* decode_header on a HEADER_LEN-byte buffer: None = any of its three errors *)
Definition decode_header (h : bytes) : option (N * N * N * N) :=
  if negb (bytes_eqb (slice 0 WAL_DEC_MAGIC_HI h) MAGIC) then None
  else if negb (nth (N.to_nat WAL_DEC_VERSION_AT) h 0 =? WAL_VERSION) then None
  else
    let flags := nth (N.to_nat WAL_DEC_FLAGS_AT) h 0 in
    if negb (N.land flags WAL_FLAG_COMPRESSED =? 0) then None
    else Some (le_val (slice WAL_DEC_SEQ_LO WAL_DEC_SEQ_HI h), flags,
               le_val (slice WAL_DEC_LEN_LO WAL_DEC_LEN_HI h),
               le_val (slice WAL_DEC_CRC_LO WAL_DEC_CRC_HI h)).

(* read_entries_from_path: the loop stops at clean EOF, a short header, a
   header that does not decode, a short payload or a CRC mismatch, and returns
   what it has.  Every iteration consumes at least HEADER_LEN bytes, so
   S (length bs) iterations are enough. *)
Fixpoint parse_fuel (fuel : nat) (bs : bytes) : list entry :=
  match fuel with
  | O => []
  | S f =>
    if lenN bs <? WAL_HEADER_LEN then []
    else
      match decode_header (firstn (N.to_nat WAL_HEADER_LEN) bs) with
      | None => []
      | Some (seq, flags, len, crc) =>
        let rest := skipn (N.to_nat WAL_HEADER_LEN) bs in
        if lenN rest <? len then []
        else
          let pl := firstn (N.to_nat len) rest in
          if crc32 pl =? crc
          then mkEntry seq flags pl :: parse_fuel f (skipn (N.to_nat len) rest)
          else []
      end
  end.

Definition parse (bs : bytes) : list entry := parse_fuel (S (length bs)) bs.

Definition entry_size (e : entry) : N := WAL_HEADER_LEN + lenN (e_payload e).

(* the sum computed by open: bytes covered by the complete entries *)
Definition valid_len (es : list entry) : N :=
  fold_left (fun acc e => acc + entry_size e) es 0.

(* entries.last().map(|e| e.seq) *)
Fixpoint last_seq (es : list entry) : option N :=
  match es with
  | [] => None
  | e :: r => match last_seq r with Some s => Some s | None => Some (e_seq e) end
  end.

(* ---------- the directory ---------- *)
Definition segs := list (N * bytes).
Record disk := mkDisk { d_segs : segs; d_flushed : option bytes }.

Definition seg_get (id : N) (l : segs) : option bytes := aget N.eqb id l.

(* create or replace a file, keeping the listing sorted by id *)
Fixpoint seg_put (id : N) (bs : bytes) (l : segs) : segs :=
  match l with
  | [] => [(id, bs)]
  | (i, b) :: r =>
    if id <? i then (id, bs) :: (i, b) :: r
    else if id =? i then (i, bs) :: r
    else (i, b) :: seg_put id bs r
  end.

(* open_segment: create(true).append(true) — an existing file keeps its bytes *)
Definition seg_touch (id : N) (l : segs) : segs :=
  match seg_get id l with Some _ => l | None => seg_put id [] l end.

(* a write through the O_APPEND handle of file [id] *)
Definition seg_append (id : N) (data : bytes) (l : segs) : segs :=
  match seg_get id l with Some b => seg_put id (b ++ data) l | None => l end.

Fixpoint last_id (l : segs) : option N :=
  match l with
  | [] => None
  | p :: r => match last_id r with Some i => Some i | None => Some (fst p) end
  end.

(* last_sequence_in_segments: newest segment first, the first one that has a
   valid entry decides *)
Fixpoint last_seq_in (l : segs) : option N :=
  match l with
  | [] => None
  | (_, bs) :: r =>
    match last_seq_in r with
    | Some s => Some s
    | None => last_seq (parse bs)
    end
  end.

Definition read_entries (d : disk) : list entry :=
  flat_map (fun p => parse (snd p)) (d_segs d).

Definition read_entries_after (d : disk) (after : N) : list entry :=
  filter (fun e => after <? e_seq e) (read_entries d).

(* load_flushed_seq: 8 bytes, or 0 for a missing / wrong-sized file *)
Definition load_flushed (d : disk) : N :=
  match d_flushed d with
  | Some bs => if lenN bs =? WAL_FLUSHED_LEN then le_val bs else 0
  | None => 0
  end.

(* persist_flushed_seq: std::fs::write truncates, then writes 8 bytes; [keep]
   of them reach the file (8 = the complete write) *)
Definition persist_cut (d : disk) (x keep : N) : disk :=
  mkDisk (d_segs d) (Some (firstn (N.to_nat keep) (le_bytes 8 x))).

Definition persist_flushed (d : disk) (x : N) : disk := persist_cut d x WAL_FLUSHED_LEN.

(* ---------- the handle ---------- *)
Record wal := mkWal { w_max : N; w_cur : N; w_size : N; w_next : N }.

(* WriteAheadLog::open.  Returns the directory after open's own writes
   (segment creation, removal of an incomplete tail) and the handle, or Panic
   for the u64 overflow of `+ 1` (debug build). *)
Definition wal_open (max : N) (d : disk) : disk * outcome wal :=
  let segments := d_segs d in
  let id := match last_id segments with Some i => i | None => WAL_FIRST_SEGMENT_ID end in
  let segs1 := seg_touch id segments in
  let file := match seg_get id segs1 with Some b => b | None => [] end in
  let size := lenN file in
  let valid := valid_len (parse file) in
  let segs2 := if valid <? size then seg_put id (firstn (N.to_nat valid) file) segs1 else segs1 in
  let size2 := if valid <? size then valid else size in
  (* last_sequence_in_segments(&segments) re-reads the files listed before
     open_segment; that listing is empty exactly when segs2 is the one fresh
     empty file, for which the answer is None as well *)
  let last := match last_seq_in segs2 with Some s => s | None => 0 end in
  let d2 := mkDisk segs2 (d_flushed d) in
  let top := N.max last (load_flushed d) in
  if U64_LIMIT <=? top + 1 then (d2, Panic)
  else (d2, Done (mkWal max id size2 (top + 1))).

(* rotate *)
Definition wal_rotate (w : wal) (d : disk) : disk * wal :=
  let id := w_cur w + 1 in
  (mkDisk (seg_touch id (d_segs d)) (d_flushed d), mkWal (w_max w) id 0 (w_next w)).

(* append_payload, with [keep] bytes of header ++ payload reaching the file
   ([keep] = entry size: the complete write).  Panic = `next_seq += 1`
   overflows (nothing was written yet). *)
Definition append_cut (w : wal) (d : disk) (pl : bytes) (keep : N) : outcome (disk * wal * N) :=
  let seq := w_next w in
  if U64_LIMIT <=? seq + 1 then Panic
  else
    let data := encode_header seq 0 pl ++ pl in
    let esize := WAL_HEADER_LEN + lenN pl in
    let '(d1, w1) :=
      if (0 <? w_max w) && (w_max w <? w_size w + esize)
      then wal_rotate w d else (d, w) in
    let d2 := mkDisk (seg_append (w_cur w1) (firstn (N.to_nat keep) data) (d_segs d1)) (d_flushed d1) in
    Done (d2, mkWal (w_max w1) (w_cur w1) (w_size w1 + esize) (seq + 1), seq).

Definition wal_append (w : wal) (d : disk) (pl : bytes) : outcome (disk * wal * N) :=
  append_cut w d pl (WAL_HEADER_LEN + lenN pl).

(* truncate_before: the loop over the sorted listing *)
Fixpoint trunc_loop (cur b : N) (l : segs) : segs :=
  match l with
  | [] => []
  | (id, bs) :: r =>
    if cur <=? id then (id, bs) :: r
    else
      match last_seq (parse bs) with
      | Some ls => if ls <? b then trunc_loop cur b r else (id, bs) :: r
      | None => (id, bs) :: trunc_loop cur b r
      end
  end.

Definition wal_truncate_before (w : wal) (d : disk) (b : N) : disk :=
  mkDisk (trunc_loop (w_cur w) b (d_segs d)) (d_flushed d).

(* ---------- faults outside the crash model (correspondence only) ---------- *)
Definition map_last (f : bytes -> bytes) (l : segs) : segs :=
  match rev l with
  | [] => []
  | (i, b) :: r => rev r ++ [(i, f b)]
  end.

(* the newest segment file loses everything after its first n bytes *)
Definition disk_cut (d : disk) (n : N) : disk :=
  mkDisk (map_last (firstn (N.to_nat n)) (d_segs d)) (d_flushed d).

Fixpoint flip_at (off : nat) (v : N) (bs : bytes) : bytes :=
  match bs with
  | [] => []
  | x :: r => match off with O => N.lxor x v :: r | S k => x :: flip_at k v r end
  end.

(* one byte of the newest segment file is xor-ed with v *)
Definition disk_flip (d : disk) (off v : N) : disk :=
  mkDisk (map_last (flip_at (N.to_nat off) v) (d_segs d)) (d_flushed d).

(* ---------- histories ---------- *)
Inductive op :=
| OOpen (max : N)                     (* (re)open; an older handle is dropped *)
| OAppend (pl : bytes)
| ORotate
| OTruncate (b : N)
| OPersist (x : N)                    (* persist_flushed_seq, complete *)
| OCrash                              (* the handle is lost at an operation boundary *)
| OCrashAppend (pl : bytes) (keep : N)   (* crash while appending: keep bytes written *)
| OCrashPersist (x keep : N)          (* crash while writing the flushed file *)
| OCut (n : N)                        (* not a crash-model fault *)
| OFlip (off v : N).                  (* not a crash-model fault *)

Inductive event :=
| EvOpen (next fl : N)                (* handle created; flushed mark read by open *)
| EvOpenPanic
| EvAck (seq : N) (pl : bytes) (fl : N)          (* append returned Ok(seq); fl = mark on disk *)
| EvTorn (seq : N) (pl : bytes) (keep fl : N)    (* seq assigned, write cut, never acknowledged *)
| EvPanic
| EvTrunc (b : N)
| EvPersist (x keep : N)
| EvNone.

Record state := mkState { st_disk : disk; st_wal : option wal }.

Definition init : state := mkState (mkDisk [] None) None.

Definition step (st : state) (o : op) : state * event :=
  let d := st_disk st in
  match o with
  | OOpen max =>
    match wal_open max d with
    | (d', Done w) => (mkState d' (Some w), EvOpen (w_next w) (load_flushed d))
    | (d', _) => (mkState d' None, EvOpenPanic)
    end
  | OAppend pl =>
    match st_wal st with
    | None => (st, EvNone)
    | Some w =>
      match wal_append w d pl with
      | Done (d', w', seq) => (mkState d' (Some w'), EvAck seq pl (load_flushed d))
      | _ => (st, EvPanic)
      end
    end
  | ORotate =>
    match st_wal st with
    | None => (st, EvNone)
    | Some w => let '(d', w') := wal_rotate w d in (mkState d' (Some w'), EvNone)
    end
  | OTruncate b =>
    match st_wal st with
    | None => (st, EvNone)
    | Some w => (mkState (wal_truncate_before w d b) (Some w), EvTrunc b)
    end
  | OPersist x => (mkState (persist_flushed d x) (st_wal st), EvPersist x WAL_FLUSHED_LEN)
  | OCrash => (mkState d None, EvNone)
  | OCrashAppend pl keep =>
    match st_wal st with
    | None => (st, EvNone)
    | Some w =>
      match append_cut w d pl keep with
      | Done (d', _, seq) => (mkState d' None, EvTorn seq pl keep (load_flushed d))
      | _ => (mkState d None, EvPanic)
      end
    end
  | OCrashPersist x keep => (mkState (persist_cut d x keep) None, EvPersist x keep)
  | OCut n => (mkState (disk_cut d n) None, EvNone)
  | OFlip off v => (mkState (disk_flip d off v) None, EvNone)
  end.

Fixpoint run (st : state) (h : list op) : state * list event :=
  match h with
  | [] => (st, [])
  | o :: r =>
    let '(st1, ev) := step st o in
    let '(st2, evs) := run st1 r in
    (st2, ev :: evs)
  end.

(* ---------- caller discipline (what the two call sites in mod.rs respect) ----------
   top_seq: the newest valid sequence number in the log (0 = none).
   truncate_before(b): b is a sequence number present in the log, or at most
     one above the flushed mark on disk (ensure_wal: flushed + 1;
     flush_batches: last_wal_seq, which was returned by append or read back);
   persist_flushed_seq(x): x is present in the log and not below the mark on
     disk (flush_batches: last_wal_seq). *)
Definition top_seq (d : disk) : N :=
  match last_seq_in (d_segs d) with Some s => s | None => 0 end.

Definition byte_ok (b : N) : bool := b <? 256.
Definition payload_ok (pl : bytes) : bool := (lenN pl <? U32_LIMIT) && forallb byte_ok pl.

Definition op_ok (st : state) (o : op) : bool :=
  let d := st_disk st in
  match o with
  | OOpen _ | ORotate | OCrash => true
  | OAppend pl => payload_ok pl
  | OCrashAppend pl keep => payload_ok pl && (keep <=? WAL_HEADER_LEN + lenN pl)
  | OTruncate b => (b <=? top_seq d) || (b <=? load_flushed d + 1)
  | OPersist x => (load_flushed d <=? x) && (x <=? top_seq d)
  | OCrashPersist x keep => (load_flushed d <=? x) && (x <=? top_seq d) && (keep <=? WAL_FLUSHED_LEN)
  | OCut _ | OFlip _ _ => false
  end.

Fixpoint hist_ok (st : state) (h : list op) : bool :=
  match h with
  | [] => true
  | o :: r => op_ok st o && hist_ok (fst (step st o)) r
  end.

(* ---------- what the history theorems talk about ---------- *)
(* the entry an event wrote completely, if any *)
Definition complete_ev (ev : event) : list entry :=
  match ev with
  | EvAck s pl _ => [mkEntry s 0 pl]
  | EvTorn s pl keep _ => if keep =? WAL_HEADER_LEN + lenN pl then [mkEntry s 0 pl] else []
  | _ => []
  end.

(* the entries that were written completely, in order *)
Definition complete_of (evs : list event) : list entry := flat_map complete_ev evs.

Definition trunc_step (m : N) (ev : event) : N :=
  match ev with EvTrunc b => N.max m b | _ => m end.

(* the largest bound ever passed to truncate_before *)
Definition max_trunc (evs : list event) : N := fold_left trunc_step evs 0.

(* sequence number handed out by an event, with the flushed mark on disk then *)
Definition assigned (ev : event) : option (N * N) :=
  match ev with
  | EvAck s _ fl => Some (s, fl)
  | EvTorn s _ _ fl => Some (s, fl)
  | _ => None
  end.

(* everything a new sequence number has to exceed: acknowledged numbers,
   numbers of completely written entries, completely persisted flushed marks,
   and every flushed mark seen on disk by open or append *)
Definition wm_step (m : N) (ev : event) : N :=
  match ev with
  | EvAck s _ fl => N.max m (N.max s fl)
  | EvTorn s pl keep fl =>
      N.max m (if keep =? WAL_HEADER_LEN + lenN pl then N.max s fl else fl)
  | EvPersist x keep => if keep =? WAL_FLUSHED_LEN then N.max m x else m
  | EvOpen _ fl => N.max m fl
  | _ => m
  end.

Definition watermark (evs : list event) : N := fold_left wm_step evs 0.

(* no sequence number is handed out at or below the watermark of the events
   before it, nor at or below the flushed mark on disk at that moment *)
Fixpoint regress_free (seen : list event) (evs : list event) : Prop :=
  match evs with
  | [] => True
  | ev :: r =>
    match assigned ev with
    | Some (s, fl) => watermark seen < s /\ fl < s
    | None => True
    end /\ regress_free (seen ++ [ev]) r
  end.

(* ---------- the ingester's call sites (src/ingester/mod.rs) ---------- *)
(* ensure_wal: load_flushed_seq; open; read_entries_after(flushed);
   truncate_before(flushed + 1) when flushed > 0 *)
Definition ensure_wal_ops (max : N) (d : disk) : list op :=
  let fl := load_flushed d in
  OOpen max :: (if 0 <? fl then [OTruncate (fl + 1)] else []).

(* tail of flush_batches: truncate_before(last_wal_seq); persist_flushed_seq(last_wal_seq) *)
Definition flush_ops (last_wal_seq : N) : list op :=
  if 0 <? last_wal_seq then [OTruncate last_wal_seq; OPersist last_wal_seq] else [].
