(* Model/Dedup.v — executable model of dual-write routing during a shard split
   and of the split-time read path (C15).

   Follows, step by step,
     src/ingester/mod.rs   Ingester::write, write_with_split_awareness,
                           write_to_shard, split_batch_by_key,
                           append_to_buffer_and_maybe_flush, flush_batches
     src/metadata/{local,s3}.rs
                           start_split, update_split_progress, complete_split,
                           get_split_state, has_active_split
     src/query/dedup.rs    dedup_batches   (as repaired by the `fix:` commit:
                           a row is a duplicate only when an identical row —
                           equal in every column — was already seen; batches
                           need a `timestamp` and a `metric_name` column of any
                           physical type, everything else passes through)
     src/query/mod.rs      query_for_tenant: post (filter where rows), then
                           dedup_batches on the RESULT when has_active_split.

   Definitions only (no proofs).  Strings (metric names, label values, shard
   ids) are interned to numbers by the harness; a cell of the remaining columns
   is one Z token (equal tokens = equal cells). *)
From CS Require Import Base.Prelude.
Open Scope Z_scope.

(* ------------------------------------------------------------------ *)
(* Rows                                                                 *)
(* ------------------------------------------------------------------ *)
(* r_ts = None is a NULL timestamp, r_metric = None a NULL metric name;
   r_rest are the cells of all other columns, in schema order. *)
Record row := mkRow { r_ts : option Z; r_metric : option N; r_rest : list Z }.

Definition optZ_eqb (a b : option Z) : bool :=
  match a, b with
  | Some x, Some y => Z.eqb x y
  | None, None => true
  | _, _ => false
  end.
Definition optN_eqb (a b : option N) : bool :=
  match a, b with
  | Some x, Some y => N.eqb x y
  | None, None => true
  | _, _ => false
  end.
Fixpoint listZ_eqb (a b : list Z) : bool :=
  match a, b with
  | [], [] => true
  | x :: a', y :: b' => Z.eqb x y && listZ_eqb a' b'
  | _, _ => false
  end.
(* equality of the row encodings (arrow row format over all columns) *)
Definition row_eqb (a b : row) : bool :=
  optZ_eqb (r_ts a) (r_ts b) && optN_eqb (r_metric a) (r_metric b) && listZ_eqb (r_rest a) (r_rest b).
Fixpoint mem_row (r : row) (l : list row) : bool :=
  match l with [] => false | x :: l' => row_eqb r x || mem_row r l' end.
Fixpoint has_dup (l : list row) : bool :=
  match l with [] => false | x :: l' => mem_row x l' || has_dup l' end.

(* ------------------------------------------------------------------ *)
(* Part A — the write path during a split                               *)
(* ------------------------------------------------------------------ *)
(* physical type of the `timestamp` column of a written batch *)
Inductive ts_kind := TsInt64 | TsNanos | TsOther | TsAbsent.

(* ib_schema: id of the Arrow schema (WriteBuffer::schema_compatible compares
   whole schemas); ib_ts is determined by the schema. *)
Record ibatch := mkIBatch { ib_schema : N; ib_ts : ts_kind; ib_rows : list row }.

Definition E_SCHEMA : N := 1%N.     (* Error::InvalidSchema *)
Definition E_INTERNAL : N := 2%N.   (* Error::Internal      *)

(* i64::from_be_bytes(split_point.try_into()?) : exactly 8 bytes, big endian,
   two's complement *)
Fixpoint be_unsigned (bs : list N) (acc : Z) : Z :=
  match bs with [] => acc | b :: r => be_unsigned r (acc * 256 + Z.of_N b) end.
Definition split_ts (point : list N) : option Z :=
  if Nat.eqb (length point) 8
  then let u := be_unsigned point 0 in Some (if u <? 2 ^ 63 then u else u - 2 ^ 64)
  else None.

(* `ts_array.value(i)` ignores the validity bitmap: a NULL slot reads the
   physical value, 0 for arrays built from Option values. *)
Definition ts_value (r : row) : Z := match r_ts r with Some t => t | None => 0 end.

Definition lower_side (sp : Z) (r : row) : bool := ts_value r <? sp.
Definition upper_side (sp : Z) (r : row) : bool := negb (ts_value r <? sp).

(* split_batch_by_key: the timestamp column must exist and be Int64 (checked
   first), then the split point is decoded, then rows are partitioned by
   `ts < split_ts` (index order is kept by the take kernel). *)
Definition split_batch_by_key (b : ibatch) (point : list N) : outcome (list row * list row) :=
  match ib_ts b with
  | TsInt64 =>
      match split_ts point with
      | None => Failed E_INTERNAL
      | Some sp => Done (filter (lower_side sp) (ib_rows b), filter (upper_side sp) (ib_rows b))
      end
  | _ => Failed E_SCHEMA
  end.

Inductive phase := PPrep | PDual | PBackfill | PCutover | PCleanup.
Definition is_dual (p : phase) : bool :=
  match p with PDual | PBackfill => true | _ => false end.

Record split_state := mkSS { ss_phase : phase; ss_new : list N; ss_point : list N }.

(* where a chunk lives:
   LOrdinary  the ingester's ordinary path (no shard component — live data of
              the shard being split);
   LNew s     under new shard s: the `shard=<s>` path of write_to_shard, or the
              `<s>/backfill_*` path of the splitter's back-fill;
   LHist sid  a historical chunk whose path names the old shard sid (what
              get_chunks_for_shard(sid) finds and the back-fill copies). *)
Inductive loc := LOrdinary | LNew (s : N) | LHist (sid : N).
Record chunk := mkChunk { c_loc : loc; c_rows : list row }.

Record istate := mkIS {
  i_flush_rows : N;                       (* IngesterConfig::flush_row_count *)
  i_splits : list (N * split_state);      (* metadata: split state per shard id *)
  i_buffer : list ibatch;                 (* WriteBuffer *)
  i_chunks : list chunk                   (* registered chunks, in order of registration *)
}.
Definition init_state (flush_rows : N) : istate := mkIS flush_rows [] [] [].

Definition buffer_rows (buf : list ibatch) : list row := concat (map ib_rows buf).

(* flush_batches on buffer.take(): nothing for an empty buffer, else one chunk
   holding the concatenation *)
Definition flush_buffer (st : istate) : istate :=
  match i_buffer st with
  | [] => st
  | _ => mkIS (i_flush_rows st) (i_splits st) [] (i_chunks st ++ [mkChunk LOrdinary (buffer_rows (i_buffer st))])
  end.

(* append_to_buffer_and_maybe_flush (the size-based triggers and BufferFull are
   not modelled: the harness configures them out of reach) *)
Definition append_and_maybe_flush (st : istate) (b : ibatch) : istate :=
  let st1 := match i_buffer st with
             | first :: _ => if N.eqb (ib_schema first) (ib_schema b) then st else flush_buffer st
             | [] => st
             end in
  let st2 := mkIS (i_flush_rows st1) (i_splits st1) (i_buffer st1 ++ [b]) (i_chunks st1) in
  if (i_flush_rows st2 <=? N.of_nat (length (buffer_rows (i_buffer st2))))%N then flush_buffer st2 else st2.

Definition add_chunk (st : istate) (shard : N) (rows : list row) : istate :=
  mkIS (i_flush_rows st) (i_splits st) (i_buffer st) (i_chunks st ++ [mkChunk (LNew shard) rows]).

(* `if batch_x.num_rows() > 0 { write_to_shard(&batch_x, &split_state.new_shards[k]) }`
   — indexing a too short new_shards vector panics *)
Definition write_side (st : istate) (news : list N) (k : nat) (rows : list row) : istate * outcome unit :=
  match rows with
  | [] => (st, Done tt)
  | _ => match nth_error news k with
         | Some s => (add_chunk st s rows, Done tt)
         | None => (st, Panic)
         end
  end.

(* write_with_split_awareness: old-shard buffer first, then the split, then one
   direct chunk per non-empty side.  A failing split leaves the batch in the
   old buffer (the write is reported as an error nevertheless). *)
Definition write_with_split_awareness (st : istate) (ss : split_state) (b : ibatch) : istate * outcome unit :=
  let st1 := append_and_maybe_flush st b in
  match split_batch_by_key b (ss_point ss) with
  | Done (lo, up) =>
      match write_side st1 (ss_new ss) 0 lo with
      | (st2, Done _) => write_side st2 (ss_new ss) 1 up
      | (st2, o) => (st2, o)
      end
  | Failed c => (st1, Failed c)
  | Panic => (st1, Panic)
  | Hang => (st1, Hang)
  end.

(* Ingester::write for a batch whose compute_shard_id is [sid] *)
Definition write (st : istate) (sid : N) (b : ibatch) : istate * outcome unit :=
  match aget N.eqb sid (i_splits st) with
  | Some ss => if is_dual (ss_phase ss) then write_with_split_awareness st ss b
               else (append_and_maybe_flush st b, Done tt)
  | None => (append_and_maybe_flush st b, Done tt)
  end.

Definition set_splits (st : istate) (s : list (N * split_state)) : istate :=
  mkIS (i_flush_rows st) s (i_buffer st) (i_chunks st).

Definition start_split (st : istate) (sid : N) (news point : list N) : istate :=
  set_splits st (aset N.eqb sid (mkSS PPrep news point) (i_splits st)).
Definition update_split_progress (st : istate) (sid : N) (p : phase) : istate :=
  match aget N.eqb sid (i_splits st) with
  | Some ss => set_splits st (aset N.eqb sid (mkSS p (ss_new ss) (ss_point ss)) (i_splits st))
  | None => st
  end.
Definition complete_split (st : istate) (sid : N) : istate :=
  set_splits st (adel N.eqb sid (i_splits st)).

(* has_active_split: ANY shard in DualWrite or Backfill *)
Definition has_active_split (st : istate) : bool :=
  existsb (fun e => is_dual (ss_phase (snd e))) (i_splits st).

Definition is_old (c : chunk) : bool := match c_loc c with LNew _ => false | _ => true end.
Definition in_shard (s : N) (c : chunk) : bool := match c_loc c with LNew s' => N.eqb s' s | _ => false end.
Definition is_hist (sid : N) (c : chunk) : bool := match c_loc c with LHist s' => N.eqb s' sid | _ => false end.

(* The splitter's back-fill (ShardSplitter::run_backfill, first run for the
   shard): the phase is set to Backfill, then every historical chunk of the old
   shard is split at the split point (splitter.rs split_batch: same rule as
   split_batch_by_key) and one copy chunk per non-empty side is registered
   under the new shards.  Chunks hold fewer rows than the reader's batch size,
   so one source chunk yields at most one copy per side. *)
Fixpoint backfill_chunks (sp : option Z) (news : list N) (hist : list chunk) : list chunk * outcome unit :=
  match hist with
  | [] => ([], Done tt)
  | c :: rest =>
      match sp with
      | None => ([], Failed E_INTERNAL)
      | Some p =>
          let lo := filter (lower_side p) (c_rows c) in
          let up := filter (upper_side p) (c_rows c) in
          match lo, nth_error news 0 with
          | _ :: _, None => ([], Panic)
          | _, a0 =>
              let ca := match lo, a0 with _ :: _, Some s => [mkChunk (LNew s) lo] | _, _ => [] end in
              match up, nth_error news 1 with
              | _ :: _, None => (ca, Panic)
              | _, a1 =>
                  let cb := match up, a1 with _ :: _, Some s => [mkChunk (LNew s) up] | _, _ => [] end in
                  let '(more, o) := backfill_chunks sp news rest in (ca ++ cb ++ more, o)
              end
          end
      end
  end.

Definition run_backfill (st : istate) (sid : N) : istate * outcome unit :=
  match aget N.eqb sid (i_splits st) with
  | None => (st, Done tt)       (* the harness only runs the back-fill of a planted split *)
  | Some ss =>
      let st1 := update_split_progress st sid PBackfill in
      let '(cs, o) := backfill_chunks (split_ts (ss_point ss)) (ss_new ss) (filter (is_hist sid) (i_chunks st)) in
      (mkIS (i_flush_rows st1) (i_splits st1) (i_buffer st1) (i_chunks st1 ++ cs), o)
  end.

(* a historical chunk of old shard sid, registered directly (data that existed
   before the split) *)
Definition add_hist (st : istate) (sid : N) (rows : list row) : istate :=
  mkIS (i_flush_rows st) (i_splits st) (i_buffer st) (i_chunks st ++ [mkChunk (LHist sid) rows]).

(* histories *)
Inductive hop :=
| HStart (sid : N) (news point : list N)
| HProgress (sid : N) (p : phase)
| HComplete (sid : N)
| HWrite (sid : N) (b : ibatch)
| HFlush
| HHist (sid : N) (rows : list row)
| HBackfill (sid : N).

Definition hstep (st : istate) (o : hop) : istate * outcome unit :=
  match o with
  | HStart sid news point => (start_split st sid news point, Done tt)
  | HProgress sid p => (update_split_progress st sid p, Done tt)
  | HComplete sid => (complete_split st sid, Done tt)
  | HWrite sid b => write st sid b
  | HFlush => (flush_buffer st, Done tt)
  | HHist sid rows => (add_hist st sid rows, Done tt)
  | HBackfill sid => run_backfill st sid
  end.
Definition hrun (st : istate) (h : list hop) : istate :=
  fold_left (fun s o => fst (hstep s o)) h st.

Definition rows_where (p : chunk -> bool) (cs : list chunk) : list row := concat (map c_rows (filter p cs)).
Definition old_rows (st : istate) : list row := rows_where is_old (i_chunks st).
Definition new_rows (st : istate) : list row := rows_where (fun c => negb (is_old c)) (i_chunks st).
Definition shard_rows (st : istate) (s : N) : list row := rows_where (in_shard s) (i_chunks st).
(* everything the old shard holds: flushed chunks followed by the buffer *)
Definition stored (st : istate) : list row := old_rows st ++ buffer_rows (i_buffer st).
(* rows an operation brings into the system *)
Definition op_rows (o : hop) : list row :=
  match o with HWrite _ b => ib_rows b | HHist _ rows => rows | _ => [] end.
Definition written_rows (h : list hop) : list row := concat (map op_rows h).

(* ------------------------------------------------------------------ *)
(* Part B — dedup_batches and the split-time read path                   *)
(* ------------------------------------------------------------------ *)
(* a result batch: which of the two gating columns it carries, and its rows
   (a row of a batch without the column has None in that field) *)
Record batch := mkBatch { b_has_ts : bool; b_has_metric : bool; b_rows : list row }.

Definition keyed (b : batch) : bool := b_has_ts b && b_has_metric b.

(* the keep-mask loop: NULL timestamps are always kept and never recorded;
   returns (seen', kept rows, any_dropped) *)
Fixpoint dedup_rows (seen : list row) (rows : list row) : list row * list row * bool :=
  match rows with
  | [] => (seen, [], false)
  | r :: rest =>
      match r_ts r with
      | None => let '(s, k, d) := dedup_rows seen rest in (s, r :: k, d)
      | Some _ =>
          if mem_row r seen
          then let '(s, k, _) := dedup_rows seen rest in (s, k, true)
          else let '(s, k, d) := dedup_rows (r :: seen) rest in (s, r :: k, d)
      end
  end.

Fixpoint dedup_batches_aux (seen : list row) (bs : list batch) : list batch :=
  match bs with
  | [] => []
  | b :: rest =>
      if keyed b then
        let '(seen', kept, dropped) := dedup_rows seen (b_rows b) in
        if dropped
        then match kept with
             | [] => dedup_batches_aux seen' rest                     (* filtered.num_rows() == 0: omitted *)
             | _ => mkBatch (b_has_ts b) (b_has_metric b) kept :: dedup_batches_aux seen' rest
             end
        else b :: dedup_batches_aux seen' rest
      else b :: dedup_batches_aux seen rest                            (* pass-through *)
  end.
Definition dedup_batches (bs : list batch) : list batch := dedup_batches_aux [] bs.

Definition result_rows (bs : list batch) : list row := concat (map b_rows bs).

(* The dedup key before the repair: (timestamp, metric name with NULL read as
   the empty string, interned as 0) — kept only to state what was repaired. *)
Definition legacy_key_eqb (a b : row) : bool :=
  optZ_eqb (r_ts a) (r_ts b) &&
  N.eqb (match r_metric a with Some m => m | None => 0%N end) (match r_metric b with Some m => m | None => 0%N end).
Fixpoint legacy_mem (r : row) (l : list row) : bool :=
  match l with [] => false | x :: l' => legacy_key_eqb r x || legacy_mem r l' end.
Fixpoint legacy_dedup_rows (seen : list row) (rows : list row) : list row :=
  match rows with
  | [] => []
  | r :: rest =>
      match r_ts r with
      | None => r :: legacy_dedup_rows seen rest
      | Some _ => if legacy_mem r seen then legacy_dedup_rows seen rest
                  else r :: legacy_dedup_rows (r :: seen) rest
      end
  end.

(* queries of the C04 family: a finite time window, optionally one metric *)
Record wherep := mkWhere { w_lo : Z; w_hi : Z; w_metric : option N }.
Definition where_row (w : wherep) (r : row) : bool :=
  match r_ts r with
  | Some t => (w_lo w <=? t) && (t <=? w_hi w) &&
              match w_metric w with
              | None => true
              | Some m => match r_metric r with Some m' => N.eqb m m' | None => false end
              end
  | None => false
  end.

Inductive post :=
| PRaw (keep_ts keep_metric keep_rest : bool)   (* SELECT <columns> *)
| PCount                                         (* SELECT COUNT( * ) *)
| PSum (i : nat)                                 (* SELECT SUM(<i-th other column>) *)
| PCountByKey                                    (* SELECT timestamp, metric_name, COUNT( * ) GROUP BY 1, 2 *)
| PCountByMetric.                                (* SELECT metric_name, COUNT( * ) GROUP BY 1 *)

Record query := mkQuery { q_where : wherep; q_post : post }.

Definition proj_row (kt km kr : bool) (r : row) : row :=
  mkRow (if kt then r_ts r else None) (if km then r_metric r else None) (if kr then r_rest r else []).

Definition NULL_TOKEN : Z := 2 ^ 63.   (* outside i64: the SQL NULL of an aggregate over no rows *)

Definition sum_col (i : nat) (rows : list row) : Z :=
  match rows with
  | [] => NULL_TOKEN
  | _ => fold_left (fun acc r => acc + nth i (r_rest r) 0) rows 0
  end.

(* groups in first-occurrence order, with counts *)
Fixpoint bump_group (k : row) (g : list (row * Z)) : list (row * Z) :=
  match g with
  | [] => [(k, 1)]
  | (k', n) :: g' => if row_eqb k k' then (k', n + 1) :: g' else (k', n) :: bump_group k g'
  end.
Definition group_count (key : row -> row) (rows : list row) : list row :=
  map (fun e => mkRow (r_ts (fst e)) (r_metric (fst e)) [snd e])
      (fold_left (fun g r => bump_group (key r) g) rows []).

Definition post_apply (p : post) (chunks : list (list row)) : list batch :=
  match p with
  | PRaw kt km kr => map (fun rows => mkBatch kt km (map (proj_row kt km kr) rows)) chunks
  | PCount => [mkBatch false false [mkRow None None [Z.of_nat (length (concat chunks))]]]
  | PSum i => [mkBatch false false [mkRow None None [sum_col i (concat chunks)]]]
  | PCountByKey => [mkBatch true true (group_count (proj_row true true false) (concat chunks))]
  | PCountByMetric => [mkBatch false true (group_count (proj_row false true false) (concat chunks))]
  end.

(* query_for_tenant over the scanned chunks: the engine evaluates
   post (filter where rows); the de-duplication runs afterwards, on the result *)
Definition run_query (dedup : bool) (q : query) (chunks : list (list row)) : list batch :=
  let res := post_apply (q_post q) (map (filter (where_row (q_where q))) chunks) in
  if dedup then dedup_batches res else res.

Definition scan (st : istate) : list (list row) := map c_rows (i_chunks st).
Definition query_state (st : istate) (q : query) : list batch :=
  run_query (has_active_split st) q (scan st).

(* ------------------------------------------------------------------ *)
(* Known classes of inexact split-time reads (executable classifier)     *)
(* ------------------------------------------------------------------ *)
Inductive kclass :=
| KNone
| KAggregate     (* aggregate computed before the de-duplication: inflated by the double-written copies *)
| KProjection    (* raw rows without timestamp or metric_name: not de-duplicated at all *)
| KIdentical.    (* genuinely distinct ingested rows identical on every selected column: collapsed into one *)

(* [ing] = the rows ingested (each once), i.e. the data without a split *)
Definition known_class (ing : list row) (q : query) : kclass :=
  match q_post q with
  | PRaw kt km kr =>
      if kt && km
      then if has_dup (map (proj_row kt km kr) (filter (where_row (q_where q)) ing)) then KIdentical else KNone
      else KProjection
  | _ => KAggregate
  end.
