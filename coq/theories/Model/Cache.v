(* Model/Cache.v — C16: the tiered cache (src/query/cache.rs) behind the caching
   object store (src/query/cached_store.rs).  Definitions only.

   What is modelled, following the Rust control flow:

   * the backing object store: a write-once association list key -> object
     that only grows by appending (a PUT of an existing key is rejected:
     PutMode::Create).  An object carries its bytes, its ETag and its
     modification time, because conditional reads are decided on them
     (object_store::GetOptions::check_preconditions, InMemory::get_opts).
   * L1 (moka) and the optional L2 (foyer) as partial maps key -> bytes.  Sizes,
     weights, admission and eviction policies are NOT modelled; instead an
     eviction oracle may remove any entry of any tier between any two steps
     (events EEvict1 / EEvict2), and any single lookup may come back empty
     although the tier holds the key (event EStepMiss).  The only thing
     assumed of moka / foyer is their key -> value contract: a lookup returns
     the value last inserted under that key, or nothing.
   * TieredCache::get_or_fetch as the step sequence the code performs:
       L1 lookup; L2 lookup; (L2 hit) promotion into L1;
       (miss) fetch from the inner store; insert L2; insert L1.
     Nothing is inserted when the fetch fails (the `?` returns first).
   * CachedObjectStore: `get` goes through the cache under the key
     `location.to_string()`; `get_opts` bypasses the cache when the request
     carries a range, an ETag condition, a date condition, a version or the
     head flag (the date / version / head part is the fix: commit 595f54b;
     before it those requests were answered by the whole-object cached path,
     ignoring the condition); `get_range` and `head` always go to the inner
     store.  Errors of the cached path are re-wrapped: an inner error e comes
     back as Generic{store:"CachedObjectStore", source: crate::Error::ObjectStore(e)}.
   * any number of readers, interleaved at step granularity with each other,
     with evictions and with writers creating new objects. *)
From CS Require Import Base.Prelude.
Open Scope N_scope.

Definition key := N.               (* an object path, interned *)
Definition bytes := list N.

Record obj := mkObj { o_data : bytes; o_etag : N; o_mtime : Z }.
Definition store := list (key * obj).
Definition kvmap := list (key * bytes).

(* error kinds (object_store::Error variants as the harness canonicalises them) *)
Definition E_NOTFOUND : N := 1.
Definition E_PRECOND : N := 2.    (* Error::Precondition *)
Definition E_NOTMOD : N := 3.     (* Error::NotModified *)
Definition E_RANGE : N := 4.      (* Generic{store:"InMemory"}: invalid range *)
Definition E_EXISTS : N := 5.     (* Error::AlreadyExists *)
(* Generic{store:"CachedObjectStore", source: ObjectStore(e)} *)
Definition E_WRAP (e : N) : N := 100 + e.

(* ---- byte slicing with binary counters (no nat) ---- *)
Fixpoint lenN (l : bytes) : N := match l with [] => 0 | _ :: r => N.succ (lenN r) end.
Fixpoint skipN (n : N) (l : bytes) : bytes :=
  match l with [] => [] | _ :: r => if n =? 0 then l else skipN (N.pred n) r end.
Fixpoint takeN (n : N) (l : bytes) : bytes :=
  match l with [] => [] | x :: r => if n =? 0 then [] else x :: takeN (N.pred n) r end.
Definition slice (lo hi : N) (l : bytes) : bytes := takeN (hi - lo) (skipN lo l).

(* ---- GetOptions ---- *)
Inductive range := RBounded (s e : N) | ROffset (o : N) | RSuffix (n : N).
(* an If-Match / If-None-Match header: "*" or a comma separated list of tags *)
Inductive etagc := EStar | ETags (l : list N).
Record getopts := mkOpts {
  g_range : option range;
  g_if_match : option etagc;
  g_if_none_match : option etagc;
  g_if_mod : option Z;          (* if_modified_since, ns *)
  g_if_unmod : option Z;        (* if_unmodified_since, ns *)
  g_version : bool;             (* a version string is given *)
  g_head : bool }.
Definition default_opts : getopts := mkOpts None None None None None false false.
Definition range_opts (r : range) : getopts := mkOpts (Some r) None None None None false false.
Definition head_opts : getopts := mkOpts None None None None None false true.

(* what a successful read hands back: payload, GetResult.range, meta.size *)
Record resp := mkResp { r_data : bytes; r_lo : N; r_hi : N; r_size : N }.
Definition whole_resp (b : bytes) : resp := mkResp b 0 (lenN b) (lenN b).

(* ---- the backing store (object_store InMemory) ---- *)
Definition tag_matches (c : etagc) (etag : N) : bool :=
  match c with EStar => true | ETags l => memN etag l end.

(* GetOptions::check_preconditions: Some e = the request fails with e *)
Definition check_pre (o : getopts) (ob : obj) : option N :=
  let first :=
    match g_if_match o with
    | Some m => if tag_matches m (o_etag ob) then None else Some E_PRECOND
    | None => match g_if_unmod o with
              | Some d => if Z.ltb d (o_mtime ob) then Some E_PRECOND else None
              | None => None
              end
    end in
  match first with
  | Some e => Some e
  | None =>
    match g_if_none_match o with
    | Some m => if tag_matches m (o_etag ob) then Some E_NOTMOD else None
    | None => match g_if_mod o with
              | Some d => if Z.leb (o_mtime ob) d then Some E_NOTMOD else None
              | None => None
              end
    end
  end.

(* GetRange::as_range *)
Definition as_range (r : range) (len : N) : option (N * N) :=
  match r with
  | RBounded s e => if e <=? s then None
                    else if len <=? s then None
                    else if len <? e then Some (s, len) else Some (s, e)
  | ROffset o => if len <=? o then None else Some (o, len)
  | RSuffix n => Some (len - n, len)
  end.

(* InMemory::get_opts (version and head are ignored by InMemory) *)
Definition store_get_opts (st : store) (k : key) (o : getopts) : outcome resp :=
  match aget N.eqb k st with
  | None => Failed E_NOTFOUND
  | Some ob =>
    match check_pre o ob with
    | Some e => Failed e
    | None =>
      let len := lenN (o_data ob) in
      match g_range o with
      | None => Done (mkResp (o_data ob) 0 len len)
      | Some r => match as_range r len with
                  | None => Failed E_RANGE
                  | Some (lo, hi) => Done (mkResp (slice lo hi (o_data ob)) lo hi len)
                  end
      end
    end
  end.

(* a new-object write (PutMode::Create): rejected when the key exists *)
Definition store_put (st : store) (k : key) (o : obj) : store * outcome unit :=
  match aget N.eqb k st with
  | Some _ => (st, Failed E_EXISTS)
  | None => (st ++ [(k, o)], Done tt)
  end.

(* ---- requests at the ObjectStore API of CachedObjectStore ---- *)
Inductive req :=
| QGet (k : key)                       (* get *)
| QGetOpts (k : key) (o : getopts)     (* get_opts *)
| QGetRange (k : key) (s e : N)        (* get_range *)
| QHead (k : key).                     (* head *)

Definition rkey (q : req) : key :=
  match q with QGet k | QGetOpts k _ | QGetRange k _ _ | QHead k => k end.

(* the same request issued directly against the backing store: the reference
   answer ("what the backing store holds") *)
Definition store_read (st : store) (q : req) : outcome resp :=
  match q with
  | QGet k => store_get_opts st k default_opts
  | QGetOpts k o => store_get_opts st k o
  | QGetRange k s e => store_get_opts st k (range_opts (RBounded s e))
  | QHead k => match store_get_opts st k head_opts with
               | Done r => Done (mkResp [] 0 0 (r_size r))
               | x => x
               end
  end.

(* cached_store.rs get_opts: the bypass test *)
Definition opt_some {A} (x : option A) : bool := match x with Some _ => true | None => false end.
Definition bypasses (o : getopts) : bool :=
  opt_some (g_range o) || opt_some (g_if_match o) || opt_some (g_if_none_match o)
  || opt_some (g_if_mod o) || opt_some (g_if_unmod o) || g_version o || g_head o.

Definition uses_cache (q : req) : bool :=
  match q with
  | QGet _ => true
  | QGetOpts _ o => negb (bypasses o)
  | QGetRange _ _ _ | QHead _ => false
  end.

(* the cache key: `location.to_string()`.  A Path is a wrapper around its
   string, so the key IS the path. *)
Definition cache_key (k : key) : key := k.

(* errors of the cached path come back wrapped *)
Definition view (q : req) (x : outcome resp) : outcome resp :=
  if uses_cache q then match x with Failed e => Failed (E_WRAP e) | y => y end else x.

(* ---- readers ---- *)
Inductive pc :=
| PStart                 (* about to look up L1 *)
| PL2                    (* L1 missed; about to look up L2 (if configured) *)
| PPromote (b : bytes)   (* L2 hit; about to insert into L1 *)
| PFetch                 (* both missed; about to call inner.get *)
| PInsL2 (b : bytes)     (* fetched; about to insert into L2 (if configured) *)
| PInsL1 (b : bytes)     (* about to insert into L1 *)
| PBypass                (* about to forward the request to the inner store *)
| PDone (r : outcome resp).

(* t_born is a history variable (the store when the reader arrived); no step reads it *)
Record thread := mkThread { t_req : req; t_born : store; t_pc : pc }.

Record sys := mkSys {
  s_store : store;
  s_l1 : kvmap;
  s_l2 : option kvmap;         (* None = no L2 configured *)
  s_threads : list thread }.

Definition init (st : store) (l2_on : bool) : sys :=
  mkSys st [] (if l2_on then Some [] else None) [].

Definition first_pc (q : req) : pc := if uses_cache q then PStart else PBypass.

(* one step of a reader: new pc, new L1, new L2 *)
Definition tstep (st : store) (l1 : kvmap) (l2 : option kvmap) (q : req) (p : pc)
  : pc * kvmap * option kvmap :=
  let k := cache_key (rkey q) in
  match p with
  | PStart =>
      match aget N.eqb k l1 with
      | Some b => (PDone (Done (whole_resp b)), l1, l2)
      | None => (PL2, l1, l2)
      end
  | PL2 =>
      match l2 with
      | None => (PFetch, l1, l2)
      | Some m => match aget N.eqb k m with
                  | Some b => (PPromote b, l1, l2)
                  | None => (PFetch, l1, l2)
                  end
      end
  | PPromote b => (PDone (Done (whole_resp b)), aset N.eqb k b l1, l2)
  | PFetch =>
      match store_get_opts st (rkey q) default_opts with
      | Done r => (PInsL2 (r_data r), l1, l2)
      | Failed e => (PDone (Failed (E_WRAP e)), l1, l2)
      | Panic => (PDone Panic, l1, l2)
      | Hang => (PDone Hang, l1, l2)
      end
  | PInsL2 b => (PInsL1 b, l1, option_map (aset N.eqb k b) l2)
  | PInsL1 b => (PDone (Done (whole_resp b)), aset N.eqb k b l1, l2)
  | PBypass => (PDone (store_read st q), l1, l2)
  | PDone r => (PDone r, l1, l2)
  end.

(* The same step when the cache answers "nothing" to a lookup although it may
   hold the key (the contract of moka / foyer only promises: the value last
   inserted under the key, OR NOTHING — foyer was observed to miss a key and
   to serve it again later without any insert in between, when a flush to
   disk was in flight).  Steps that are not lookups are unchanged. *)
Definition tstep_miss (st : store) (l1 : kvmap) (l2 : option kvmap) (q : req) (p : pc)
  : pc * kvmap * option kvmap :=
  match p with
  | PStart => (PL2, l1, l2)
  | PL2 => (PFetch, l1, l2)
  | _ => tstep st l1 l2 q p
  end.

Definition tstep_gen (miss : bool) := if miss then tstep_miss else tstep.

Fixpoint set_nth {A} (i : nat) (x : A) (l : list A) : list A :=
  match l, i with
  | [], _ => []
  | _ :: r, O => x :: r
  | y :: r, S j => y :: set_nth j x r
  end.

(* ---- scheduler alphabet ---- *)
Inductive event :=
| EStart (q : req)            (* a reader arrives *)
| EStep (i : nat)             (* reader i performs its next step *)
| EStepMiss (i : nat)         (* ... and if that step is a cache lookup, the cache answers "nothing" *)
| EEvict1 (k : key)           (* the eviction oracle drops k from L1 *)
| EEvict2 (k : key)           (* ... from L2 *)
| EPut (k : key) (o : obj).   (* a writer creates a new object *)

Definition do_step (miss : bool) (s : sys) (i : nat) : sys :=
  match nth_error (s_threads s) i with
  | None => s
  | Some t =>
      match tstep_gen miss (s_store s) (s_l1 s) (s_l2 s) (t_req t) (t_pc t) with
      | (p', l1', l2') =>
          mkSys (s_store s) l1' l2'
                (set_nth i (mkThread (t_req t) (t_born t) p') (s_threads s))
      end
  end.

Definition apply_event (s : sys) (e : event) : sys :=
  match e with
  | EStart q =>
      mkSys (s_store s) (s_l1 s) (s_l2 s)
            (s_threads s ++ [mkThread q (s_store s) (first_pc q)])
  | EStep i => do_step false s i
  | EStepMiss i => do_step true s i
  | EEvict1 k => mkSys (s_store s) (adel N.eqb k (s_l1 s)) (s_l2 s) (s_threads s)
  | EEvict2 k => mkSys (s_store s) (s_l1 s) (option_map (adel N.eqb k) (s_l2 s)) (s_threads s)
  | EPut k o => mkSys (fst (store_put (s_store s) k o)) (s_l1 s) (s_l2 s) (s_threads s)
  end.

Definition run (sched : list event) (s : sys) : sys := fold_left apply_event sched s.

Definition result_of (s : sys) (i : nat) : option (outcome resp) :=
  match nth_error (s_threads s) i with
  | Some t => match t_pc t with PDone r => Some r | _ => None end
  | None => None
  end.

(* ---- sequential histories: one operation at a time, each read runs to
   completion; the eviction oracle acts before each of its steps ---- *)
Inductive evict := Ev1 (k : key) | Ev2 (k : key).
Definition evict_event (e : evict) : event := match e with Ev1 k => EEvict1 k | Ev2 k => EEvict2 k end.

Inductive sop :=
| OPut (k : key) (o : obj)
| ORead (q : req) (ev : list (list evict * bool)).
    (* ev: for step 1, 2, ...: the evictions before it, and whether a lookup
       performed by it is answered "nothing" regardless of the tier's content *)

Definition max_steps : nat := 5.

(* the schedule of one sequential read by reader i: evictions, step, evictions, step ... *)
Fixpoint read_sched (i : nat) (fuel : nat) (ev : list (list evict * bool)) : list event :=
  match fuel with
  | O => []
  | S f => map evict_event (fst (hd ([], false) ev))
           ++ (if snd (hd ([], false) ev) then EStepMiss i else EStep i) :: read_sched i f (tl ev)
  end.

Definition sop_sched (i : nat) (o : sop) : list event :=
  match o with
  | OPut k ob => [EPut k ob]
  | ORead q ev => EStart q :: read_sched i max_steps ev
  end.

(* runs a history; returns the final state and the result of every read, in order *)
Fixpoint seq_run (h : list sop) (s : sys) (acc : list (option (outcome resp)))
  : sys * list (option (outcome resp)) :=
  match h with
  | [] => (s, rev acc)
  | o :: r =>
      let i := length (s_threads s) in
      let s' := run (sop_sched i o) s in
      match o with
      | OPut _ _ => seq_run r s' acc
      | ORead _ _ => seq_run r s' (result_of s' i :: acc)
      end
  end.

(* which tier would answer a lookup right now (used by the correspondence to
   check the tier the implementation reports against what was inserted) *)
Definition in_l1 (s : sys) (k : key) : bool := amem N.eqb (cache_key k) (s_l1 s).
Definition in_l2 (s : sys) (k : key) : bool :=
  match s_l2 s with Some m => amem N.eqb (cache_key k) m | None => false end.
