(* Model/Gc.v — executable model of the compactor's garbage collection,
   retention pass, persisted pending deletions and the chunk pin registry (C09).

   Follows src/compactor/mod.rs (garbage_collect, schedule_deletion,
   enforce_retention, persist_pending_deletions, load_pending_deletions, run,
   run_compaction_cycle, the schedule_deletion calls of compact_l0 /
   compact_level), src/compactor/pins.rs (ChunkPinRegistry, PinGuard),
   src/clock.rs (BoundedClock::retention_cutoff_nanos) and the pin / unpin
   bracket of QueryNode::query_for_tenant (src/query/mod.rs).

   One step = one atomic piece of the code at await granularity:
     * GcFilter   — the synchronous head of garbage_collect: one wall-clock
                    read, then ONE read of the pending list and of the pin
                    registry under the read lock (no await inside);
     * GcDelete p — one `object_store.delete(p).await` of the loop that follows;
     * GcEnd      — `pending.retain(|e| !chunks_to_delete.contains(&e.path))`;
     * GcAtomic   — a variant that does not exist in the code: filter, every
                    delete and the retain in a single step (used to state what
                    an atomic "delete-if-unpinned" pass would guarantee);
     * Retention  — enforce_retention (as repaired: candidates from
                    get_chunks(i64::MIN ..= cutoff), kept only when
                    max_timestamp < cutoff; each is dropped from the catalog and
                    scheduled);
     * Swap       — complete_compaction(srcs, tgt) followed by
                    schedule_deletion of every source (compact_l0/compact_level);
     * PersistSnap / PersistPut — persist_pending_deletions: the list is
                    serialised first (no await up to here since the retention
                    pass), the PUT of those bytes is a separate request;
     * Restart / Load — new Compactor, load_pending_deletions;
     * QGet / QStale / QPin / QRead / QUnpin — a query: chunk list from the
                    catalog (fresh or stale view), pin, read, guard drop;
     * Tick       — the only way the wall clock moves; a negative tick is a clock
                    stepped back (garbage_collect / schedule_deletion read the raw
                    wall clock, the retention cut-off comes from the BoundedClock,
                    which never goes backwards: field hw);
     * DiskEdit   — pending-deletions.json extended from outside the compactor
                    under test (entries dated in the future, the past, now);
     * SwapFail   — complete_compaction failed: nothing swapped, nothing scheduled.

   Time is in nanoseconds (Z).  Only definitions here. *)
From CS Require Import Base.Prelude.
From CSGen Require Import Consts.
Open Scope Z_scope.

Definition path := N.

(* configuration: gc_grace_period (ns), retention_days (u32), max clock skew of
   the BoundedClock (ns) *)
Record gcfg := mkCfg { g_grace : Z; g_retention_days : Z; g_skew : Z }.

(* `retention_days as i64 * 24 * 3600 * 1_000_000_000`, saturating at i64::MAX *)
Definition ret_nanos (c : gcfg) : Z :=
  Z.min (g_retention_days c * Consts.GC_NANOS_PER_DAY) i64_max.

(* BoundedClock::retention_cutoff_nanos *)
Definition ret_cutoff (c : gcfg) (now : Z) : Z := now - ret_nanos c - g_skew c.

(* the default skew of `BoundedClock::default()` that Compactor::new installs *)
Definition default_skew : Z := Consts.GC_DEFAULT_SKEW_SECS * 1000000000.

Record qstate := mkQ { q_paths : list path; q_pinned : bool }.

(* ghost logs *)
Record delev := mkDev { d_path : path; d_time : Z; d_pinned : bool }. (* object delete; pinned at that instant? *)
Record retev := mkRev { r_path : path; r_max : Z; r_cutoff : Z }.      (* retention removal *)
Record qryev := mkQev { qe_q : N; qe_missing : list path }.             (* files a query could not read *)

Record st := mkSt {
  now : Z;                          (* wall clock reading (chrono::Utc::now); may be stepped back *)
  hw : Z;                           (* BoundedClock::high_water_ns of the running compactor *)
  cat : list (path * (Z * Z));      (* live catalog: path -> (min_ts, max_ts) *)
  ever : list path;                 (* ghost: every path ever registered or scheduled *)
  pending : list (path * Z);        (* Compactor::pending_deletions (volatile): path, scheduled_at *)
  disk : list (path * Z);           (* <tenant>/metadata/pending-deletions.json ([] = absent) *)
  psnap : list (path * Z);          (* bytes serialised by persist_pending_deletions, PUT not yet done *)
  pins : list path;                 (* ChunkPinRegistry as a multiset *)
  objs : list path;                 (* data files present in the object store *)
  gc_active : bool;                 (* a GC pass is between its filter and its retain *)
  gcsel : list path;                (* chunks_to_delete still to be deleted *)
  gcall : list path;                (* chunks_to_delete of the running pass *)
  gc_cutoff : Z;                    (* `cutoff` local of the running pass *)
  queries : list (N * qstate);
  dlog : list delev;                  (* newest first *)
  rlog : list retev;
  qlog : list qryev
}.

Definition init (t0 : Z) : st :=
  mkSt t0 0 [] [] [] [] [] [] [] false [] [] 0 [] [] [] [].

(* ---------- small list helpers ---------- *)
Fixpoint remove1 (x : N) (l : list N) : list N :=
  match l with
  | [] => []
  | y :: r => if N.eqb x y then r else y :: remove1 x r
  end.

Definition remove_each (xs l : list N) : list N := fold_left (fun acc x => remove1 x acc) xs l.

Definition add_set (x : N) (l : list N) : list N := if memN x l then l else x :: l.

Definition cat_remove (ps : list path) (c : list (path * (Z * Z))) : list (path * (Z * Z)) :=
  filter (fun '(p, _) => negb (memN p ps)) c.

(* TimeRange::overlaps, as used by get_chunks on both backends *)
Definition overlaps (cmin cmax s e : Z) : bool := (cmin <=? e) && (cmax >=? s).

(* get_chunks(range): live chunks whose closed interval meets the closed range;
   an inverted range is answered with the empty list (C07) *)
Definition get_chunks (c : list (path * (Z * Z))) (s e : Z) : list (path * (Z * Z)) :=
  if e <? s then [] else filter (fun '(_, (mn, mx)) => overlaps mn mx s e) c.

(* ---------- the GC filter ---------- *)
(* `.filter(|e| e.scheduled_at <= cutoff).filter(|e| !registry.is_pinned(&e.path))` *)
Definition gc_select (cutoff : Z) (pend : list (path * Z)) (pinned : list path) : list path :=
  map fst (filter (fun '(p, ts) => (ts <=? cutoff) && negb (memN p pinned)) pend).

(* `pending.retain(|entry| !chunks_to_delete.contains(&entry.path))` *)
Definition gc_retain (sel : list path) (pend : list (path * Z)) : list (path * Z) :=
  filter (fun '(p, _) => negb (memN p sel)) pend.

(* ---------- retention selection (repaired code) ---------- *)
(* candidates: get_chunks(TimeRange::new(i64::MIN, cutoff)); kept: max_timestamp < cutoff *)
Definition ret_select (cutoff : Z) (c : list (path * (Z * Z))) : list (path * (Z * Z)) :=
  filter (fun '(_, (_, mx)) => mx <? cutoff) (get_chunks c i64_min cutoff).

(* the selection of the code before the repair, kept for the refutation witness:
   get_chunks(TimeRange::new(0, cutoff)) with overlap semantics, no max test *)
Definition ret_select_overlap (cutoff : Z) (c : list (path * (Z * Z))) : list (path * (Z * Z)) :=
  get_chunks c 0 cutoff.

(* ---------- load: merge the file into the in-memory list ---------- *)
(* `for entry in loaded { if !pending.iter().any(|p| p.path == entry.path) { pending.push(entry) } }` *)
Definition load_merge (file pend : list (path * Z)) : list (path * Z) :=
  fold_left (fun acc '(p, ts) => if amem N.eqb p acc then acc else acc ++ [(p, ts)]) file pend.

(* ---------- steps ---------- *)
Inductive label :=
| Tick (d : Z)                      (* the wall clock moves by d; d < 0 = stepped back (NTP, operator) *)
| DiskEdit (es : list (path * Z))   (* entries appended to pending-deletions.json from outside
                                       (a predecessor whose clock ran ahead, an operator) *)
| SwapFail (srcs : list path) (tgt : path)  (* complete_compaction returned Err: `?` leaves compact_l0 *)
| Register (p : path) (mn mx : Z)
| Swap (srcs : list path) (tgt : path)
| GcFilter
| GcDelete (p : path)
| GcEnd
| GcAtomic
| Retention
| PersistSnap
| PersistPut
| Restart
| Load
| QGet (q : N) (s e : Z)
| QStale (q : N) (ps : list path)
| QPin (q : N)
| QRead (q : N)
| QUnpin (q : N)
| RetentionFail.                    (* enforce_retention read its cut-off, then its first delete_chunk failed *)

(* field updates, written out (no record-update syntax in plain Coq) *)
Definition with_now (s : st) (v : Z) : st :=
  mkSt v (hw s) (cat s) (ever s) (pending s) (disk s) (psnap s) (pins s) (objs s) (gc_active s) (gcsel s) (gcall s)
       (gc_cutoff s) (queries s) (dlog s) (rlog s) (qlog s).
Definition with_cat_sched (s : st) (c : list (path * (Z * Z))) (ev : list path) (pe : list (path * Z))
           (rl : list retev) : st :=
  mkSt (now s) (hw s) c ev pe (disk s) (psnap s) (pins s) (objs s) (gc_active s) (gcsel s) (gcall s)
       (gc_cutoff s) (queries s) (dlog s) rl (qlog s).
Definition with_register (s : st) (c : list (path * (Z * Z))) (ev ob : list path) : st :=
  mkSt (now s) (hw s) c ev (pending s) (disk s) (psnap s) (pins s) ob (gc_active s) (gcsel s) (gcall s)
       (gc_cutoff s) (queries s) (dlog s) (rlog s) (qlog s).
Definition with_gc (s : st) (pe : list (path * Z)) (ob : list path) (act : bool) (sel all : list path)
           (cut : Z) (dl : list delev) : st :=
  mkSt (now s) (hw s) (cat s) (ever s) pe (disk s) (psnap s) (pins s) ob act sel all cut (queries s) dl (rlog s) (qlog s).
Definition with_disk (s : st) (d sn : list (path * Z)) : st :=
  mkSt (now s) (hw s) (cat s) (ever s) (pending s) d sn (pins s) (objs s) (gc_active s) (gcsel s) (gcall s)
       (gc_cutoff s) (queries s) (dlog s) (rlog s) (qlog s).
Definition with_query (s : st) (pi : list path) (qs : list (N * qstate)) (ql : list qryev) : st :=
  mkSt (now s) (hw s) (cat s) (ever s) (pending s) (disk s) (psnap s) pi (objs s) (gc_active s) (gcsel s) (gcall s)
       (gc_cutoff s) qs (dlog s) (rlog s) ql.

Definition with_hw (s : st) (v : Z) : st :=
  mkSt (now s) v (cat s) (ever s) (pending s) (disk s) (psnap s) (pins s) (objs s) (gc_active s) (gcsel s)
       (gcall s) (gc_cutoff s) (queries s) (dlog s) (rlog s) (qlog s).
Definition with_disk_ever (s : st) (d : list (path * Z)) (ev : list path) : st :=
  mkSt (now s) (hw s) (cat s) ev (pending s) d (psnap s) (pins s) (objs s) (gc_active s) (gcsel s)
       (gcall s) (gc_cutoff s) (queries s) (dlog s) (rlog s) (qlog s).

(* BoundedClock::now_nanos: `wall.max(prev + 1)`, never backwards *)
Definition bclock (s : st) : Z := Z.max (now s) (hw s + 1).

Definition del_events (t : Z) (pinned : list path) (ps : list path) : list delev :=
  map (fun p => mkDev p t (memN p pinned)) ps.

Definition step (c : gcfg) (s : st) (x : label) : st :=
  match x with
  | Tick d => with_now s (now s + d)
  | DiskEdit es => with_disk_ever s (disk s ++ es) (map fst es ++ ever s)
  | SwapFail _ _ => s
  | Register p mn mx =>
      with_register s (aset N.eqb p (mn, mx) (cat s)) (add_set p (ever s)) (add_set p (objs s))
  | Swap srcs tgt =>
      let c1 := cat_remove srcs (cat s) in
      if amem N.eqb tgt c1
      then with_cat_sched s c1 (srcs ++ ever s) (pending s ++ map (fun p => (p, now s)) srcs) (rlog s)
      else s
  | GcFilter =>
      if gc_active s then s
      else
        let cutoff := now s - g_grace c in
        let sel := gc_select cutoff (pending s) (pins s) in
        match sel with
        | [] => s
        | _ => with_gc s (pending s) (objs s) true sel sel cutoff (dlog s)
        end
  | GcDelete p =>
      if gc_active s && memN p (gcsel s)
      then with_gc s (pending s) (removeN p (objs s)) true (remove1 p (gcsel s)) (gcall s) (gc_cutoff s)
                   (mkDev p (now s) (memN p (pins s)) :: dlog s)
      else s
  | GcEnd =>
      if gc_active s
      then match gcsel s with
           | [] => with_gc s (gc_retain (gcall s) (pending s)) (objs s) false [] [] (gc_cutoff s) (dlog s)
           | _ => s
           end
      else s
  | GcAtomic =>
      if gc_active s then s
      else
        let cutoff := now s - g_grace c in
        let sel := gc_select cutoff (pending s) (pins s) in
        with_gc s (gc_retain sel (pending s)) (filter (fun o => negb (memN o sel)) (objs s)) false [] []
                cutoff (rev (del_events (now s) (pins s) sel) ++ dlog s)
  | Retention =>
      let cutoff := ret_cutoff c (bclock s) in
      let sel := ret_select cutoff (cat s) in
      let ps := map fst sel in
      with_hw (with_cat_sched s (cat_remove ps (cat s)) (ever s) (pending s ++ map (fun p => (p, now s)) ps)
                              (rev (map (fun '(p, (_, mx)) => mkRev p mx cutoff) sel) ++ rlog s))
              (bclock s)
  | PersistSnap => with_disk s (disk s) (pending s)
  | PersistPut => with_disk s (psnap s) (psnap s)
  | Restart => with_hw (with_disk (with_gc s [] (objs s) false [] [] (gc_cutoff s) (dlog s)) (disk s) []) 0
  | Load => with_gc s (load_merge (disk s) (pending s)) (objs s) (gc_active s) (gcsel s) (gcall s)
                    (gc_cutoff s) (dlog s)
  | QGet q a b =>
      if amem N.eqb q (queries s) then s
      else with_query s (pins s) (queries s ++ [(q, mkQ (map fst (get_chunks (cat s) a b)) false)]) (qlog s)
  | QStale q ps =>
      if amem N.eqb q (queries s) then s
      else with_query s (pins s) (queries s ++ [(q, mkQ ps false)]) (qlog s)
  | QPin q =>
      match aget N.eqb q (queries s) with
      | Some (mkQ ps false) => with_query s (ps ++ pins s) (aset N.eqb q (mkQ ps true) (queries s)) (qlog s)
      | _ => s
      end
  | QRead q =>
      match aget N.eqb q (queries s) with
      | Some (mkQ ps true) =>
          with_query s (pins s) (queries s) (mkQev q (filter (fun p => negb (memN p (objs s))) ps) :: qlog s)
      | _ => s
      end
  | QUnpin q =>
      match aget N.eqb q (queries s) with
      | Some (mkQ ps true) => with_query s (remove_each ps (pins s)) (adel N.eqb q (queries s)) (qlog s)
      | _ => s
      end
  | RetentionFail => with_hw s (bclock s)
  end.

Definition run (c : gcfg) (h : list label) (s : st) : st := fold_left (step c) h s.

(* ---------- what a step deletes / schedules (used by the statements) ---------- *)
Definition deletes (c : gcfg) (s : st) (x : label) : list path :=
  match x with
  | GcDelete p => if gc_active s && memN p (gcsel s) then [p] else []
  | GcAtomic => if gc_active s then [] else gc_select (now s - g_grace c) (pending s) (pins s)
  | _ => []
  end.

Definition schedules (c : gcfg) (s : st) (x : label) : list path :=
  match x with
  | Swap srcs tgt => if amem N.eqb tgt (cat_remove srcs (cat s)) then srcs else []
  | Retention => map fst (ret_select (ret_cutoff c (bclock s)) (cat s))
  | _ => []
  end.

(* ---------- well-formed histories ---------- *)
(* chunk paths are generated from fresh uuids: a registration never reuses a
   path that was registered or scheduled before *)
Definition guard (s : st) (x : label) : bool :=
  match x with
  | Register p _ _ => negb (memN p (ever s))
  (* entries written from outside never name a chunk the catalog references
     (duplicates of live paths are out of scope) *)
  | DiskEdit es => forallb (fun '(p, _) => negb (amem N.eqb p (cat s))) es
  | _ => true
  end.

Fixpoint ok_from (c : gcfg) (s : st) (h : list label) : bool :=
  match h with
  | [] => true
  | x :: r => guard s x && ok_from c (step c s x) r
  end.

(* ---------- the known class: pin taken inside the GC's filter/delete window ---------- *)
(* a QPin step pins a path that the running GC pass has already selected and
   not yet deleted *)
Definition pin_in_window (s : st) (x : label) : bool :=
  match x with
  | QPin q =>
      match aget N.eqb q (queries s) with
      | Some (mkQ ps false) => existsb (fun p => memN p (gcsel s)) ps
      | _ => false
      end
  | _ => false
  end.

Fixpoint known_class_from (c : gcfg) (s : st) (h : list label) : bool :=
  match h with
  | [] => false
  | x :: r => pin_in_window s x || known_class_from c (step c s x) r
  end.

(* a query pins a chunk list that is still entirely in the catalog (what
   query_for_tenant does when its metadata view is current: get_chunks and pin
   with no await in between) *)
Definition pin_is_fresh (s : st) (x : label) : bool :=
  match x with
  | QPin q =>
      match aget N.eqb q (queries s) with
      | Some (mkQ ps false) => forallb (fun p => amem N.eqb p (cat s)) ps
      | _ => true
      end
  | _ => true
  end.

Fixpoint fresh_pins_from (c : gcfg) (s : st) (h : list label) : bool :=
  match h with
  | [] => true
  | x :: r => pin_is_fresh s x && fresh_pins_from c (step c s x) r
  end.

(* histories that use the atomic pass only *)
Definition is_split_gc (x : label) : bool :=
  match x with GcFilter | GcDelete _ | GcEnd => true | _ => false end.

(* ---------- composite driver steps (await granularity of run_compaction_cycle) ---------- *)
(* after the last delete of a pass the task runs on, without any await on the
   compactor's store handle, through the retain, enforce_retention and the
   serialisation of the pending list; it parks at the PUT of those bytes *)
Definition after_deletes (c : gcfg) (s : st) : st :=
  if gc_active s
  then match gcsel s with
       | [] => step c (step c (step c s GcEnd) Retention) PersistSnap
       | _ => s
       end
  else s.

(* start of a cycle up to its first store request *)
Definition drv_begin (c : gcfg) (s : st) : st :=
  let s1 := step c s GcFilter in
  if gc_active s1 then s1 else step c (step c s1 Retention) PersistSnap.

(* release one parked DELETE *)
Definition drv_delete (c : gcfg) (s : st) (p : path) : st :=
  if gc_active s && memN p (gcsel s) then after_deletes c (step c s (GcDelete p)) else s.

(* let the cycle run to completion: remaining deletes, retain, retention, persist *)
Definition drv_finish (c : gcfg) (s : st) : st :=
  let s1 := fold_left (fun a p => step c a (GcDelete p)) (gcsel s) s in
  step c (after_deletes c s1) PersistPut.

(* compactor restart: new Compactor, `run` loads the file and starts its first cycle *)
Definition drv_restart (c : gcfg) (s : st) : st :=
  drv_begin c (step c (step c s Restart) Load).

(* ---------- clock discipline and the time of a pass ---------- *)
Definition tick_nonneg (x : label) : bool :=
  match x with Tick d => 0 <=? d | _ => true end.

(* the wall-clock reading the pass that performs the delete took at its filter *)
Definition pass_time (c : gcfg) (s : st) (x : label) : Z :=
  match x with
  | GcDelete _ => gc_cutoff s + g_grace c
  | _ => now s
  end.

(* ---------- cycles cut short by a metadata error ---------- *)
(* enforce_retention fails at its first delete_chunk: `?` ends
   run_compaction_cycle after the GC part, before the persist *)
Definition after_deletes_x (c : gcfg) (s : st) : st :=
  if gc_active s
  then match gcsel s with
       | [] => step c (step c s GcEnd) RetentionFail
       | _ => s
       end
  else s.
Definition drv_begin_x (c : gcfg) (s : st) : st :=
  let s1 := step c s GcFilter in
  if gc_active s1 then s1 else step c s1 RetentionFail.
Definition drv_delete_x (c : gcfg) (s : st) (p : path) : st :=
  if gc_active s && memN p (gcsel s) then after_deletes_x c (step c s (GcDelete p)) else s.
Definition drv_finish_x (c : gcfg) (s : st) : st :=
  after_deletes_x c (fold_left (fun a p => step c a (GcDelete p)) (gcsel s) s).
