(* Model/StatsPrune.v — C12: statistics-based chunk pruning.
   Definitions only.  Transcribes, arm by arm,
     src/metadata/predicates.rs   ColumnPredicate::evaluate_against_stats and
                                  value_in_range / value_gte / value_lte / value_lt / value_gt
     src/metadata/s3.rs           the predicate gate of get_chunks_with_predicates
     src/query/engine.rs          convert_expr_to_predicate / convert_scalar_to_predicate_value
   as they are after the two `fix:` commits (separate LtEq / GtEq arms; NOT BETWEEN
   is no longer converted to BETWEEN).  The code before those commits is kept
   as [eval_stats_shared_arms] / [convert_negation_dropped] for the regression witnesses.

   Numbers: i64 / u64 are Z; f64 is Flocq's binary64 (built from the 64-bit
   pattern by the driver with b64_of_bits, compared with b64_compare, i.e. IEEE
   754 comparison: NaN unordered, -0 = +0); `n as f64` of an integer is
   round-to-nearest-even (binary_normalize mode_NE).  Strings are lists of
   bytes compared lexicographically (Rust's Ord for str). *)
From Coq Require Import List ZArith NArith Bool.
From Flocq Require Import IEEE754.BinarySingleNaN IEEE754.Binary IEEE754.Bits.
From CS Require Import Base.Prelude Base.F64Order.
Open Scope Z_scope.

Definition bytes := list N.
Definition colname := N.          (* interned column name; 0 = "timestamp", 1 = "time" *)

(* ------------------------------------------------------------------ *)
(* PredicateValue, serde_json::Value, ColumnStats                       *)

Inductive pval : Type :=
| PStr (s : bytes)
| PInt (i : Z)                    (* i64 *)
| PFloat (f : binary64)
| PBool (b : bool)
| PNull.

(* serde_json::Value.  Number is PosInt(u64) | NegInt(i64) | Float(finite f64):
   JInt carries the first two (-2^63 <= z < 2^64), JFloat the third. *)
Inductive json : Type :=
| JNull
| JBool (b : bool)
| JInt (z : Z)
| JFloat (f : binary64)
| JStr (s : bytes)
| JOther.                         (* array / object *)

Record cstats : Type := mkStats { st_min : json; st_max : json; st_has_nulls : bool }.
Definition stats := list (colname * cstats).   (* HashMap<String, ColumnStats> *)

(* `n as f64` for n : i64 / u64 is [Z2F] of Base/F64Order.v:
   binary_normalize 53 1024 _ _ mode_NE z 0 false *)

(* Value::as_i64 / as_f64 / as_str *)
Definition as_i64 (j : json) : option Z :=
  match j with JInt z => if in_i64 z then Some z else None | _ => None end.
Definition as_f64 (j : json) : option binary64 :=
  match j with JInt z => Some (Z2F z) | JFloat f => Some f | _ => None end.
Definition as_str (j : json) : option bytes :=
  match j with JStr s => Some s | _ => None end.

(* f64 comparison operators of Rust (IEEE 754) *)
Definition f_ge (a b : binary64) : bool :=
  match b64_compare a b with Some Gt | Some Eq => true | _ => false end.
Definition f_le (a b : binary64) : bool :=
  match b64_compare a b with Some Lt | Some Eq => true | _ => false end.
Definition f_gt (a b : binary64) : bool :=
  match b64_compare a b with Some Gt => true | _ => false end.
Definition f_lt (a b : binary64) : bool :=
  match b64_compare a b with Some Lt => true | _ => false end.

(* Ord for str: lexicographic on bytes, a proper prefix is smaller *)
Fixpoint bytes_cmp (a b : bytes) : comparison :=
  match a, b with
  | [], [] => Eq
  | [], _ :: _ => Lt
  | _ :: _, [] => Gt
  | x :: a', y :: b' =>
      match N.compare x y with Eq => bytes_cmp a' b' | c => c end
  end.
Definition s_ge (a b : bytes) : bool := match bytes_cmp a b with Lt => false | _ => true end.
Definition s_le (a b : bytes) : bool := match bytes_cmp a b with Gt => false | _ => true end.
Definition s_gt (a b : bytes) : bool := match bytes_cmp a b with Gt => true | _ => false end.
Definition s_lt (a b : bytes) : bool := match bytes_cmp a b with Lt => true | _ => false end.

(* fn value_in_range(val, min, max) *)
Definition value_in_range (v : pval) (mn mx : json) : bool :=
  match v with
  | PStr s =>
      match as_str mn, as_str mx with
      | Some a, Some b => s_ge s a && s_le s b
      | _, _ => true
      end
  | PInt i =>
      match as_i64 mn, as_i64 mx with
      | Some a, Some b => (i >=? a) && (i <=? b)
      | _, _ => true
      end
  | PFloat f =>
      match as_f64 mn, as_f64 mx with
      | Some a, Some b => f_ge f a && f_le f b
      | _, _ => true
      end
  | PBool _ => true
  | PNull => true
  end.

(* fn value_gte / value_lte / value_lt / value_gt (val: &Value, other: &PredicateValue):
   `.map(|v| v OP x).unwrap_or(false)`, `_ => false` *)
Definition value_gte (v : json) (o : pval) : bool :=
  match o with
  | PInt i => match as_i64 v with Some x => x >=? i | None => false end
  | PFloat f => match as_f64 v with Some x => f_ge x f | None => false end
  | PStr s => match as_str v with Some x => s_ge x s | None => false end
  | _ => false
  end.
Definition value_lte (v : json) (o : pval) : bool :=
  match o with
  | PInt i => match as_i64 v with Some x => x <=? i | None => false end
  | PFloat f => match as_f64 v with Some x => f_le x f | None => false end
  | PStr s => match as_str v with Some x => s_le x s | None => false end
  | _ => false
  end.
Definition value_lt (v : json) (o : pval) : bool :=
  match o with
  | PInt i => match as_i64 v with Some x => x <? i | None => false end
  | PFloat f => match as_f64 v with Some x => f_lt x f | None => false end
  | PStr s => match as_str v with Some x => s_lt x s | None => false end
  | _ => false
  end.
Definition value_gt (v : json) (o : pval) : bool :=
  match o with
  | PInt i => match as_i64 v with Some x => x >? i | None => false end
  | PFloat f => match as_f64 v with Some x => f_gt x f | None => false end
  | PStr s => match as_str v with Some x => s_gt x s | None => false end
  | _ => false
  end.

(* ------------------------------------------------------------------ *)
(* ColumnPredicate and evaluate_against_stats                            *)

Inductive pred : Type :=
| PEq (c : colname) (v : pval)
| PNotEq (c : colname) (v : pval)
| PLt (c : colname) (v : pval)
| PLtEq (c : colname) (v : pval)
| PGt (c : colname) (v : pval)
| PGtEq (c : colname) (v : pval)
| PIn (c : colname) (vs : list pval)
| PNotIn (c : colname) (vs : list pval)
| PBetween (c : colname) (lo hi : pval)
| PAnd (l r : pred)
| POr (l r : pred)
| PNot (p : pred).

Definition cget (c : colname) (st : stats) : option cstats := aget N.eqb c st.

(* true = the chunk may contain matching rows; false = prune it *)
Fixpoint eval_stats (p : pred) (st : stats) : bool :=
  match p with
  | PEq c v =>
      match cget c st with
      | Some s => value_in_range v (st_min s) (st_max s)
      | None => true
      end
  | PNotEq _ _ => true
  | PLt c v =>
      match cget c st with
      | Some s => negb (value_gte (st_min s) v)
      | None => true
      end
  | PLtEq c v =>
      match cget c st with
      | Some s => negb (value_gt (st_min s) v)
      | None => true
      end
  | PGt c v =>
      match cget c st with
      | Some s => negb (value_lte (st_max s) v)
      | None => true
      end
  | PGtEq c v =>
      match cget c st with
      | Some s => negb (value_lt (st_max s) v)
      | None => true
      end
  | PIn c vs =>
      match cget c st with
      | Some s => existsb (fun v => value_in_range v (st_min s) (st_max s)) vs
      | None => true
      end
  | PNotIn _ _ => true
  | PBetween c lo hi =>
      match cget c st with
      | Some s => negb (value_lt (st_max s) lo || value_gt (st_min s) hi)
      | None => true
      end
  | PAnd l r => eval_stats l st && eval_stats r st
  | POr l r => eval_stats l st || eval_stats r st
  | PNot _ => true
  end.

(* The code before the fix: `Lt | LtEq` and `Gt | GtEq` shared one arm each. *)
Fixpoint eval_stats_shared_arms (p : pred) (st : stats) : bool :=
  match p with
  | PLtEq c v =>
      match cget c st with
      | Some s => negb (value_gte (st_min s) v)
      | None => true
      end
  | PGtEq c v =>
      match cget c st with
      | Some s => negb (value_lte (st_max s) v)
      | None => true
      end
  | PAnd l r => eval_stats_shared_arms l st && eval_stats_shared_arms r st
  | POr l r => eval_stats_shared_arms l st || eval_stats_shared_arms r st
  | _ => eval_stats p st
  end.

(* get_chunks_with_predicates, the statistics gate only (the time-range part
   is C07): a chunk is kept iff every extracted predicate may match. *)
Definition gate (preds : list pred) (st : stats) : bool :=
  forallb (fun p => eval_stats p st) preds.
Definition chunks_with_predicates {A : Type} (preds : list pred) (chunks : list (A * stats)) : list (A * stats) :=
  filter (fun c => gate preds (snd c)) chunks.

(* ------------------------------------------------------------------ *)
(* Row-level semantics: SQL three-valued logic                          *)

Inductive value : Type :=
| VNull
| VBool (b : bool)
| VInt (z : Z)
| VFloat (f : binary64)
| VStr (s : bytes).

Definition row := list (colname * value).
Definition rget (c : colname) (r : row) : value :=
  match aget N.eqb c r with Some v => v | None => VNull end.

Definition lit (v : pval) : value :=
  match v with
  | PStr s => VStr s
  | PInt i => VInt i
  | PFloat f => VFloat f
  | PBool b => VBool b
  | PNull => VNull
  end.

Inductive tv : Type := TT | FF | UU.
Definition tv_of_bool (b : bool) : tv := if b then TT else FF.
Definition tv_and (a b : tv) : tv :=
  match a, b with
  | FF, _ | _, FF => FF
  | TT, TT => TT
  | _, _ => UU
  end.
Definition tv_or (a b : tv) : tv :=
  match a, b with
  | TT, _ | _, TT => TT
  | FF, FF => FF
  | _, _ => UU
  end.
Definition tv_not (a : tv) : tv := match a with TT => FF | FF => TT | UU => UU end.

Inductive cop : Type := OEq | ONe | OLt | OLe | OGt | OGe.
Definition op_holds (o : cop) (c : comparison) : bool :=
  match o, c with
  | OEq, Eq => true | OEq, _ => false
  | ONe, Eq => false | ONe, _ => true
  | OLt, Lt => true | OLt, _ => false
  | OLe, Gt => false | OLe, _ => true
  | OGt, Gt => true | OGt, _ => false
  | OGe, Lt => false | OGe, _ => true
  end.

(* outcome of comparing two values *)
Inductive cres : Type :=
| CNull                           (* a NULL operand *)
| COrd (c : comparison)
| CUnord                          (* a NaN operand *)
| CCross.                         (* operands of different type classes *)

Definition fcmp (a b : binary64) : cres :=
  match b64_compare a b with Some c => COrd c | None => CUnord end.
Definition bool_cmp (a b : bool) : comparison :=
  match a, b with false, true => Lt | true, false => Gt | _, _ => Eq end.

(* Int x Float is compared in f64 (the engine coerces both sides to Float64). *)
Definition vcmp (a b : value) : cres :=
  match a, b with
  | VNull, _ | _, VNull => CNull
  | VBool x, VBool y => COrd (bool_cmp x y)
  | VInt x, VInt y => COrd (Z.compare x y)
  | VInt x, VFloat y => fcmp (Z2F x) y
  | VFloat x, VInt y => fcmp x (Z2F y)
  | VFloat x, VFloat y => fcmp x y
  | VStr x, VStr y => COrd (bytes_cmp x y)
  | _, _ => CCross
  end.

(* type classes of values; NULL belongs to every class *)
Inductive vclass : Type := CNum | CStr | CBool.
Definition class_of (v : value) : option vclass :=
  match v with
  | VNull => None
  | VBool _ => Some CBool
  | VInt _ | VFloat _ => Some CNum
  | VStr _ => Some CStr
  end.
Definition same_class (a b : value) : bool :=
  match class_of a, class_of b with
  | Some CNum, Some CNum | Some CStr, Some CStr | Some CBool, Some CBool => true
  | Some _, Some _ => false
  | _, _ => true
  end.
Definition uniform (g : list value) : bool := forallb (fun a => forallb (same_class a) g) g.
Definition is_vfloat (v : value) : bool := match v with VFloat _ => true | _ => false end.
(* integer -> Float64 when the group's common type is Float64 *)
Definition prom (fl : bool) (v : value) : value :=
  if fl then match v with VInt z => VFloat (Z2F z) | _ => v end else v.

Section Sat.
  (* What the engine makes of a comparison between different type classes
     (string against number, boolean against string, ...) is left open: the
     theorems hold for every choice. *)
  Variable xc : cop -> value -> value -> tv.

  Definition cmp_tv (o : cop) (a b : value) : tv :=
    match vcmp a b with
    | CNull => UU
    | COrd c => tv_of_bool (op_holds o c)
    | CUnord => tv_of_bool (match o with ONe => true | _ => false end)
    | CCross => xc o a b
    end.

  (* BETWEEN and IN are coerced as a group: the engine brings the column and
     all literals of the list to one common type before comparing.  Within
     the numbers that type is Float64 as soon as one member is a float
     ([prom]); what happens when the members belong to different type classes
     (numbers cast to strings ...) is left open ([xg]). *)
  Variable xg : list value -> tv.

  Definition group_tv (g : list value) (t : tv) : tv := if uniform g then t else xg g.

  Definition between_tv (x a b : value) : tv :=
    let g := [x; a; b] in
    let fl := existsb is_vfloat g in
    group_tv g (tv_and (cmp_tv OGe (prom fl x) (prom fl a)) (cmp_tv OLe (prom fl x) (prom fl b))).

  Definition in_tv (x : value) (vs : list pval) : tv :=
    let ls := map lit vs in
    let g := x :: ls in
    let fl := existsb is_vfloat g in
    group_tv g (fold_right (fun l acc => tv_or (cmp_tv OEq (prom fl x) (prom fl l)) acc) FF ls).

  Fixpoint sat (p : pred) (r : row) : tv :=
    match p with
    | PEq c v => cmp_tv OEq (rget c r) (lit v)
    | PNotEq c v => cmp_tv ONe (rget c r) (lit v)
    | PLt c v => cmp_tv OLt (rget c r) (lit v)
    | PLtEq c v => cmp_tv OLe (rget c r) (lit v)
    | PGt c v => cmp_tv OGt (rget c r) (lit v)
    | PGtEq c v => cmp_tv OGe (rget c r) (lit v)
    | PIn c vs => in_tv (rget c r) vs
    | PNotIn c vs => tv_not (in_tv (rget c r) vs)
    | PBetween c lo hi => between_tv (rget c r) (lit lo) (lit hi)
    | PAnd l q => tv_and (sat l r) (sat q r)
    | POr l q => tv_or (sat l r) (sat q r)
    | PNot q => tv_not (sat q r)
    end.
End Sat.

(* ------------------------------------------------------------------ *)
(* "the row's value lies within the column's statistics"                *)

Definition le_val (a b : value) : bool :=
  match vcmp a b with COrd Lt | COrd Eq => true | _ => false end.

(* A statistic that is no number and no string (null, boolean, array) bounds
   nothing; a number / string bound must be comparable with the row value and
   be on the right side of it.  A NaN row value is within no numeric bound. *)
Definition lower_ok (x : value) (j : json) : bool :=
  match j with
  | JInt z => le_val (VInt z) x
  | JFloat f => le_val (VFloat f) x
  | JStr s => le_val (VStr s) x
  | _ => true
  end.
Definition upper_ok (x : value) (j : json) : bool :=
  match j with
  | JInt z => le_val x (VInt z)
  | JFloat f => le_val x (VFloat f)
  | JStr s => le_val x (VStr s)
  | _ => true
  end.
Definition within (x : value) (s : cstats) : bool :=
  match x with
  | VNull => true                 (* NULL rows are not described by min / max *)
  | _ => lower_ok x (st_min s) && upper_ok x (st_max s)
  end.

(* every column of the row that has statistics lies within them *)
Definition in_stats (r : row) (st : stats) : Prop :=
  forall c s, cget c st = Some s -> within (rget c r) s = true.
Definition in_statsb (r : row) (st : stats) : bool :=
  forallb (fun cs => within (rget (fst cs) r) (snd cs)) st.

(* ------------------------------------------------------------------ *)
(* Known class: the code compares an integer literal with integer-typed
   statistics exactly (in i64) where the engine compares in another type:
   in f64 because the row value is a float or because a float literal stands
   in the same BETWEEN / IN list (distinct integers above 2^53 collapse), or
   in a type outside the numbers because the members of the BETWEEN / IN
   group belong to different type classes (e.g. numbers cast to strings). *)

Definition is_jint (j : json) : bool := match j with JInt _ => true | _ => false end.
Definition is_pint (v : pval) : bool := match v with PInt _ => true | _ => false end.
Definition mixed_atom (v : pval) (s : cstats) (x : value) : bool :=
  match v, x with
  | PInt _, VFloat _ => is_jint (st_min s) || is_jint (st_max s)
  | _, _ => false
  end.
Definition group_known (x : value) (lits : list pval) (s : cstats) : bool :=
  let g := x :: map lit lits in
  negb (uniform g) ||
  (existsb is_vfloat g && existsb is_pint lits && (is_jint (st_min s) || is_jint (st_max s))).
Fixpoint known_mixed (p : pred) (st : stats) (r : row) : bool :=
  match p with
  | PEq c v | PLtEq c v | PGtEq c v =>
      match cget c st with Some s => mixed_atom v s (rget c r) | None => false end
  | PIn c vs =>
      match cget c st with Some s => group_known (rget c r) vs s | None => false end
  | PBetween c lo hi =>
      match cget c st with Some s => group_known (rget c r) [lo; hi] s | None => false end
  | PAnd l q | POr l q => known_mixed l st r || known_mixed q st r
  | PLt _ _ | PGt _ _ | PNotEq _ _ | PNotIn _ _ | PNot _ => false
  end.

(* ------------------------------------------------------------------ *)
(* Well-typed inputs (no implicit coercion): every column has one type; row
   values and the literals compared with the column are NULL or of that type. *)

Inductive vtype : Type := TInt | TFloat | TStr | TBool.
Definition val_has (t : vtype) (v : value) : bool :=
  match v, t with
  | VNull, _ => true
  | VInt _, TInt | VFloat _, TFloat | VStr _, TStr | VBool _, TBool => true
  | _, _ => false
  end.
Definition lit_has (t : vtype) (v : pval) : bool := val_has t (lit v).
Definition typing := colname -> vtype.
Fixpoint pred_typed (ty : typing) (p : pred) : bool :=
  match p with
  | PEq c v | PNotEq c v | PLt c v | PLtEq c v | PGt c v | PGtEq c v => lit_has (ty c) v
  | PIn c vs | PNotIn c vs => forallb (lit_has (ty c)) vs
  | PBetween c lo hi => lit_has (ty c) lo && lit_has (ty c) hi
  | PAnd l q | POr l q => pred_typed ty l && pred_typed ty q
  | PNot q => pred_typed ty q
  end.
Definition row_typed (ty : typing) (r : row) : Prop :=
  forall c, val_has (ty c) (rget c r) = true.

(* ------------------------------------------------------------------ *)
(* convert_expr_to_predicate (src/query/engine.rs)                      *)

Inductive scalar : Type :=
| SUtf8 (s : bytes)               (* Utf8(Some) | LargeUtf8(Some) *)
| SInt64 (i : Z)
| SInt32 (i : Z)
| SFloat64 (f : binary64)
| SFloat32 (f : binary64)         (* already widened: `*f as f64` is exact *)
| SBool (b : bool)
| SNullLit                        (* ScalarValue::Null *)
| SOtherLit.                      (* UInt64, typed NULLs, decimals, ... *)

Inductive bop : Type := BEq | BNotEq | BLt | BLtEq | BGt | BGtEq | BAnd | BOr | BOther.

Inductive expr : Type :=
| ECol (c : colname)
| ELit (s : scalar)
| EBin (l : expr) (o : bop) (r : expr)
| EBetween (e : expr) (negated : bool) (lo hi : expr)
| EInList (e : expr) (l : list expr) (negated : bool)
| ENot (e : expr)
| EOther.

Definition is_time_col (c : colname) : bool := N.eqb c 0 || N.eqb c 1.

Definition convert_scalar (e : expr) : option pval :=
  match e with
  | ELit (SUtf8 s) => Some (PStr s)
  | ELit (SInt64 i) => Some (PInt i)
  | ELit (SInt32 i) => Some (PInt i)
  | ELit (SFloat64 f) => Some (PFloat f)
  | ELit (SFloat32 f) => Some (PFloat f)
  | ELit (SBool b) => Some (PBool b)
  | ELit SNullLit => Some PNull
  | _ => None
  end.

(* `.map(convert_scalar).collect::<Option<Vec<_>>>()` *)
Fixpoint convert_scalars (l : list expr) : option (list pval) :=
  match l with
  | [] => Some []
  | e :: r =>
      match convert_scalar e with
      | Some v => match convert_scalars r with Some vs => Some (v :: vs) | None => None end
      | None => None
      end
  end.

Section Convert.
  (* how a negated BETWEEN is treated: true = after the fix (not converted) *)
  Variable between_negation_respected : bool.

  Fixpoint convert_gen (e : expr) : option pred :=
    match e with
    | EBin l o r =>
        match l with
        | ECol c =>
            if is_time_col c then None else
            match convert_scalar r with
            | None => None
            | Some v =>
                match o with
                | BEq => Some (PEq c v)
                | BNotEq => Some (PNotEq c v)
                | BLt => Some (PLt c v)
                | BLtEq => Some (PLtEq c v)
                | BGt => Some (PGt c v)
                | BGtEq => Some (PGtEq c v)
                | BAnd | BOr => None     (* convert(Column) = None, `?` *)
                | BOther => None
                end
            end
        | _ =>
            match o with
            | BAnd =>
                match convert_gen l, convert_gen r with
                | Some a, Some b => Some (PAnd a b)
                | _, _ => None
                end
            | BOr =>
                match convert_gen l, convert_gen r with
                | Some a, Some b => Some (POr a b)
                | _, _ => None
                end
            | _ => None
            end
        end
    | EBetween (ECol c) negated lo hi =>
        if is_time_col c then None else
        if negated && between_negation_respected then None else
        match convert_scalar lo, convert_scalar hi with
        | Some a, Some b => Some (PBetween c a b)
        | _, _ => None
        end
    | EInList (ECol c) l negated =>
        if is_time_col c then None else
        match convert_scalars l with
        | Some vs => Some (if negated then PNotIn c vs else PIn c vs)
        | None => None
        end
    | ENot e' =>
        match convert_gen e' with Some p => Some (PNot p) | None => None end
    | _ => None
    end.
End Convert.

Definition convert : expr -> option pred := convert_gen true.
Definition convert_negation_dropped : expr -> option pred := convert_gen false.

(* SQL meaning of the convertible fragment of expressions (anything else is
   given UU; the conversion returns None there, so nothing depends on it). *)
Section ESat.
  Variable xc : cop -> value -> value -> tv.
  Variable xg : list value -> tv.

  Definition scalar_value (e : expr) : option value :=
    match convert_scalar e with Some v => Some (lit v) | None => None end.

  Definition cop_of (o : bop) : option cop :=
    match o with
    | BEq => Some OEq | BNotEq => Some ONe | BLt => Some OLt | BLtEq => Some OLe
    | BGt => Some OGt | BGtEq => Some OGe | _ => None
    end.

  Fixpoint esat (e : expr) (r : row) : tv :=
    match e with
    | EBin l o q =>
        match o with
        | BAnd => tv_and (esat l r) (esat q r)
        | BOr => tv_or (esat l r) (esat q r)
        | _ =>
            match l, cop_of o, scalar_value q with
            | ECol c, Some co, Some v => cmp_tv xc co (rget c r) v
            | _, _, _ => UU
            end
        end
    | EBetween (ECol c) negated lo hi =>
        match scalar_value lo, scalar_value hi with
        | Some a, Some b =>
            let t := between_tv xc xg (rget c r) a b in
            if negated then tv_not t else t
        | _, _ => UU
        end
    | EInList (ECol c) l negated =>
        match convert_scalars l with
        | Some vs => let t := in_tv xc xg (rget c r) vs in if negated then tv_not t else t
        | None => UU
        end
    | ENot e' => tv_not (esat e' r)
    | _ => UU
    end.
End ESat.
