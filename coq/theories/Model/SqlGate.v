(* Model/SqlGate.v — what a statement submitted through a query interface can
   do, and which statements the query engine admits (C11).

   Follows src/query/engine.rs (every call site that hands user SQL to the
   embedded engine: extract_time_range, extract_column_predicates, execute,
   execute_with_indexes, execute_stream, analyze, prepare — all go through
   QueryEngine::plan_user_sql = SessionContext::sql_with_options with DDL, DML
   and statements disallowed), src/query/mod.rs (QueryNode::query_for_tenant),
   src/query/streaming.rs (StreamingQueryExecutor::execute),
   src/api/query/{sql_http,flight_sql,prometheus_api,streaming}.rs and
   src/api/grpc.rs (which engine entry points each interface reaches), and
   DataFusion 44: SessionContext::sql_with_options / execute_logical_plan /
   SQLOptions::verify_plan (BadPlanVisitor) and LogicalPlan::inputs.

   The plan tree is the one DataFusion's planner produces for the statement
   (the harness serialises the real LogicalPlan); the per-kind effects are a
   description of DataFusion's behaviour, validated against the real engine by
   the harness — they are not proved about DataFusion.  Definitions only. *)
From CS Require Import Base.Prelude.

(* ---------- node kinds of datafusion_expr::LogicalPlan ---------- *)

(* relational operators (LogicalPlan variants that only read) *)
Inductive qop :=
| QProjection | QFilter | QWindow | QAggregate | QSort | QJoin | QRepartition
| QUnion | QTableScan | QEmptyRelation | QSubquery | QSubqueryAlias | QLimit
| QValues | QExtension | QDistinct | QUnnest | QRecursiveQuery.

(* dml::WriteOp *)
Inductive dml_kind := DInsert | DDelete | DUpdate | DCtas.

(* ddl::DdlStatement *)
Inductive ddl_kind :=
| CreateExternalTable | CreateMemoryTable | CreateView | CreateCatalogSchema
| CreateCatalog | CreateIndex | DropTable | DropView | DropCatalogSchema
| CreateFunction | DropFunction.

(* statement::Statement *)
Inductive stmt_kind :=
| TransactionStart | TransactionEnd | SetVariable | Prepare | Execute | Deallocate.

(* where a writing statement points *)
Inductive loc :=
| LFresh          (* a new path inside the registered bucket                  *)
| LChunk          (* the path of an existing chunk file                        *)
| LCatalog        (* the path of the metadata catalog object                   *)
| LLocalFile      (* the server's file system (file:// store is always there)  *)
| LUnregistered   (* a URL no object store is registered for                   *)
| LMemTable       (* an in-memory session table                                *)
| LNoInsert.      (* a table whose provider refuses INSERT: the empty placeholder
                     table, views, listing tables over single files (what
                     register_metrics_table_for_chunks builds)                *)

Inductive plan :=
| PQuery (op : qop) (inputs : list plan)       (* inputs incl. expression subqueries *)
| PDml (k : dml_kind) (target : loc) (input : plan)
| PDdl (k : ddl_kind) (inputs : list plan)     (* CreateMemoryTable / CreateView carry a query *)
| PCopy (target : loc) (input : plan)
| PStmt (k : stmt_kind) (inputs : list plan)   (* Prepare carries a plan; Execute: the prepared one, if known *)
| PExplain (p : plan)
| PAnalyze (p : plan)
| PDescribeTable.

(* ---------- effects ---------- *)
Inductive effect :=
| EStoreWrite (l : loc)       (* objects created / overwritten at l             *)
| ECatalog (k : ddl_kind)     (* session catalog changed (tables, views, schemas) *)
| ESession (k : stmt_kind)    (* session variables / prepared statements changed  *)
| EFunction (k : ddl_kind).   (* function registry changed                        *)

(* INSERT reaches the table provider's insert_into; DELETE/UPDATE/CTAS nodes are
   refused by the physical planner. *)
Definition dml_write (k : dml_kind) (t : loc) : list effect :=
  match k with
  | DInsert => match t with LUnregistered | LNoInsert => [] | _ => [EStoreWrite t] end
  | _ => []
  end.

Definition copy_write (t : loc) : list effect :=
  match t with LUnregistered | LNoInsert => [] | _ => [EStoreWrite t] end.

(* Running the physical plan of [p] (DataFrame::collect / execute_stream).
   EXPLAIN only plans its child; EXPLAIN ANALYZE runs it. *)
Fixpoint exec_effects (p : plan) : list effect :=
  match p with
  | PQuery _ cs => flat_map exec_effects cs
  | PDml k t i => exec_effects i ++ dml_write k t
  | PCopy t i => exec_effects i ++ copy_write t
  | PDdl _ _ => []
  | PStmt _ _ => []
  | PExplain _ => []
  | PAnalyze c => exec_effects c
  | PDescribeTable => []
  end.

(* DDL kinds that SessionContext::execute_logical_plan runs on the spot *)
Definition ddl_effect (k : ddl_kind) : list effect :=
  match k with
  | CreateIndex => []
  | CreateFunction | DropFunction => [EFunction k]
  | _ => [ECatalog k]
  end.

(* SessionContext::execute_logical_plan looks at the ROOT node only and runs
   DDL / SET / PREPARE / DEALLOCATE while "planning"; Some = handled eagerly
   (the returned DataFrame is empty), None = a DataFrame over the plan. *)
Definition eager_effects (p : plan) : option (list effect) :=
  match p with
  | PDdl CreateIndex _ => None
  | PDdl k cs => Some (flat_map exec_effects cs ++ ddl_effect k)
  | PStmt SetVariable _ => Some [ESession SetVariable]
  | PStmt Prepare _ => Some [ESession Prepare]
  | PStmt Deallocate _ => Some [ESession Deallocate]
  | _ => None
  end.

(* one `ctx.sql(text)` without running the DataFrame *)
Definition sql_effects (p : plan) : list effect :=
  match eager_effects p with Some e => e | None => [] end.

(* running the DataFrame that `ctx.sql` returned *)
Definition collect_effects (p : plan) : list effect :=
  match eager_effects p with
  | Some _ => []
  | None => match p with
            | PStmt Execute cs => flat_map exec_effects cs
            | _ => exec_effects p
            end
  end.

(* `ctx.sql(text).await?.collect().await` *)
Definition effects (p : plan) : list effect := sql_effects p ++ collect_effects p.

(* ---------- admission: SQLOptions::verify_plan ---------- *)
Record sql_options := mkOpts { allow_ddl : bool; allow_dml : bool; allow_statements : bool }.

(* SQLOptions::new(): what plain `ctx.sql` uses (the code before the repair) *)
Definition opts_unrestricted : sql_options := mkOpts true true true.
(* what QueryEngine::plan_user_sql passes *)
Definition opts_read_only : sql_options := mkOpts false false false.

(* BadPlanVisitor::f_down applied top-down to every node reachable through
   LogicalPlan::inputs and expression subqueries *)
Fixpoint admitted_with (o : sql_options) (p : plan) : bool :=
  match p with
  | PQuery _ cs => forallb (admitted_with o) cs
  | PDml _ _ i => allow_dml o && admitted_with o i
  | PCopy _ i => allow_dml o && admitted_with o i
  | PDdl _ cs => allow_ddl o && forallb (admitted_with o) cs
  | PStmt _ cs => allow_statements o && forallb (admitted_with o) cs
  | PExplain c => admitted_with o c
  | PAnalyze c => admitted_with o c
  | PDescribeTable => true
  end.

(* the admission the code applies today *)
Definition admitted (p : plan) : bool := admitted_with opts_read_only p.

(* ---------- engine entry points and interfaces ---------- *)
Inductive site :=
| SExtractTimeRange | SExtractPredicates      (* plan only *)
| SExecute | SExecuteWithIndexes | SExecuteStream   (* plan and run *)
| SAnalyze | SPrepare.                        (* plan only *)

(* options used at each `sql` call site (all the same since the repair) *)
Definition site_options (s : site) : sql_options := opts_read_only.

Definition site_runs (s : site) : bool :=
  match s with SExecute | SExecuteWithIndexes | SExecuteStream => true | _ => false end.

Definition site_effects (s : site) (p : plan) : list effect :=
  if site_runs s then effects p else sql_effects p.

(* Some effects = the call returned Ok; None = rejected with an error *)
Definition site_call (s : site) (p : plan) : option (list effect) :=
  if admitted_with (site_options s) p then Some (site_effects s p) else None.

Inductive iface :=
| ISqlHttp            (* POST/GET /api/v1/sql, websocket stream, Prometheus endpoints, Flight do_get: QueryNode::query *)
| ISqlIndexed         (* the same with an adaptive-index controller attached *)
| IStreaming          (* StreamingQueryExecutor::execute (historical phase) *)
| IFlightInfo         (* Flight SQL get_flight_info / analyze_schema *)
| IFlightPrepare      (* Flight SQL create_prepared_statement *)
| IFlightPrepareGrpc  (* gRPC do_action_create_prepared_statement: prepare, then analyze *)
| IExecuteStream.     (* QueryEngine::execute_stream (public engine API; no caller in the tree today) *)

Definition iface_sites (i : iface) : list site :=
  match i with
  | ISqlHttp => [SExtractTimeRange; SExtractPredicates; SExecute]
  | ISqlIndexed => [SExtractTimeRange; SExtractPredicates; SExecuteWithIndexes]
  | IStreaming => [SExtractTimeRange; SExtractPredicates; SExecute]
  | IFlightInfo => [SAnalyze]
  | IFlightPrepare => [SPrepare]
  | IFlightPrepareGrpc => [SPrepare; SAnalyze]
  | IExecuteStream => [SExecuteStream]
  end.

(* Calls are made in order; the request stops at the first error, except that
   query_for_tenant / StreamingQueryExecutor::execute evaluate both extraction
   calls before looking at either result.  Returns (accepted, effects so far). *)
Fixpoint run_sites (ss : list site) (p : plan) : bool * list effect :=
  match ss with
  | [] => (true, [])
  | s :: r =>
      match site_call s p with
      | None =>
          match s, r with
          | SExtractTimeRange, s2 :: _ =>
              (false, match site_call s2 p with Some e => e | None => [] end)
          | _, _ => (false, [])
          end
      | Some e => let '(ok, e') := run_sites r p in (ok, e ++ e')
      end
  end.

(* a request carries a list of statements: the engine refuses anything but
   exactly one statement before planning (SessionState::sql_to_statement) *)
Definition submit (i : iface) (stmts : list plan) : bool * list effect :=
  match stmts with
  | [p] => run_sites (iface_sites i) p
  | _ => (false, [])
  end.

(* the same request against the engine as it was before the repair: plain
   `ctx.sql` at every site *)
Fixpoint run_sites_unrestricted (ss : list site) (p : plan) : list effect :=
  match ss with
  | [] => []
  | s :: r => site_effects s p ++ run_sites_unrestricted r p
  end.
