(* Model/Compactor.v — executable model of the compaction procedure of
   src/compactor/mod.rs (compact_l0 / compact_level / merge_chunks /
   spawn_lease_renewal / garbage_collect), request by request, for any number
   of compactor nodes interleaved at request granularity, with a fault
   (before / after effect) possible at every request, crashes, lease expiry
   through clock ticks, renewal tasks and garbage collection of scheduled
   deletions.  Definitions only (no proofs).

   What one group goes through in the code (both compact_l0 and compact_level):

     acquire_lease(group)            Err(ChunksAlreadyLeased) -> skip group
                                     other Err               -> `return Err`
     active_compactions += 1; spawn renewal task
     create_compaction_job           `?`
     merge_chunks:
       GET every source              Err -> Err arm
       concat + sort (a permutation of the multiset union)
       PUT target (fresh uuid path)  Err -> Err arm
       register_chunk(target)        Err -> Err arm      (level 0!)
     Ok arm : complete_compaction `?` · update status `?` · complete_lease `?`
              schedule_deletion(sources)
     Err arm: update status Failed `?` · fail_lease `?`
     renewal_handle.abort(); active_compactions -= 1

   Every `?` after acquire_lease leaves the function at once: the lease is
   neither completed nor failed ([early_return]); the GroupGuard (fix 00081bd)
   stops the renewal task and releases the concurrency slot on that path too.

   Metadata operations are atomic steps here.  For LocalMetadataClient that is
   exact (no await inside an operation).  For ObjectStoreMetadataClient every
   operation is a load / decide / conditional-PUT loop on one object; by the
   linearizability theorem of the CAS protocol (C02) it takes effect at its
   successful PUT or not at all, which is the atomic step of this model; a
   fault "after effect" is the PUT that succeeded although an error came back.

   Candidate selection itself (get_l0_candidates / get_level_candidates) is
   C20's model.  Here a compactor may start on ANY duplicate-free list of paths
   it has ever seen in the catalog ([p_snap], filled by [LList] and by its own
   catalog writes — the object-store client caches the catalog for 60 s and
   refreshes the cache with its own writes), which covers every stale
   candidate list. *)
From CS Require Import Base.Prelude Model.Catalog.
From CSGen Require Import Consts.
Open Scope N_scope.

Definition row := N.
Definition lid := N.
Definition cid := N.

(* ------------------------------------------------------------------ *)
(* catalog, reduced to what this property needs: path -> level          *)
(* ------------------------------------------------------------------ *)
Definition lcatalog := list (path * N).

(* register_chunk: insert (or reset) at level 0 *)
Definition cat_register (c : lcatalog) (p : path) : lcatalog := aset N.eqb p 0 c.

Definition cat_remove_all (c : lcatalog) (srcs : list path) : lcatalog :=
  fold_left (fun c p => adel N.eqb p c) srcs c.

(* complete_compaction: level = max(source levels present) + 1, sources
   removed, target must still be there (None = Err "target chunk not found",
   nothing written) — the same for both backends since 44d3f11 *)
Definition cat_complete (c : lcatalog) (srcs : list path) (tgt : path) : option lcatalog :=
  let nl := max_level (fun p => aget N.eqb p c) srcs + 1 in
  let c1 := cat_remove_all c srcs in
  if amem N.eqb tgt c1 then Some (aset N.eqb tgt nl c1) else None.

(* ------------------------------------------------------------------ *)
(* leases                                                               *)
(* ------------------------------------------------------------------ *)
(* status: 0 Active, 1 Completed, 2 Failed *)
Record lease := mkLease { l_chunks : list path; l_exp : Z; l_status : N }.
Definition leases := list (lid * lease).

Definition lease_live (now : Z) (l : lease) : bool := (l_status l =? 0) && (now <? l_exp l)%Z.

(* `leases.retain(|_, l| !(l.status == Active && l.expires_at <= now))` *)
Definition drop_expired (now : Z) (ls : leases) : leases :=
  filter (fun e => negb ((l_status (snd e) =? 0) && (l_exp (snd e) <=? now)%Z)) ls.

Definition leased_chunks (now : Z) (ls : leases) : list path :=
  flat_map (fun e => if lease_live now (snd e) then l_chunks (snd e) else []) ls.

Definition lease_conflict (now : Z) (ls : leases) (g : list path) : bool :=
  existsb (fun p => memN p (leased_chunks now ls)) g.

Definition lease_insert (now ttl : Z) (id : lid) (g : list path) (ls : leases) : leases :=
  ls ++ [(id, mkLease g (now + ttl)%Z 0)].

Definition lease_set_status (id : lid) (st : N) (ls : leases) : leases :=
  match aget N.eqb id ls with
  | Some l => aset N.eqb id (mkLease (l_chunks l) (l_exp l) st) ls
  | None => ls
  end.

(* renew: None = Err (lease absent or not Active); an Active lease is
   renewed even when it has already expired but was not reclaimed yet *)
Definition lease_renew (now ttl : Z) (id : lid) (ls : leases) : option leases :=
  match aget N.eqb id ls with
  | Some l => if l_status l =? 0
              then Some (aset N.eqb id (mkLease (l_chunks l) (now + ttl)%Z 0) ls)
              else None
  | None => None
  end.

(* scavenge_leases: keep only Active leases that have not expired *)
Definition lease_scavenge (now : Z) (ls : leases) : leases :=
  filter (fun e => lease_live now (snd e)) ls.

(* ------------------------------------------------------------------ *)
(* one compactor                                                        *)
(* ------------------------------------------------------------------ *)
Inductive pc :=
| Idle
| PJob (l : lid) (g : list path)                         (* next: create_compaction_job *)
| PRead (l : lid) (g todo : list path) (acc : list row)  (* next: GET head of todo *)
| PPut (l : lid) (g : list path) (rows : list row)       (* next: PUT target (fresh path) *)
| PReg (l : lid) (g : list path) (t : path) (rows : list row) (* next: register_chunk t *)
| PSwap (l : lid) (g : list path) (t : path)             (* next: complete_compaction g t *)
| PJobDone (l : lid) (g : list path)                     (* next: update status Completed *)
| PLeaseDone (l : lid) (g : list path)                   (* next: complete_lease, then schedule deletions *)
| PJobFail (l : lid)                                     (* Err arm: update status Failed *)
| PLeaseFail (l : lid).                                  (* Err arm: fail_lease *)

Record proc := mkProc {
  p_pc : pc;
  p_snap : list path;      (* every path this node has seen in the catalog *)
  p_pending : list path;   (* pending_deletions (volatile) *)
  p_renew : list lid;      (* leases with a running renewal task *)
  p_active : N             (* active_compactions *)
}.
Definition proc0 : proc := mkProc Idle [] [] [] 0.

(* sorting the merged batch: a permutation of its rows (row ids stand for the
   timestamp order; the harness gives row i the i-th timestamp) *)
Fixpoint insertN (x : N) (l : list N) : list N :=
  match l with
  | [] => [x]
  | y :: r => if x <=? y then x :: l else y :: insertN x r
  end.
Definition isort (l : list N) : list N := fold_right insertN [] l.

Fixpoint nodupb (l : list N) : bool :=
  match l with [] => true | x :: r => negb (memN x r) && nodupb r end.
Definition inclb (a b : list N) : bool := forallb (fun x => memN x b) a.
Definition disjointb (a b : list N) : bool := forallb (fun x => negb (memN x b)) a.

(* ------------------------------------------------------------------ *)
(* whole system                                                         *)
(* ------------------------------------------------------------------ *)
Record state := mkState {
  s_local : bool;                        (* true = LocalMetadataClient *)
  s_cat : lcatalog;
  s_content : list (path * list row);    (* every object ever PUT (write-once: fresh paths only) *)
  s_deleted : list path;                 (* objects deleted by GC *)
  s_leases : leases;
  s_clock : Z;                           (* seconds *)
  s_next : N;                            (* next fresh object path *)
  s_nextl : N;                           (* next fresh lease id *)
  s_procs : list (cid * proc)
}.

Definition get_proc (s : state) (c : cid) : proc :=
  match aget N.eqb c (s_procs s) with Some p => p | None => proc0 end.

Definition set_proc (s : state) (c : cid) (p : proc) : state :=
  mkState (s_local s) (s_cat s) (s_content s) (s_deleted s) (s_leases s) (s_clock s)
          (s_next s) (s_nextl s) (aset N.eqb c p (s_procs s)).
Definition set_cat (s : state) (c : lcatalog) : state :=
  mkState (s_local s) c (s_content s) (s_deleted s) (s_leases s) (s_clock s)
          (s_next s) (s_nextl s) (s_procs s).
Definition set_leases (s : state) (ls : leases) : state :=
  mkState (s_local s) (s_cat s) (s_content s) (s_deleted s) ls (s_clock s)
          (s_next s) (s_nextl s) (s_procs s).
Definition put_object (s : state) (rows : list row) : state :=
  mkState (s_local s) (s_cat s) (s_content s ++ [(s_next s, rows)]) (s_deleted s) (s_leases s)
          (s_clock s) (s_next s + 1) (s_nextl s) (s_procs s).
Definition skip_path (s : state) : state :=
  mkState (s_local s) (s_cat s) (s_content s) (s_deleted s) (s_leases s)
          (s_clock s) (s_next s + 1) (s_nextl s) (s_procs s).
Definition del_object (s : state) (p : path) : state :=
  mkState (s_local s) (s_cat s) (s_content s) (p :: s_deleted s) (s_leases s) (s_clock s)
          (s_next s) (s_nextl s) (s_procs s).
Definition bump_lease_id (s : state) : state :=
  mkState (s_local s) (s_cat s) (s_content s) (s_deleted s) (s_leases s) (s_clock s)
          (s_next s) (s_nextl s + 1) (s_procs s).
Definition set_clock (s : state) (t : Z) : state :=
  mkState (s_local s) (s_cat s) (s_content s) (s_deleted s) (s_leases s) t
          (s_next s) (s_nextl s) (s_procs s).

Definition present (s : state) (p : path) : bool :=
  amem N.eqb p (s_content s) && negb (memN p (s_deleted s)).

(* rows a reader gets from object p (nothing when the object is gone) *)
Definition rows_at (s : state) (p : path) : list row :=
  if memN p (s_deleted s) then []
  else match aget N.eqb p (s_content s) with Some rs => rs | None => [] end.

(* what queries can reach: rows of every catalogued chunk whose object exists *)
Definition visible (s : state) : list row :=
  flat_map (fun e => rows_at s (fst e)) (s_cat s).

Definition level_of (s : state) (p : path) : option N := aget N.eqb p (s_cat s).

Definition acquire_ttl (s : state) : Z :=
  if s_local s then Consts.C03_LOCAL_ACQUIRE_TTL_SECS else Consts.C03_S3_ACQUIRE_TTL_SECS.
Definition renew_ttl (s : state) : Z :=
  if s_local s then Consts.C03_LOCAL_RENEW_TTL_SECS else Consts.C03_S3_RENEW_TTL_SECS.

(* ---- updates of a proc ---- *)
Definition with_pc (p : proc) (k : pc) : proc :=
  mkProc k (p_snap p) (p_pending p) (p_renew p) (p_active p).
Definition see_catalog (p : proc) (c : lcatalog) : proc :=
  mkProc (p_pc p) (akeys c ++ p_snap p) (p_pending p) (p_renew p) (p_active p).

(* the regular end of a group: `renewal_handle.abort(); active -= 1` *)
Definition end_group (p : proc) (l : lid) (sched : list path) : proc :=
  mkProc Idle (p_snap p) (sched ++ p_pending p) (removeN l (p_renew p)) (p_active p - 1).

(* a `?` after acquire_lease: the function is left at once — the lease is
   neither completed nor failed (it expires after its TTL); since 00081bd a drop
   guard stops the renewal task and decrements the active counter on this path
   too (before, both leaked: the lease was renewed for ever) *)
Definition early_return (p : proc) (l : lid) : proc :=
  mkProc Idle (p_snap p) (p_pending p) (removeN l (p_renew p)) (p_active p - 1).

(* ------------------------------------------------------------------ *)
(* scheduler alphabet                                                   *)
(* ------------------------------------------------------------------ *)
Inductive fault := FOk | FBefore | FAfter.

Inductive label :=
| LList (c : cid)                             (* a candidates call: c sees the current catalog *)
| LStart (c : cid) (g : list path) (f : fault) (* acquire_lease on group g *)
| LStep (c : cid) (f : fault)                 (* c performs its next request *)
| LRenew (c : cid) (l : lid)                  (* c's renewal task for lease l fires *)
| LDel (c : cid) (p : path) (f : fault)       (* GC: DELETE of a pending path *)
| LScav (c : cid)                             (* scavenge_leases at the end of a cycle *)
| LCrash (c : cid)                            (* c loses all volatile state *)
| LTick (d : Z).                              (* the clock advances by d seconds *)

(* what a step did: (request kind, argument, status)
   kind   0 nothing (label not applicable)   1 list        2 acquire_lease
          3 create job   4 GET source        5 PUT target  6 register target
          7 complete_compaction              8 job Completed   9 complete_lease
          10 job Failed  11 fail_lease       12 renew      13 GC delete
          14 scavenge    15 crash            16 tick
   status 0 Ok   1 Err leaving the cycle (`?` / return Err)   2 Err handled (Err arm / skip / task ends) *)
Definition out := (N * N * N)%type.
Definition mk_out (k a st : N) : out := (k, a, st).
Definition no_out : out := (0, 0, 0).

(* claims: the group of a node that may still swap it out *)
Definition claims (k : pc) : list path :=
  match k with
  | PJob _ g | PRead _ g _ _ | PPut _ g _ | PReg _ g _ _ | PSwap _ g _ => g
  | _ => []
  end.
(* a registered target whose sources are still in the catalog *)
Definition unswapped (k : pc) : list path :=
  match k with PSwap _ _ t => [t] | _ => [] end.

Definition start_ok (s : state) (c : cid) (g : list path) : bool :=
  let p := get_proc s c in
  match p_pc p with
  | Idle => nodupb g && inclb g (p_snap p) && (p_active p <? Consts.C03_MAX_CONCURRENT)
  | _ => false
  end.

Definition after_reads (l : lid) (g : list path) (acc : list row) : pc :=
  match acc with
  | [] => PJobFail l            (* `No data to merge` *)
  | _ => PPut l g (isort acc)
  end.

Definition step_start (s : state) (c : cid) (g : list path) (f : fault) : state * out :=
  if negb (start_ok s c g) then (s, no_out)
  else
    let p := get_proc s c in
    match f with
    | FBefore => (s, mk_out 2 0 1)
    | _ =>
        let now := s_clock s in
        let ls1 := drop_expired now (s_leases s) in
        if lease_conflict now ls1 g then
          (* ChunksAlreadyLeased: the in-memory backend has already dropped the
             expired leases in place, the object-store backend has written nothing *)
          let s1 := if s_local s then set_leases s ls1 else s in
          (s1, mk_out 2 0 (match f with FOk => 2 | _ => 1 end))
        else
          let id := s_nextl s in
          let s1 := bump_lease_id (set_leases s (lease_insert now (acquire_ttl s) id g ls1)) in
          match f with
          | FOk => (set_proc s1 c (mkProc (PJob id g) (p_snap p) (p_pending p)
                                          (id :: p_renew p) (p_active p + 1)),
                    mk_out 2 id 0)
          | _ => (s1, mk_out 2 id 1)   (* lease stored, the caller saw an error *)
          end
    end.

Definition step_proc (s : state) (c : cid) (f : fault) : state * out :=
  let p := get_proc s c in
  match p_pc p with
  | Idle => (s, no_out)
  | PJob l g =>
      match f with
      | FOk => (set_proc s c (with_pc p (match g with [] => PJobFail l | _ => PRead l g g [] end)),
                mk_out 3 0 0)
      | _ => (set_proc s c (early_return p l), mk_out 3 0 1)
      end
  | PRead l g todo acc =>
      match todo with
      | [] => (set_proc s c (with_pc p (after_reads l g acc)), no_out)
      | q :: rest =>
          match f with
          | FOk =>
              if present s q then
                let acc' := acc ++ rows_at s q in
                (set_proc s c (with_pc p (match rest with
                                          | [] => after_reads l g acc'
                                          | _ => PRead l g rest acc'
                                          end)), mk_out 4 q 0)
              else (set_proc s c (with_pc p (PJobFail l)), mk_out 4 q 2)
          | _ => (set_proc s c (with_pc p (PJobFail l)), mk_out 4 q 2)
          end
      end
  | PPut l g rows =>
      let t := s_next s in
      match f with
      | FOk => (set_proc (put_object s rows) c (with_pc p (PReg l g t rows)), mk_out 5 t 0)
      | FBefore => (set_proc (skip_path s) c (with_pc p (PJobFail l)), mk_out 5 t 2)
      | FAfter => (set_proc (put_object s rows) c (with_pc p (PJobFail l)), mk_out 5 t 2)
      end
  | PReg l g t rows =>
      match f with
      | FBefore => (set_proc s c (with_pc p (PJobFail l)), mk_out 6 t 2)
      | _ =>
          let c' := cat_register (s_cat s) t in
          let p' := see_catalog p c' in
          (set_proc (set_cat s c') c
                    (with_pc p' (match f with FOk => PSwap l g t | _ => PJobFail l end)),
           mk_out 6 t (match f with FOk => 0 | _ => 2 end))
      end
  | PSwap l g t =>
      match f with
      | FBefore => (set_proc s c (early_return p l), mk_out 7 t 1)
      | _ =>
          match cat_complete (s_cat s) g t with
          | None => (set_proc s c (early_return p l), mk_out 7 t 1)
          | Some c' =>
              let p' := see_catalog p c' in
              match f with
              | FOk => (set_proc (set_cat s c') c (with_pc p' (PJobDone l g)), mk_out 7 t 0)
              | _ => (set_proc (set_cat s c') c (early_return p' l), mk_out 7 t 1)
              end
          end
      end
  | PJobDone l g =>
      match f with
      | FOk => (set_proc s c (with_pc p (PLeaseDone l g)), mk_out 8 0 0)
      | _ => (set_proc s c (early_return p l), mk_out 8 0 1)
      end
  | PLeaseDone l g =>
      match f with
      | FBefore => (set_proc s c (early_return p l), mk_out 9 l 1)
      | FAfter => (set_proc (set_leases s (lease_set_status l 1 (s_leases s))) c (early_return p l),
                   mk_out 9 l 1)
      | FOk => (set_proc (set_leases s (lease_set_status l 1 (s_leases s))) c (end_group p l g),
                mk_out 9 l 0)
      end
  | PJobFail l =>
      match f with
      | FOk => (set_proc s c (with_pc p (PLeaseFail l)), mk_out 10 0 0)
      | _ => (set_proc s c (early_return p l), mk_out 10 0 1)
      end
  | PLeaseFail l =>
      match f with
      | FBefore => (set_proc s c (early_return p l), mk_out 11 l 1)
      | FAfter => (set_proc (set_leases s (lease_set_status l 2 (s_leases s))) c (early_return p l),
                   mk_out 11 l 1)
      | FOk => (set_proc (set_leases s (lease_set_status l 2 (s_leases s))) c (end_group p l []),
                mk_out 11 l 0)
      end
  end.

Definition step (s : state) (lb : label) : state * out :=
  match lb with
  | LList c =>
      let p := get_proc s c in
      (set_proc s c (see_catalog p (s_cat s)), mk_out 1 0 0)
  | LStart c g f => step_start s c g f
  | LStep c f => step_proc s c f
  | LRenew c l =>
      let p := get_proc s c in
      if memN l (p_renew p) then
        match lease_renew (s_clock s) (renew_ttl s) l (s_leases s) with
        | Some ls => (set_leases s ls, mk_out 12 l 0)
        | None => (set_proc s c (mkProc (p_pc p) (p_snap p) (p_pending p) (removeN l (p_renew p)) (p_active p)),
                   mk_out 12 l 2)
        end
      else (s, no_out)
  | LDel c q f =>
      let p := get_proc s c in
      if memN q (p_pending p) then
        let s1 := set_proc s c (mkProc (p_pc p) (p_snap p) (removeN q (p_pending p)) (p_renew p) (p_active p)) in
        match f with
        | FBefore => (s1, mk_out 13 q 2)
        | _ => (del_object s1 q, mk_out 13 q 0)
        end
      else (s, no_out)
  | LScav c => (set_leases s (lease_scavenge (s_clock s) (s_leases s)), mk_out 14 0 0)
  | LCrash c => (set_proc s c proc0, mk_out 15 0 0)
  | LTick d => (set_clock s (s_clock s + Z.max d 0)%Z, mk_out 16 0 0)
  end.

Definition run (sched : list label) (s : state) : state :=
  fold_left (fun s lb => fst (step s lb)) sched s.

(* no compaction in progress *)
Definition quiescent (s : state) : bool :=
  forallb (fun e => match p_pc (snd e) with Idle => true | _ => false end) (s_procs s).

(* ------------------------------------------------------------------ *)
(* the known classes of histories after which the catalog may hold a row *)
(* twice (executable; the harness classifies violating runs with it)     *)
(*   1 K1 register-swap-gap   : crash / error between register_chunk(target)
        and complete_compaction — target and sources stay catalogued
     2 K2 stale-candidates    : a lease is acquired on a group that mentions
        a chunk no longer in the catalog
     3 K3 lease-lost          : a lease is acquired on chunks another node is
        still compacting (its lease expired)
     5 K5 unswapped-target    : a group contains the level-0 registered target
        of a merge whose swap is still outstanding                          *)
(* ------------------------------------------------------------------ *)
Definition acquires (s : state) (c : cid) (g : list path) (f : fault) : bool :=
  start_ok s c g &&
  match f with
  | FOk => negb (lease_conflict (s_clock s) (drop_expired (s_clock s) (s_leases s)) g)
  | _ => false
  end.

Definition others (s : state) (c : cid) : list proc :=
  map snd (filter (fun e => negb (fst e =? c)) (s_procs s)).

Definition bad_step (s : state) (lb : label) : N :=
  match lb with
  | LCrash c => match p_pc (get_proc s c) with PSwap _ _ _ => 1 | _ => 0 end
  | LStep c f =>
      match p_pc (get_proc s c), f with
      | PReg _ _ _ _, FAfter => 1
      | PSwap _ _ _, FBefore => 1
      | PSwap _ g t, _ => match cat_complete (s_cat s) g t with None => 1 | Some _ => 0 end
      | _, _ => 0
      end
  | LStart c g f =>
      if acquires s c g f then
        if negb (inclb g (akeys (s_cat s))) then 2
        else if existsb (fun p => negb (disjointb g (claims (p_pc p)))) (others s c) then 3
        else if existsb (fun p => negb (disjointb g (unswapped (p_pc p)))) (others s c) then 5
        else 0
      else 0
  | _ => 0
  end.

Fixpoint known_class (s : state) (sched : list label) : N :=
  match sched with
  | [] => 0
  | lb :: rest =>
      match bad_step s lb with
      | 0 => known_class (fst (step s lb)) rest
      | k => k
      end
  end.

(* initial state of a dataset: catalogue (path, level, rows), nothing running *)
Definition next_free (keys : list path) : N := fold_left (fun a p => N.max a (p + 1)) keys 0.

Definition init (local : bool) (chunks : list (path * N * list row)) : state :=
  mkState local
          (map (fun e => (fst (fst e), snd (fst e))) chunks)
          (map (fun e => (fst (fst e), snd e)) chunks)
          [] [] 0%Z
          (next_free (map (fun e => fst (fst e)) chunks)) 1 [].
