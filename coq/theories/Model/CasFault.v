(* Model/CasFault.v — the CAS retry machine of Base/CasProto.v extended with
   injected object-store faults.  FOR THE CORRESPONDENCE HARNESS ONLY: no
   theorem in Properties/* speaks about fault steps (cas_linearizable and its
   corollaries quantify over schedules of Req / Tick labels, i.e. over
   interleavings, as the properties do).  The harness runs real clients under
   SchedStore's Action::FailBefore / Action::FailAfter and compares them with
   this machine; the property oracles judge the implementation directly.

   What the code does on a transport error (src/metadata/s3.rs):
     a failing GET   load_*_with_etag returns Err(Error::Metadata("Failed to
                     load ...")), cas_retry! breaks with that error: the
                     operation ends, nothing written;
     a failing PUT   put_with_cas returns Err(Error::ObjectStore(e)) (only
                     AlreadyExists / Precondition become Conflict), the macro
                     breaks with it: the operation ends with an error --
                     FailBefore: the store is untouched; FailAfter: the
                     conditional PUT was applied (if its precondition held) and
                     the client still reports the error (lost acknowledgement).

   Outputs are lifted to [option Out]: [FAbort None] = the operation returned a
   transport error.  With Proceed the step is exactly CasProto's [step]. *)
From CS Require Import Base.Prelude Base.CasProto.

Inductive faction : Type := Proceed | FailBefore | FailAfter.

Inductive flabel : Type :=
| FReq (c : nat) (a : faction)
| FTick (d : N).

Section Fault.
  Variables V Op Out : Type.
  Variable decide : Z -> Op -> option V -> decision V Out.
  Variable extra_gets : nat.
  Variable max_retries : nat.

  Definition lift_decide (now : Z) (op : Op) (v : option V) : decision V (option Out) :=
    match decide now op v with
    | Commit v' o => Commit v' (Some o)
    | Abort o => Abort (Some o)
    end.

  Definition fail_op (s : sys V Op (option Out)) (c : nat) (op : Op) (todo : list Op) : sys V Op (option Out) :=
    let cl := s_cl s c in
    set_client s c (mkClient Idle todo (c_done cl ++ [(op, FAbort None)])).

  Definition fstep (s : sys V Op (option Out)) (l : flabel) : sys V Op (option Out) :=
    match l with
    | FTick d => step lift_decide extra_gets max_retries s (Tick d)
    | FReq c Proceed => step lift_decide extra_gets max_retries s (Req c)
    | FReq c a =>
        let cl := s_cl s c in
        match c_pc cl with
        | Idle =>
            match c_todo cl with
            | [] => s
            | op :: rest => fail_op s c op rest              (* the first GET fails *)
            end
        | Backoff op _ => fail_op s c op (c_todo cl)         (* the reload fails *)
        | Loading op _ _ => fail_op s c op (c_todo cl)       (* a legacy GET fails *)
        | AfterLoad op att snap dnow v' o =>
            match a with
            | FailAfter =>
                if put_ok snap (s_cur s) then
                  (* applied, acknowledgement lost *)
                  mkSys (Some (mkObj (s_fresh s) v')) (N.succ (s_fresh s)) (s_now s)
                        (upd (s_cl s) c (mkClient Idle (c_todo cl) (c_done cl ++ [(op, FAbort None)])))
                        (s_log s ++ [mkCommit dnow (s_now s) c op (option_map o_val snap) v' o (s_fresh s)])
                else fail_op s c op (c_todo cl)
            | _ => fail_op s c op (c_todo cl)
            end
        end
    end.
End Fault.

Arguments lift_decide {V Op Out} decide now op v.
Arguments fstep {V Op Out} decide extra_gets max_retries s l.
