(* Model/QueryBind.v — the session-wide `metrics` table binding shared by all
   in-flight queries of a query node (C10).

   Follows src/query/engine.rs: QueryEngine::with_metrics_table /
   register_metrics_table_for_chunks(_locked) (metrics_table_query_lock,
   registered_metrics_paths, deregister + register of the table provider),
   QueryEngine::execute / execute_with_indexes (the plan captures the table
   provider when `plan_user_sql` resolves the name `metrics`; collect() scans the
   captured provider), src/query/mod.rs QueryNode::query_for_tenant and
   src/query/streaming.rs StreamingQueryExecutor::execute (historical phase),
   which both go through with_metrics_table.

   One query = a fixed list of atomic steps; a schedule is a list of query ids,
   each occurrence lets that query take its next step (a query waiting for the
   lock does not move).  Histories may also contain queries whose binding fails
   (read error during schema inference) and queries whose future is dropped.  Two protocols: the order the code has now (planning
   inside the critical section) and the order it had before the repair (lock
   released before planning).  Definitions only. *)
From CS Require Import Base.Prelude.

Definition qid := N.
Definition chunkset := list N.        (* sorted, duplicate-free list of chunk ids *)

Inductive stepk :=
| KLock        (* metrics_table_query_lock.lock().await                         *)
| KRegister    (* register_metrics_table_for_chunks_locked(S_i)                 *)
| KPause       (* the verif_hooks pause point "query.after_register" (no-op)    *)
| KPlan        (* plan_user_sql: the name `metrics` is resolved, provider captured *)
| KUnlock      (* the guard is dropped                                          *)
| KExec.       (* collect(): scans the captured provider                        *)

(* the code as it is now: plan under the lock, execute outside *)
Definition proto_fixed : list stepk := [KLock; KRegister; KPause; KPlan; KUnlock; KExec].
(* the code before the repair: the lock covered the registration only *)
Definition proto_unlocked_plan : list stepk := [KLock; KRegister; KUnlock; KPause; KPlan; KExec].

Record qstate := mkQ {
  q_pc : nat;                       (* index of the next step *)
  q_cap : option chunkset;          (* provider captured by the plan *)
  q_res : option chunkset           (* chunk set the execution scanned *)
}.

Record state := mkSt {
  tbl : chunkset;                   (* chunk set behind the provider registered as `metrics` *)
  paths : chunkset;                 (* registered_metrics_paths *)
  lock : option qid;                (* holder of metrics_table_query_lock *)
  qs : list (qid * qstate)
}.

Definition init_q : qstate := mkQ 0 None None.

(* a node on which `metrics` is currently bound to the chunk set [t] ([] for a
   node that has not served a query yet) *)
Definition init_bound (t : chunkset) (ids : list qid) : state :=
  mkSt t t None (map (fun i => (i, init_q)) ids).

Definition init (ids : list qid) : state := init_bound [] ids.

Fixpoint eqb_list (a b : list N) : bool :=
  match a, b with
  | [], [] => true
  | x :: a', y :: b' => N.eqb x y && eqb_list a' b'
  | _, _ => false
  end.

(* register_metrics_table_for_chunks_locked: an empty set always re-registers the
   empty table; an unchanged non-empty set returns early; otherwise the table is
   replaced.  In all cases the binding afterwards is the requested set. *)
Definition register (s : chunkset) (st : state) : state :=
  match s with
  | [] => mkSt [] [] (lock st) (qs st)
  | _ => if eqb_list (paths st) s then st else mkSt s s (lock st) (qs st)
  end.

Definition set_q (i : qid) (q : qstate) (st : state) : state :=
  mkSt (tbl st) (paths st) (lock st) (aset N.eqb i q (qs st)).

Definition sel (sets : list (qid * chunkset)) (i : qid) : chunkset :=
  match aget N.eqb i sets with Some s => s | None => [] end.

(* The query ends without a result: its binding failed (a read error while the
   schema of its chunk files is inferred) or its future was dropped.  The guard
   is dropped with it, so the lock is released if this query holds it.  The
   shared binding is NOT touched: register_metrics_table_for_chunks_locked
   returns the error before deregister/register_table, and assigns
   registered_metrics_paths only after register_table succeeded; there is no
   await between the table swap and that assignment, so a dropped future cannot
   separate them either. *)
Definition abort (proto : list stepk) (st : state) (i : qid) : state :=
  match aget N.eqb i (qs st) with
  | None => st
  | Some q =>
      let lk := match lock st with
                | Some h => if N.eqb h i then None else Some h
                | None => None
                end in
      set_q i (mkQ (length proto) (q_cap q) (q_res q)) (mkSt (tbl st) (paths st) lk (qs st))
  end.

(* registration reads the chunk files (schema inference) unless the requested
   set is empty or already bound *)
Definition reads_files (s : chunkset) (st : state) : bool :=
  match s with
  | [] => false
  | _ => negb (eqb_list (paths st) s)
  end.

(* query i takes its next step; [faults] = the queries for which reading one of
   their chunk files fails *)
Definition step (faults : list qid) (proto : list stepk) (sets : list (qid * chunkset)) (st : state) (i : qid) : state :=
  match aget N.eqb i (qs st) with
  | None => st
  | Some q =>
      match nth_error proto (q_pc q) with
      | None => st                                         (* finished *)
      | Some k =>
          let adv := mkQ (S (q_pc q)) (q_cap q) (q_res q) in
          match k with
          | KLock =>
              match lock st with
              | Some _ => st                               (* waits *)
              | None => set_q i adv (mkSt (tbl st) (paths st) (Some i) (qs st))
              end
          | KRegister =>
              if memN i faults && reads_files (sel sets i) st
              then abort proto st i                        (* binding failed: state unchanged *)
              else set_q i adv (register (sel sets i) st)
          | KPause => set_q i adv st
          | KPlan => set_q i (mkQ (S (q_pc q)) (Some (tbl st)) (q_res q)) st
          | KUnlock => set_q i adv (mkSt (tbl st) (paths st) None (qs st))
          | KExec => set_q i (mkQ (S (q_pc q)) (q_cap q) (q_cap q)) st
          end
      end
  end.

(* a schedule without failures: a list of query ids *)
Definition run (proto : list stepk) (sets : list (qid * chunkset)) (sched : list qid) (st : state) : state :=
  fold_left (step [] proto sets) sched st.

(* histories with failed bindings and dropped query futures: at any point a
   query either takes its next step or is dropped *)
Inductive ev := EStep (i : qid) | EDrop (i : qid).

Definition apply_ev (faults : list qid) (proto : list stepk) (sets : list (qid * chunkset)) (st : state) (e : ev) : state :=
  match e with
  | EStep i => step faults proto sets st i
  | EDrop i => abort proto st i
  end.

Definition run_ev (faults : list qid) (proto : list stepk) (sets : list (qid * chunkset)) (evs : list ev) (st : state) : state :=
  fold_left (apply_ev faults proto sets) evs st.

Definition captured (st : state) (i : qid) : option chunkset :=
  match aget N.eqb i (qs st) with Some q => q_cap q | None => None end.

Definition result (st : state) (i : qid) : option chunkset :=
  match aget N.eqb i (qs st) with Some q => q_res q | None => None end.

Definition pc_of (st : state) (i : qid) : nat :=
  match aget N.eqb i (qs st) with Some q => q_pc q | None => 0 end.

(* ---------- the harness's command level ---------- *)
(* The harness controls each query at one point only (the pause point):
   `Start i` lets query i run until it reaches the pause point, fails, or has
   to wait for the lock; `Resume i` lets a paused query run to completion;
   `Cancel i` drops the query's future wherever it is.  After a command, queries
   that were waiting for the lock move on in arrival order. *)
Inductive cmd := Start (i : qid) | Resume (i : qid) | Cancel (i : qid).

Definition at_pause (proto : list stepk) (st : state) (i : qid) : bool :=
  match nth_error proto (pc_of st i) with Some KPause => true | _ => false end.

Definition done (proto : list stepk) (st : state) (i : qid) : bool :=
  match nth_error proto (pc_of st i) with None => true | _ => false end.

(* advance i until it is at the pause point, finished, or does not move *)
Fixpoint advance (faults : list qid) (proto : list stepk) (sets : list (qid * chunkset)) (fuel : nat) (st : state) (i : qid) : state :=
  match fuel with
  | O => st
  | S f =>
      if at_pause proto st i || done proto st i then st
      else
        let st' := step faults proto sets st i in
        if Nat.eqb (pc_of st' i) (pc_of st i) then st' else advance faults proto sets f st' i
  end.

(* pass the pause point and run to the end *)
Definition finish (faults : list qid) (proto : list stepk) (sets : list (qid * chunkset)) (st : state) (i : qid) : state :=
  if at_pause proto st i
  then fold_left (fun s _ => step faults proto sets s i) proto (step faults proto sets st i)
  else st.

Definition settle (faults : list qid) (proto : list stepk) (sets : list (qid * chunkset)) (started : list qid) (st : state) : state :=
  fold_left (fun s j => advance faults proto sets (length proto) s j) started st.

Definition run_cmd (faults : list qid) (proto : list stepk) (sets : list (qid * chunkset)) (started : list qid) (st : state) (c : cmd)
  : state * list qid :=
  match c with
  | Start i => (settle faults proto sets (started ++ [i]) st, started ++ [i])
  | Resume i => (settle faults proto sets started (finish faults proto sets st i), started)
  | Cancel i => (settle faults proto sets started (abort proto st i), started)
  end.

Fixpoint run_cmds (faults : list qid) (proto : list stepk) (sets : list (qid * chunkset)) (cs : list cmd) (started : list qid) (st : state) : state :=
  match cs with
  | [] => st
  | c :: r => let '(st', started') := run_cmd faults proto sets started st c in run_cmds faults proto sets r started' st'
  end.

(* the rows a query returns come from the chunks that are both scanned and
   selected for it (rows outside its own selection do not match its WHERE) *)
Definition visible (sets : list (qid * chunkset)) (st : state) (i : qid) : option chunkset :=
  match result st i with
  | Some c => Some (filter (fun x => memN x (sel sets i)) c)
  | None => None
  end.
