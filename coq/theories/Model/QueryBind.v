(* Model/QueryBind.v — the session-wide `metrics` table binding shared by all
   in-flight queries of a query node (C10).

   Follows src/query/engine.rs: QueryEngine::with_metrics_table /
   register_metrics_table_for_chunks(_locked) (metrics_table_query_lock,
   registered_metrics_paths, deregister + register of the table provider),
   QueryEngine::execute / execute_with_indexes (the plan captures the table
   provider when `plan_user_sql` resolves the name `metrics`; collect() scans the
   captured provider), src/query/mod.rs QueryNode::query_for_tenant and
   src/query/streaming.rs StreamingQueryExecutor::execute (historical phase),
   which both go through with_metrics_table.

   One query = a fixed list of atomic steps; a schedule is a list of query ids,
   each occurrence lets that query take its next step (a query waiting for the
   lock does not move).  Two protocols: the order the code has now (planning
   inside the critical section) and the order it had before the repair (lock
   released before planning).  Definitions only. *)
From CS Require Import Base.Prelude.

Definition qid := N.
Definition chunkset := list N.        (* sorted, duplicate-free list of chunk ids *)

Inductive stepk :=
| KLock        (* metrics_table_query_lock.lock().await                         *)
| KRegister    (* register_metrics_table_for_chunks_locked(S_i)                 *)
| KPause       (* the verif_hooks pause point "query.after_register" (no-op)    *)
| KPlan        (* plan_user_sql: the name `metrics` is resolved, provider captured *)
| KUnlock      (* the guard is dropped                                          *)
| KExec.       (* collect(): scans the captured provider                        *)

(* the code as it is now: plan under the lock, execute outside *)
Definition proto_fixed : list stepk := [KLock; KRegister; KPause; KPlan; KUnlock; KExec].
(* the code before the repair: the lock covered the registration only *)
Definition proto_unlocked_plan : list stepk := [KLock; KRegister; KUnlock; KPause; KPlan; KExec].

Record qstate := mkQ {
  q_pc : nat;                       (* index of the next step *)
  q_cap : option chunkset;          (* provider captured by the plan *)
  q_res : option chunkset           (* chunk set the execution scanned *)
}.

Record state := mkSt {
  tbl : chunkset;                   (* chunk set behind the provider registered as `metrics` *)
  paths : chunkset;                 (* registered_metrics_paths *)
  lock : option qid;                (* holder of metrics_table_query_lock *)
  qs : list (qid * qstate)
}.

Definition init_q : qstate := mkQ 0 None None.

(* a node on which `metrics` is currently bound to the chunk set [t] ([] for a
   node that has not served a query yet) *)
Definition init_bound (t : chunkset) (ids : list qid) : state :=
  mkSt t t None (map (fun i => (i, init_q)) ids).

Definition init (ids : list qid) : state := init_bound [] ids.

Fixpoint eqb_list (a b : list N) : bool :=
  match a, b with
  | [], [] => true
  | x :: a', y :: b' => N.eqb x y && eqb_list a' b'
  | _, _ => false
  end.

(* register_metrics_table_for_chunks_locked: an empty set always re-registers the
   empty table; an unchanged non-empty set returns early; otherwise the table is
   replaced.  In all cases the binding afterwards is the requested set. *)
Definition register (s : chunkset) (st : state) : state :=
  match s with
  | [] => mkSt [] [] (lock st) (qs st)
  | _ => if eqb_list (paths st) s then st else mkSt s s (lock st) (qs st)
  end.

Definition set_q (i : qid) (q : qstate) (st : state) : state :=
  mkSt (tbl st) (paths st) (lock st) (aset N.eqb i q (qs st)).

Definition sel (sets : list (qid * chunkset)) (i : qid) : chunkset :=
  match aget N.eqb i sets with Some s => s | None => [] end.

(* query i takes its next step *)
Definition step (proto : list stepk) (sets : list (qid * chunkset)) (st : state) (i : qid) : state :=
  match aget N.eqb i (qs st) with
  | None => st
  | Some q =>
      match nth_error proto (q_pc q) with
      | None => st                                         (* finished *)
      | Some k =>
          let adv := mkQ (S (q_pc q)) (q_cap q) (q_res q) in
          match k with
          | KLock =>
              match lock st with
              | Some _ => st                               (* waits *)
              | None => set_q i adv (mkSt (tbl st) (paths st) (Some i) (qs st))
              end
          | KRegister => set_q i adv (register (sel sets i) st)
          | KPause => set_q i adv st
          | KPlan => set_q i (mkQ (S (q_pc q)) (Some (tbl st)) (q_res q)) st
          | KUnlock => set_q i adv (mkSt (tbl st) (paths st) None (qs st))
          | KExec => set_q i (mkQ (S (q_pc q)) (q_cap q) (q_cap q)) st
          end
      end
  end.

Definition run (proto : list stepk) (sets : list (qid * chunkset)) (sched : list qid) (st : state) : state :=
  fold_left (step proto sets) sched st.

Definition captured (st : state) (i : qid) : option chunkset :=
  match aget N.eqb i (qs st) with Some q => q_cap q | None => None end.

Definition result (st : state) (i : qid) : option chunkset :=
  match aget N.eqb i (qs st) with Some q => q_res q | None => None end.

Definition pc_of (st : state) (i : qid) : nat :=
  match aget N.eqb i (qs st) with Some q => q_pc q | None => 0 end.

(* ---------- the harness's command level ---------- *)
(* The harness controls each query at one point only (the pause point):
   `Start i` lets query i run until it reaches the pause point or has to wait
   for the lock; `Resume i` lets a paused query run to completion, after which
   queries that were waiting for the lock move on to their own pause point. *)
Inductive cmd := Start (i : qid) | Resume (i : qid).

Definition at_pause (proto : list stepk) (st : state) (i : qid) : bool :=
  match nth_error proto (pc_of st i) with Some KPause => true | _ => false end.

Definition done (proto : list stepk) (st : state) (i : qid) : bool :=
  match nth_error proto (pc_of st i) with None => true | _ => false end.

(* advance i until it is at the pause point, finished, or does not move *)
Fixpoint advance (proto : list stepk) (sets : list (qid * chunkset)) (fuel : nat) (st : state) (i : qid) : state :=
  match fuel with
  | O => st
  | S f =>
      if at_pause proto st i || done proto st i then st
      else
        let st' := step proto sets st i in
        if Nat.eqb (pc_of st' i) (pc_of st i) then st' else advance proto sets f st' i
  end.

(* pass the pause point and run to the end *)
Definition finish (proto : list stepk) (sets : list (qid * chunkset)) (st : state) (i : qid) : state :=
  if at_pause proto st i
  then fold_left (fun s _ => step proto sets s i) proto (step proto sets st i)
  else st.

Definition run_cmd (proto : list stepk) (sets : list (qid * chunkset)) (started : list qid) (st : state) (c : cmd)
  : state * list qid :=
  match c with
  | Start i => (advance proto sets (length proto) st i, started ++ [i])
  | Resume i =>
      let st1 := finish proto sets st i in
      (* started queries that wait for the lock get it in arrival order *)
      (fold_left (fun s j => advance proto sets (length proto) s j) started st1, started)
  end.

Fixpoint run_cmds (proto : list stepk) (sets : list (qid * chunkset)) (cs : list cmd) (started : list qid) (st : state) : state :=
  match cs with
  | [] => st
  | c :: r => let '(st', started') := run_cmd proto sets started st c in run_cmds proto sets r started' st'
  end.

(* the rows a query returns come from the chunks that are both scanned and
   selected for it (rows outside its own selection do not match its WHERE) *)
Definition visible (sets : list (qid * chunkset)) (st : state) (i : qid) : option chunkset :=
  match result st i with
  | Some c => Some (filter (fun x => memN x (sel sets i)) c)
  | None => None
  end.
