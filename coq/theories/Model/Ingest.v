(* Model/Ingest.v — executable model of the ingester's write / flush path
   without WAL, faults or crashes (property C06).  Definitions only.

   Follows src/ingester/mod.rs:
     Ingester::write (no split in progress, WAL disabled; a zero-row batch returns Ok at once)
       -> append_to_buffer_and_maybe_flush   (loop: lock; schema check; take+flush+retry |
                                              BufferFull | append; threshold take+flush)
       -> flush_batches                      (empty check; concat; parquet; PUT; register;
                                              broadcast; topic broadcast; last_flush := now)
     Ingester::run_flush_timer               (tick: read check, then take under the write
                                              lock, flush; shutdown: take, flush if non-empty)
   and src/ingester/buffer.rs (WriteBuffer: append / schema_compatible / take with explicit
   row and byte counters).

   Granularity: one model step of a thread = the code between two await points
   of that thread.  The buffer lock is never held across an await, so each
   critical section is a single step; `flush_batches` runs after the lock was
   released and is split at its awaits (PUT, register_chunk, last_flush lock),
   with the two synchronous broadcast sends as a step of their own (finer than
   the code: every real interleaving is one of the model's).  The scheduler is a
   list of labels; theorems quantify over all such lists. *)
From CS Require Import Base.Prelude.
Open Scope Z_scope.

(* A row: the interned content of all its column values (id) and its timestamp. *)
Record row := mkRow { r_id : N; r_ts : Z }.

(* A record batch: interned schema, rows in order, get_array_memory_size(). *)
Record batch := mkBatch { b_schema : N; b_rows : list row; b_size : N }.

(* A flushed chunk: object id (position in PUT order; the code uses a fresh
   uuid path), the rows written, and the registered metadata. *)
Record chunk := mkChunk { k_id : N; k_rows : list row; k_count : N; k_min : Z; k_max : Z }.

Record cfg := mkCfg {
  cf_flush_rows : N;      (* IngesterConfig::flush_row_count        *)
  cf_flush_bytes : N;     (* IngesterConfig::flush_size_bytes       *)
  cf_max_bytes : N;       (* IngesterConfig::max_buffer_size_bytes  *)
  cf_interval : Z         (* IngesterConfig::flush_interval         *)
}.

Definition rows_of (bs : list batch) : list row := flat_map b_rows bs.

(* arrow::compute::min / max over a non-null i64 column: None when empty *)
Fixpoint ts_min (l : list row) : option Z :=
  match l with
  | [] => None
  | r :: t => match ts_min t with None => Some (r_ts r) | Some m => Some (Z.min (r_ts r) m) end
  end.
Fixpoint ts_max (l : list row) : option Z :=
  match l with
  | [] => None
  | r :: t => match ts_max t with None => Some (r_ts r) | Some m => Some (Z.max (r_ts r) m) end
  end.
Definition or0 (o : option Z) : Z := match o with Some z => z | None => 0 end.

(* concat_batches + ChunkMetadata{min_timestamp, max_timestamp, row_count}
   (`unwrap_or(0)` on an empty column) *)
Definition mk_chunk (id : N) (bs : list batch) : chunk :=
  let rs := rows_of bs in
  mkChunk id rs (N.of_nat (length rs)) (or0 (ts_min rs)) (or0 (ts_max rs)).

(* ---------------- WriteBuffer ---------------- *)
Record buffer := mkBuf { bf_batches : list batch; bf_rows : N; bf_bytes : N }.
Definition buf_empty : buffer := mkBuf [] 0 0.

Definition buf_append (bf : buffer) (b : batch) : buffer :=
  mkBuf (bf_batches bf ++ [b])
        (bf_rows bf + N.of_nat (length (b_rows b)))%N
        (bf_bytes bf + b_size b)%N.

Definition buf_compatible (bf : buffer) (b : batch) : bool :=
  match bf_batches bf with
  | [] => true
  | e :: _ => N.eqb (b_schema e) (b_schema b)
  end.

Definition buf_is_empty (bf : buffer) : bool :=
  match bf_batches bf with [] => true | _ => false end.

(* should_flush *)
Definition should_flush (c : cfg) (bf : buffer) : bool :=
  (cf_flush_rows c <=? bf_rows bf)%N || (cf_flush_bytes c <=? bf_bytes bf)%N.

(* ---------------- program counters ---------------- *)
(* what happens when the flush a thread is running returns Ok *)
Inductive cont :=
| KRetry (b : batch)   (* schema-change path: `continue` the loop with the pending batch *)
| KDone (b : batch)    (* threshold path: the write of b returns Ok                       *)
| KTimer               (* timer tick: back to the select                                  *)
| KShut.               (* shutdown path: the timer task ends                              *)

Inductive pc :=
| PIdle                               (* writer: between two writes; timer: in the select           *)
| PLock (b : batch)                   (* writer: at the loop head, about to take the buffer lock    *)
| PPut (bs : list batch) (k : cont)   (* flush_batches: PUT of the chunk object not yet effective   *)
| PReg (c : chunk) (k : cont)         (* object stored; register_chunk not yet effective            *)
| PAnn (c : chunk) (k : cont)         (* registered; the two broadcast sends not yet done           *)
| PFin (k : cont)                     (* before `*last_flush.write().await = now`                   *)
| PCheck                              (* timer: tick fired, before the read-locked check            *)
| PTake                               (* timer: check said flush, before the write-locked take      *)
| PShutTake                           (* timer: shutdown seen, before the write-locked take         *)
| PStopped.                           (* timer task returned                                        *)

(* ---------------- shared state ---------------- *)
Record shared := mkSh {
  sh_buf : buffer;
  sh_objs : list (N * list row);   (* object store: chunk id -> rows of the object     *)
  sh_cat : list chunk;             (* catalog, in registration order                   *)
  sh_ann : list chunk;             (* BroadcastChannel sends, in order                 *)
  sh_tann : list chunk;            (* TopicBroadcastChannel sends, in order            *)
  sh_next : N;                     (* next fresh chunk id                              *)
  sh_clock : Z;                    (* tokio clock                                      *)
  sh_last_flush : Z;               (* Ingester::last_flush                             *)
  sh_next_tick : Z;                (* deadline of the next interval tick               *)
  sh_appended : list batch         (* ghost: every batch ever appended to the buffer   *)
}.

Definition set_buf (sh : shared) (bf : buffer) : shared :=
  mkSh bf (sh_objs sh) (sh_cat sh) (sh_ann sh) (sh_tann sh) (sh_next sh)
       (sh_clock sh) (sh_last_flush sh) (sh_next_tick sh) (sh_appended sh).
Definition add_appended (sh : shared) (b : batch) : shared :=
  mkSh (sh_buf sh) (sh_objs sh) (sh_cat sh) (sh_ann sh) (sh_tann sh) (sh_next sh)
       (sh_clock sh) (sh_last_flush sh) (sh_next_tick sh) (b :: sh_appended sh).
Definition put_obj (sh : shared) (c : chunk) : shared :=
  mkSh (sh_buf sh) (sh_objs sh ++ [(k_id c, k_rows c)]) (sh_cat sh) (sh_ann sh) (sh_tann sh)
       (sh_next sh + 1)%N (sh_clock sh) (sh_last_flush sh) (sh_next_tick sh) (sh_appended sh).
Definition reg_chunk (sh : shared) (c : chunk) : shared :=
  mkSh (sh_buf sh) (sh_objs sh) (sh_cat sh ++ [c]) (sh_ann sh) (sh_tann sh) (sh_next sh)
       (sh_clock sh) (sh_last_flush sh) (sh_next_tick sh) (sh_appended sh).
Definition announce (sh : shared) (c : chunk) : shared :=
  mkSh (sh_buf sh) (sh_objs sh) (sh_cat sh) (sh_ann sh ++ [c]) (sh_tann sh ++ [c]) (sh_next sh)
       (sh_clock sh) (sh_last_flush sh) (sh_next_tick sh) (sh_appended sh).
Definition touch_last_flush (sh : shared) : shared :=
  mkSh (sh_buf sh) (sh_objs sh) (sh_cat sh) (sh_ann sh) (sh_tann sh) (sh_next sh)
       (sh_clock sh) (sh_clock sh) (sh_next_tick sh) (sh_appended sh).
Definition set_clock (sh : shared) (c : Z) : shared :=
  mkSh (sh_buf sh) (sh_objs sh) (sh_cat sh) (sh_ann sh) (sh_tann sh) (sh_next sh)
       c (sh_last_flush sh) (sh_next_tick sh) (sh_appended sh).
Definition set_next_tick (sh : shared) (t : Z) : shared :=
  mkSh (sh_buf sh) (sh_objs sh) (sh_cat sh) (sh_ann sh) (sh_tann sh) (sh_next sh)
       (sh_clock sh) (sh_last_flush sh) t (sh_appended sh).

(* ---------------- flush_batches, step by step ---------------- *)
(* result of one step of a running flush: a new pc, or the flush returned *)
Inductive fres := FPc (p : pc) | FRet (k : cont).

(* `if batches.is_empty() { return Ok(()) }` happens right after the take,
   with no await in between *)
Definition begin_flush (bs : list batch) (k : cont) : fres :=
  match bs with [] => FRet k | _ => FPc (PPut bs k) end.

Definition flush_step (sh : shared) (p : pc) : option (shared * fres) :=
  match p with
  | PPut bs k => let c := mk_chunk (sh_next sh) bs in Some (put_obj sh c, FPc (PReg c k))
  | PReg c k => Some (reg_chunk sh c, FPc (PAnn c k))
  | PAnn c k => Some (announce sh c, FPc (PFin k))
  | PFin k => Some (touch_last_flush sh, FRet k)
  | _ => None
  end.

(* ---------------- writer threads ---------------- *)
Record wthread := mkW {
  w_pc : pc;
  w_todo : list batch;              (* writes still to be issued                      *)
  w_res : list (batch * bool)       (* finished writes: true = Ok, false = BufferFull *)
}.

Definition w_ret (k : cont) (w : wthread) : wthread :=
  match k with
  | KRetry b => mkW (PLock b) (w_todo w) (w_res w)
  | KDone b => mkW PIdle (w_todo w) (w_res w ++ [(b, true)])
  | _ => mkW PIdle (w_todo w) (w_res w)
  end.

Definition w_after (r : fres) (w : wthread) : wthread :=
  match r with
  | FPc p => mkW p (w_todo w) (w_res w)
  | FRet k => w_ret k w
  end.

Definition wstep (c : cfg) (sh : shared) (w : wthread) : shared * wthread :=
  match w_pc w with
  | PIdle =>
      match w_todo w with
      | [] => (sh, w)
      | b :: r =>
          match b_rows b with
          | [] => (sh, mkW PIdle r (w_res w ++ [(b, true)]))   (* zero-row batch: Ok, nothing stored *)
          | _ => (sh, mkW (PLock b) r (w_res w))
          end
      end
  | PLock b =>
      let bf := sh_buf sh in
      if negb (buf_compatible bf b) then
        (* existing = buffer.take(); drop(buffer); flush_batches(existing).await?; continue *)
        (set_buf sh buf_empty, w_after (begin_flush (bf_batches bf) (KRetry b)) w)
      else if (cf_max_bytes c <? bf_bytes bf + b_size b)%N then
        (* Err(Error::BufferFull) *)
        (sh, mkW PIdle (w_todo w) (w_res w ++ [(b, false)]))
      else
        let bf1 := buf_append bf b in
        let sh1 := add_appended (set_buf sh bf1) b in
        if should_flush c bf1 then
          (set_buf sh1 buf_empty, w_after (begin_flush (bf_batches bf1) (KDone b)) w)
        else
          (sh1, mkW PIdle (w_todo w) (w_res w ++ [(b, true)]))
  | p =>
      match flush_step sh p with
      | Some (sh', r) => (sh', w_after r w)
      | None => (sh, w)
      end
  end.

(* ---------------- the flush timer ---------------- *)
Definition t_ret (k : cont) : pc :=
  match k with KShut => PStopped | _ => PIdle end.
Definition t_after (r : fres) : pc :=
  match r with FPc p => p | FRet k => t_ret k end.

(* shut = the cancellation token is cancelled *)
Definition tstep (c : cfg) (shut : bool) (sh : shared) (p : pc) : shared * pc :=
  match p with
  | PIdle =>
      if shut then (sh, PShutTake)
      else if sh_next_tick sh <=? sh_clock sh
           then (set_next_tick sh (sh_next_tick sh + cf_interval c), PCheck)
           else (sh, PIdle)
  | PCheck =>
      if negb (buf_is_empty (sh_buf sh)) && (cf_interval c <=? sh_clock sh - sh_last_flush sh)
      then (sh, PTake) else (sh, PIdle)
  | PTake =>
      (set_buf sh buf_empty, t_after (begin_flush (bf_batches (sh_buf sh)) KTimer))
  | PShutTake =>
      (set_buf sh buf_empty, t_after (begin_flush (bf_batches (sh_buf sh)) KShut))
  | PStopped => (sh, PStopped)
  | PLock _ => (sh, p)
  | p =>
      match flush_step sh p with
      | Some (sh', r) => (sh', t_after r)
      | None => (sh, p)
      end
  end.

(* ---------------- global state, labels, runs ---------------- *)
Record state := mkSt { st_sh : shared; st_ws : list wthread; st_tm : pc; st_shut : bool }.

Inductive label :=
| LW (i : nat)      (* writer i performs its next step       *)
| LT                (* the timer task performs its next step *)
| LAdv (d : Z)      (* the clock advances by d >= 0          *)
| LShut.            (* the shutdown token is cancelled       *)

Fixpoint upd {A : Type} (i : nat) (x : A) (l : list A) : list A :=
  match l, i with
  | [], _ => []
  | _ :: r, O => x :: r
  | y :: r, S j => y :: upd j x r
  end.

Definition step (c : cfg) (l : label) (s : state) : state :=
  match l with
  | LW i =>
      match nth_error (st_ws s) i with
      | Some w => let '(sh', w') := wstep c (st_sh s) w in
                  mkSt sh' (upd i w' (st_ws s)) (st_tm s) (st_shut s)
      | None => s
      end
  | LT => let '(sh', p') := tstep c (st_shut s) (st_sh s) (st_tm s) in
          mkSt sh' (st_ws s) p' (st_shut s)
  | LAdv d => mkSt (set_clock (st_sh s) (sh_clock (st_sh s) + Z.max 0 d)) (st_ws s) (st_tm s) (st_shut s)
  | LShut => mkSt (st_sh s) (st_ws s) (st_tm s) true
  end.

Definition run (c : cfg) (ls : list label) (s : state) : state :=
  fold_left (fun s l => step c l s) ls s.

Definition init_sh : shared := mkSh buf_empty [] [] [] [] 0 0 0 0 [].
Definition init (todos : list (list batch)) : state :=
  mkSt init_sh (map (fun t => mkW PIdle t []) todos) PIdle false.

(* ---------------- observables ---------------- *)
Definition cat_rows (sh : shared) : list row := flat_map k_rows (sh_cat sh).
Definition buf_rows (sh : shared) : list row := rows_of (bf_batches (sh_buf sh)).
Definition pc_inflight (p : pc) : list row :=
  match p with PPut bs _ => rows_of bs | PReg c _ => k_rows c | _ => [] end.
Definition inflight_rows (s : state) : list row :=
  flat_map (fun w => pc_inflight (w_pc w)) (st_ws s) ++ pc_inflight (st_tm s).
Definition accepted_rows (s : state) : list row := rows_of (sh_appended (st_sh s)).

Definition res_rows (res : list (batch * bool)) : list row :=
  flat_map (fun p : batch * bool => if snd p then b_rows (fst p) else []) res.
(* rows of every write that has returned Ok *)
Definition acked_rows (s : state) : list row := flat_map (fun w => res_rows (w_res w)) (st_ws s).

Definition pc_is_idle (p : pc) : bool := match p with PIdle => true | _ => false end.
Definition tm_is_quiet (p : pc) : bool := match p with PIdle | PStopped => true | _ => false end.
(* no write and no flush in progress, nothing buffered *)
Definition quiescent (s : state) : bool :=
  forallb (fun w => pc_is_idle (w_pc w)) (st_ws s) && tm_is_quiet (st_tm s)
  && buf_is_empty (sh_buf (st_sh s)).

(* ---------------- steps at the granularity of real yield points ---------------- *)
(* On the implementation a writer task only parks before a write (harness
   gate) and at the PUT of flush_batches; the timer task parks at the PUT, in
   the select (nothing ready) or ends.  The harness releases one parked task
   at a time; the corresponding model run is the step sequence up to the next
   park point. *)
Definition w_parked (w : wthread) : bool :=
  match w_pc w with PIdle | PPut _ _ => true | _ => false end.
Definition t_parked (s : state) : bool :=
  match st_tm s with
  | PPut _ _ | PStopped => true
  | PIdle => negb (st_shut s) && negb (sh_next_tick (st_sh s) <=? sh_clock (st_sh s))
  | _ => false
  end.

Fixpoint settle_w (c : cfg) (fuel : nat) (i : nat) (s : state) : state :=
  match fuel with
  | O => s
  | S f =>
      match nth_error (st_ws s) i with
      | Some w => if w_parked w then s else settle_w c f i (step c (LW i) s)
      | None => s
      end
  end.
Fixpoint settle_t (c : cfg) (fuel : nat) (s : state) : state :=
  match fuel with
  | O => s
  | S f => if t_parked s then s else settle_t c f (step c LT s)
  end.

Definition macro (c : cfg) (l : label) (s : state) : state :=
  match l with
  | LW i => settle_w c 64 i (step c (LW i) s)
  | LT => settle_t c 64 (step c LT s)
  | LAdv _ | LShut => settle_t c 64 (step c l s)
  end.
Definition macro_run (c : cfg) (ls : list label) (s : state) : state :=
  fold_left (fun s l => macro c l s) ls s.
