(* Model/TimeExtract.v — executable model of the pruning inputs QueryNode
   derives from a statement, and of the chunk selection built on them (C04).

   Follows src/query/engine.rs as it is after commit 3f63730 (fix: sound
   interval analysis):
     extract_timestamp_value   -> ts_value
     extract_time_from_expr    -> bounds
     references_time_column    -> mentions_ts
     extract_time_bounds       -> plan_bounds   (Filter nodes of the plan, top-down)
     extract_time_range        -> extract / resolve
     convert_expr_to_predicate -> convert
     extract_predicates_from_plan -> plan_preds
   and src/query/mod.rs QueryNode::query_for_tenant -> select_chunks / scanned_rows.

   Only definitions here (no proofs). *)
From CS Require Import Base.Prelude Model.Pred Model.Catalog.
From CSGen Require Import Consts.
Open Scope Z_scope.

(* i64::checked_mul *)
Definition checked_mul (a b : Z) : option Z :=
  let r := a * b in if in_i64 r then Some r else None.

(* scale factors written in extract_timestamp_value (regenerated from the code) *)
Definition code_scale (u : tunit) : Z :=
  match u with
  | USec => Consts.TE_SEC_SCALE
  | UMilli => Consts.TE_MILLI_SCALE
  | UMicro => Consts.TE_MICRO_SCALE
  | UNano => 1
  end.

(* extract_timestamp_value: Some nanoseconds for an Int64 / timestamp literal,
   None for every other expression.  An integer literal above i64::MAX is a
   UInt64 literal for the planner, hence "other". *)
Definition ts_value (l : lit) : option Z :=
  match l with
  | LInt v => if in_i64 v then Some v else None
  | LTs u v => if in_i64 v then checked_mul v (code_scale u) else None
  | LNow _ => None
  | LOther _ => None
  end.

(* closed interval of i64 timestamps; (i64_min, i64_max) is "unbounded" *)
Definition ival := (Z * Z)%type.
Definition unbounded : ival := (i64_min, i64_max).

(* timestamp <op> literal *)
Definition cmp_bounds (op : cmpop) (v : option Z) : ival :=
  match v with
  | Some x =>
      match op with
      | OGt | OGe => (x, i64_max)
      | OLt | OLe => (i64_min, x)
      | OEq => (x, x)
      | ONe => unbounded
      end
  | None => unbounded
  end.

(* literal <op> timestamp *)
Definition cmp_bounds_rev (op : cmpop) (v : option Z) : ival :=
  match v with
  | Some x =>
      match op with
      | OLt | OLe => (x, i64_max)
      | OGt | OGe => (i64_min, x)
      | OEq => (x, x)
      | ONe => unbounded
      end
  | None => unbounded
  end.

Definition inter (a b : ival) : ival := (Z.max (fst a) (fst b), Z.min (snd a) (snd b)).
Definition hull (a b : ival) : ival := (Z.min (fst a) (fst b), Z.max (snd a) (snd b)).

(* extract_time_from_expr *)
Fixpoint bounds (p : pred) : ival :=
  match p with
  | PCmp op l => cmp_bounds op (ts_value l)
  | PCmpR op l => cmp_bounds_rev op (ts_value l)
  | PBetween neg lo hi =>
      if neg then unbounded
      else (match ts_value lo with Some x => x | None => i64_min end,
            match ts_value hi with Some x => x | None => i64_max end)
  | PLabel _ _ => unbounded
  | PAnd a b => inter (bounds a) (bounds b)
  | POr a b => hull (bounds a) (bounds b)
  | PNot _ => unbounded
  end.

(* references_time_column *)
Fixpoint mentions_ts (p : pred) : bool :=
  match p with
  | PCmp _ _ | PCmpR _ _ | PBetween _ _ _ => true
  | PLabel _ _ => false
  | PAnd a b | POr a b => mentions_ts a || mentions_ts b
  | PNot a => mentions_ts a
  end.

(* extract_time_bounds over the Filter nodes of the plan (top-down): filters
   that do not mention the timestamp leave the accumulator alone, the others
   are intersected into it. *)
Fixpoint plan_bounds (fs : list pred) (acc : option ival) : option ival :=
  match fs with
  | [] => acc
  | f :: rest =>
      plan_bounds rest
        (if mentions_ts f
         then Some (inter (match acc with Some c => c | None => unbounded end) (bounds f))
         else acc)
  end.

(* extract_time_range; the "last hour" default stays symbolic *)
Inductive trange := TDefault | TRange (lo hi : Z).

Definition extract (fs : list pred) : trange :=
  match plan_bounds fs None with
  | Some (lo, hi) => TRange lo hi
  | None => TDefault
  end.

Definition resolve (now : Z) (t : trange) : ival :=
  match t with
  | TDefault => (now - Consts.TE_DEFAULT_WINDOW_NANOS, now)
  | TRange lo hi => (lo, hi)
  end.

(* convert_expr_to_predicate on the modelled grammar: a timestamp comparison
   (either operand order) or BETWEEN gives None, which AND / OR / NOT
   propagate; a label atom is converted iff it has a convertible shape. *)
Fixpoint convert (p : pred) : option cpred :=
  match p with
  | PCmp _ _ | PCmpR _ _ | PBetween _ _ _ => None
  | PLabel k conv => if conv then Some (CLeaf k) else None
  | PAnd a b =>
      match convert a with
      | Some ca => match convert b with Some cb => Some (CAnd ca cb) | None => None end
      | None => None
      end
  | POr a b =>
      match convert a with
      | Some ca => match convert b with Some cb => Some (COr ca cb) | None => None end
      | None => None
      end
  | PNot a => match convert a with Some ca => Some (CNot ca) | None => None end
  end.

(* extract_predicates_from_plan: at most one predicate per Filter node *)
Definition plan_preds (fs : list pred) : list cpred :=
  flat_map (fun f => match convert f with Some c => [c] | None => [] end) fs.

(* ---------- QueryNode::query_for_tenant: which chunks are scanned ---------- *)
(* [get s e]  : MetadataClient::get_chunks on the catalog (Model/Catalog.v);
   [prune cs p]: the statistics gate of get_chunks_with_predicates for chunk p
                 (all predicates evaluate_against_stats = true); the in-memory
                 backend ignores the predicates (prune = fun _ _ => true). *)
Definition select_chunks (get : Z -> Z -> outcome (list (path * cmeta)))
           (prune : list cpred -> path -> bool) (now : Z) (fs : list pred)
  : outcome (list path) :=
  let '(s, e) := resolve now (extract fs) in
  match get s e with
  | Done l => Done (filter (prune (plan_preds fs)) (map fst l))
  | Failed c => Failed c
  | Panic => Panic
  | Hang => Hang
  end.

(* the rows of the listing table registered over the selected chunk files *)
Definition rows_of (content : path -> list row) (ps : list path) : list row :=
  flat_map content ps.

(* execute_with_indexes = execute + usage counters: the counters are the only
   state it touches; the answer is that of the plain execution. *)
Record idx_counters := mkIdx { ic_usage : N; ic_would_have_helped : N }.
Definition execute_with_indexes {A : Type} (exec : list row -> A) (visible_hits invisible_hits : N)
           (st : idx_counters) (rows : list row) : idx_counters * A :=
  (mkIdx (ic_usage st + visible_hits) (ic_would_have_helped st + invisible_hits), exec rows).

(* ---------- per-query table registration and statement typing ---------- *)
(* Type of the `timestamp` column of a table bound to the name `metrics`:
   Int64 (Flight ingest) or Timestamp(Nanosecond, UTC) (remote-write / OTLP
   ingest, and MetricSchema::default_metrics()). *)
Inductive tskind := KInt64 | KNanos.

Definition tskind_eqb (a b : tskind) : bool :=
  match a, b with
  | KInt64, KInt64 => true
  | KNanos, KNanos => true
  | _, _ => false
  end.

(* QueryEngine::new registers an EmptyTable with the default metrics schema *)
Definition default_kind : tskind := KNanos.

(* the part of the engine state a statement's type check depends on: the
   schema of the table currently bound to `metrics` *)
Record qnode := mkQnode { qn_schema : tskind }.
Definition qnode_fresh : qnode := mkQnode default_kind.

(* register_metrics_table_for_chunks: a non-empty selection binds a listing
   table with the schema of the chunk files; an EMPTY selection re-registers
   an EmptyTable with the schema of whatever is bound at that moment
   (register_empty_metrics_table / metrics_table_schema). *)
Definition register (st : qnode) (data : tskind) (sel : list path) : qnode :=
  match sel with
  | [] => st
  | _ :: _ => mkQnode data
  end.

(* QueryNode::query_for_tenant after the chunk selection: bind, then plan and
   run the statement against the bound table.  [typechecks k]: the statement's
   comparisons type-check against a timestamp column of kind k (DataFusion
   refuses e.g. Timestamp >= Int64: "type_coercion" error = Failed 1). *)
Definition run_query {A : Type} (typechecks : tskind -> bool) (exec : list row -> A)
           (content : path -> list row) (st : qnode) (data : tskind) (sel : list path)
  : qnode * outcome A :=
  let st' := register st data sel in
  (st', if typechecks (qn_schema st') then Done (exec (rows_of content sel)) else Failed 1%N).

(* the same statement over one table holding every ingested row *)
Definition full_scan {A : Type} (typechecks : tskind -> bool) (exec : list row -> A)
           (content : path -> list row) (data : tskind) (live : list path) : outcome A :=
  if typechecks data then Done (exec (rows_of content live)) else Failed 1%N.

(* Known class "empty-selection-schema-of-earlier-registration": no chunk is
   selected and the table bound before the query (the start-up default, or an
   earlier registration) has another timestamp type than the ingested data. *)
Definition known_empty_selection_schema (st : qnode) (data : tskind) (sel : list path) : bool :=
  match sel with
  | [] => negb (tskind_eqb (qn_schema st) data)
  | _ :: _ => false
  end.
