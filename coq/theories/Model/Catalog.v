(* Model/Catalog.v — executable model of the chunk catalog and its hour-bucket
   time index, for both metadata backends.

   Follows src/metadata/s3.rs (ObjectStoreMetadataClient: atomic_register_chunk,
   delete_chunk, complete_compaction, get_chunks_with_predicates with no
   predicates, list_chunks) and src/metadata/local.rs (LocalMetadataClient:
   register_chunk, delete_chunk, complete_compaction, get_chunks, list_chunks).

   Only definitions here (no proofs), so the model still runs when a proof
   breaks.  Bucket widths are taken per call site from generated/Consts.v. *)
From CS Require Import Base.Prelude.
From CSGen Require Import Consts.
Open Scope Z_scope.

Definition path := N.

Record cmeta := mkMeta { m_min : Z; m_max : Z; m_rows : N; m_size : N }.

(* hour bucket with Rust's truncating division: (t / w) * w *)
Definition bucketw (w t : Z) : Z := Z.quot t w * w.

(* the `while bucket <= end_bucket { ...; bucket += w }` loop, as the list of
   visited buckets.  The i64 overflow of `bucket += w` is handled by the
   callers through [reg_overflows]. *)
Definition buckets_between (w sb eb : Z) : list Z :=
  if sb <=? eb
  then map (fun i => sb + Z.of_nat i * w) (seq 0 (S (Z.to_nat (Z.quot (eb - sb) w))))
  else [].

(* `bucket += w` after visiting the last bucket overflows i64: debug panics,
   release wraps and keeps looping. *)
Definition reg_overflows (w mn mx : Z) : bool :=
  (bucketw w mn <=? bucketw w mx) && (i64_max <? bucketw w mx + w).

Definition overlaps (cmin cmax s e : Z) : bool := (cmin <=? e) && (cmax >=? s).

Definition tindex := list (Z * list path).

Definition ti_push (b : Z) (p : path) (ti : tindex) : tindex :=
  match aget Z.eqb b ti with
  | Some l => aset Z.eqb b (l ++ [p]) ti
  | None => aset Z.eqb b [p] ti
  end.

Definition ti_push_all (bs : list Z) (p : path) (ti : tindex) : tindex :=
  fold_left (fun t b => ti_push b p t) bs ti.

(* `for chunks in time_index.values_mut() { chunks.retain(|p| p != path) }` *)
Definition ti_retain_all (p : path) (ti : tindex) : tindex :=
  map (fun '(b, l) => (b, removeN p l)) ti.

(* `time_index.retain(|_, chunks| !chunks.is_empty())` *)
Definition ti_drop_empty (ti : tindex) : tindex :=
  filter (fun '(_, l) => match l with [] => false | _ => true end) ti.

(* `if let Some(paths) = time_index.get_mut(&bucket) { paths.retain(..) }` for
   each bucket of a list *)
Definition ti_retain_in (bs : list Z) (p : path) (ti : tindex) : tindex :=
  map (fun '(b, l) => if memZ b bs then (b, removeN p l) else (b, l)) ti.

(* BTreeMap::range(sb..=eb): the paths of all buckets in the closed range, in
   bucket-list order (callers only use the result as a set). *)
Definition ti_range (sb eb : Z) (ti : tindex) : list path :=
  flat_map (fun '(b, l) => if (sb <=? b) && (b <=? eb) then l else []) ti.

(* ------------------------------------------------------------------ *)
(* Object-store backend: one catalog value                              *)
(* ------------------------------------------------------------------ *)
Record centry := mkEntry { e_meta : cmeta; e_level : N }.

Record cat := mkCat { c_chunks : list (path * centry); c_tindex : tindex }.

Definition cat_empty : cat := mkCat [] [].

Definition s3_register (c : cat) (p : path) (m : cmeta) : cat :=
  let w := Consts.S3_REGISTER_BUCKET_NANOS in
  mkCat (aset N.eqb p (mkEntry m 0) (c_chunks c))
        (ti_push_all (buckets_between w (bucketw w (m_min m)) (bucketw w (m_max m))) p (c_tindex c)).

Definition s3_delete (c : cat) (p : path) : cat :=
  mkCat (adel N.eqb p (c_chunks c)) (ti_drop_empty (ti_retain_all p (c_tindex c))).

Definition max_level (lv : path -> option N) (srcs : list path) : N :=
  fold_left (fun acc p => match lv p with Some l => N.max acc l | None => acc end) srcs 0%N.

(* None = `Err(Metadata("Compaction target chunk not found"))`, nothing written *)
Definition s3_complete (c : cat) (srcs : list path) (tgt : path) : option cat :=
  let new_level := (max_level (fun p => option_map e_level (aget N.eqb p (c_chunks c))) srcs + 1)%N in
  let c1 := fold_left (fun c p => mkCat (adel N.eqb p (c_chunks c)) (ti_retain_all p (c_tindex c))) srcs c in
  let ti := ti_drop_empty (c_tindex c1) in
  match aget N.eqb tgt (c_chunks c1) with
  | Some e => Some (mkCat (aset N.eqb tgt (mkEntry (e_meta e) new_level) (c_chunks c1)) ti)
  | None => None
  end.

(* the scan shared by both backends, parameterised by the chunk lookup *)
Fixpoint scan (look : path -> option cmeta) (s e : Z) (seen : list path) (ps : list path)
  : list (path * cmeta) :=
  match ps with
  | [] => []
  | p :: r =>
      if memN p seen then scan look s e seen r
      else match look p with
           | Some m => if overlaps (m_min m) (m_max m) s e
                       then (p, m) :: scan look s e (p :: seen) r
                       else scan look s e (p :: seen) r
           | None => scan look s e (p :: seen) r
           end
  end.

(* get_chunks(TimeRange{start:s,end:e}).  An inverted range is answered with
   the empty list (the guard added by the C07 fix); without the guard
   BTreeMap::range panics when the start bucket exceeds the end bucket. *)
Definition s3_get (c : cat) (s e : Z) : outcome (list (path * cmeta)) :=
  let w := Consts.S3_GET_BUCKET_NANOS in
  if e <? s then Done []
  else Done (scan (fun p => option_map e_meta (aget N.eqb p (c_chunks c))) s e []
                  (ti_range (bucketw w s) (bucketw w e) (c_tindex c))).

Definition s3_list (c : cat) : list (path * cmeta) :=
  map (fun '(p, e) => (p, e_meta e)) (c_chunks c).

(* ------------------------------------------------------------------ *)
(* In-memory backend: three separate maps                               *)
(* ------------------------------------------------------------------ *)
Record lcat := mkLcat { l_chunks : list (path * cmeta); l_levels : list (path * N); l_tindex : tindex }.

Definition lcat_empty : lcat := mkLcat [] [] [].

Definition local_register (c : lcat) (p : path) (m : cmeta) : lcat :=
  let w := Consts.LOCAL_BUCKET_NANOS in
  let s := Consts.LOCAL_STEP_NANOS in
  mkLcat (aset N.eqb p m (l_chunks c))
         (aset N.eqb p 0%N (l_levels c))
         (ti_push_all (buckets_between s (bucketw w (m_min m)) (bucketw w (m_max m))) p (l_tindex c)).

(* delete only cleans the buckets of the chunk's *current* interval *)
Definition local_delete (c : lcat) (p : path) : lcat :=
  let w := Consts.LOCAL_BUCKET_NANOS in
  let s := Consts.LOCAL_STEP_NANOS in
  match aget N.eqb p (l_chunks c) with
  | Some m =>
      mkLcat (adel N.eqb p (l_chunks c)) (adel N.eqb p (l_levels c))
             (ti_retain_in (buckets_between s (bucketw w (m_min m)) (bucketw w (m_max m))) p (l_tindex c))
  | None => mkLcat (l_chunks c) (adel N.eqb p (l_levels c)) (l_tindex c)
  end.

Definition local_complete (c : lcat) (srcs : list path) (tgt : path) : option lcat :=
  let new_level := (max_level (fun p => aget N.eqb p (l_levels c)) srcs + 1)%N in
  let c1 := fold_left local_delete srcs c in
  match aget N.eqb tgt (l_chunks c1) with
  | Some _ => Some (mkLcat (l_chunks c1) (aset N.eqb tgt new_level (l_levels c1)) (l_tindex c1))
  | None => None
  end.

Definition local_get (c : lcat) (s e : Z) : outcome (list (path * cmeta)) :=
  let w := Consts.LOCAL_BUCKET_NANOS in
  if e <? s then Done []
  else Done (scan (fun p => aget N.eqb p (l_chunks c)) s e []
                  (ti_range (bucketw w s) (bucketw w e) (l_tindex c))).

Definition local_list (c : lcat) : list (path * cmeta) := l_chunks c.

(* ------------------------------------------------------------------ *)
(* Histories                                                             *)
(* ------------------------------------------------------------------ *)
Inductive cop :=
| ORegister (p : path) (m : cmeta)
| ODelete (p : path)
| OComplete (srcs : list path) (tgt : path).

(* result code of an op: 0 = Ok, 1 = Err (nothing changed) *)
Definition s3_apply (c : cat) (o : cop) : cat * N :=
  match o with
  | ORegister p m => (s3_register c p m, 0%N)
  | ODelete p => (s3_delete c p, 0%N)
  | OComplete srcs tgt => match s3_complete c srcs tgt with Some c' => (c', 0%N) | None => (c, 1%N) end
  end.

Definition local_apply (c : lcat) (o : cop) : lcat * N :=
  match o with
  | ORegister p m => (local_register c p m, 0%N)
  | ODelete p => (local_delete c p, 0%N)
  | OComplete srcs tgt => match local_complete c srcs tgt with Some c' => (c', 0%N) | None => (c, 1%N) end
  end.

Definition s3_run (h : list cop) : cat := fold_left (fun c o => fst (s3_apply c o)) h cat_empty.
Definition local_run (h : list cop) : lcat := fold_left (fun c o => fst (local_apply c o)) h lcat_empty.

(* ---- the specification: a plain map path -> interval ---- *)
Definition spec := list (path * cmeta).

Definition spec_apply (sp : spec) (o : cop) : spec :=
  match o with
  | ORegister p m => aset N.eqb p m sp
  | ODelete p => adel N.eqb p sp
  | OComplete srcs tgt =>
      let sp1 := fold_left (fun s p => adel N.eqb p s) srcs sp in
      if amem N.eqb tgt sp1 then sp1 else sp
  end.
Definition spec_run (h : list cop) : spec := fold_left spec_apply h [].

(* exact answer: live chunks whose closed interval meets the closed range *)
Definition spec_get (sp : spec) (s e : Z) : list (path * cmeta) :=
  if e <? s then [] else filter (fun '(_, m) => overlaps (m_min m) (m_max m) s e) sp.

(* a history whose registrations all stay clear of the i64 overflow of the
   bucket loop and carry min <= max *)
Definition op_ok (w : Z) (o : cop) : bool :=
  match o with
  | ORegister _ m => (m_min m <=? m_max m) && negb (reg_overflows w (m_min m) (m_max m))
                     && in_i64 (m_min m) && in_i64 (m_max m)
  | _ => true
  end.
