(* Model/ProtoConv.v — executable model of convert_prom_to_arrow and of the
   status returned by handle_remote_write (src/api/ingest/prometheus.rs).

   * label columns: the set of label names other than "__name__" over all
     series (HashSet), sorted bytewise (`sorted_labels.sort()` on Strings);
   * per series: metric name = value of the FIRST label called "__name__"
     (`iter().find`), default ""; the label map is a HashMap collected from the
     label list, so the LAST label of a name wins;
   * per sample, in order: timestamp_ms.checked_mul(1_000_000) (an i64
     overflow rejects the request — commit 3374538), the value routed to one of
     the u64 / i64 / f64 columns, one cell per label column.
   * f64 is Flocq's binary64 built from the raw bits; `as` casts, the
     subtraction, abs and the comparisons are Flocq's IEEE operations.

   Only definitions here (no proofs). *)
From Coq Require Import ZArith List.
From Flocq Require Import Core IEEE754.BinarySingleNaN IEEE754.Binary IEEE754.Bits.
From CS Require Import Base.Prelude Model.Proto.
Open Scope N_scope.

(* ---------------- f64 ---------------- *)
Definition f64 := BinarySingleNaN.binary_float 53 1024.
Definition f64_of_bits (b : N) : f64 := B2BSN 53 1024 (b64_of_bits (Z.of_N b)).
(* `z as f64` for an integer: round to nearest even *)
Definition f64_of_int (z : Z) : f64 :=
  BinarySingleNaN.binary_normalize 53 1024 (eq_refl Lt) (eq_refl Lt) mode_NE z 0 false.
Definition f64_sub (x y : f64) : f64 :=
  @BinarySingleNaN.Bminus 53 1024 (eq_refl Lt) (eq_refl Lt) mode_NE x y.
Definition f64_abs (x : f64) : f64 := BinarySingleNaN.Babs x.
Definition f64_lt (x y : f64) : bool := BinarySingleNaN.Bltb x y.
Definition f64_is_finite (x : f64) : bool := BinarySingleNaN.is_finite x.
(* f64::EPSILON = 2^-52 *)
Definition F64_EPSILON : f64 := f64_of_bits 4372995238176751616.

(* `val.fract() == 0.0` for a finite val: the value is an integer *)
Definition f64_is_int (x : f64) : bool :=
  match x with
  | BinarySingleNaN.B754_zero _ => true
  | BinarySingleNaN.B754_finite _ m e _ =>
      if (0 <=? e)%Z then true else (Z.pos m mod 2 ^ (- e) =? 0)%Z
  | _ => false
  end.

(* `val as i64` for a finite val: truncate, then saturate *)
Definition sat_i64 (z : Z) : Z :=
  if (z <? i64_min)%Z then i64_min else if (i64_max <? z)%Z then i64_max else z.
Definition f64_to_i64 (x : f64) : Z := sat_i64 (BinarySingleNaN.Btrunc x).

(* ---------------- value routing ---------------- *)
Inductive routed := RU64 (u : N) | RI64 (i : Z) | RF64 (bits : N).

(* if val.is_finite() && val.fract() == 0.0 && val < i64::MAX as f64 {
     let int_val = val as i64;
     if (int_val as f64 - val).abs() < f64::EPSILON {
        if int_val >= 0 { u64 column } else { i64 column } } else { f64 column }
   } else { f64 column }                                                        *)
Definition route (bits : N) : routed :=
  let val := f64_of_bits bits in
  if f64_is_finite val && f64_is_int val && f64_lt val (f64_of_int i64_max) then
    let int_val := f64_to_i64 val in
    if f64_lt (f64_abs (f64_sub (f64_of_int int_val) val)) F64_EPSILON then
      if (0 <=? int_val)%Z then RU64 (Z.to_N int_val) else RI64 int_val
    else RF64 bits
  else RF64 bits.

(* the routing before commit 5679380 (no `val < i64::MAX as f64` guard) *)
Definition route_legacy (bits : N) : routed :=
  let val := f64_of_bits bits in
  if f64_is_finite val && f64_is_int val then
    let int_val := f64_to_i64 val in
    if f64_lt (f64_abs (f64_sub (f64_of_int int_val) val)) F64_EPSILON then
      if (0 <=? int_val)%Z then RU64 (Z.to_N int_val) else RI64 int_val
    else RF64 bits
  else RF64 bits.

(* ---------------- strings ---------------- *)
Definition NAME : bytes := [95; 95; 110; 97; 109; 101; 95; 95].     (* "__name__" *)

Fixpoint bytes_eqb (a b : bytes) : bool :=
  match a, b with
  | [], [] => true
  | x :: a', y :: b' => (x =? y) && bytes_eqb a' b'
  | _, _ => false
  end.

(* String's Ord: bytewise lexicographic *)
Fixpoint bytes_ltb (a b : bytes) : bool :=
  match a, b with
  | [], [] => false
  | [], _ :: _ => true
  | _ :: _, [] => false
  | x :: a', y :: b' => if x <? y then true else if y <? x then false else bytes_ltb a' b'
  end.

(* HashSet insert followed (at the end) by sort(): a sorted duplicate-free list *)
Fixpoint insert_name (n : bytes) (l : list bytes) : list bytes :=
  match l with
  | [] => [n]
  | x :: r => if bytes_eqb n x then l
              else if bytes_ltb n x then n :: l
              else x :: insert_name n r
  end.

Definition add_label_names (acc : list bytes) (ls : list label) : list bytes :=
  fold_left (fun acc l => if bytes_eqb (l_name l) NAME then acc else insert_name (l_name l) acc) ls acc.

Definition label_names (r : request) : list bytes :=
  fold_left (fun acc t => add_label_names acc (ts_labels t)) r [].

(* ts.labels.iter().find(|l| l.name == "__name__").map(|l| l.value.clone()).unwrap_or_default() *)
Fixpoint metric_name (ls : list label) : bytes :=
  match ls with
  | [] => []
  | l :: r => if bytes_eqb (l_name l) NAME then l_value l else metric_name r
  end.

(* ts_labels: HashMap<&str,&str> collected from the list (later entries
   overwrite earlier ones); `.get(name)` *)
Fixpoint lookup_last (n : bytes) (ls : list label) : option bytes :=
  match ls with
  | [] => None
  | l :: r => match lookup_last n r with
              | Some v => Some v
              | None => if bytes_eqb (l_name l) n then Some (l_value l) else None
              end
  end.

(* ---------------- rows ---------------- *)
Record row := mkRow { r_ts : Z; r_name : bytes; r_val : routed; r_labels : list (option bytes) }.
Record batch := mkBatch { b_cols : list bytes; b_rows : list row }.

Definition E_NO_SERIES : N := 20.    (* "No timeseries data" *)
Definition E_TS_RANGE : N := 21.     (* "Timestamp .. ms is outside the nanosecond range" *)

Definition convert_sample (cols : list bytes) (name : bytes) (ls : list label) (s : sample) : outcome row :=
  let ns := (s_ts s * 1000000)%Z in                    (* checked_mul *)
  if in_i64 ns
  then Done (mkRow ns name (route (s_bits s)) (map (fun c => lookup_last c ls) cols))
  else Failed E_TS_RANGE.

Fixpoint collect {A B : Type} (f : A -> outcome B) (l : list A) : outcome (list B) :=
  match l with
  | [] => Done []
  | a :: r => obind (f a) (fun b => obind (collect f r) (fun bs => Done (b :: bs)))
  end.

Definition convert_series (cols : list bytes) (t : series) : outcome (list row) :=
  collect (convert_sample cols (metric_name (ts_labels t)) (ts_labels t)) (ts_samples t).

Definition convert (r : request) : outcome batch :=
  match r with
  | [] => Failed E_NO_SERIES
  | _ :: _ =>
      let cols := label_names r in
      obind (collect (convert_series cols) r) (fun rows => Done (mkBatch cols (concat rows)))
  end.

(* ---------------- the HTTP handler ----------------
   snappy is a library: the harness supplies the decompressed bytes (or None
   when decompression fails).  Status: 400 decode / parse error, 500
   conversion error, 204 accepted (an empty batch is a no-op for the ingester
   since c9ce3e7; ingester failures are outside this model). *)
Inductive hstatus := H204 | H400 | H500 | HPanic | HHang.

Definition handle (m : build) (body : option bytes) : hstatus :=
  match body with
  | None => H400
  | Some d =>
      match parse_write_request (current m) d with
      | Failed _ => H400
      | Panic => HPanic
      | Hang => HHang
      | Done r =>
          match convert r with
          | Done _ => H204
          | Failed _ => H500
          | Panic => HPanic
          | Hang => HHang
          end
      end
  end.
