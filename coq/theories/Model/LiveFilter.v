(* Model/LiveFilter.v — executable model of the live-tail filter of streaming
   queries and of topic-filtered subscriptions (property C18).

   Follows src/query/streaming.rs (QueryFilter::from_sql with
   extract_predicates_from_expr / expr_to_predicate / try_extract_comparison /
   try_column_op_value / parse_sql_value / parse_number, QueryFilter::apply with
   apply_predicate_to_mask / apply_comparison / apply_float_comparison) as of
   the two `fix:` commits (OR tree; numeric literals compared like the engine),
   and src/ingester/topic_broadcast.rs (TopicFilter::matches,
   FilteredReceiver::recv over the tokio broadcast queue).

   Only definitions here (no proofs).  Strings are UTF-8 byte lists, i64 values
   are Z, f64 values are their 64 raw bits as Z in [0, 2^64); the only float
   operation that needs rounding (`i64 as f64`) is Flocq's binary_normalize
   with round-to-nearest-even. *)
From Coq Require Import List ZArith NArith Bool Lia.
From Flocq Require Import IEEE754.Binary IEEE754.Bits.
From CS Require Import Base.Prelude.
Import ListNotations.
Open Scope Z_scope.

(* ------------------------------------------------------------------ *)
(* Strings                                                              *)
(* ------------------------------------------------------------------ *)
Definition str := list N.

Fixpoint str_eqb (a b : str) : bool :=
  match a, b with
  | [], [] => true
  | x :: a', y :: b' => N.eqb x y && str_eqb a' b'
  | _, _ => false
  end.

(* Rust's `str` ordering: lexicographic on the bytes, a proper prefix is less *)
Fixpoint str_cmp (a b : str) : comparison :=
  match a, b with
  | [], [] => Eq
  | [], _ :: _ => Lt
  | _ :: _, [] => Gt
  | x :: a', y :: b' => match N.compare x y with Eq => str_cmp a' b' | c => c end
  end.

(* `to_lowercase()` restricted to ASCII (identifiers outside ASCII are outside
   the model; the generators only produce ASCII identifiers) *)
Definition lower_byte (c : N) : N := if (N.leb 65 c && N.leb c 90)%bool then (c + 32)%N else c.
Definition lower (s : str) : str := map lower_byte s.

(* "timestamp" *)
Definition ts_name : str := [116; 105; 109; 101; 115; 116; 97; 109; 112]%N.

(* ------------------------------------------------------------------ *)
(* f64 as raw bits                                                      *)
(* ------------------------------------------------------------------ *)
(* f64::total_cmp:  left ^= (((left >> 63) as u64) >> 1) as i64  and then the
   comparison of the two i64 keys.  For a bit pattern with the sign bit clear
   the key is the pattern itself, with the sign bit set it is -1 - magnitude. *)
Definition tkey (bits : Z) : Z := if bits <? 2 ^ 63 then bits else 2 ^ 63 - 1 - bits.
Definition f64_total_cmp (a b : Z) : comparison := Z.compare (tkey a) (tkey b).

(* `x as f64` for an i64 (and the correctly rounded value of a decimal integer
   literal that does not fit i64): round to nearest, ties to even *)
Definition z2f (z : Z) : Z :=
  bits_of_b64 (binary_normalize 53 1024 (eq_refl _) (eq_refl _) BinarySingleNaN.mode_NE z 0 false).

(* unary minus on a float literal: the sign bit is flipped *)
Definition fneg (bits : Z) : Z := if bits <? 2 ^ 63 then bits + 2 ^ 63 else bits - 2 ^ 63.

(* ------------------------------------------------------------------ *)
(* Typed batches                                                        *)
(* ------------------------------------------------------------------ *)
Inductive column :=
| CInt (v : list (option Z))       (* Int64 *)
| CFloat (v : list (option Z))     (* Float64, raw bits *)
| CStr (v : list (option str))     (* Utf8 *)
| CTs (v : list (option Z))        (* Timestamp(Nanosecond, None) *)
| COther (v : list (option Z)).    (* any other Arrow type (UInt64, Dictionary, LargeUtf8, Boolean, ...):
                                      opaque cell ids; the live filter compares nothing with it *)

Record batch := mkBatch { b_rows : nat; b_cols : list (str * column) }.

Definition col_len (c : column) : nat :=
  match c with CInt v | CFloat v | CTs v | COther v => length v | CStr v => length v end.

(* RecordBatch::column_by_name: the first field with exactly that name *)
Fixpoint find_col (name : str) (cols : list (str * column)) : option column :=
  match cols with
  | [] => None
  | (n, c) :: r => if str_eqb n name then Some c else find_col name r
  end.

(* ------------------------------------------------------------------ *)
(* Predicates (metadata::predicates::{ColumnPredicate, PredicateValue}) *)
(* ------------------------------------------------------------------ *)
Inductive cop := OpEq | OpNe | OpLt | OpLe | OpGt | OpGe.
Inductive pvalue := PStr (s : str) | PInt (z : Z) | PFloat (bits : Z) | PBool (b : bool) | PNull.
Inductive cpred :=
| PCmp (op : cop) (col : str) (v : pvalue)
| PAnd (l r : cpred)
| POr (l r : cpred).
Definition qfilter := list cpred.

(* ------------------------------------------------------------------ *)
(* The WHERE clause as sqlparser hands it over                          *)
(* ------------------------------------------------------------------ *)
(* text of a Value::Number: digits only (denoting z >= 0), or a text with a
   fraction / exponent whose correctly rounded f64 value has these bits *)
Inductive numtext := NTInt (z : Z) | NTDec (bits : Z).
Inductive binop := BEq | BNe | BLt | BLe | BGt | BGe | BAnd | BOr | BOther.
Inductive sexpr :=
| EIdent (name : str)          (* Identifier, or the last part of a CompoundIdentifier *)
| ENum (t : numtext)           (* Value::Number *)
| EStr (s : str)               (* Value::SingleQuotedString / DoubleQuotedString *)
| EBool (b : bool)
| ENull
| ENeg (e : sexpr)             (* UnaryOp { Minus, e } *)
| EBin (op : binop) (l r : sexpr)
| ENested (e : sexpr)          (* parentheses *)
| EOther.                      (* every other expression form *)

(* ------------------------------------------------------------------ *)
(* QueryFilter::from_sql                                                *)
(* ------------------------------------------------------------------ *)
(* parse_number on the text, prefixed with '-' when [neg]: i64 when it parses
   as one, else f64 *)
Definition parse_number (neg : bool) (t : numtext) : pvalue :=
  match t with
  | NTInt z => let v := if neg then - z else z in
               if in_i64 v then PInt v else PFloat (z2f v)
  | NTDec bits => PFloat (if neg then fneg bits else bits)
  end.

Definition parse_sql_value (e : sexpr) : option pvalue :=
  match e with
  | EStr s => Some (PStr s)
  | ENum t => Some (parse_number false t)
  | EBool b => Some (PBool b)
  | ENull => Some PNull
  | ENeg (ENum t) => Some (parse_number true t)
  | _ => None
  end.

Definition cop_of (op : binop) : option cop :=
  match op with
  | BEq => Some OpEq | BNe => Some OpNe | BLt => Some OpLt | BLe => Some OpLe
  | BGt => Some OpGt | BGe => Some OpGe | _ => None
  end.

Definition try_column_op_value (c : sexpr) (op : binop) (v : sexpr) : option cpred :=
  match c with
  | EIdent name =>
      match parse_sql_value v with
      | Some pv => match cop_of op with Some o => Some (PCmp o (lower name) pv) | None => None end
      | None => None
      end
  | _ => None
  end.

Definition reverse_op (op : binop) : binop :=
  match op with BLt => BGt | BLe => BGe | BGt => BLt | BGe => BLe | o => o end.

Definition try_extract_comparison (l : sexpr) (op : binop) (r : sexpr) : option cpred :=
  match try_column_op_value l op r with
  | Some p => Some p
  | None => try_column_op_value r (reverse_op op) l
  end.

Fixpoint expr_to_predicate (e : sexpr) : option cpred :=
  match e with
  | EBin BAnd l r =>
      match expr_to_predicate l, expr_to_predicate r with
      | Some a, Some b => Some (PAnd a b)
      | Some p, None | None, Some p => Some p
      | None, None => None
      end
  | EBin BOr l r =>
      match expr_to_predicate l with
      | Some a => match expr_to_predicate r with Some b => Some (POr a b) | None => None end
      | None => None
      end
  | EBin op l r => try_extract_comparison l op r
  | ENested i => expr_to_predicate i
  | _ => None
  end.

(* extract_predicates_from_expr: the pushes onto `predicates`, in order *)
Fixpoint extract (e : sexpr) : list cpred :=
  match e with
  | EBin BAnd l r => extract l ++ extract r
  | ENested i => extract i
  | o => match expr_to_predicate o with Some p => [p] | None => [] end
  end.

(* the argument is `select.selection` of the (single) SELECT statement *)
Definition from_sql (selection : option sexpr) : qfilter :=
  match selection with Some e => extract e | None => [] end.

(* ------------------------------------------------------------------ *)
(* QueryFilter::apply                                                   *)
(* ------------------------------------------------------------------ *)
Definition test_cmp (op : cop) (c : comparison) : bool :=
  match op, c with
  | OpEq, Eq => true | OpEq, _ => false
  | OpNe, Eq => false | OpNe, _ => true
  | OpLt, Lt => true | OpLt, _ => false
  | OpLe, Gt => false | OpLe, _ => true
  | OpGt, Gt => true | OpGt, _ => false
  | OpGe, Lt => false | OpGe, _ => true
  end.

(* `for (i, v) in values.enumerate() { if mask[i] { mask[i] = f(v) } }` *)
Fixpoint mask_upd {A : Type} (f : A -> bool) (mask : list bool) (vals : list A) : list bool :=
  match mask, vals with
  | m :: ms, x :: xs => (if m then f x else false) :: mask_upd f ms xs
  | ms, [] => ms
  | [], _ => []
  end.

Definition on_some {A : Type} (f : A -> bool) (x : option A) : bool :=
  match x with Some a => f a | None => false end.

Definition apply_comparison (op : cop) (c : column) (v : pvalue) (mask : list bool) : list bool :=
  match v with
  | PStr e =>
      match c with
      | CStr vals => mask_upd (on_some (fun s => test_cmp op (str_cmp s e))) mask vals
      | _ => mask
      end
  | PInt e =>
      match c with
      | CInt vals => mask_upd (on_some (fun a => test_cmp op (Z.compare a e))) mask vals
      | CFloat vals => mask_upd (on_some (fun x => test_cmp op (f64_total_cmp x (z2f e)))) mask vals
      | _ => mask
      end
  | PFloat e =>
      match c with
      | CFloat vals => mask_upd (on_some (fun x => test_cmp op (f64_total_cmp x e))) mask vals
      | CInt vals => mask_upd (on_some (fun a => test_cmp op (f64_total_cmp (z2f a) e))) mask vals
      | _ => mask
      end
  | _ => mask
  end.

Fixpoint zip_or (a b : list bool) : list bool :=
  match a, b with
  | x :: a', y :: b' => (x || y)%bool :: zip_or a' b'
  | _, _ => []
  end.

Fixpoint apply_pred (p : cpred) (cols : list (str * column)) (mask : list bool) : list bool :=
  match p with
  | PCmp op col v =>
      match find_col col cols with Some c => apply_comparison op c v mask | None => mask end
  | PAnd l r => apply_pred r cols (apply_pred l cols mask)
  | POr l r => zip_or (apply_pred l cols mask) (apply_pred r cols mask)
  end.

(* rows before the merge point are masked out; a null timestamp leaves the row in *)
Definition ts_mask (cols : list (str * column)) (merge : Z) (mask : list bool) : list bool :=
  match find_col ts_name cols with
  | Some (CTs v) | Some (CInt v) =>
      mask_upd (fun x => match x with Some t => negb (t <? merge) | None => true end) mask v
  | _ => mask
  end.

Fixpoint filter_list {A : Type} (mask : list bool) (l : list A) : list A :=
  match mask, l with
  | m :: ms, x :: xs => if m then x :: filter_list ms xs else filter_list ms xs
  | _, _ => []
  end.

Definition filter_col (mask : list bool) (c : column) : column :=
  match c with
  | CInt v => CInt (filter_list mask v)
  | CFloat v => CFloat (filter_list mask v)
  | CStr v => CStr (filter_list mask v)
  | CTs v => CTs (filter_list mask v)
  | COther v => COther (filter_list mask v)
  end.

Definition count_true (mask : list bool) : nat := length (filter (fun x => x) mask).

(* arrow::compute::filter_record_batch *)
Definition filter_batch (mask : list bool) (b : batch) : batch :=
  mkBatch (count_true mask) (map (fun nc => (fst nc, filter_col mask (snd nc))) (b_cols b)).

Definition final_mask (f : qfilter) (b : batch) (merge : Z) : list bool :=
  fold_left (fun m p => apply_pred p (b_cols b) m) f
            (ts_mask (b_cols b) merge (repeat true (b_rows b))).

(* None = Ok(None): nothing to deliver for this batch *)
Definition apply (f : qfilter) (b : batch) (merge : Z) : option batch :=
  if Nat.eqb (b_rows b) 0 then None
  else
    let mask := final_mask f b merge in
    if negb (existsb (fun x => x) mask) then None
    else
      let fb := filter_batch mask b in
      if Nat.eqb (b_rows fb) 0 then None else Some fb.

(* the live part of StreamingQueryExecutor::execute for a subscriber that keeps
   up: every received batch goes through apply; Ok(None) is skipped *)
Fixpoint live_tail (f : qfilter) (merge : Z) (received : list batch) : list batch :=
  match received with
  | [] => []
  | b :: r => match apply f b merge with
              | Some fb => fb :: live_tail f merge r
              | None => live_tail f merge r
              end
  end.

(* The subscription point made explicit.  `query_stream(_filtered)` resubscribes
   the receiver when it is called: from that instant every flushed batch is
   appended to the subscription's queue (tokio broadcast, subscriber keeping
   up), whether or not the spawned forwarding task has started its live loop
   (it first hands over the historical result, possibly back-pressured by the
   consumer).  Events after the call returned: a flush, or one iteration of the
   forwarding task's live loop (pop the oldest queued batch, apply, forward the
   result unless it is Ok(None)).  State: pending queue, forwarded batches. *)
Inductive xevent := XFlush (b : batch) | XStep.

Definition xstep (f : qfilter) (merge : Z) (st : list batch * list batch) (e : xevent)
  : list batch * list batch :=
  match e with
  | XFlush b => (fst st ++ [b], snd st)
  | XStep => match fst st with
             | [] => st                                  (* recv().await stays pending *)
             | b :: q => match apply f b merge with
                         | Some fb => (q, snd st ++ [fb])
                         | None => (q, snd st)
                         end
             end
  end.

Definition xrun (f : qfilter) (merge : Z) (evs : list xevent) : list batch * list batch :=
  fold_left (xstep f merge) evs ([], []).

Definition xflushes (evs : list xevent) : list batch :=
  flat_map (fun e => match e with XFlush b => [b] | XStep => [] end) evs.

(* everything the consumer eventually gets: forwarded so far, then the queue drained *)
Definition xdelivered (f : qfilter) (merge : Z) (evs : list xevent) : list batch :=
  snd (xrun f merge evs) ++ live_tail f merge (fst (xrun f merge evs)).

(* ------------------------------------------------------------------ *)
(* Specification: SQL meaning of the WHERE clause, row by row           *)
(* ------------------------------------------------------------------ *)
Inductive value := VInt (z : Z) | VFloat (bits : Z) | VStr (s : str) | VTs (z : Z) | VOther (z : Z) | VNull.

Definition cell_of (c : column) (i : nat) : option value :=
  match c with
  | CInt v => option_map (fun x => match x with Some z => VInt z | None => VNull end) (nth_error v i)
  | CFloat v => option_map (fun x => match x with Some z => VFloat z | None => VNull end) (nth_error v i)
  | CStr v => option_map (fun x => match x with Some s => VStr s | None => VNull end) (nth_error v i)
  | CTs v => option_map (fun x => match x with Some z => VTs z | None => VNull end) (nth_error v i)
  | COther v => option_map (fun x => match x with Some z => VOther z | None => VNull end) (nth_error v i)
  end.

(* value of column [name] in row [i]; None = no such column / row *)
Definition cell (b : batch) (name : str) (i : nat) : option value :=
  match find_col name (b_cols b) with Some c => cell_of c i | None => None end.

(* SQL value of a literal: an integer literal denotes that integer, a literal
   with a fraction or exponent the nearest double *)
Definition lit_value (e : sexpr) : option value :=
  match e with
  | EStr s => Some (VStr s)
  | ENum (NTInt z) => Some (VInt z)
  | ENum (NTDec f) => Some (VFloat f)
  | ENeg (ENum (NTInt z)) => Some (VInt (- z))
  | ENeg (ENum (NTDec f)) => Some (VFloat (fneg f))
  | _ => None
  end.

(* comparison of two SQL values as the engine (DataFusion over Arrow kernels)
   performs it: integers exactly; an integer against a double after casting the
   integer to double; doubles by IEEE 754 totalOrder; strings by bytes.
   None = NULL (one side is NULL) or the two kinds are not comparable without a
   coercion this model does not describe (string against number or timestamp:
   the engine casts the literal or rejects the query). *)
Definition vcmp (a b : value) : option comparison :=
  match a, b with
  | VInt x, VInt y => Some (Z.compare x y)
  | VInt x, VFloat y => Some (f64_total_cmp (z2f x) y)
  | VFloat x, VInt y => Some (f64_total_cmp x (z2f y))
  | VFloat x, VFloat y => Some (f64_total_cmp x y)
  | VStr x, VStr y => Some (str_cmp x y)
  | _, _ => None
  end.

Definition operand_value (b : batch) (i : nat) (e : sexpr) : option value :=
  match e with
  | EIdent n => cell b (lower n) i      (* unquoted identifiers are case-insensitive *)
  | _ => lit_value e
  end.

(* Kleene three-valued connectives; None = NULL *)
Definition and3 (a b : option bool) : option bool :=
  match a, b with
  | Some false, _ | _, Some false => Some false
  | Some true, Some true => Some true
  | _, _ => None
  end.
Definition or3 (a b : option bool) : option bool :=
  match a, b with
  | Some true, _ | _, Some true => Some true
  | Some false, Some false => Some false
  | _, _ => None
  end.

Fixpoint eval (e : sexpr) (b : batch) (i : nat) : option bool :=
  match e with
  | EBin BAnd l r => and3 (eval l b i) (eval r b i)
  | EBin BOr l r => or3 (eval l b i) (eval r b i)
  | EBin op l r =>
      match cop_of op, operand_value b i l, operand_value b i r with
      | Some o, Some x, Some y => option_map (test_cmp o) (vcmp x y)
      | _, _, _ => None
      end
  | ENested e' => eval e' b i
  | _ => None
  end.

Definition istrue (o : option bool) : bool := match o with Some true => true | _ => false end.

(* the row satisfies the WHERE clause (a query without WHERE keeps every row) *)
Definition sat (sel : option sexpr) (b : batch) (i : nat) : bool :=
  match sel with Some w => istrue (eval w b i) | None => true end.

(* the row is at or after the merge point *)
Definition ts_ge (b : batch) (merge : Z) (i : nat) : bool :=
  match cell b ts_name i with
  | Some (VInt t) | Some (VTs t) => merge <=? t
  | _ => false
  end.

Definition keep_mask (sel : option sexpr) (b : batch) (merge : Z) : list bool :=
  map (fun i => ts_ge b merge i && sat sel b i)%bool (seq 0 (b_rows b)).

(* what the subscriber must receive for one flushed batch *)
Definition spec_apply (sel : option sexpr) (b : batch) (merge : Z) : option batch :=
  let keep := keep_mask sel b merge in
  if existsb (fun x => x) keep then Some (filter_batch keep b) else None.

(* ---- the fragment the property speaks about ---- *)
Definition lit_in_range (e : sexpr) : bool :=
  match e with
  | EStr _ => true
  | ENum (NTInt z) => (0 <=? z) && in_i64 z
  | ENum (NTDec f) => (0 <=? f) && (f <? 2 ^ 63)
  | ENeg (ENum (NTInt z)) => (0 <=? z) && in_i64 (- z)
  | ENeg (ENum (NTDec f)) => (0 <=? f) && (f <? 2 ^ 63)
  | _ => false
  end.

Definition is_cmp (op : binop) : bool :=
  match op with BAnd | BOr | BOther => false | _ => true end.

(* comparisons `column op literal` and `literal op column`, AND, OR, parentheses *)
Fixpoint supported (e : sexpr) : bool :=
  match e with
  | EBin BAnd l r | EBin BOr l r => supported l && supported r
  | EBin op (EIdent _) r => is_cmp op && lit_in_range r
  | EBin op l (EIdent _) => is_cmp op && lit_in_range l
  | ENested e' => supported e'
  | _ => false
  end.

(* kinds: does the live filter's physical-type dispatch know how to compare
   this literal with this column? *)
Definition comparable (c : column) (l : sexpr) : bool :=
  match lit_value l, c with
  | Some (VStr _), CStr _ => true
  | Some (VInt _), CInt _ | Some (VInt _), CFloat _ => true
  | Some (VFloat _), CInt _ | Some (VFloat _), CFloat _ => true
  | _, _ => false
  end.

Definition leaf_col_lit (e : sexpr) : option (str * sexpr) :=
  match e with
  | EBin _ (EIdent n) r => Some (lower n, r)
  | EBin _ l (EIdent n) => Some (lower n, l)
  | _ => None
  end.

(* every column the clause mentions is in the batch *)
Fixpoint cols_present (e : sexpr) (b : batch) : bool :=
  match e with
  | EBin BAnd l r | EBin BOr l r => cols_present l b && cols_present r b
  | ENested e' => cols_present e' b
  | _ => match leaf_col_lit e with
         | Some (n, _) => match find_col n (b_cols b) with Some _ => true | None => false end
         | None => true
         end
  end.

(* KNOWN CLASS "type-mismatch": some comparison pairs a literal with a column
   of a physical type the live filter does not compare it with (string literal
   against a numeric or timestamp column, numeric literal against a string or
   timestamp column, any literal against a column of another Arrow type such as
   UInt64 or a dictionary-encoded string): the comparison is skipped, i.e. does
   not filter. *)
Fixpoint type_mismatch (e : sexpr) (b : batch) : bool :=
  match e with
  | EBin BAnd l r | EBin BOr l r => type_mismatch l b || type_mismatch r b
  | ENested e' => type_mismatch e' b
  | _ => match leaf_col_lit e with
         | Some (n, l) => match find_col n (b_cols b) with
                          | Some c => negb (comparable c l)
                          | None => false
                          end
         | None => false
         end
  end.

Definition known_class (sel : option sexpr) (b : batch) : bool :=
  match sel with Some w => type_mismatch w b | None => false end.

(* shape of a flushed batch: every column has b_rows values, the timestamp
   column exists, is Timestamp(ns) or Int64 (Ingester::flush rejects anything
   else) and has no nulls *)
Definition wf_batch (b : batch) : bool :=
  forallb (fun nc => Nat.eqb (col_len (snd nc)) (b_rows b)) (b_cols b).

Definition ts_col_ok (b : batch) : bool :=
  match find_col ts_name (b_cols b) with
  | Some (CTs v) | Some (CInt v) => forallb (fun x => match x with Some _ => true | None => false end) v
  | _ => false
  end.

(* rows of a batch, for stating "each once and in order" *)
Definition row_at (b : batch) (i : nat) : list (str * option value) :=
  map (fun nc => (fst nc, cell_of (snd nc) i)) (b_cols b).
Definition rows_of (b : batch) : list (list (str * option value)) :=
  map (row_at b) (seq 0 (b_rows b)).

(* ------------------------------------------------------------------ *)
(* Topic filters (src/ingester/topic_broadcast.rs)                      *)
(* ------------------------------------------------------------------ *)
Record bmeta := mkMeta { bm_shard : str; bm_tenant : N; bm_metrics : list str }.

Inductive tfilter :=
| TAll
| TShard (s : str)
| TTenant (t : N)
| TMetrics (ms : list str)
| TAnd (fs : list tfilter)
| TOr (fs : list tfilter).

Definition str_mem (s : str) (l : list str) : bool := existsb (str_eqb s) l.

Fixpoint matches (f : tfilter) (m : bmeta) : bool :=
  match f with
  | TAll => true
  | TShard s => str_eqb (bm_shard m) s
  | TTenant t => N.eqb (bm_tenant m) t
  | TMetrics ms => existsb (fun x => str_mem x ms) (bm_metrics m)
  | TAnd fs => (fix all (l : list tfilter) : bool :=
                  match l with [] => true | g :: r => matches g m && all r end) fs
  | TOr fs => (fix any (l : list tfilter) : bool :=
                 match l with [] => false | g :: r => matches g m || any r end) fs
  end.

(* TopicFilter::and (the builder) *)
Definition tf_and (a b : tfilter) : tfilter :=
  match a, b with
  | TAnd x, TAnd y => TAnd (x ++ y)
  | TAnd x, o => TAnd (x ++ [o])
  | t, TAnd y => TAnd (t :: y)
  | t, o => TAnd [t; o]
  end.

(* A subscription is the queue of batches sent since it subscribed and not yet
   received (tokio broadcast, subscriber keeping up: nothing is dropped).
   FilteredReceiver::recv pops until a batch matches; with nothing matching in
   the queue it keeps waiting (None) having consumed the queue. *)
Section Topic.
  Variable P : Type.   (* payload: the RecordBatch *)

  Fixpoint recv (f : tfilter) (queue : list (bmeta * P)) : option P * list (bmeta * P) :=
    match queue with
    | [] => (None, [])
    | (m, p) :: r => if matches f m then (Some p, r) else recv f r
    end.

  Inductive tevent := TSend (m : bmeta) (p : P) | TRecv.

  (* state: pending queue, deliveries so far (in order) *)
  Definition tstep (f : tfilter) (st : list (bmeta * P) * list P) (e : tevent)
    : list (bmeta * P) * list P :=
    match e with
    | TSend m p => (fst st ++ [(m, p)], snd st)
    | TRecv => match recv f (fst st) with
               | (Some p, q) => (q, snd st ++ [p])
               | (None, q) => (q, snd st)
               end
    end.

  Definition trun (f : tfilter) (evs : list tevent) : list (bmeta * P) * list P :=
    fold_left (tstep f) evs ([], []).

  (* receive until the queue is exhausted *)
  Fixpoint drain (f : tfilter) (queue : list (bmeta * P)) : list P :=
    match queue with
    | [] => []
    | (m, p) :: r => if matches f m then p :: drain f r else drain f r
    end.

  Definition sends (evs : list tevent) : list (bmeta * P) :=
    flat_map (fun e => match e with TSend m p => [(m, p)] | TRecv => [] end) evs.

  (* everything the subscriber gets from a run followed by draining *)
  Definition delivered (f : tfilter) (evs : list tevent) : list P :=
    snd (trun f evs) ++ drain f (fst (trun f evs)).
End Topic.
Arguments recv {P} f queue.
Arguments TSend {P} m p.
Arguments TRecv {P}.
Arguments tstep {P} f st e.
Arguments trun {P} f evs.
Arguments drain {P} f queue.
Arguments sends {P} evs.
Arguments delivered {P} f evs.

(* declarative meaning of a topic filter *)
Inductive tsat (m : bmeta) : tfilter -> Prop :=
| ts_all : tsat m TAll
| ts_shard : forall s, bm_shard m = s -> tsat m (TShard s)
| ts_tenant : forall t, bm_tenant m = t -> tsat m (TTenant t)
| ts_metrics : forall ms x, In x (bm_metrics m) -> In x ms -> tsat m (TMetrics ms)
| ts_and : forall fs, (forall g, In g fs -> tsat m g) -> tsat m (TAnd fs)
| ts_or : forall fs g, In g fs -> tsat m g -> tsat m (TOr fs).
