(* Model/Lease.v — executable model of the compaction leases (C08), for both
   metadata backends.  Definitions only; the proofs are in Proofs/LeaseProofs.v.

   Follows src/metadata/s3.rs (ObjectStoreMetadataClient: acquire_lease,
   renew_lease, complete_lease, fail_lease, scavenge_leases, load_leases over
   load_leases_with_etag / atomic_save_leases / put_with_cas) and
   src/metadata/local.rs (LocalMetadataClient, the same operations under one
   RwLock write guard, no await inside), types of src/metadata/mod.rs.

   The stored value is `CompactionLeases { leases: HashMap<lease_id, lease> }`:
   an association list with unique keys here (order is irrelevant; the
   canonical output sorts by id).  Lease ids are UUIDs in the code; here the id
   an acquire uses is part of the operation descriptor (the harness numbers the
   acquires in order of creation).  `HashMap::insert` = [aset] (replace when the
   key is present), so the exclusion theorems need NO freshness assumption; only
   the "never handed to someone else" theorem excludes a second acquire with
   the same id.

   Time: one shared clock, a [Z] in an arbitrary unit.  Every function takes
   the durations from a [lcfg]; the two instances [s3_cfg] / [local_cfg] use
   milliseconds and the constants regenerated from the Rust sources.

   What the two backends do, per operation ([now] = the wall clock read right
   after the load; there is no await between the load and that read):

     acquire   retain(not (Active and expires_at <= now))       -- drop expired actives
               conflicts = requested chunks that occur in some lease with
                           Active and expires_at > now
               conflicts non-empty  -> Err(ChunksAlreadyLeased(conflicts))
                    object store: nothing is written
                    in memory   : the retain above has ALREADY modified the
                                  table under the write lock and stays
               else insert {holder, chunks, level, acquired_at = now,
                            expires_at = now + TTL, Active}; write; Ok(lease)
     renew     absent -> Err("not found"); status <> Active -> Err("non-active");
               else expires_at = now + EXT (also when it had already expired
               but nobody reclaimed it yet); write; Ok
     complete  absent -> Ok without writing; else status = Completed (whatever
     / fail    it was before); write; Ok
     scavenge  retain(Active and expires_at > now); removed = old len - new len;
                    object store: removed = 0 -> Ok(0) without writing
                    in memory   : (the table is the same anyway)
               write; Ok(removed)

   The object-store backend wraps each of these in its own copy of the
   load / decide / conditional-PUT retry loop = Base/CasProto.v with
   [s3_decide]; the in-memory backend applies [local_apply] atomically.

   [lease_body] states the bodies with the named predicates [expired] / [live]
   / [is_active]; [lease_body_code] is the same with the comparison expressions
   translated from the Rust sources (generated/Funs.v) and is what the two
   backends run. *)
From CS Require Import Base.Prelude Base.CasProto.
From CSGen Require Import Consts Funs.
Open Scope Z_scope.

Inductive lstatus : Type := Active | Completed | Failed.

Record lease : Type := mkLease {
  l_holder : N;
  l_chunks : list N;
  l_level : N;
  l_acquired : Z;
  l_expires : Z;
  l_status : lstatus }.

Definition table := list (N * lease).

Record lcfg : Type := mkCfg { acq_ttl : Z; renew_ext : Z }.

Inductive lop : Type :=
| OAcquire (id holder : N) (chunks : list N) (level : N)
| ORenew (id : N)
| OComplete (id : N)
| OFail (id : N)
| OScavenge.

Inductive lout : Type :=
| RLease (id : N) (l : lease)      (* Ok(lease) *)
| RUnit                            (* Ok(()) *)
| RCount (n : N)                   (* Ok(removed) *)
| EConflict (chunks : list N)      (* Err(ChunksAlreadyLeased(conflicts)) *)
| ENotFound                        (* Err(Internal("Lease .. not found")) *)
| ENotActive.                      (* Err(Internal("Cannot renew non-active lease ..")) *)

Definition is_active (l : lease) : bool :=
  match l_status l with Active => true | _ => false end.

(* `status == Active && expires_at > now` *)
Definition live (now : Z) (l : lease) : bool := is_active l && (now <? l_expires l).

(* `status == Active && expires_at <= now` *)
Definition expired (now : Z) (l : lease) : bool := is_active l && (l_expires l <=? now).

Definition set_status (l : lease) (s : lstatus) : lease :=
  mkLease (l_holder l) (l_chunks l) (l_level l) (l_acquired l) (l_expires l) s.

Definition set_expires (l : lease) (e : Z) : lease :=
  mkLease (l_holder l) (l_chunks l) (l_level l) (l_acquired l) e (l_status l).

(* `leases.retain(|_, l| !(l.status == Active && l.expires_at <= now))` *)
Definition drop_expired (now : Z) (t : table) : table :=
  filter (fun x => negb (expired now (snd x))) t.

(* `leases.retain(|_, l| if l.status == Active { l.expires_at > now } else { false })` *)
Definition keep_live (now : Z) (t : table) : table :=
  filter (fun x => live now (snd x)) t.

(* the HashSet of chunks of the leases that are Active and unexpired *)
Definition leased_chunks (now : Z) (t : table) : list N :=
  flat_map (fun x => if live now (snd x) then l_chunks (snd x) else []) t.

(* `chunks.iter().filter(|c| leased_chunks.contains(c)).cloned().collect()` *)
Definition conflicts (now : Z) (t : table) (chunks : list N) : list N :=
  filter (fun c => memN c (leased_chunks now t)) chunks.

(* what one execution of an operation body does to the loaded table *)
Inductive eff : Type :=
| Write (t' : table) (o : lout)     (* save t', then return o *)
| NoWrite (o : lout).               (* return o, nothing saved *)

Inductive backend : Type := ObjectStore | InMemory.

Definition lease_body (b : backend) (cfg : lcfg) (now : Z) (op : lop) (t : table) : eff :=
  match op with
  | OAcquire id holder chunks level =>
      let t1 := drop_expired now t in
      match conflicts now t1 chunks with
      | [] =>
          let l := mkLease holder chunks level now (now + acq_ttl cfg) Active in
          Write (aset N.eqb id l t1) (RLease id l)
      | c :: r =>
          match b with
          | ObjectStore => NoWrite (EConflict (c :: r))
          | InMemory => Write t1 (EConflict (c :: r))
          end
      end
  | ORenew id =>
      match aget N.eqb id t with
      | Some l =>
          if is_active l
          then Write (aset N.eqb id (set_expires l (now + renew_ext cfg)) t) RUnit
          else NoWrite ENotActive
      | None => NoWrite ENotFound
      end
  | OComplete id =>
      match aget N.eqb id t with
      | Some l => Write (aset N.eqb id (set_status l Completed) t) RUnit
      | None => NoWrite RUnit
      end
  | OFail id =>
      match aget N.eqb id t with
      | Some l => Write (aset N.eqb id (set_status l Failed) t) RUnit
      | None => NoWrite RUnit
      end
  | OScavenge =>
      let t1 := keep_live now t in
      let removed := N.of_nat (length t - length t1) in
      match b with
      | ObjectStore => if N.eqb removed 0 then NoWrite (RCount 0) else Write t1 (RCount removed)
      | InMemory => Write t1 (RCount removed)
      end
  end.

(* ---------------- the bodies with the comparisons as written in the code ----
   generated/Funs.v holds the boolean expressions of the retain / filter / if
   conditions, translated from the Rust sources on every run (LeaseStatus as
   Z: Active = 0).  [lease_body_code] is [lease_body] with those expressions in
   place of [expired] / [live] / [is_active]; it is what the backends below
   (and the extracted model) execute.  Proofs/LeaseProofs.v shows that the two
   agree (body_code_eq) — a changed operator in the code breaks that proof. *)
Definition status_code (s : lstatus) : Z :=
  match s with Active => 0 | Completed => 1 | Failed => 2 end.
Definition active_code : Z := 0.

Definition acq_keep (b : backend) (now : Z) (l : lease) : bool :=
  match b with
  | ObjectStore => Funs.lease_s3_acquire_keep (status_code (l_status l)) active_code (l_expires l) now
  | InMemory => Funs.lease_local_acquire_keep (status_code (l_status l)) active_code (l_expires l) now
  end.

Definition acq_live (b : backend) (now : Z) (l : lease) : bool :=
  match b with
  | ObjectStore => Funs.lease_s3_acquire_live (status_code (l_status l)) active_code (l_expires l) now
  | InMemory => Funs.lease_local_acquire_live (status_code (l_status l)) active_code (l_expires l) now
  end.

Definition renew_refuse (b : backend) (now : Z) (l : lease) : bool :=
  match b with
  | ObjectStore => Funs.lease_s3_renew_refuse (status_code (l_status l)) active_code (l_expires l) now
  | InMemory => Funs.lease_local_renew_refuse (status_code (l_status l)) active_code (l_expires l) now
  end.

(* `if <cond> { <then> } else { false }` *)
Definition scav_keep (b : backend) (now : Z) (l : lease) : bool :=
  match b with
  | ObjectStore =>
      if Funs.lease_s3_scavenge_cond (status_code (l_status l)) active_code (l_expires l) now
      then Funs.lease_s3_scavenge_then (status_code (l_status l)) active_code (l_expires l) now
      else false
  | InMemory =>
      if Funs.lease_local_scavenge_cond (status_code (l_status l)) active_code (l_expires l) now
      then Funs.lease_local_scavenge_then (status_code (l_status l)) active_code (l_expires l) now
      else false
  end.

Definition lease_body_code (b : backend) (cfg : lcfg) (now : Z) (op : lop) (t : table) : eff :=
  match op with
  | OAcquire id holder chunks level =>
      let t1 := filter (fun x => acq_keep b now (snd x)) t in
      let taken := flat_map (fun x => if acq_live b now (snd x) then l_chunks (snd x) else []) t1 in
      match filter (fun c => memN c taken) chunks with
      | [] =>
          let l := mkLease holder chunks level now (now + acq_ttl cfg) Active in
          Write (aset N.eqb id l t1) (RLease id l)
      | c :: r =>
          match b with
          | ObjectStore => NoWrite (EConflict (c :: r))
          | InMemory => Write t1 (EConflict (c :: r))
          end
      end
  | ORenew id =>
      match aget N.eqb id t with
      | Some l =>
          if renew_refuse b now l
          then NoWrite ENotActive
          else Write (aset N.eqb id (set_expires l (now + renew_ext cfg)) t) RUnit
      | None => NoWrite ENotFound
      end
  | OComplete id =>
      match aget N.eqb id t with
      | Some l => Write (aset N.eqb id (set_status l Completed) t) RUnit
      | None => NoWrite RUnit
      end
  | OFail id =>
      match aget N.eqb id t with
      | Some l => Write (aset N.eqb id (set_status l Failed) t) RUnit
      | None => NoWrite RUnit
      end
  | OScavenge =>
      let t1 := filter (fun x => scav_keep b now (snd x)) t in
      let removed := N.of_nat (length t - length t1) in
      match b with
      | ObjectStore => if N.eqb removed 0 then NoWrite (RCount 0) else Write t1 (RCount removed)
      | InMemory => Write t1 (RCount removed)
      end
  end.

(* ---------------- object-store backend: a CasProto instance ---------------- *)

(* a missing compaction-leases.json loads as the empty table (etag "none") *)
Definition tbl (v : option table) : table := match v with Some t => t | None => [] end.

Definition lease_decide (cfg : lcfg) (now : Z) (op : lop) (v : option table) : decision table lout :=
  match lease_body_code ObjectStore cfg now op (tbl v) with
  | Write t' o => Commit t' o
  | NoWrite o => Abort o
  end.

(* durations in milliseconds, from the Rust sources *)
Definition s3_cfg : lcfg := mkCfg (Consts.S3_LEASE_TTL_SECS * 1000) (Consts.S3_LEASE_RENEW_EXT_SECS * 1000).
Definition local_cfg : lcfg := mkCfg (Consts.LOCAL_LEASE_TTL_SECS * 1000) (Consts.LOCAL_LEASE_RENEW_EXT_SECS * 1000).

Definition s3_decide := lease_decide s3_cfg.
Definition s3_retries : nat := N.to_nat Consts.MAX_CAS_RETRIES.

Definition lsys := sys table lop lout.

(* N nodes, node c runs the operations [progs c] one after the other; the
   schedule says which node performs its next object-store request, or that
   the shared clock advances *)
Definition s3_run (sched : list label) (s : lsys) : lsys := run s3_decide 0 s3_retries sched s.
Definition s3_init (v0 : option table) (now0 : Z) (progs : nat -> list lop) : lsys := init_sys v0 now0 progs.

(* ---------------- in-memory backend: atomic operations ---------------- *)
Definition local_apply (cfg : lcfg) (now : Z) (op : lop) (t : table) : table * lout :=
  match lease_body_code InMemory cfg now op t with
  | Write t' o => (t', o)
  | NoWrite o => (t, o)
  end.

Inductive hstep : Type :=
| HTick (d : N)
| HOp (op : lop).

Record lstate : Type := mkLState { ls_now : Z; ls_tab : table; ls_outs : list lout }.

Definition local_step (cfg : lcfg) (s : lstate) (h : hstep) : lstate :=
  match h with
  | HTick d => mkLState (ls_now s + Z.of_N d) (ls_tab s) (ls_outs s)
  | HOp op => let r := local_apply cfg (ls_now s) op (ls_tab s) in
              mkLState (ls_now s) (fst r) (ls_outs s ++ [snd r])
  end.

Definition local_run_from (cfg : lcfg) (h : list hstep) (s : lstate) : lstate :=
  fold_left (local_step cfg) h s.

Definition local_run (now0 : Z) (h : list hstep) : lstate :=
  local_run_from local_cfg h (mkLState now0 [] []).

(* ---------------- the property's predicates, executable ---------------- *)
Definition disjointb (a b : list N) : bool := forallb (fun c => negb (memN c b)) a.

(* pairwise disjointness of the leases that are live at time t *)
Fixpoint exclb_from (t : Z) (x : N * lease) (r : table) : bool :=
  match r with
  | [] => true
  | y :: r' =>
      (negb (live t (snd x) && live t (snd y)) || N.eqb (fst x) (fst y)
       || disjointb (l_chunks (snd x)) (l_chunks (snd y)))
      && exclb_from t x r'
  end.

Fixpoint exclb (t : Z) (v : table) : bool :=
  match v with
  | [] => true
  | x :: r => exclb_from t x r && exclb t r
  end.

(* the renewal schedule of the holder (Compactor::spawn_lease_renewal) and the
   longest time a renew can spend sleeping between its attempts, in ms:
   BASE * (2^0 + ... + 2^(MAX-1)) *)
Definition renew_period_ms : Z := Consts.LEASE_RENEW_PERIOD_SECS * 1000.
Definition backoff_total_ms : Z := Consts.BASE_BACKOFF_MS * (2 ^ Z.of_N Consts.MAX_CAS_RETRIES - 1).
