(* Model/Shard.v — shard metadata fenced by generation (C13).  Definitions only.

   Follows
     src/metadata/s3.rs    update_shard_metadata / load_shard_with_etag /
                           atomic_save_shard / get_shard_metadata
                           (an instance of the CAS retry machine, Base/CasProto.v:
                            one GET per load, Create when the shard object is
                            absent and expected_generation = 0, Update(etag)
                            otherwise)
     src/metadata/local.rs update_shard_metadata (no await inside: atomic)
     src/sharding/router.rs ShardRouter::update_routing / invalidate /
                           invalidate_all / handle_shard_moved

   One CasProto instance per shard object (shards/<id>.json); operations on
   different shard ids touch different objects.

   A shard value is (generation, state tag, data): the state tag stands for
   Active / Splitting / PendingDeletion, `data` for everything else the caller
   put into ShardMetadata (key range, replicas, times, state payload) -- the
   code copies those fields verbatim from the caller's argument, so the model
   carries them as opaque numbers.  The generation FIELD of the caller's
   argument is ignored by the code (it is overwritten), so it is not part of
   an operation.  Generations are u64 in the code and N here; the model is
   faithful while generations stay below 2^64 - 1. *)
From CS Require Import Base.Prelude Base.CasProto Model.CasFault.
From CSGen Require Import Consts.

Record shard : Type := mkShard { sh_gen : N; sh_state : N; sh_data : N }.

(* update_shard_metadata(shard_id, metadata, expected_generation) *)
Record sop : Type := mkSop { so_expected : N; so_state : N; so_data : N }.

Inductive sout : Type :=
| SOk
| SStale (expected actual : N)     (* Error::StaleGeneration { expected, actual } *)
| SNotFound.                       (* Error::ShardNotFound *)

(* the body of the cas_retry! block of update_shard_metadata *)
Definition shard_decide (_ : Z) (op : sop) (cur : option shard) : decision shard sout :=
  match cur with
  | None =>
      (* load_shard_with_etag -> Err(ShardNotFound) *)
      if N.eqb (so_expected op) 0
      then Commit (mkShard 1 (so_state op) (so_data op)) SOk          (* Create, generation := 1 *)
      else Abort SNotFound
  | Some sh =>
      if N.eqb (sh_gen sh) (so_expected op)
      then Commit (mkShard (so_expected op + 1) (so_state op) (so_data op)) SOk
      else Abort (SStale (so_expected op) (sh_gen sh))
  end.

Definition shard_max_retries : nat := N.to_nat Consts.MAX_CAS_RETRIES.

(* the object-store backend: the generic machine, one GET per load *)
Definition shard_step := step shard_decide 0 shard_max_retries.
Definition shard_run := run shard_decide 0 shard_max_retries.
Definition shard_init (v0 : option shard) (progs : nat -> list sop) : sys shard sop sout :=
  init_sys v0 0%Z progs.

(* the same machine with injected transport faults (Model/CasFault.v): used by
   the correspondence harness only, no theorem speaks about it *)
Definition shard_fstep := fstep shard_decide 0 shard_max_retries.
Definition shard_finit (v0 : option shard) (progs : nat -> list sop) : sys shard sop (option sout) :=
  init_sys v0 0%Z progs.

(* LocalMetadataClient::update_shard_metadata, following its own control flow *)
Definition local_update (cur : option shard) (op : sop) : option shard * sout :=
  match cur with
  | Some sh =>
      if negb (N.eqb (sh_gen sh) (so_expected op))
      then (cur, SStale (so_expected op) (sh_gen sh))
      else (Some (mkShard (so_expected op + 1) (so_state op) (so_data op)), SOk)
  | None =>
      if negb (N.eqb (so_expected op) 0)
      then (cur, SNotFound)
      else (Some (mkShard (so_expected op + 1) (so_state op) (so_data op)), SOk)
  end.

Definition local_shard_run (v0 : option shard) (ops : list sop) : option shard :=
  fold_left (fun v op => fst (local_update v op)) ops v0.

Definition gen_of (v : option shard) : N :=
  match v with Some sh => sh_gen sh | None => 0%N end.

(* ---- ShardRouter: cache shard id -> (generation, data) ---- *)
Definition rcache := list (N * (N * N)).

Inductive rop : Type :=
| RUpdate (id gen data : N)                 (* update_routing(shard) *)
| RInvalidate (id : N)                      (* invalidate / handle_stale_generation *)
| RInvalidateAll
| RMoved (id : N) (nid ngen ndata : N).     (* handle_shard_moved(id, new_shard) *)

Definition router_update (c : rcache) (id gen data : N) : rcache :=
  match aget N.eqb id c with
  | Some (g, _) => if N.ltb gen g then c else aset N.eqb id (gen, data) c
  | None => aset N.eqb id (gen, data) c
  end.

Definition router_apply (c : rcache) (o : rop) : rcache :=
  match o with
  | RUpdate id gen data => router_update c id gen data
  | RInvalidate id => adel N.eqb id c
  | RInvalidateAll => []
  | RMoved id nid ngen ndata => router_update (adel N.eqb id c) nid ngen ndata
  end.

Definition router_run (h : list rop) : rcache := fold_left router_apply h [].

Definition router_gen (c : rcache) (id : N) : option N := option_map fst (aget N.eqb id c).
