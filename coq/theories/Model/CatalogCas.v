(* Model/CatalogCas.v — the shared object-store catalog (catalog.json) under
   concurrent register / delete / complete-compaction (C02).  Definitions only.

   Follows src/metadata/s3.rs: atomic_register_chunk, delete_chunk and
   complete_compaction are each one cas_retry! block around
   load_catalog_with_etag / <pure code> / atomic_save_catalog, i.e. instances
   of the CAS machine of Base/CasProto.v.  The pure code is exactly
   Model/Catalog.v's s3_register / s3_delete / s3_complete (via s3_apply).

   load_catalog_with_etag: GET catalog.json; if it does not exist, two more
   GETs (legacy chunks/metadata.json and time-index.json, both assumed absent:
   nothing in the code under test writes them) yield an empty catalog with
   etag "none", so the first write is a PutMode::Create.  Hence extra_gets = 2
   and `None` is read as the empty catalog.

   Output code of an operation: 0 = Ok(()), 1 = Err(Metadata("Compaction
   target chunk not found ...")) returned from inside the block (no PUT). *)
From CS Require Import Base.Prelude Base.CasProto Model.CasFault Model.Catalog.
From CSGen Require Import Consts.

Definition cat_of (prev : option cat) : cat :=
  match prev with Some c => c | None => cat_empty end.

Definition cat_decide (_ : Z) (o : cop) (prev : option cat) : decision cat N :=
  let r := s3_apply (cat_of prev) o in
  if N.eqb (snd r) 0 then Commit (fst r) 0%N else Abort (snd r).

Definition cat_extra_gets : nat := 2.
Definition cat_max_retries : nat := N.to_nat Consts.MAX_CAS_RETRIES.

Definition cat_step := step cat_decide cat_extra_gets cat_max_retries.
Definition cat_run := run cat_decide cat_extra_gets cat_max_retries.
Definition cat_init (v0 : option cat) (progs : nat -> list cop) : sys cat cop N :=
  init_sys v0 0%Z progs.

(* the same machine with injected transport faults (Model/CasFault.v): used by
   the correspondence harness only, no theorem speaks about it *)
Definition cat_fstep := fstep cat_decide cat_extra_gets cat_max_retries.
Definition cat_finit (v0 : option cat) (progs : nat -> list cop) : sys cat cop (option N) :=
  init_sys v0 0%Z progs.

(* every path listed in the time index is a key of the chunk map *)
Definition cat_closed (c : cat) : Prop :=
  forall b l p, In (b, l) (c_tindex c) -> In p l -> amem N.eqb p (c_chunks c) = true.
