(* Model/Router.v — executable model of distributed write routing (C19).

   Follows, step by step,
     src/cluster/node_registry.rs   NodeInfo::can_accept_writes, NodeRegistry::{register_node,
                                    heartbeat, update_shards, update_load, drain_node, remove_node,
                                    get_healthy_ingesters, get_node}
     src/cluster/shard_assignment.rs ShardAssignment::{assign_shard, unassign_shard, rebalance,
                                    assign_consistent_hash, assign_round_robin, assign_load_based,
                                    update_node_shards}, ConsistentHashRing::{add_node, get_node, clear}
     src/cluster/write_router.rs    DistributedWriteRouter::route_write
   as they are after the commit "fix: write routing rebuilds a stale hash ring and bounds its
   retry ..." (the pre-fix routine is kept at the end, for the loop witness only).

   Node ids and shard ids are interned to N by the harness.  What the model cannot compute is an
   input: the SipHash values (`DefaultHasher`) of the ring keys "<node>:<i>" and of the shard ids
   ([hashes]), and the iteration order of the registry's HashMap at the moment of a call
   ([order], observed through get_all_nodes by the harness).  Theorems quantify over both.

   Only definitions here (no proofs). *)
From CS Require Import Base.Prelude.
From CSGen Require Import Consts.
Open Scope N_scope.

Definition node := N.
Definition shard := N.

(* NodeStatus / NodeType *)
Inductive nstatus := Healthy | Suspected | NFailed | Draining.
Inductive ntype := Ingester | Query | Combined.

(* the fields of NodeInfo that routing reads or writes *)
Record ninfo := mkNode { n_type : ntype; n_status : nstatus; n_load : N; n_shards : list shard }.

(* NodeInfo::can_accept_writes:
     matches!(status, Healthy) && matches!(node_type, Ingester | Combined) && load_percent < 95 *)
Definition can_accept_writes (i : ninfo) : bool :=
  (match n_status i with Healthy => true | _ => false end)
  && (match n_type i with Ingester | Combined => true | Query => false end)
  && (n_load i <? Consts.ROUTER_LOAD_THRESHOLD).

(* NodeRegistry.nodes : HashMap<String, NodeInfo> *)
Definition registry := list (node * ninfo).
(* ConsistentHashRing.ring : BTreeMap<u64, String>, kept sorted by hash *)
Definition ring := list (Z * node).
(* ShardAssignment.assignments : HashMap<String, String> *)
Definition assignments := list (shard * node).

Record state := mkState { st_reg : registry; st_asg : assignments; st_ring : ring }.
Definition init_state : state := mkState [] [] [].

(* hash_key("<node>:<i>") for i = 0.., and hash_key(shard) — supplied by the harness *)
Record hashes := mkHashes { vnode_hashes : node -> list Z; shard_hash : shard -> Z }.

Inductive strategy := ConsistentHash | RoundRobin | LoadBased.

(* error enum: the three messages of crate::Error::Internal the code can produce here *)
Definition E_NO_HEALTHY : N := 1.     (* "No healthy ingester nodes" *)
Definition E_NO_NODE : N := 2.        (* "No healthy node available for shard .." *)
Definition E_ASSIGN_FAILED : N := 3.  (* "Failed to assign shard" *)

(* ---------------------------------------------------------------- registry *)
Definition eligible (r : registry) (n : node) : bool :=
  match aget N.eqb n r with Some i => can_accept_writes i | None => false end.

(* `if let Some(node) = nodes.get_mut(id) { ... }` *)
Definition reg_update (n : node) (f : ninfo -> ninfo) (r : registry) : registry :=
  match aget N.eqb n r with Some i => aset N.eqb n (f i) r | None => r end.

Definition set_status (s : nstatus) (i : ninfo) : ninfo := mkNode (n_type i) s (n_load i) (n_shards i).
Definition set_load (l : N) (i : ninfo) : ninfo := mkNode (n_type i) (n_status i) l (n_shards i).
Definition set_shards (l : list shard) (i : ninfo) : ninfo := mkNode (n_type i) (n_status i) (n_load i) l.

(* HashMap iteration: the keys in the observed [order]; keys the observation does not mention
   (none, when the harness is right) follow in registry-list order *)
Definition iter_keys (order : list node) (r : registry) : list node := dedupN (order ++ akeys r).
Definition iter_nodes (order : list node) (r : registry) : list (node * ninfo) :=
  flat_map (fun n => match aget N.eqb n r with Some i => [(n, i)] | None => [] end) (iter_keys order r).

(* get_healthy_ingesters: values().filter(can_accept_writes) *)
Definition healthy_ingesters (order : list node) (r : registry) : list (node * ninfo) :=
  filter (fun p => can_accept_writes (snd p)) (iter_nodes order r).

(* Iterator::min_by_key — the FIRST minimal element *)
Fixpoint min_by_key (key : ninfo -> N) (l : list (node * ninfo)) : option (node * ninfo) :=
  match l with
  | [] => None
  | x :: r => match min_by_key key r with
              | None => Some x
              | Some y => if key (snd y) <? key (snd x) then Some y else Some x
              end
  end.

(* -------------------------------------------------------------------- ring *)
(* BTreeMap::insert *)
Fixpoint ring_insert (h : Z) (n : node) (r : ring) : ring :=
  match r with
  | [] => [(h, n)]
  | (h', n') :: t =>
      if (h <? h')%Z then (h, n) :: r
      else if (h =? h')%Z then (h, n) :: t
      else (h', n') :: ring_insert h n t
  end.

(* add_node: for i in 0..virtual_nodes { ring.insert(hash("<node>:<i>"), node) } *)
Definition ring_add_node (H : hashes) (n : node) (r : ring) : ring :=
  fold_left (fun acc h => ring_insert h n acc)
            (firstn (N.to_nat Consts.ROUTER_VIRTUAL_NODES) (vnode_hashes H n)) r.

(* ring.clear(); for node in &nodes { ring.add_node(&node.id) } *)
Definition ring_build (H : hashes) (nodes : list (node * ninfo)) : ring :=
  fold_left (fun acc p => ring_add_node H (fst p) acc) nodes [].

(* get_node: first entry with hash >= key hash, else wrap around to the first entry *)
Definition ring_get (r : ring) (h : Z) : option node :=
  match r with
  | [] => None
  | (_, n0) :: _ =>
      match find (fun p => (h <=? fst p)%Z) r with
      | Some p => Some (snd p)
      | None => Some n0
      end
  end.

(* ------------------------------------------------------------- assignments *)
Definition with_reg (st : state) (r : registry) : state := mkState r (st_asg st) (st_ring st).
Definition with_asg (st : state) (a : assignments) : state := mkState (st_reg st) a (st_ring st).
Definition with_ring (st : state) (r : ring) : state := mkState (st_reg st) (st_asg st) r.

Definition shards_of (a : assignments) (n : node) : list shard :=
  map fst (filter (fun p => N.eqb (snd p) n) a).

(* update_node_shards: node.shards := all shards assigned to it *)
Definition update_node_shards (st : state) (n : node) : state :=
  with_reg st (reg_update n (set_shards (shards_of (st_asg st) n)) (st_reg st)).

(* unassign_shard *)
Definition unassign (s : shard) (st : state) : state := with_asg st (adel N.eqb s (st_asg st)).

(* assign_consistent_hash (after the fix): the ring's node is used only while it can accept
   writes; otherwise (or when the ring is empty) the ring is rebuilt from the healthy ingesters *)
Definition assign_consistent_hash (H : hashes) (order : list node) (st : state) (s : shard)
  : state * outcome node :=
  let verified :=
    match ring_get (st_ring st) (shard_hash H s) with
    | Some n => if eligible (st_reg st) n then Some n else None
    | None => None
    end in
  match verified with
  | Some n => (st, Done n)
  | None =>
      match healthy_ingesters order (st_reg st) with
      | [] => (st, Failed E_NO_HEALTHY)
      | nodes =>
          let r := ring_build H nodes in
          match ring_get r (shard_hash H s) with
          | Some n => (with_ring st r, Done n)
          | None => (with_ring st r, Failed E_ASSIGN_FAILED)
          end
      end
  end.

(* assign_round_robin: healthy ingester with the fewest shards *)
Definition assign_round_robin (order : list node) (st : state) : state * outcome node :=
  match min_by_key (fun i => N.of_nat (length (n_shards i))) (healthy_ingesters order (st_reg st)) with
  | Some p => (st, Done (fst p))
  | None => (st, Failed E_NO_HEALTHY)
  end.

(* assign_load_based: least loaded healthy ingester *)
Definition assign_load_based (order : list node) (st : state) : state * outcome node :=
  match min_by_key n_load (healthy_ingesters order (st_reg st)) with
  | Some p => (st, Done (fst p))
  | None => (st, Failed E_NO_HEALTHY)
  end.

(* the "already assigned and still able to accept writes" test at the top of assign_shard *)
Definition current_ok (st : state) (s : shard) : option node :=
  match aget N.eqb s (st_asg st) with
  | Some n => if eligible (st_reg st) n then Some n else None
  | None => None
  end.

(* assign_shard, parameterised by the consistent-hash routine (fixed / pre-fix) *)
Definition assign_shard_gen (ch : hashes -> list node -> state -> shard -> state * outcome node)
           (strat : strategy) (H : hashes) (order : list node) (st : state) (s : shard)
  : state * outcome node :=
  match current_ok st s with
  | Some n => (st, Done n)
  | None =>
      let picked := match strat with
                    | ConsistentHash => ch H order st s
                    | RoundRobin => assign_round_robin order st
                    | LoadBased => assign_load_based order st
                    end in
      match picked with
      | (st1, Done n) =>
          let st2 := with_asg st1 (aset N.eqb s n (st_asg st1)) in
          (update_node_shards st2 n, Done n)
      | other => other
      end
  end.

Definition assign_shard := assign_shard_gen assign_consistent_hash.

(* rebalance: returns the moves (shard, old node, new node) *)
(* `assignments.iter().filter_map(|(shard, old)| ring.get_node(shard).and_then(|new| (new != old) ...))` *)
Definition rebalance_moves (H : hashes) (r : ring) (a : assignments) : list (shard * node * node) :=
  flat_map (fun p => match ring_get r (shard_hash H (fst p)) with
                     | Some n' => if N.eqb n' (snd p) then [] else [(fst p, snd p, n')]
                     | None => []
                     end) a.

(* `for (shard, _old, new) in &moves { assignments.insert(shard, new) }` *)
Definition apply_moves (moves : list (shard * node * node)) (a : assignments) : assignments :=
  fold_left (fun acc m => aset N.eqb (fst (fst m)) (snd m) acc) moves a.

Definition rebalance (H : hashes) (order : list node) (st : state) : state * list (shard * node * node) :=
  match healthy_ingesters order (st_reg st) with
  | [] => (st, [])
  | nodes =>
      let r := ring_build H nodes in
      let moves := rebalance_moves H r (st_asg st) in
      let st1 := mkState (st_reg st) (apply_moves moves (st_asg st)) r in
      (fold_left (fun acc p => update_node_shards acc (fst p)) nodes st1, moves)
  end.

(* ------------------------------------------------------------- route_write *)
(* `for _attempt in 0..MAX_ROUTE_ATTEMPTS { assign; lookup; return or unassign }` written as a
   recursion on explicit fuel (one unit per loop test); running out of fuel is [Hang].
   [interf a] stands for whatever other tasks do to the registry between the assignment and
   the lookup of attempt [a] (the code awaits in between); sequential histories use [no_interf].
   [orders a] is the iteration order of the registry's HashMap during attempt [a]: another task's
   register_node can rehash the map (hashbrown reserves a slot before it looks the key up, so even
   re-inserting an existing key resizes a full table), hence the order may differ per attempt. *)
Fixpoint route_write_gen (interf : N -> registry -> registry) (fuel : nat) (attempt : N)
         (strat : strategy) (H : hashes) (orders : N -> list node) (st : state) (s : shard)
  : state * outcome node :=
  match fuel with
  | O => (st, Hang)
  | S f =>
      if Consts.ROUTER_MAX_ROUTE_ATTEMPTS <=? attempt then (st, Failed E_NO_NODE)
      else
        match assign_shard strat H (orders attempt) st s with
        | (st1, Done n) =>
            let st1' := with_reg st1 (interf attempt (st_reg st1)) in
            match aget N.eqb n (st_reg st1') with
            | Some i =>
                if can_accept_writes i then (st1', Done n)
                else route_write_gen interf f (attempt + 1) strat H orders (unassign s st1') s
            | None => (st1', Failed E_NO_NODE)
            end
        | other => other
        end
  end.

Definition no_interf : N -> registry -> registry := fun _ r => r.

(* enough for every loop test of one call *)
Definition ROUTE_FUEL : nat := S (N.to_nat Consts.ROUTER_MAX_ROUTE_ATTEMPTS).

Definition route_write (strat : strategy) (H : hashes) (order : list node) (st : state) (s : shard)
  : state * outcome node :=
  route_write_gen no_interf ROUTE_FUEL 0 strat H (fun _ => order) st s.

(* what another task does to the registry while one route_write is between its assignment and
   its lookup (the harness injects exactly this at the pause point
   "cluster.route_write.after_assign"): per attempt a list of registry mutations; the list of
   attempts is used cyclically *)
Inductive regop :=
| RStatus (n : node) (stt : nstatus)
| RLoad (n : node) (load : N)
| RRemove (n : node).

Definition apply_regop (r : registry) (o : regop) : registry :=
  match o with
  | RStatus n stt => reg_update n (set_status stt) r
  | RLoad n l => reg_update n (set_load l) r
  | RRemove n => adel N.eqb n r
  end.

(* the order observed before the call is used by attempt 0, the order observed at the k-th pause
   (after the other task acted) by attempt k+1 *)
Definition order_at (orders : list (list node)) (attempt : N) : list node :=
  nth (N.to_nat attempt) orders (last orders []).

Definition interf_of (specs : list (list regop)) (attempt : N) (r : registry) : registry :=
  match specs with
  | [] => r
  | _ => fold_left apply_regop (nth (Nat.modulo (N.to_nat attempt) (length specs)) specs []) r
  end.

(* ----------------------------------------------------------------- history *)
Inductive op :=
| ORegister (n : node) (ty : ntype) (stt : nstatus) (load : N) (shards : list shard)
    (* register_node(NodeInfo{..}); the other public fields (addr, capacity, last_heartbeat) are not
       consulted by routing and are varied by the harness only *)
| OSetStatus (n : node) (stt : nstatus)      (* what run_health_checks does to a node; timing is an input *)
| OHeartbeat (n : node)
| ODrain (n : node)
| OLoad (n : node) (load : N)
| ORemove (n : node)
| OHealthCheck (timeout : Z) (ages : list (node * Z))
    (* one sweep of NodeRegistry::run_health_checks; timeout = the registry's timeout in seconds,
       ages = whole seconds since each node's last heartbeat (elapsed = age + a few ms) *)
| ORebalance (order : list node)
| ORoute (s : shard) (order : list node)
| ORouteI (s : shard) (orders : list (list node)) (specs : list (list regop)).  (* route_write with interference *)

Inductive result :=
| RUnit
| RBool (b : bool)
| RMoves (l : list (shard * node * node))
| RRoute (o : outcome node).

Definition heartbeat (n : node) (r : registry) : registry * bool :=
  match aget N.eqb n r with
  | Some i => (match n_status i with Suspected => aset N.eqb n (set_status Healthy i) r | _ => r end, true)
  | None => (r, false)
  end.

(* run_health_checks, one node:
     if elapsed > timeout { if Healthy | Suspected { Failed } }
     else if elapsed > timeout / 2 && Healthy { Suspected }
   with elapsed = age + epsilon, 0 < epsilon < 1 s, so `elapsed > t` is `t <= age` *)
Definition sweep_node (timeout age : Z) (i : ninfo) : ninfo :=
  if (timeout <=? age)%Z then
    match n_status i with Healthy | Suspected => set_status NFailed i | _ => i end
  else if (timeout <=? 2 * age)%Z then
    match n_status i with Healthy => set_status Suspected i | _ => i end
  else i.

Definition health_check (timeout : Z) (ages : list (node * Z)) (r : registry) : registry :=
  map (fun p => (fst p, sweep_node timeout (match aget N.eqb (fst p) ages with Some a => a | None => 0%Z end) (snd p))) r.

Definition step (strat : strategy) (H : hashes) (st : state) (o : op) : state * result :=
  match o with
  | ORegister n ty stt load shards => (with_reg st (aset N.eqb n (mkNode ty stt load shards) (st_reg st)), RUnit)
  | OSetStatus n stt => (with_reg st (reg_update n (set_status stt) (st_reg st)), RUnit)
  | OHeartbeat n => let (r, b) := heartbeat n (st_reg st) in (with_reg st r, RBool b)
  | ODrain n => (with_reg st (reg_update n (set_status Draining) (st_reg st)), RUnit)
  | OLoad n l => (with_reg st (reg_update n (set_load l) (st_reg st)), RUnit)
  | ORemove n => (with_reg st (adel N.eqb n (st_reg st)), RUnit)
  | OHealthCheck timeout ages => (with_reg st (health_check timeout ages (st_reg st)), RUnit)
  | ORebalance order => let (st', m) := rebalance H order st in (st', RMoves m)
  | ORoute s order => let (st', r) := route_write strat H order st s in (st', RRoute r)
  | ORouteI s orders specs =>
      let (st', r) := route_write_gen (interf_of specs) ROUTE_FUEL 0 strat H (order_at orders) st s in (st', RRoute r)
  end.

Definition run_from (strat : strategy) (H : hashes) (st : state) (h : list op) : state :=
  fold_left (fun acc o => fst (step strat H acc o)) h st.
Definition run (strat : strategy) (H : hashes) (h : list op) : state := run_from strat H init_state h.

(* ------------------------------------------------- the code before the fix *)
(* assign_consistent_hash as it was: whatever the ring names is returned; the ring is only
   populated when it is empty *)
Definition legacy_assign_consistent_hash (H : hashes) (order : list node) (st : state) (s : shard)
  : state * outcome node :=
  match ring_get (st_ring st) (shard_hash H s) with
  | Some n => (st, Done n)
  | None =>
      match healthy_ingesters order (st_reg st) with
      | [] => (st, Failed E_NO_HEALTHY)
      | nodes =>
          let r := fold_left (fun acc p => ring_add_node H (fst p) acc) nodes (st_ring st) in
          match ring_get r (shard_hash H s) with
          | Some n => (with_ring st r, Done n)
          | None => (with_ring st r, Failed E_ASSIGN_FAILED)
          end
      end
  end.

(* route_write as it was: `return Box::pin(self.route_write(shard_id)).await` without any bound *)
Fixpoint legacy_route_write (fuel : nat) (strat : strategy) (H : hashes) (order : list node)
         (st : state) (s : shard) : state * outcome node :=
  match fuel with
  | O => (st, Hang)
  | S f =>
      match assign_shard_gen legacy_assign_consistent_hash strat H order st s with
      | (st1, Done n) =>
          match aget N.eqb n (st_reg st1) with
          | Some i =>
              if can_accept_writes i then (st1, Done n)
              else legacy_route_write f strat H order (unassign s st1) s
          | None => (st1, Failed E_NO_NODE)
          end
      | other => other
      end
  end.
