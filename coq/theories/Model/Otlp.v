(* Model/Otlp.v — executable model of the OTLP metrics conversion
   (src/api/ingest/otlp.rs: export_request_to_data_points, number_point_to_metric_point,
   key_values_to_labels, any_value_to_string, merge_labels, data_points_to_arrow)
   over the decoded request structs (prost does the wire decoding).

   * one data point per gauge / sum / histogram / exponential histogram /
     summary point, in request order;
   * value: AsDouble v -> v; AsInt i -> `i as f64` (round to nearest even: NOT
     exact above 2^53); no value -> NaN; histograms: sum, or `count as f64`;
   * timestamp: `time_unix_nano as i64` (wraps from 2^63 on);
   * labels: HashMap from the resource attributes, overwritten by the point
     attributes; within one attribute list the last entry of a key wins;
     attribute values: string as is, bool / int printed, missing -> "".
     (double / bytes / array / kvlist values are formatted by library code and
     are not modelled.)
   * columns: the union of the label keys (a HashSet: the column ORDER is
     unspecified in the code; the model sorts, the harness sorts what it reads).

   Only definitions here (no proofs). *)
From Coq Require Import ZArith List.
From Flocq Require Import Core IEEE754.BinarySingleNaN IEEE754.Binary IEEE754.Bits.
From CS Require Import Base.Prelude Model.Proto Model.ProtoConv.
Open Scope N_scope.

Inductive any_value := AVString (s : bytes) | AVBool (b : bool) | AVInt (i : Z) | AVNone.
Record kv := mkKV { kv_key : bytes; kv_val : any_value }.

Inductive num_value := NDouble (bits : N) | NInt (i : Z) | NNone.
Record npoint := mkNP { np_time : N; np_val : num_value; np_attrs : list kv }.
Record hpoint := mkHP { hp_time : N; hp_sum : option N; hp_count : N; hp_attrs : list kv }.
Record spoint := mkSP { sp_time : N; sp_sum : N; sp_attrs : list kv }.
Inductive mdata :=
| DGauge (l : list npoint) | DSum (l : list npoint)
| DHist (l : list hpoint) | DExpHist (l : list hpoint)
| DSummary (l : list spoint) | DNone.
Record metric := mkMetric { m_name : bytes; m_data : mdata }.
Record resource_metrics := mkRM { rm_resource : option (list kv); rm_scopes : list (list metric) }.
Definition oreq := list resource_metrics.

(* ---- i64 / u64 -> f64 (`as f64`) as a bit pattern ---- *)
Definition bits_of_int (z : Z) : N :=
  Z.to_N (bits_of_b64 (Binary.binary_normalize 53 1024 (eq_refl Lt) (eq_refl Lt) mode_NE z 0 false)).
Definition NAN_BITS : N := 9221120237041090560.       (* f64::NAN = 0x7ff8000000000000 *)

(* ---- decimal printing of an i64 (`v.to_string()`) ---- *)
Fixpoint dec_digits (fuel : nat) (n : N) (acc : bytes) : bytes :=
  match fuel with
  | O => acc
  | S f => let acc' := (48 + n mod 10) :: acc in
           if n <? 10 then acc' else dec_digits f (n / 10) acc'
  end.
Definition dec_of_Z (z : Z) : bytes :=
  match z with
  | Z0 => [48]
  | Zpos p => dec_digits 20 (Npos p) []
  | Zneg p => 45 :: dec_digits 20 (Npos p) []
  end.

Definition any_value_to_string (v : any_value) : bytes :=
  match v with
  | AVString s => s
  | AVBool true => [116; 114; 117; 101]              (* "true" *)
  | AVBool false => [102; 97; 108; 115; 101]         (* "false" *)
  | AVInt i => dec_of_Z i
  | AVNone => []                                     (* unwrap_or_default *)
  end.

(* ---- HashMap<String,String> as a key-sorted association list ---- *)
Definition lmap := list (bytes * bytes).

Fixpoint map_insert (k v : bytes) (m : lmap) : lmap :=
  match m with
  | [] => [(k, v)]
  | (k', v') :: r =>
      if bytes_eqb k k' then (k, v) :: r
      else if bytes_ltb k k' then (k, v) :: m
      else (k', v') :: map_insert k v r
  end.

Fixpoint map_get (k : bytes) (m : lmap) : option bytes :=
  match m with
  | [] => None
  | (k', v') :: r => if bytes_eqb k k' then Some v' else map_get k r
  end.

Definition key_values_to_labels (l : list kv) : lmap :=
  fold_left (fun m e => map_insert (kv_key e) (any_value_to_string (kv_val e)) m) l [].

Definition merge_labels (a b : lmap) : lmap :=
  fold_left (fun m e => map_insert (fst e) (snd e) m) b a.

Record dpoint := mkDP { dp_ts : Z; dp_name : bytes; dp_bits : N; dp_labels : lmap }.

Definition number_point (name : bytes) (res : lmap) (p : npoint) : dpoint :=
  let value := match np_val p with
               | NDouble b => b
               | NInt i => bits_of_int i
               | NNone => NAN_BITS
               end in
  mkDP (as_i64 (np_time p)) name value (merge_labels res (key_values_to_labels (np_attrs p))).

Definition hist_point (name : bytes) (res : lmap) (p : hpoint) : dpoint :=
  let value := match hp_sum p with
               | Some b => b
               | None => bits_of_int (Z.of_N (hp_count p))
               end in
  mkDP (as_i64 (hp_time p)) name value (merge_labels res (key_values_to_labels (hp_attrs p))).

Definition summary_point (name : bytes) (res : lmap) (p : spoint) : dpoint :=
  mkDP (as_i64 (sp_time p)) name (sp_sum p) (merge_labels res (key_values_to_labels (sp_attrs p))).

(* the data points of a request in the order of the four nested loops of
   export_request_to_data_points, each tagged with its metric name and the
   labels of its resource *)
Inductive src := SrcN (p : npoint) | SrcH (p : hpoint) | SrcS (p : spoint).

Definition metric_sources (mt : metric) : list src :=
  match m_data mt with
  | DGauge l | DSum l => map SrcN l
  | DHist l | DExpHist l => map SrcH l
  | DSummary l => map SrcS l
  | DNone => []
  end.

Record tagged := mkTagged { tg_name : bytes; tg_res : lmap; tg_src : src }.

Definition resource_labels (rm : resource_metrics) : lmap :=
  match rm_resource rm with Some a => key_values_to_labels a | None => [] end.

Definition resource_tagged (rm : resource_metrics) : list tagged :=
  flat_map (fun scope =>
    flat_map (fun mt => map (mkTagged (m_name mt) (resource_labels rm)) (metric_sources mt)) scope)
    (rm_scopes rm).

Definition all_tagged (r : oreq) : list tagged := flat_map resource_tagged r.

Definition point_of (t : tagged) : dpoint :=
  match tg_src t with
  | SrcN p => number_point (tg_name t) (tg_res t) p
  | SrcH p => hist_point (tg_name t) (tg_res t) p
  | SrcS p => summary_point (tg_name t) (tg_res t) p
  end.

Definition export_points (r : oreq) : list dpoint := map point_of (all_tagged r).

(* ---- data_points_to_arrow ---- *)
Record orow := mkORow { o_ts : Z; o_name : bytes; o_bits : N; o_cells : list (option bytes) }.
Record obatch := mkOBatch { ob_cols : list bytes; ob_rows : list orow }.

Definition E_NO_POINTS : N := 30.       (* "No data points" *)

Definition label_keys (ps : list dpoint) : list bytes :=
  fold_left (fun acc p => fold_left (fun acc e => insert_name (fst e) acc) (dp_labels p) acc) ps [].

Definition points_to_arrow (ps : list dpoint) : outcome obatch :=
  match ps with
  | [] => Failed E_NO_POINTS
  | _ :: _ =>
      let cols := label_keys ps in
      Done (mkOBatch cols
              (map (fun p => mkORow (dp_ts p) (dp_name p) (dp_bits p)
                                    (map (fun c => map_get c (dp_labels p)) cols)) ps))
  end.

Definition export_to_arrow (r : oreq) : outcome obatch := points_to_arrow (export_points r).

(* ---- the failing inputs, as executable classifiers (known findings) ---- *)
Definition src_time (s : src) : N :=
  match s with SrcN p => np_time p | SrcH p => hp_time p | SrcS p => sp_time p end.

(* the integer the point stands for, when its value is an integer *)
Definition src_int (s : src) : option Z :=
  match s with
  | SrcN p => match np_val p with NInt i => Some i | _ => None end
  | SrcH p => match hp_sum p with None => Some (Z.of_N (hp_count p)) | Some _ => None end
  | SrcS _ => None
  end.

(* `i as f64` is exactly i *)
Definition int_exact_in_f64 (i : Z) : bool :=
  let x := f64_of_bits (bits_of_int i) in
  f64_is_int x && Z.eqb (BinarySingleNaN.Btrunc x) i.

(* class "otlp-int-precision": some AsInt value (or a histogram count standing
   in for a missing sum) is not exactly representable in f64 *)
Definition src_int_inexact (s : src) : bool :=
  match src_int s with Some i => negb (int_exact_in_f64 i) | None => false end.
Definition known_int_precision (r : oreq) : bool :=
  existsb (fun t => src_int_inexact (tg_src t)) (all_tagged r).

(* class "otlp-time-wrap": some time_unix_nano is >= 2^63 *)
Definition known_time_wrap (r : oreq) : bool :=
  existsb (fun t => I63 <=? src_time (tg_src t)) (all_tagged r).
