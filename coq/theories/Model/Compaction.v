(* Model/Compaction.v — executable model of compaction candidate selection and
   of the fault-free single-compactor cycle, on top of Model/Catalog.v.

   Follows
     src/metadata/s3.rs    get_l0_candidates / get_level_candidates (object-store backend)
     src/metadata/local.rs get_l0_candidates / get_level_candidates (in-memory backend)
     src/compactor/mod.rs  run_compaction_cycle, update_l0_pending_count, compact_l0,
                           compact_level, merge_chunks, target_size_for_level
   and uses register / complete_compaction of Model/Catalog.v.

   Hash-map iteration order (HashMap / DashMap) is an explicit parameter [ord]
   of every candidate call.  Parquet encoding is not modelled: size, row count
   and time bounds of a merged chunk come from an oracle function of the
   source list; the fresh target path is a counter (the code uses a UUID).

   Only definitions here (no proofs). *)
From CS Require Import Base.Prelude Model.Catalog.
From CSGen Require Import Consts.
Open Scope N_scope.

(* usize::MAX on the 64-bit targets the code is built for *)
Definition usize_max : N := 18446744073709551615.
(* `level as u32` *)
Definition u32_of (n : N) : N := n mod 4294967296.

(* what a candidate call reads of one catalog entry *)
Record crow := mkRow { r_path : path; r_level : N; r_min : Z; r_size : N }.

Fixpoint find_row (p : path) (rows : list crow) : option crow :=
  match rows with
  | [] => None
  | r :: t => if N.eqb p (r_path r) then Some r else find_row p t
  end.

(* `catalog.chunks.iter()` of the object-store backend *)
Definition s3_rows (c : cat) : list crow :=
  map (fun pe => mkRow (fst pe) (e_level (snd pe)) (m_min (e_meta (snd pe))) (m_size (e_meta (snd pe))))
      (c_chunks c).

(* `chunk_levels.iter()` + `chunks.get(key)` of the in-memory backend: an entry
   of the level map without chunk metadata is skipped *)
Definition local_rows (c : lcat) : list crow :=
  flat_map (fun pl => match aget N.eqb (fst pl) (l_chunks c) with
                      | Some m => [mkRow (fst pl) (snd pl) (m_min m) (m_size m)]
                      | None => []
                      end) (l_levels c).

(* The order in which a hash map yields its entries: first the entries named
   by [ord] (in that order, each once), then whatever [ord] does not mention.
   Every permutation of the entries is [reorder ord rows] for some [ord]. *)
Definition reorder (ord : list path) (rows : list crow) : list crow :=
  flat_map (fun p => match find_row p rows with Some r => [r] | None => [] end) (dedupN ord)
  ++ filter (fun r => negb (memN (r_path r) ord)) rows.

(* ------------------------------------------------------------------ *)
(* get_l0_candidates (both backends; the bucket width is per backend)    *)
(* ------------------------------------------------------------------ *)
(* `hour_groups.entry(bucket).or_default().push(path)` for the level-0 entries *)
Definition l0_buckets (w : Z) (rows : list crow) : tindex :=
  fold_left (fun acc r => if N.eqb (r_level r) 0
                          then ti_push (bucketw w (r_min r)) (r_path r) acc else acc) rows [].

(* `.into_values().filter(|g| g.len() >= min_count)` *)
Definition l0_groups (w : Z) (min_count : N) (rows : list crow) : list (list path) :=
  filter (fun g => min_count <=? N.of_nat (length g)) (map snd (l0_buckets w rows)).

Definition s3_l0 (min_count : N) (rows : list crow) : list (list path) :=
  l0_groups Consts.S3_L0_BUCKET_NANOS min_count rows.
Definition local_l0 (min_count : N) (rows : list crow) : list (list path) :=
  l0_groups Consts.LOCAL_BUCKET_NANOS min_count rows.

(* ------------------------------------------------------------------ *)
(* get_level_candidates                                                 *)
(* ------------------------------------------------------------------ *)
(* `sort_by_key(min_timestamp)` is a stable sort: insertion sort that keeps
   the original order among equal keys *)
Fixpoint insert_by_min (r : crow) (l : list crow) : list crow :=
  match l with
  | [] => [r]
  | x :: t => if (r_min r <=? r_min x)%Z then r :: l else x :: insert_by_min r t
  end.
Definition sort_by_min (l : list crow) : list crow := fold_right insert_by_min [] l.

Definition level_rows (lvl : N) (rows : list crow) : list crow :=
  sort_by_min (filter (fun r => N.eqb (r_level r) lvl) rows).

(* object-store flavour: a group closes when the accumulated size reaches the
   target; the trailing group is kept.  None = `current_size += size` overflows
   usize (debug build: panic). *)
Fixpoint s3_acc (target : N) (cur : list path) (size : N) (rows : list crow)
  : option (list (list path)) :=
  match rows with
  | [] => Some (match cur with [] => [] | _ => [cur] end)
  | r :: t =>
      let cur' := cur ++ [r_path r] in
      let size' := size + r_size r in
      if usize_max <? size' then None
      else if target <=? size' then option_map (cons cur') (s3_acc target [] 0 t)
      else s3_acc target cur' size' t
  end.

(* in-memory flavour: when the size reaches the target the group is emitted
   only if it has at least LOCAL_LEVEL_MIN_GROUP members, otherwise it is KEPT
   (only the size counter restarts); the trailing group is dropped. *)
Fixpoint local_acc (target : N) (cur : list path) (size : N) (rows : list crow)
  : option (list (list path)) :=
  match rows with
  | [] => Some []
  | r :: t =>
      let cur' := cur ++ [r_path r] in
      let size' := size + r_size r in
      if usize_max <? size' then None
      else if target <=? size' then
             if Consts.LOCAL_LEVEL_MIN_GROUP <=? N.of_nat (length cur')
             then option_map (cons cur') (local_acc target [] 0 t)
             else local_acc target cur' 0 t
           else local_acc target cur' size' t
  end.

Definition s3_level (lvl target : N) (rows : list crow) : option (list (list path)) :=
  s3_acc target [] 0 (level_rows lvl rows).
Definition local_level (lvl target : N) (rows : list crow) : option (list (list path)) :=
  local_acc target [] 0 (level_rows lvl rows).

(* ------------------------------------------------------------------ *)
(* the two backends as seen by the compactor                            *)
(* ------------------------------------------------------------------ *)
Record backend (C : Type) := mkBackend {
  b_rows : C -> list crow;
  b_register : C -> path -> cmeta -> C;
  b_complete : C -> list path -> path -> option C;      (* None = Err, nothing written *)
  b_l0 : N -> list crow -> list (list path);
  b_level : N -> N -> list crow -> option (list (list path)) (* None = panic *)
}.
Arguments mkBackend {C}.
Arguments b_rows {C}.
Arguments b_register {C}.
Arguments b_complete {C}.
Arguments b_l0 {C}.
Arguments b_level {C}.

(* The object-store client answers reads from its catalog cache, and every
   write of the same client replaces the cache with the catalog it just
   saved: a single compactor always reads its own writes. *)
Definition s3_backend : backend cat := mkBackend s3_rows s3_register s3_complete s3_l0 s3_level.
Definition local_backend : backend lcat :=
  mkBackend local_rows local_register local_complete local_l0 local_level.

(* ------------------------------------------------------------------ *)
(* the compaction cycle                                                  *)
(* ------------------------------------------------------------------ *)
Record ccfg := mkCfg {
  cf_threshold : N;    (* l0_merge_threshold *)
  cf_l1 : N;           (* l1_target_size *)
  cf_l2 : N;           (* l2_target_size *)
  cf_max_levels : N    (* max_levels *)
}.

(* target_size_for_level for level >= 1; None = `l2_target_size * 5` overflows usize *)
Definition target_size (cf : ccfg) (lvl : N) : option N :=
  if N.eqb lvl 1 then Some (cf_l1 cf)
  else if N.eqb lvl 2 then Some (cf_l2 cf)
  else let t := cf_l2 cf * Consts.L3_TARGET_FACTOR in
       if usize_max <? t then None else Some t.

(* has_capacity(): the single compactor runs its compactions one after the
   other, so the counter of active compactions is 0 at every check *)
Definition has_capacity : bool := 0 <? Consts.MAX_CONCURRENT_COMPACTIONS.

Inductive cstatus := CSOk | CSErr | CSPanic.

Inductive cevent :=
| EPending (n : N)                                              (* update_l0_pending_count *)
| ESel (lvl : N) (seen : list crow) (groups : list (list path)) (* candidates returned to the compactor *)
| EMerge (lvl : N) (srcs : list path) (tgt : path) (m : cmeta) (new_level : option N).

Record cstate (C : Type) := mkSt { st_cat : C; st_fresh : N }.
Arguments mkSt {C}.
Arguments st_cat {C}.
Arguments st_fresh {C}.

Definition level_in {C} (B : backend C) (c : C) (p : path) : option N :=
  option_map r_level (find_row p (b_rows B c)).

(* `for group in candidates { lease; job; merge_chunks (write target, register
   it at level 0); complete_compaction; ... }` *)
Fixpoint run_groups {C} (B : backend C) (oracle : list path -> cmeta) (lvl : N)
         (gs : list (list path)) (st : cstate C) : cstate C * cstatus * list cevent :=
  match gs with
  | [] => (st, CSOk, [])
  | g :: rest =>
      let t := st_fresh st in
      let m := oracle g in
      let c1 := b_register B (st_cat st) t m in
      match b_complete B c1 g t with
      | Some c2 =>
          let '(st', s, ev) := run_groups B oracle lvl rest (mkSt c2 (t + 1)) in
          (st', s, EMerge lvl g t m (level_in B c2 t) :: ev)
      | None => (mkSt c1 (t + 1), CSErr, [])        (* `complete_compaction(..).await?` *)
      end
  end.

Definition cap_groups (gs : list (list path)) : list (list path) :=
  if has_capacity then gs else [].

Definition l0_pass {C} (B : backend C) (cf : ccfg) (oracle : list path -> cmeta)
           (ord : list path) (st : cstate C) : cstate C * cstatus * list cevent :=
  let rows := reorder ord (b_rows B (st_cat st)) in
  let gs := b_l0 B (cf_threshold cf) rows in
  let '(st', s, ev) := run_groups B oracle 0 (cap_groups gs) st in
  (st', s, ESel 0 rows gs :: ev).

Definition level_pass {C} (B : backend C) (cf : ccfg) (oracle : list path -> cmeta)
           (lvl : N) (ord : list path) (st : cstate C) : cstate C * cstatus * list cevent :=
  match target_size cf lvl with
  | None => (st, CSPanic, [])
  | Some tgt =>
      let rows := reorder ord (b_rows B (st_cat st)) in
      match b_level B (u32_of lvl) tgt rows with
      | None => (st, CSPanic, [])
      | Some gs =>
          let todo := filter (fun g => Consts.COMPACT_LEVEL_MIN_GROUP <=? N.of_nat (length g)) gs in
          let '(st', s, ev) := run_groups B oracle lvl (cap_groups todo) st in
          (st', s, ESel lvl rows gs :: ev)
      end
  end.

(* `for level in 1..=max_levels { if !has_capacity() { break } compact_level(level)? }` *)
Fixpoint levels_loop {C} (B : backend C) (cf : ccfg) (oracle : list path -> cmeta)
         (lvls : list N) (ords : list (list path)) (st : cstate C)
  : cstate C * cstatus * list cevent :=
  match lvls with
  | [] => (st, CSOk, [])
  | l :: r =>
      if has_capacity then
        let '(st1, s1, ev1) := level_pass B cf oracle l (hd [] ords) st in
        match s1 with
        | CSOk => let '(st2, s2, ev2) := levels_loop B cf oracle r (tl ords) st1 in
                  (st2, s2, ev1 ++ ev2)
        | _ => (st1, s1, ev1)
        end
      else (st, CSOk, [])
  end.

Definition levels_upto (n : N) : list N := map N.of_nat (seq 1 (N.to_nat n)).

(* one input of a cycle: configuration, the hash orders of its candidate calls
   (first the L0 call, then levels 1, 2, ...; a missing entry = catalog order)
   and the merge oracle *)
Record cinput := mkIn { in_cfg : ccfg; in_ords : list (list path); in_oracle : list path -> cmeta }.

Definition pending_count {C} (B : backend C) (c : C) : N :=
  N.of_nat (length (concat (b_l0 B 1 (b_rows B c)))).

(* run_compaction_cycle, catalog part (GC / retention / lease scavenging do
   not touch live chunks of a recent data set) *)
Definition cycle {C} (B : backend C) (i : cinput) (st : cstate C) : cstate C * cstatus * list cevent :=
  let cf := in_cfg i in
  let pend := EPending (pending_count B (st_cat st)) in
  let '(st1, s1, ev1) := l0_pass B cf (in_oracle i) (hd [] (in_ords i)) st in
  match s1 with
  | CSOk => let '(st2, s2, ev2) := levels_loop B cf (in_oracle i) (levels_upto (cf_max_levels cf))
                                               (tl (in_ords i)) st1 in
            (st2, s2, pend :: ev1 ++ ev2)
  | _ => (st1, s1, pend :: ev1)
  end.

Definition cycle_state {C} (B : backend C) (i : cinput) (st : cstate C) : cstate C := fst (fst (cycle B i st)).
Definition cycle_events {C} (B : backend C) (i : cinput) (st : cstate C) : list cevent := snd (cycle B i st).

(* a history of cycles *)
Definition run_cycles {C} (B : backend C) (h : list cinput) (st : cstate C) : cstate C :=
  fold_left (fun s i => cycle_state B i s) h st.

Definition is_merge (e : cevent) : bool := match e with EMerge _ _ _ _ _ => true | _ => false end.
Definition merges_of (ev : list cevent) : nat := length (filter is_merge ev).

(* number of merges performed over a whole history *)
Fixpoint total_merges {C} (B : backend C) (h : list cinput) (st : cstate C) : nat :=
  match h with
  | [] => O
  | i :: r => (merges_of (cycle_events B i st) + total_merges B r (cycle_state B i st))%nat
  end.

(* the convergence measure: 2 * #chunks + #level-0 chunks *)
Definition measure_rows (rows : list crow) : nat :=
  (2 * length rows + length (filter (fun r => N.eqb (r_level r) 0) rows))%nat.
Definition measure {C} (B : backend C) (st : cstate C) : nat := measure_rows (b_rows B (st_cat st)).

(* first unused path number of a catalog *)
Definition next_free (keys : list path) : N := fold_left (fun a p => N.max a (p + 1)) keys 0.
Definition s3_init (c : cat) : cstate cat := mkSt c (next_free (map fst (c_chunks c))).
Definition local_init (c : lcat) : cstate lcat :=
  mkSt c (next_free (map fst (l_chunks c) ++ map fst (l_levels c))).
