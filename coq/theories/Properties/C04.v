(* C04 — Query answers equal a full scan of everything ingested.
   Statements only; every proof is `exact <lemma>`; assumptions printed.

   Reading.  A statement of the supported family is a list [fs] of WHERE
   predicates (one per Filter node of its plan; Model/Pred.v gives the AST and
   its meaning under SQL three-valued logic for EVERY interpretation [I] of
   now(), of the opaque operands and of the label atoms) plus a projection /
   aggregation part [post].  `extract fs` is QueryEngine::extract_time_range
   as coded after the fix: commit 3f63730 (interval analysis: AND = intersection,
   OR = covering interval, NOT / != / non-literal operands = unbounded, the
   "last hour" default only when no filter mentions the timestamp);
   `plan_preds fs` is extract_column_predicates; `select_chunks` is the chunk
   selection of QueryNode::query_for_tenant on either metadata backend
   (Model/Catalog.v, exact by C07).  `finite_window I fs`: the WHERE clause
   confines the timestamp to a finite window (scope of the property).

   Assumptions of the composition theorems, all explicit premises:
   C06 (chunk metadata covers its rows), C12 (statistics gate sound — another
   builder's theorem), and the one assumption about DataFusion: the answer is
   [post] of the rows the filters accept, independent of row order. *)
From Coq Require Import Permutation.
From CS Require Import Base.Prelude Model.Pred Model.Catalog Model.TimeExtract
  Proofs.CatalogProofs Proofs.TimeExtractProofs.
Open Scope Z_scope.

(* The interval analysis is sound for the whole predicate AST (induction over
   the tree): a row on which the predicate is TRUE lies in the extracted
   interval. *)
Theorem C04_bounds_sound :
  forall (I : interp) (p : pred) (r : row),
  in_i64 (r_ts r) = true -> sem I p r = Some true ->
  fst (bounds p) <= r_ts r <= snd (bounds p).
Proof. exact bounds_sound. Qed.
Print Assumptions C04_bounds_sound.

(* pruning_sound: whenever a range is extracted from the plan's filters, every
   row that passes all of them has its timestamp inside the range. *)
Theorem C04_pruning_sound :
  forall (I : interp) (fs : list pred) (r : row) (lo hi : Z),
  in_i64 (r_ts r) = true -> sat_all I fs r = true ->
  extract fs = TRange lo hi -> lo <= r_ts r <= hi.
Proof. exact pruning_sound. Qed.
Print Assumptions C04_pruning_sound.

(* A satisfiable finite-window statement is never answered through the
   "last hour" default. *)
Theorem C04_finite_window_not_default :
  forall (I : interp) (fs : list pred),
  finite_window I fs -> (exists r, sat_all I fs r = true) -> extract fs <> TDefault.
Proof. exact finite_window_not_default. Qed.
Print Assumptions C04_finite_window_not_default.

(* Resolved form: for a finite-window statement the range handed to the
   metadata client contains every matching row, whatever the clock says. *)
Theorem C04_pruning_sound_finite_window :
  forall (I : interp) (fs : list pred) (r : row) (now : Z),
  finite_window I fs -> in_i64 (r_ts r) = true -> sat_all I fs r = true ->
  fst (resolve now (extract fs)) <= r_ts r <= snd (resolve now (extract fs)).
Proof. exact pruning_sound_finite_window. Qed.
Print Assumptions C04_pruning_sound_finite_window.

(* Pushed-down column predicates mean exactly what the WHERE clause means. *)
Theorem C04_convert_exact :
  forall (I : interp) (p : pred) (c : cpred) (r : row),
  convert p = Some c -> csem I c r = sem I p r.
Proof. exact convert_exact. Qed.
Print Assumptions C04_convert_exact.

Theorem C04_plan_preds_sound :
  forall (I : interp) (fs : list pred) (r : row) (c : cpred),
  sat_all I fs r = true -> In c (plan_preds fs) -> csem I c r = Some true.
Proof. exact plan_preds_sound. Qed.
Print Assumptions C04_plan_preds_sound.

(* selected_superset: on both backends, every live chunk holding a row the
   statement accepts is among the selected chunks. *)
Theorem C04_selected_superset :
  forall (I : interp) (content : path -> list row) (prune : list cpred -> path -> bool)
         (h : list cop),
  hist_ok h ->
  (* C06 *) (forall p m r, In (p, m) (spec_run h) -> In r (content p) ->
               m_min m <= r_ts r <= m_max m /\ in_i64 (r_ts r) = true) ->
  (* C12 *) (forall cs p r, In r (content p) ->
               (forall c, In c cs -> csem I c r = Some true) -> prune cs p = true) ->
  forall (now : Z) (fs : list pred) (p : path) (m : cmeta) (r : row),
  finite_window I fs ->
  In (p, m) (spec_run h) -> In r (content p) -> sat_all I fs r = true ->
  (exists sel, select_chunks (s3_get (s3_run h)) prune now fs = Done sel /\ In p sel) /\
  (exists sel, select_chunks (local_get (local_run h)) no_gate now fs = Done sel /\ In p sel).
Proof. exact selected_superset. Qed.
Print Assumptions C04_selected_superset.

(* C04: the answer over the selected chunks equals the answer over all rows,
   for every placement [content] of the rows into chunk files, every catalog
   history, both backends, every clock value. *)
Theorem C04_answer_eq_full_scan :
  forall (I : interp) (content : path -> list row) (prune : list cpred -> path -> bool)
         (answer : Type) (engine : list pred -> list row -> answer) (post : list row -> answer)
         (h : list cop),
  hist_ok h ->
  (* C06 *) (forall p m r, In (p, m) (spec_run h) -> In r (content p) ->
               m_min m <= r_ts r <= m_max m /\ in_i64 (r_ts r) = true) ->
  (* C12 *) (forall cs p r, In r (content p) ->
               (forall c, In c cs -> csem I c r = Some true) -> prune cs p = true) ->
  (* DataFusion *) (forall fs rows, engine fs rows = post (filter (sat_all I fs) rows)) ->
  (* DataFusion *) (forall rows rows', Permutation rows rows' -> post rows = post rows') ->
  forall (now : Z) (fs : list pred),
  finite_window I fs ->
  (exists sel, select_chunks (s3_get (s3_run h)) prune now fs = Done sel /\
               engine fs (rows_of content sel) = engine fs (all_rows content h)) /\
  (exists sel, select_chunks (local_get (local_run h)) no_gate now fs = Done sel /\
               engine fs (rows_of content sel) = engine fs (all_rows content h)).
Proof. exact answer_eq_full_scan. Qed.
Print Assumptions C04_answer_eq_full_scan.

(* The answer does not depend on how the rows were split into chunks (nor on
   the backend, nor on the clock): two placements of the same multiset of rows
   give the same answer. *)
Theorem C04_chunking_independent :
  forall (I : interp) (answer : Type) (engine : list pred -> list row -> answer)
         (post : list row -> answer)
         (content1 content2 : path -> list row) (prune1 prune2 : list cpred -> path -> bool)
         (h1 h2 : list cop) (now1 now2 : Z) (fs : list pred),
  hist_ok h1 -> hist_ok h2 ->
  (forall p m r, In (p, m) (spec_run h1) -> In r (content1 p) ->
     m_min m <= r_ts r <= m_max m /\ in_i64 (r_ts r) = true) ->
  (forall p m r, In (p, m) (spec_run h2) -> In r (content2 p) ->
     m_min m <= r_ts r <= m_max m /\ in_i64 (r_ts r) = true) ->
  (forall cs p r, In r (content1 p) -> (forall c, In c cs -> csem I c r = Some true) -> prune1 cs p = true) ->
  (forall cs p r, In r (content2 p) -> (forall c, In c cs -> csem I c r = Some true) -> prune2 cs p = true) ->
  (forall fs rows, engine fs rows = post (filter (sat_all I fs) rows)) ->
  (forall rows rows', Permutation rows rows' -> post rows = post rows') ->
  Permutation (all_rows content1 h1) (all_rows content2 h2) ->
  finite_window I fs ->
  forall sel1 sel2,
    select_chunks (s3_get (s3_run h1)) prune1 now1 fs = Done sel1 ->
    select_chunks (local_get (local_run h2)) prune2 now2 fs = Done sel2 ->
    engine fs (rows_of content1 sel1) = engine fs (rows_of content2 sel2).
Proof. exact chunking_independent. Qed.
Print Assumptions C04_chunking_independent.

(* ---- known finding (open): empty-selection-schema-of-earlier-registration ----
   The statement is planned against whatever table is bound to `metrics`.  An
   empty chunk selection re-registers an EmptyTable with the schema of the
   PREVIOUS binding (the default metrics schema on a fresh node), so a statement
   that type-checks against the ingested data can fail instead of returning the
   empty answer.  The full-strength statement "pipeline outcome = full-scan
   outcome for every node state" is therefore false of the code: *)
Theorem C04_refuted_empty_selection_schema :
  exists sel,
    select_chunks (local_get (local_run refut_h)) no_gate 0 refut_fs = Done sel /\
    known_empty_selection_schema qnode_fresh KInt64 sel = true /\
    snd (run_query refut_typechecks refut_exec refut_content qnode_fresh KInt64 sel) = Failed 1%N /\
    full_scan refut_typechecks refut_exec refut_content KInt64 (live_paths refut_h) = Done 0%nat.
Proof. exact refuted_empty_selection_schema. Qed.
Print Assumptions C04_refuted_empty_selection_schema.

(* C04_modulo_known: for every node state, data schema, statement typing and
   both backends, outside the known class the outcome of the pipeline (answer
   or type-check error) is the outcome of the full scan. *)
Theorem C04_modulo_known :
  forall (I : interp) (content : path -> list row) (prune : list cpred -> path -> bool)
         (answer : Type) (engine : list pred -> list row -> answer) (post : list row -> answer)
         (h : list cop) (typechecks : tskind -> bool) (st : qnode) (data : tskind)
         (now : Z) (fs : list pred),
  hist_ok h ->
  (* C06 *) (forall p m r, In (p, m) (spec_run h) -> In r (content p) ->
               m_min m <= r_ts r <= m_max m /\ in_i64 (r_ts r) = true) ->
  (* C12 *) (forall cs p r, In r (content p) ->
               (forall c, In c cs -> csem I c r = Some true) -> prune cs p = true) ->
  (* DataFusion *) (forall fs rows, engine fs rows = post (filter (sat_all I fs) rows)) ->
  (* DataFusion *) (forall rows rows', Permutation rows rows' -> post rows = post rows') ->
  finite_window I fs ->
  (exists sel, select_chunks (s3_get (s3_run h)) prune now fs = Done sel /\
     (known_empty_selection_schema st data sel = false ->
      snd (run_query typechecks (engine fs) content st data sel)
      = full_scan typechecks (engine fs) content data (live_paths h))) /\
  (exists sel, select_chunks (local_get (local_run h)) no_gate now fs = Done sel /\
     (known_empty_selection_schema st data sel = false ->
      snd (run_query typechecks (engine fs) content st data sel)
      = full_scan typechecks (engine fs) content data (live_paths h))).
Proof. exact run_query_eq_full_scan_modulo_known. Qed.
Print Assumptions C04_modulo_known.

(* Adaptive indexing only counts usage: same answer as the plain execution. *)
Theorem C04_adaptive_indexing_observation_only :
  forall (A : Type) (exec : list row -> A) (v i : N) (st : idx_counters) (rows : list row),
  snd (execute_with_indexes exec v i st rows) = exec rows.
Proof. exact @execute_with_indexes_same_answer. Qed.
Print Assumptions C04_adaptive_indexing_observation_only.

(* The scale factors written in extract_timestamp_value (regenerated from the
   Rust source on every run) are the nanoseconds per unit. *)
Theorem C04_timestamp_scales_exact : forall u, code_scale u = unit_nanos u.
Proof. exact code_scale_exact. Qed.
Print Assumptions C04_timestamp_scales_exact.
