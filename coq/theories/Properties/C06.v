(* C06 — Fault-free ingest stores each accepted row exactly once, with exact
   metadata.  Statements only; every proof is `exact <lemma>`; assumptions
   printed.  `run c ls (init todos)` is the state after the schedule `ls`
   (any list of labels: writer i steps, timer steps, clock advances, shutdown)
   of k writer threads with the write lists `todos`, for thresholds `c`. *)
From Coq Require Import Permutation.
From CS Require Import Base.Prelude Model.Ingest Proofs.IngestProofs.
Open Scope Z_scope.

(* Conservation, for every interleaving: rows of all batches appended so far
   = rows of registered chunks ⊎ rows in the buffer ⊎ rows taken by a flush
   whose chunk is not registered yet (multisets). *)
Theorem C06_conservation :
  forall (c : cfg) (todos : list (list batch)) (ls : list label),
  let s := run c ls (init todos) in
  Permutation (accepted_rows s) (cat_rows (st_sh s) ++ buf_rows (st_sh s) ++ inflight_rows s).
Proof. exact conservation. Qed.
Print Assumptions C06_conservation.

(* The appended batches are those of the writes that returned Ok plus those
   of writes still waiting for the threshold flush they triggered; a write
   rejected with BufferFull contributes nothing. *)
Theorem C06_accepted_is_acked_plus_pending :
  forall (c : cfg) (todos : list (list batch)) (ls : list label),
  let s := run c ls (init todos) in
  Permutation (accepted_rows s) (acked_rows s ++ pending_own_rows s).
Proof. exact accepted_is_acked_plus_pending. Qed.
Print Assumptions C06_accepted_is_acked_plus_pending.

(* Exactly once: whenever no write and no flush is in progress and the buffer
   is empty (e.g. after the final timer / shutdown flush), the rows stored in
   registered chunks are exactly the rows of all writes that returned Ok. *)
Theorem C06_exactly_once :
  forall (c : cfg) (todos : list (list batch)) (ls : list label),
  let s := run c ls (init todos) in
  quiescent s = true -> Permutation (acked_rows s) (cat_rows (st_sh s)).
Proof. exact exactly_once. Qed.
Print Assumptions C06_exactly_once.

(* Exact metadata: every catalog entry of every reachable state states the
   true row count, a minimum and a maximum timestamp that are attained and
   bound every row, and its object holds exactly those rows. *)
Theorem C06_meta_exact :
  forall (c : cfg) (todos : list (list batch)) (ls : list label) (ch : chunk),
  let s := run c ls (init todos) in
  In ch (sh_cat (st_sh s)) ->
  (k_count ch = N.of_nat (length (k_rows ch)) /\
   (k_rows ch <> [] ->
      (exists r, In r (k_rows ch) /\ r_ts r = k_min ch) /\
      (exists r, In r (k_rows ch) /\ r_ts r = k_max ch) /\
      (forall r, In r (k_rows ch) -> k_min ch <= r_ts r <= k_max ch)) /\
   (k_rows ch = [] -> k_min ch = 0 /\ k_max ch = 0))
  /\ In (k_id ch, k_rows ch) (sh_objs (st_sh s)).
Proof. exact meta_exact. Qed.
Print Assumptions C06_meta_exact.

(* One announcement per chunk: both broadcast channels carry the same
   sequence; chunk ids are unique; an announced chunk is registered and is
   announced at most once; at quiescence every registered chunk has been
   announced exactly once. *)
Theorem C06_one_announcement_per_chunk :
  forall (c : cfg) (todos : list (list batch)) (ls : list label),
  let s := run c ls (init todos) in
  sh_tann (st_sh s) = sh_ann (st_sh s) /\
  NoDup (map k_id (sh_cat (st_sh s))) /\
  NoDup (map k_id (sh_ann (st_sh s))) /\
  (forall ch, In ch (sh_ann (st_sh s)) -> In ch (sh_cat (st_sh s))) /\
  (quiescent s = true -> Permutation (sh_ann (st_sh s)) (sh_cat (st_sh s))).
Proof. exact one_announcement_per_chunk. Qed.
Print Assumptions C06_one_announcement_per_chunk.

(* The buffer's row and byte counters (which drive the flush thresholds and
   the BufferFull rejection) always equal the true totals of its batches. *)
Theorem C06_buffer_counters_exact :
  forall (c : cfg) (todos : list (list batch)) (ls : list label),
  let bf := sh_buf (st_sh (run c ls (init todos))) in
  bf_rows bf = N.of_nat (length (rows_of (bf_batches bf))) /\
  bf_bytes bf = fold_right (fun b a => (b_size b + a)%N) 0%N (bf_batches bf).
Proof. exact buffer_counters_exact. Qed.
Print Assumptions C06_buffer_counters_exact.

(* The runs the harness compares with the implementation (one label = run the
   released task to its next park point) are step-level runs, so all of the
   above applies to them. *)
Theorem C06_yield_point_runs_are_runs :
  forall (c : cfg) (ms : list label) (s : state), exists ls, macro_run c ms s = run c ls s.
Proof. exact macro_run_is_run. Qed.
Print Assumptions C06_yield_point_runs_are_runs.
