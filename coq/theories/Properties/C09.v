(* C09 — Garbage collection and retention delete only what is safe to delete.
   Statements only; every proof is `exact <lemma>`; assumptions printed.

   Vocabulary (Model/Gc.v): a history is a list of steps run from `init t0`;
   `ok_from` = registrations use fresh paths (chunk paths are uuids) and entries
   written into the pending file from outside never name a live chunk;
   `deletes c s x` = the data files step x physically deletes in state s;
   `schedules c s x` = the paths step x hands to schedule_deletion. *)
From CS Require Import Base.Prelude Model.Gc Proofs.GcProofs.
Open Scope Z_scope.

(* Grace period, for ANY behaviour of the wall clock (ticks of either sign: the
   clock may be stepped back between scheduling and a pass) and with entries
   written into pending-deletions.json from outside (DiskEdit: dated in the
   future, the past, now).  Whenever a step deletes the file p, p is not
   referenced by the catalog and there is an entry (p, ts) with
       ts + grace <= pass_time  (the clock reading the pass took at its filter),
   i.e. an entry waits at least the grace period after ITS OWN timestamp, also
   when that timestamp lies ahead of the local clock; the entry was either
   scheduled by the compactor at reading ts when p left the catalog - and no
   catalog state has referenced p since (every intermediate state is covered) -
   or written from outside, p unreferenced ever since. *)
Theorem C09_gc_after_grace :
  forall (c : gcfg) (t0 : Z) (h : list label) (x : label) (p : path),
  ok_from c (init t0) (h ++ [x]) = true ->
  In p (deletes c (runi c t0 h) x) ->
  amem N.eqb p (cat (runi c t0 h)) = false /\
  exists ts, ts + g_grace c <= pass_time c (runi c t0 h) x /\ origin_in c t0 h p ts.
Proof. exact gc_after_grace. Qed.
Print Assumptions C09_gc_after_grace.

(* The same in the property's words when the wall clock is never stepped back:
   the deleted file left the catalog at a clock reading at least one grace
   period before the reading at the delete and has been unreferenced
   throughout (or its entry was written from outside and is at least one grace
   period old by its own timestamp). *)
Theorem C09_gc_after_grace_monotone_clock :
  forall (c : gcfg) (t0 : Z) (h : list label) (x : label) (p : path),
  ok_from c (init t0) (h ++ [x]) = true ->
  forallb tick_nonneg h = true ->
  In p (deletes c (runi c t0 h) x) ->
  exists ts, ts + g_grace c <= now (runi c t0 h) /\
    ((unref_throughout c t0 h p (now (runi c t0 h) - g_grace c) /\ scheduled_in c t0 h p) \/
     foreign_in c t0 h p ts).
Proof. exact gc_after_grace_monotone. Qed.
Print Assumptions C09_gc_after_grace_monotone_clock.

(* Nothing else is ever deleted, part 1: a deleted file was handed to
   schedule_deletion by an earlier step (a compaction swap that removed it from
   the catalog, or a retention pass), or named by an entry written into the
   pending file from outside. *)
Theorem C09_only_scheduled_deleted :
  forall (c : gcfg) (t0 : Z) (h : list label) (x : label) (p : path),
  ok_from c (init t0) (h ++ [x]) = true ->
  In p (deletes c (runi c t0 h) x) ->
  scheduled_in c t0 h p \/ exists ts, foreign_in c t0 h p ts.
Proof. exact deleted_was_scheduled. Qed.
Print Assumptions C09_only_scheduled_deleted.

(* ... part 2: in any state, a data file disappears only through the deletes
   of a GC step. *)
Theorem C09_nothing_else_deleted :
  forall (c : gcfg) (s : st) (x : label) (p : path),
  In p (objs s) -> ~ In p (objs (step c s x)) -> In p (deletes c s x).
Proof. exact object_removed_only_by_gc. Qed.
Print Assumptions C09_nothing_else_deleted.

(* Restart.  Every deletion that was pending when the cycle persisted the list
   is pending again after a restart has loaded the file (with a scheduled_at
   taken from the persisted list). *)
Theorem C09_persisted_survive_restart :
  forall (c : gcfg) (s : st) (p : path) (ts : Z),
  In (p, ts) (pending s) ->
  let s1 := run c [PersistSnap; PersistPut; Restart; Load] s in
  exists ts', In (p, ts') (pending s1) /\ In (p, ts') (pending s).
Proof. exact persisted_survive_restart. Qed.
Print Assumptions C09_persisted_survive_restart.

(* ... and it is carried out: once the grace period has elapsed and the path
   is not pinned, the next pass deletes the file. *)
Theorem C09_persisted_then_deleted :
  forall (c : gcfg) (s : st) (p : path) (ts d : Z),
  In (p, ts) (pending s) -> (forall q t, In (q, t) (pending s) -> t <= now s) ->
  g_grace c <= d -> ~ In p (pins s) ->
  let s1 := run c [PersistSnap; PersistPut; Restart; Load; Tick d; GcFilter] s in
  In p (deletes c s1 (GcDelete p)) /\ ~ In p (objs (step c s1 (GcDelete p))).
Proof. exact persisted_then_deleted. Qed.
Print Assumptions C09_persisted_then_deleted.

(* Retention (repaired code).  A chunk that a retention pass removes from the
   catalog has its newest row strictly older than
   cutoff = now - retention - skew margin. *)
Theorem C09_retention_only_old :
  forall (c : gcfg) (s : st) (p : path),
  amem N.eqb p (cat s) = true -> amem N.eqb p (cat (step c s Retention)) = false ->
  exists mn mx, In (p, (mn, mx)) (cat s) /\ mx < ret_cutoff c (bclock s).
Proof. exact retention_only_old. Qed.
Print Assumptions C09_retention_only_old.

(* The same over whole histories: every removal any retention pass of the
   history ever made (logged with the chunk's newest row and that pass's
   cut-off) concerned an expired chunk. *)
Theorem C09_retention_log_only_old :
  forall (c : gcfg) (t0 : Z) (h : list label) (e : retev),
  In e (rlog (run c h (init t0))) -> r_max e < r_cutoff e.
Proof. exact retention_log_from_init. Qed.
Print Assumptions C09_retention_log_only_old.

(* The only ways out of the catalog: source of a compaction swap, or old
   enough at a retention pass. *)
Theorem C09_catalog_removal_causes :
  forall (c : gcfg) (s : st) (x : label) (p : path),
  amem N.eqb p (cat s) = true -> amem N.eqb p (cat (step c s x)) = false ->
  (exists srcs tgt, x = Swap srcs tgt /\ In p srcs) \/
  (x = Retention /\ exists mn mx, In (p, (mn, mx)) (cat s) /\ mx < ret_cutoff c (bclock s)).
Proof. exact catalog_removal_causes. Qed.
Print Assumptions C09_catalog_removal_causes.

(* Pins, atomic variant: if filter, deletes and retain were one step, no file
   would ever be deleted while pinned. *)
Theorem C09_pin_safe_atomic :
  forall (c : gcfg) (t0 : Z) (h : list label),
  forallb (fun x => negb (is_split_gc x)) h = true ->
  forall e, In e (dlog (run c h (init t0))) -> d_pinned e = false.
Proof. exact pin_safe_atomic. Qed.
Print Assumptions C09_pin_safe_atomic.

(* Pins, as coded (filter, then one delete per await): REFUTED.
   filter . pin . delete deletes a file that is pinned at that instant, and
   the query that pinned it cannot read it. *)
Theorem C09_refuted_pin_toctou :
  exists e, In e (dlog (run cfg0 toctou_history (init 100))) /\ d_pinned e = true.
Proof. exact toctou_refutes. Qed.
Print Assumptions C09_refuted_pin_toctou.

(* The strongest true statement for the coded split: unless some query pins a
   path that a running GC pass has already selected (class pin-toctou), no
   file is deleted while pinned. *)
Theorem C09_modulo_known :
  forall (c : gcfg) (t0 : Z) (h : list label),
  known_class_from c (init t0) h = false ->
  forall e, In e (dlog (run c h (init t0))) -> d_pinned e = false.
Proof. exact modulo_known. Qed.
Print Assumptions C09_modulo_known.

(* Queries that pin a chunk list which is still entirely in the catalog (a
   current metadata view: get_chunks and pin without an await in between) are
   never in the class. *)
Theorem C09_pin_safe_fresh_views :
  forall (c : gcfg) (t0 : Z) (h : list label),
  ok_from c (init t0) h = true -> fresh_pins_from c (init t0) h = true ->
  forall e, In e (dlog (run c h (init t0))) -> d_pinned e = false.
Proof. exact pin_safe_fresh_views. Qed.
Print Assumptions C09_pin_safe_fresh_views.

(* The selection of the code before the repair (overlap with [0, cutoff]) is
   refuted: it removes a chunk whose newest row is younger than the cut-off. *)
Theorem C09_refuted_retention_overlap :
  exists cutoff c p mn mx, In (p, (mn, mx)) (ret_select_overlap cutoff c) /\ ~ (mx < cutoff).
Proof. exact overlap_selection_refuted. Qed.
Print Assumptions C09_refuted_retention_overlap.
