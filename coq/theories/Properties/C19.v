(* C19 — Write routing always terminates on a node that can accept writes.
   Statements only; every proof is `exact <lemma>`; assumptions printed.

   The model (Model/Router.v) follows DistributedWriteRouter::route_write,
   ShardAssignment and NodeRegistry after the commit "fix: write routing rebuilds
   a stale hash ring and bounds its retry instead of recursing forever".
   Histories: register / status change (heartbeat loss) / heartbeat / drain / load /
   remove / rebalance / route, under every assignment strategy; the SipHash values
   [H] and the HashMap iteration orders [order] are universally quantified. *)
From CS Require Import Base.Prelude Model.Router Proofs.RouterProofs.
From CSGen Require Import Consts.
Open Scope N_scope.

(* The property in one statement: after EVERY history, under every strategy, for every
   shard, route_write returns either a node that is registered, healthy, of an ingesting
   type and below the load threshold at that moment — and the shard is assigned to exactly
   that node — or an error.  It neither hangs (fuel ROUTE_FUEL = MAX_ROUTE_ATTEMPTS + 1
   loop tests is enough) nor panics. *)
Theorem C19_route_total_and_eligible :
  forall (strat : strategy) (H : hashes) (h : list op) (s : shard) (order : list node),
  match route_write strat H order (run strat H h) s with
  | (st', Done n) =>
      (exists i, aget N.eqb n (st_reg st') = Some i /\ eligible_spec i) /\
      aget N.eqb s (st_asg st') = Some n
  | (_, Failed _) => True
  | (_, Hang) | (_, Panic) => False
  end.
Proof. exact route_total_and_eligible. Qed.
Print Assumptions C19_route_total_and_eligible.

(* route_terminates — the fuel bound is 1: in every state whatsoever (reachable or not) a
   single loop iteration settles the call when nothing else touches the registry in
   between, and more fuel changes nothing. *)
Theorem C19_route_terminates :
  forall (strat : strategy) (H : hashes) (order : list node) (st : state) (s : shard),
  snd (route_write_gen no_interf 1 0 strat H (fun _ => order) st s) <> Hang /\
  forall f, route_write_gen no_interf (S f) 0 strat H (fun _ => order) st s
            = route_write_gen no_interf 1 0 strat H (fun _ => order) st s.
Proof. exact route_terminates. Qed.
Print Assumptions C19_route_terminates.

(* ... and when other tasks change the registry arbitrarily between the assignment and the
   lookup of every attempt ([interf]; the map's iteration order may change per attempt, [orders]),
   the call still returns within ROUTE_FUEL loop tests,
   and an Ok(node) can accept writes in the registry as it is at its lookup. *)
Theorem C19_route_bounded_under_interference :
  forall (interf : N -> registry -> registry) (strat : strategy) (H : hashes) (orders : N -> list node)
         (st : state) (s : shard),
  snd (route_write_gen interf ROUTE_FUEL 0 strat H orders st s) <> Hang /\
  forall st' n, route_write_gen interf ROUTE_FUEL 0 strat H orders st s = (st', Done n) ->
                eligible (st_reg st') n = true.
Proof. exact route_bounded_under_interference. Qed.
Print Assumptions C19_route_bounded_under_interference.

(* route_eligible — an Ok(node) is registered, healthy, ingesting and below the threshold. *)
Theorem C19_route_eligible :
  forall (strat : strategy) (H : hashes) (order : list node) (st : state) (s : shard) (st' : state) (n : node),
  route_write strat H order st s = (st', Done n) ->
  exists i, aget N.eqb n (st_reg st') = Some i /\
            n_status i = Healthy /\ (n_type i = Ingester \/ n_type i = Combined) /\
            n_load i < Consts.ROUTER_LOAD_THRESHOLD.
Proof. exact route_eligible. Qed.
Print Assumptions C19_route_eligible.

(* one_node_per_shard — after every history the assignment is a function of the shard. *)
Theorem C19_one_node_per_shard :
  forall (strat : strategy) (H : hashes) (h : list op) (s : shard) (n1 n2 : node),
  In (s, n1) (st_asg (run strat H h)) -> In (s, n2) (st_asg (run strat H h)) -> n1 = n2.
Proof. exact one_node_per_shard. Qed.
Print Assumptions C19_one_node_per_shard.

(* moves_only_when_ineligible_or_rebalanced — along every history, a shard leaves its node
   only by a rebalance, or by routing that very shard while its node cannot accept writes
   (or, third case, during which another task changed the registry, so that the node failed
   the lookup of an attempt). *)
Theorem C19_moves_only_when_ineligible_or_rebalanced :
  forall (strat : strategy) (H : hashes) (h : list op) (o : op) (s : shard) (n : node),
  let st := run strat H h in
  let st' := run strat H (h ++ [o]) in
  aget N.eqb s (st_asg st) = Some n ->
  aget N.eqb s (st_asg st') <> Some n ->
  (exists order, o = ORebalance order) \/
  (exists order, o = ORoute s order /\ eligible (st_reg st) n = false) \/
  (exists orders specs, o = ORouteI s orders specs).
Proof. exact moves_only_when_ineligible_or_rebalanced_hist. Qed.
Print Assumptions C19_moves_only_when_ineligible_or_rebalanced.

(* a shard becomes assigned only by being routed *)
Theorem C19_assigned_only_by_route :
  forall (strat : strategy) (H : hashes) (st : state) (o : op) (st' : state) (r : result) (s : shard),
  step strat H st o = (st', r) ->
  aget N.eqb s (st_asg st) = None ->
  aget N.eqb s (st_asg st') <> None ->
  (exists order, o = ORoute s order) \/ (exists orders specs, o = ORouteI s orders specs).
Proof. exact assigned_only_by_route. Qed.
Print Assumptions C19_assigned_only_by_route.

(* a rebalance that finds a healthy ingester leaves every assigned shard on a node that can
   accept writes *)
Theorem C19_rebalance_all_eligible :
  forall (H : hashes) (order : list node) (st st' : state) (m : list (shard * node * node)) (s : shard) (n : node),
  rebalance H order st = (st', m) ->
  healthy_ingesters order (st_reg st) <> [] ->
  (forall k, vnode_hashes H k <> []) ->
  aget N.eqb s (st_asg st') = Some n -> eligible (st_reg st') n = true.
Proof. exact rebalance_all_eligible. Qed.
Print Assumptions C19_rebalance_all_eligible.

(* availability (stronger than the property asks): an error only when no registered node can
   accept writes *)
Theorem C19_route_available :
  forall (strat : strategy) (H : hashes) (order : list node) (st : state) (s : shard),
  (forall n, vnode_hashes H n <> []) ->
  (exists n, eligible (st_reg st) n = true) ->
  exists n, snd (route_write strat H order st s) = Done n.
Proof. exact route_available. Qed.
Print Assumptions C19_route_available.

(* The code BEFORE the fix (kept in the model as legacy_route_write): one ingester, a shard
   routed to it, the node drained — routing any shard then recursed for ever (the stale ring
   re-picked the drained node); the harness replays this history on the real code. *)
Theorem C19_prefix_route_loops_forever :
  forall fuel : nat,
  snd (legacy_route_write fuel ConsistentHash witness_hashes [0] witness_state 3) = Hang.
Proof. exact prefix_route_loops_forever. Qed.
Print Assumptions C19_prefix_route_loops_forever.

(* constants read from the Rust sources on every run: the threshold is a percentage (so
   "overloaded" means something), at least one attempt is made, and the loop of route_write
   is bounded by the constant the model uses *)
Theorem C19_threshold_is_a_percentage : 0 < Consts.ROUTER_LOAD_THRESHOLD <= 100.
Proof. exact threshold_is_a_percentage. Qed.
Print Assumptions C19_threshold_is_a_percentage.

Theorem C19_at_least_one_attempt : 0 < Consts.ROUTER_MAX_ROUTE_ATTEMPTS.
Proof. exact max_attempts_pos. Qed.
Print Assumptions C19_at_least_one_attempt.

Theorem C19_loop_bound_is_max_attempts : Consts.ROUTER_ROUTE_LOOP_BOUND = Consts.ROUTER_MAX_ROUTE_ATTEMPTS.
Proof. exact loop_bound_is_max_attempts. Qed.
Print Assumptions C19_loop_bound_is_max_attempts.
