(* C01 — Acknowledged writes survive crashes and storage faults.
   Statements only; every proof is `exact <lemma>`; assumptions printed.

   `drun c ls (dinit todos)` is the state after the schedule `ls` — any list of
   labels: writer i steps, timer steps, interval ticks, shutdown, ensure_wal
   steps, each possibly carrying a storage / catalog fault that lands before or
   after the effect of the PUT / register_chunk it hits, and crashes — of k
   writers with the write lists `todos`, on the abstract WAL of
   Model/IngestDur.v (DCrashRot: a crash that leaves a new, empty tail segment).

   Full statement (FALSE of the code as it is, see the three refutations):
     forall c todos ls, Durable (drun c ls (dinit todos))
   where Durable s := every row of every write that returned Ok is in a
   registered chunk or in a WAL entry newer than the persisted flushed mark
   (= is put back into the buffer by the next ensure_wal). *)
From CS Require Import Base.Prelude Model.Ingest Model.IngestDur Proofs.IngestDurProofs Proofs.IngestDurTie.
From CSGen Require Import Consts Funs.
Open Scope N_scope.

(* Strongest true statement: for every schedule on which the executable
   classifier `known_class` stays 0 (no flush ever reads a last_wal_seq that
   reaches a batch which is buffered, still held by a writer, taken by another
   running flush, or was dropped by a failed flush), Durable holds. *)
Theorem C01_modulo_known :
  forall (c : dcfg) (todos : list (list wreq)) (ls : list dlabel),
  known_class c todos ls = 0 ->
  forall e r, In e (acked_sbs (drun c ls (dinit todos))) -> In r (b_rows (snd e)) ->
  In r (dcat_rows (ds_d (drun c ls (dinit todos)))) \/ In r (replay_rows (ds_d (drun c ls (dinit todos)))).
Proof. exact durable_modulo_known. Qed.
Print Assumptions C01_modulo_known.

(* ... and in every intermediate state of such a schedule (so after any crash
   point, any failed or retried flush, any crash-restart-crash sequence). *)
Theorem C01_modulo_known_every_prefix :
  forall (c : dcfg) (todos : list (list wreq)) (l1 l2 : list dlabel),
  known_class c todos (l1 ++ l2) = 0 -> Durable (drun c l1 (dinit todos)).
Proof. exact durable_modulo_known_prefix. Qed.
Print Assumptions C01_modulo_known_every_prefix.

(* Refutation 1 (class 1, in-flight ack): a write acknowledged while another
   writer's flush is between taking the buffer and reading last_wal_seq is
   covered by that flush's mark although it is only buffered. *)
Theorem C01_refuted_inflight_ack :
  ~ Durable (drun (wcfg 2) k1_sched (dinit k1_todos)) /\ known_class (wcfg 2) k1_todos k1_sched = 1.
Proof. exact (conj (not_durable_of_b _ (proj1 refuted_inflight_ack)) (proj2 refuted_inflight_ack)). Qed.
Print Assumptions C01_refuted_inflight_ack.

(* Refutation 1b (class 1 with ONE writer): a write whose schema differs from
   the buffered batches stores its own sequence number before the
   schema-change flush it triggers, so that flush marks it as flushed. *)
Theorem C01_refuted_schema_change_ack :
  ~ Durable (drun (wcfg 100) k1s_sched (dinit k1s_todos)) /\ known_class (wcfg 100) k1s_todos k1s_sched = 1.
Proof. exact (conj (not_durable_of_b _ (proj1 refuted_schema_change_ack)) (proj2 refuted_schema_change_ack)). Qed.
Print Assumptions C01_refuted_schema_change_ack.

(* Refutation 2 (class 2, failed flush): a flush that fails drops the batches
   it took; a later successful flush persists a mark beyond them. *)
Theorem C01_refuted_failed_flush :
  ~ Durable (drun (wcfg 2) k2_sched (dinit k2_todos)) /\ known_class (wcfg 2) k2_todos k2_sched = 2.
Proof. exact (conj (not_durable_of_b _ (proj1 refuted_failed_flush)) (proj2 refuted_failed_flush)). Qed.
Print Assumptions C01_refuted_failed_flush.

(* The runs the harness compares with the implementation (one label = run the
   released task to its next park point) are step-level runs. *)
Theorem C01_park_point_runs_are_runs :
  forall (c : dcfg) (fuel : nat) (ms : list dlabel) (s : dstate),
  exists ls, fold_left (fun s l => dmacro c fuel l s) ms s = drun c ls s.
Proof. exact dmacro_run_is_run. Qed.
Print Assumptions C01_park_point_runs_are_runs.

(* The truncation bounds, the guards and the persisted value in the model's
   flush and recovery steps are the expressions found at the call sites of
   flush_batches / ensure_wal in src/ingester/mod.rs (re-translated into
   generated/Funs.v on every run): `if flushed_up_to > 0`,
   `truncate_before(flushed_up_to)`, `last_flushed_seq.store(flushed_up_to)`,
   `persist_flushed_seq(dir, flushed_up_to)`, `read_entries_after(flushed_seq)`,
   `if flushed_seq > 0 { truncate_before(flushed_seq + 1) }`. *)
Theorem C01_wal_call_sites_are_the_code :
  (forall hw f d v s k,
     dflush_step hw f d v (QTrunc s k) =
     if Funs.ingest_flush_mark_guard (Z.of_N s)
     then Some (if hw then set_segs d (trunc (zN Funs.ingest_flush_truncate_bound s) (d_segs d)) else d,
                v, GPc (QPersist s k))
     else Some (d, v, GOk k)) /\
  (forall hw f d v s k,
     dflush_step hw f d v (QPersist s k) =
     Some (set_flushed d (zN Funs.ingest_flush_persist_value s),
           set_lfs v (zN Funs.ingest_flush_lfs_value s), GPc (QFin k))) /\
  (forall d, replay_sbs d = filter (fun e => zN Funs.ingest_recover_read_after (d_flushed d) <? fst e) (wal_sbs d)) /\
  (forall f d v maxs fl0,
     drstep f d v (QRFinish maxs fl0) =
     (if Funs.ingest_recover_truncate_guard (Z.of_N fl0)
      then set_segs d (trunc (zN Funs.ingest_recover_truncate_bound fl0) (d_segs d)) else d,
      if fl0 <? maxs then set_lws v maxs else v, RUp)).
Proof. exact wal_call_sites_are_the_code. Qed.
Print Assumptions C01_wal_call_sites_are_the_code.
