(* C03 — Compaction never loses or duplicates stored rows.
   Statements only; every proof is `exact <lemma>`; assumptions printed.

   Model: Model/Compactor.v — the compaction procedure of src/compactor/mod.rs
   request by request, any number of compactor nodes interleaved at request
   granularity, a fault before / after effect at every request, crashes, lease
   expiry through clock ticks, renewal tasks, GC of scheduled deletions, stale
   candidate lists (a node may start on any duplicate-free list of paths it has
   ever seen in the catalog).

   The full-strength "each row once" clause

     forall sched s0, wf0 s0 -> NoDup (cat_keys s0) ->
       quiescent (run sched s0) = true ->
       Permutation (visible (run sched s0)) (visible s0)

   is FALSE of the code as it is (C03_refuted_* below, each replayed on the
   real compactor by the harness corpus); C03_modulo_known is the strongest
   true statement: it holds for every schedule outside the executable
   classifier [known_class]. *)
From Coq Require Import Permutation.
From CS Require Import Base.Prelude Model.Catalog Model.Compactor Proofs.CompactorProofs.
Open Scope N_scope.

(* (a) For EVERY schedule — any interleaving of any number of compactors, any
   crash point, any fault before/after effect, any lease expiry, any stale
   candidate list, GC running — no row that was reachable through the catalog
   ever becomes unreachable. *)
Theorem C03_never_unqueryable :
  forall (sched : list label) (s0 : state), wf0 s0 ->
  forall r, In r (visible s0) -> In r (visible (run sched s0)).
Proof. exact never_unqueryable. Qed.
Print Assumptions C03_never_unqueryable.

(* (b) Outside the known classes, whenever no compaction is in progress the
   rows reachable through the catalog are exactly the initial multiset. *)
Theorem C03_modulo_known :
  forall (sched : list label) (s0 : state),
  wf0 s0 -> NoDup (cat_keys s0) ->
  known_class s0 sched = 0 ->
  quiescent (run sched s0) = true ->
  Permutation (visible (run sched s0)) (visible s0).
Proof. exact exact_when_quiescent. Qed.
Print Assumptions C03_modulo_known.

(* ... and while compactions are in progress the only surplus is the content
   of the registered targets whose swap is still outstanding. *)
Theorem C03_surplus_is_unswapped_targets :
  forall (sched : list label) (s0 : state),
  wf0 s0 -> NoDup (cat_keys s0) -> known_class s0 sched = 0 ->
  let s := run sched s0 in
  exists U, NoDup U /\ (forall t, In t U <-> exists c, In t (unswapped (pcof s c))) /\
            Permutation (visible s) (visible s0 ++ flat_map (rowsof s) U).
Proof. exact surplus_is_unswapped_targets. Qed.
Print Assumptions C03_surplus_is_unswapped_targets.

(* (c) Whenever complete_compaction takes effect, in any state, the target is
   one level above the highest-level source that was in the catalog; the
   sources are gone; no other chunk changes level. *)
Theorem C03_level_rule :
  forall (s : state) (c : cid) (f : fault) l g t c',
  p_pc (get_proc s c) = PSwap l g t -> f <> FBefore ->
  cat_complete (s_cat s) g t = Some c' ->
  let s' := fst (step s (LStep c f)) in
  level_of s' t = Some (max_level (level_of s) g + 1) /\
  (forall p, In p g -> level_of s' p = None) /\
  (forall p, p <> t -> ~ In p g -> level_of s' p = level_of s p).
Proof. exact level_rule. Qed.
Print Assumptions C03_level_rule.

(* max_level is the maximum: an upper bound that is attained (0 when no source is catalogued) *)
Theorem C03_max_level_is_upper_bound :
  forall (lv : path -> option N) g p l, In p g -> lv p = Some l -> l <= max_level lv g.
Proof. exact max_level_upper. Qed.
Print Assumptions C03_max_level_is_upper_bound.

Theorem C03_max_level_is_attained :
  forall (lv : path -> option N) g,
  max_level lv g = 0 \/ exists p, In p g /\ lv p = Some (max_level lv g).
Proof. exact max_level_attained. Qed.
Print Assumptions C03_max_level_is_attained.

(* ---- the known classes: after each of these histories no compaction is in
   progress and the catalog reaches rows twice ---- *)
Theorem C03_refuted_register_swap_gap_error : refutes (two_l0 true) k1_register_fail_after 1.
Proof. exact C03_refuted_register_swap_gap_error. Qed.
Print Assumptions C03_refuted_register_swap_gap_error.

Theorem C03_refuted_register_swap_gap_crash : refutes (two_l0 false) k1_crash_before_swap 1.
Proof. exact C03_refuted_register_swap_gap_crash. Qed.
Print Assumptions C03_refuted_register_swap_gap_crash.

Theorem C03_refuted_register_swap_gap_swap_error : refutes (two_l0 false) k1_swap_fail_before 1.
Proof. exact C03_refuted_register_swap_gap_swap_error. Qed.
Print Assumptions C03_refuted_register_swap_gap_swap_error.

Theorem C03_refuted_stale_candidates : refutes (two_l0 true) k2_stale_candidates 2.
Proof. exact C03_refuted_stale_candidates. Qed.
Print Assumptions C03_refuted_stale_candidates.

Theorem C03_refuted_lease_lost : refutes (two_l0 false) k3_lease_lost 3.
Proof. exact C03_refuted_lease_lost. Qed.
Print Assumptions C03_refuted_lease_lost.

Theorem C03_refuted_unswapped_target : refutes l1_pair k5_unswapped_target 5.
Proof. exact C03_refuted_unswapped_target. Qed.
Print Assumptions C03_refuted_unswapped_target.

(* K4 (liveness, relevant to C08 / C20; repaired by fix 00081bd): every request
   whose error leaves the cycle with `?` stops the renewal task of the
   abandoned lease and releases the concurrency slot — before the repair the
   lease was renewed for ever and the chunks were never compacted again. *)
Theorem C03_error_path_stops_renewal :
  forall (s : state) (c : cid) (f : fault) (k a : N),
  snd (step s (LStep c f)) = (k, a, 1) ->
  let s' := fst (step s (LStep c f)) in
  p_pc (get_proc s' c) = Idle /\
  (forall l, lease_of_pc (p_pc (get_proc s c)) = Some l -> ~ In l (p_renew (get_proc s' c))) /\
  p_active (get_proc s' c) = p_active (get_proc s c) - 1.
Proof. exact error_path_stops_renewal. Qed.
Print Assumptions C03_error_path_stops_renewal.

(* the reduced catalog of this model is the level projection of the catalog
   model of C07 / C02 *)
Theorem C03_catalog_refines_complete :
  forall (c : cat) srcs tgt,
  option_map levels_of (s3_complete c srcs tgt) = cat_complete (levels_of c) srcs tgt.
Proof. exact refine_complete. Qed.
Print Assumptions C03_catalog_refines_complete.

Theorem C03_catalog_refines_register :
  forall (c : cat) p m, levels_of (s3_register c p m) = cat_register (levels_of c) p.
Proof. exact refine_register. Qed.
Print Assumptions C03_catalog_refines_register.
