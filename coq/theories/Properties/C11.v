(* C11 — The query interfaces cannot modify stored data.
   Statements only; every proof is `exact <lemma>`; assumptions printed. *)
From CS Require Import Base.Prelude Model.SqlGate Proofs.SqlGateProofs.

(* For every plan tree the embedded engine can produce (query operators, DML,
   DDL, COPY, session statements, DESCRIBE, with EXPLAIN / EXPLAIN ANALYZE and
   subqueries nested to any depth): if the admission the code applies lets it
   through, planning and running it creates, overwrites or deletes nothing and
   changes neither the catalog nor the session. *)
Theorem C11_readonly : forall p : plan, admitted p = true -> effects p = [].
Proof. exact admitted_effects_nil. Qed.
Print Assumptions C11_readonly.

(* Conversely a statement that would write or redefine anything is rejected. *)
Theorem C11_writing_statements_rejected : forall p : plan, effects p <> [] -> admitted p = false.
Proof. exact effectful_rejected. Qed.
Print Assumptions C11_writing_statements_rejected.

(* Every call site that hands user SQL to the engine (extract_time_range,
   extract_column_predicates, execute, execute_with_indexes, execute_stream,
   analyze, prepare) either returns an error or has no effect. *)
Theorem C11_every_call_site_readonly :
  forall (s : site) (p : plan), site_call s p = None \/ site_call s p = Some [].
Proof. exact site_call_readonly. Qed.
Print Assumptions C11_every_call_site_readonly.

(* Every interface (SQL HTTP / websocket / Prometheus / Flight do_get through
   QueryNode::query, with or without adaptive indexing; the streaming executor;
   Flight SQL get_flight_info and prepared statements) and every request
   (zero, one or several statements): no effect at all, including the effects
   of the calls made before the request is refused. *)
Theorem C11_interfaces_readonly :
  forall (i : iface) (stmts : list plan), snd (submit i stmts) = [].
Proof. exact submit_readonly. Qed.
Print Assumptions C11_interfaces_readonly.

(* A request is served exactly when it is one admitted statement. *)
Theorem C11_accepted_iff_single_admitted :
  forall (i : iface) (stmts : list plan),
    fst (submit i stmts) = true <-> exists p, stmts = [p] /\ admitted p = true.
Proof. exact submit_accepts_iff. Qed.
Print Assumptions C11_accepted_iff_single_admitted.

(* The code before the repair (plain `ctx.sql`, which admits everything) let a
   COPY to a fresh path through: the witness reproduced on the real code. *)
Theorem C11_refuted_before_fix :
  admitted_with opts_unrestricted w_copy_fresh = true /\ effects w_copy_fresh = [EStoreWrite LFresh].
Proof. exact refuted_before_fix. Qed.
Print Assumptions C11_refuted_before_fix.

(* ... and ran DROP TABLE three times per request, at planning. *)
Theorem C11_refuted_before_fix_ddl_eager :
  run_sites_unrestricted (iface_sites ISqlHttp) w_drop_metrics
  = [ECatalog DropTable; ECatalog DropTable; ECatalog DropTable].
Proof. exact refuted_before_fix_ddl_eager. Qed.
Print Assumptions C11_refuted_before_fix_ddl_eager.

(* The former witnesses and their relatives are rejected on every interface. *)
Theorem C11_regression_cases_rejected :
  forallb (fun p => forallb (fun i => match submit i [p] with (false, []) => true | _ => false end) all_ifaces)
          regression_cases = true.
Proof. exact regression_cases_rejected. Qed.
Print Assumptions C11_regression_cases_rejected.
