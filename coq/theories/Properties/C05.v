(* C05 — WAL recovery is exact under torn writes; sequence numbers never regress.
   Statements only; every proof is `exact <lemma>`; assumptions printed.
   The model (Model/Wal.v) follows src/ingester/wal.rs after the two `fix:`
   commits (open cuts an incomplete tail off the active segment; open never
   starts below the flushed mark). *)
From CS Require Import Base.Prelude Model.Wal Proofs.WalProofs Proofs.WalTie.
From CSGen Require Import Consts Funs.
Open Scope N_scope.

(* decode_header inverts encode_header (decoder offsets and encoder offsets are
   both read from the Rust source) *)
Theorem C05_header_roundtrip :
  forall e, entry_ok e ->
  decode_header (encode_header (e_seq e) (e_flags e) (e_payload e)) =
  Some (e_seq e, e_flags e, lenN (e_payload e), crc32 (e_payload e)).
Proof. exact header_roundtrip. Qed.
Print Assumptions C05_header_roundtrip.

(* the field offsets used by encode_header and by decode_header agree, and the
   model's encoder writes the fields where encode_header writes them *)
Theorem C05_layout_agrees : wal_layout_agrees.
Proof. exact wal_layout_agrees_holds. Qed.
Print Assumptions C05_layout_agrees.

(* the CRC of the model is CRC-32/IEEE: the standard check value *)
Theorem C05_crc32_check_value : crc32 [49;50;51;52;53;54;55;56;57] = 3421780262.
Proof. exact crc32_check. Qed.
Print Assumptions C05_crc32_check_value.

(* reading a file of complete entries yields all of them, in order, each once *)
Theorem C05_parse_concat_encode :
  forall es, Forall entry_ok es -> parse (enc_entries es) = es.
Proof. exact parse_concat_encode. Qed.
Print Assumptions C05_parse_concat_encode.

(* a complete entry followed by ANY bytes is read, and reading continues behind it *)
Theorem C05_parse_app_enc :
  forall e rest, entry_ok e -> parse (enc_entry e ++ rest) = e :: parse rest.
Proof. exact parse_app_enc. Qed.
Print Assumptions C05_parse_app_enc.

(* the last write cut at EVERY byte offset k (inside the header, at the seam,
   inside the payload): exactly the entries before it, never a partial one.
   No assumption about the CRC. *)
Theorem C05_parse_torn_prefix :
  forall es e k, Forall entry_ok es -> entry_ok e -> (k < length (enc_entry e))%nat ->
  parse (enc_entries es ++ firstn k (enc_entry e)) = es.
Proof. exact parse_torn_prefix. Qed.
Print Assumptions C05_parse_torn_prefix.

(* lifted to a directory of segments whose newest file ends in a cut write:
   what is read, what open leaves on disk, which sequence number comes next *)
Theorem C05_reopen_exact :
  forall max pre id es e k fl,
  Forall (fun g : gseg => fst g < id) pre -> Forall entry_ok (all_entries pre es) ->
  entry_ok e -> (k < length (enc_entry e))%nat ->
  let d := mkDisk (render_all pre id es (firstn k (enc_entry e))) fl in
  read_entries d = all_entries pre es /\
  let d' := fst (wal_open max d) in
  d_segs d' = render_all pre id es [] /\ d_flushed d' = fl /\
  read_entries d' = all_entries pre es /\
  forall w, snd (wal_open max d) = Done w ->
    w_cur w = id /\ w_next w = N.max (top_of (all_entries pre es)) (load_flushed d) + 1.
Proof. exact reopen_exact. Qed.
Print Assumptions C05_reopen_exact.

(* every disciplined history, any number of crash / reopen rounds: the
   directory reads back exactly the completely written entries, in order,
   minus a prefix that lies below a bound passed to truncate_before *)
Theorem C05_history_recovery_exact :
  forall h, hist_ok init h = true ->
  let st := fst (run init h) in
  let evs := snd (run init h) in
  exists n, (n <= length (complete_of evs))%nat /\
    read_entries (st_disk st) = skipn n (complete_of evs) /\
    Forall (fun e => e_seq e < max_trunc evs) (firstn n (complete_of evs)).
Proof. exact history_recovery_exact. Qed.
Print Assumptions C05_history_recovery_exact.

(* ... and their sequence numbers are strictly increasing (each once, in order) *)
Theorem C05_history_read_ascending :
  forall h, hist_ok init h = true ->
  asc (seqs (read_entries (st_disk (fst (run init h))))).
Proof. exact history_read_ascending. Qed.
Print Assumptions C05_history_read_ascending.

(* an append acknowledged with s after any history (e.g. crash with a partial
   entry, reopen) is read back after any continuation that never truncates
   above s — in particular after the next crash and reopening *)
Theorem C05_appended_after_reopen_recoverable :
  forall h1 pl h2 s fl0,
  hist_ok init (h1 ++ OAppend pl :: h2) = true ->
  snd (step (fst (run init h1)) (OAppend pl)) = EvAck s pl fl0 ->
  (forall b, In (OTruncate b) h2 -> b <= s) ->
  In (mkEntry s 0 pl) (read_entries (st_disk (fst (run init (h1 ++ OAppend pl :: h2))))).
Proof. exact appended_after_reopen_recoverable. Qed.
Print Assumptions C05_appended_after_reopen_recoverable.

(* no sequence number is handed out at or below the watermark of everything
   before it (acknowledged numbers, completely written entries, completely
   persisted flushed marks, marks seen on disk) nor at or below the flushed
   mark on disk at that moment *)
Theorem C05_seq_never_regresses :
  forall h, hist_ok init h = true -> regress_free [] (snd (run init h)).
Proof. exact seq_never_regresses. Qed.
Print Assumptions C05_seq_never_regresses.

(* regress_free spelled out for one position of the trace *)
Theorem C05_seq_never_regresses_at :
  forall evs seen t1 ev t2 s fl,
  regress_free seen evs -> evs = t1 ++ ev :: t2 -> assigned ev = Some (s, fl) ->
  watermark (seen ++ t1) < s /\ fl < s.
Proof. exact regress_free_at. Qed.
Print Assumptions C05_seq_never_regresses_at.

(* the discipline assumed of the caller (hist_ok) is what the two call sites
   in src/ingester/mod.rs do *)
Theorem C05_ensure_wal_disciplined :
  forall st max, hist_ok st (ensure_wal_ops max (st_disk st)) = true.
Proof. exact ensure_wal_disciplined. Qed.
Print Assumptions C05_ensure_wal_disciplined.

Theorem C05_flush_disciplined :
  forall st C wm tb s,
  Inv st C wm tb -> load_flushed (st_disk st) <= s -> s <= top_seq (st_disk st) ->
  hist_ok st (flush_ops s) = true.
Proof. exact flush_disciplined. Qed.
Print Assumptions C05_flush_disciplined.

(* ... and flush_ops / ensure_wal_ops are literally what the call sites pass:
   the guards and the arguments of truncate_before / persist_flushed_seq /
   read_entries_after are re-translated from src/ingester/mod.rs on every run
   (generated/Funs.v) *)
Theorem C05_call_sites_are_the_code :
  (forall s, flush_ops s = flush_ops_code s) /\
  (forall max d, ensure_wal_ops max d = ensure_wal_ops_code max d) /\
  (forall fl, Z.to_N (Funs.wal_ensure_read_after (Z.of_N fl)) = fl).
Proof. exact wal_call_sites_are_the_code. Qed.
Print Assumptions C05_call_sites_are_the_code.

(* the code as it was before the two `fix:` commits violated the property
   (witnesses on the legacy open; both are regression cases of the harness) *)
Theorem C05_legacy_refuted_append_after_torn :
  let st1 := fst (run init [OOpen 1000; OAppend ex_pl; OCrashAppend [4; 5] 10]) in
  let st2 := legacy_open st1 1000 in
  let r := step st2 (OAppend [6]) in
  snd r = EvAck 2 [6] 0 /\
  read_entries (st_disk (fst r)) = [mkEntry 1 0 ex_pl] /\
  option_map w_next (st_wal (legacy_open (fst (step (fst r) OCrash)) 1000)) = Some 2.
Proof. exact legacy_refuted_append_after_torn. Qed.
Print Assumptions C05_legacy_refuted_append_after_torn.

Theorem C05_legacy_refuted_seq_regress :
  let st1 := fst (run init [OOpen 60; OAppend ex_pl; OAppend ex_pl; OCrashAppend ex_pl 0; OOpen 60;
                            OPersist 2; OCrash; OOpen 60; OTruncate 3; OCrash]) in
  load_flushed (st_disk st1) = 2 /\
  option_map w_next (st_wal (legacy_open st1 60)) = Some 1.
Proof. exact legacy_refuted_seq_regress. Qed.
Print Assumptions C05_legacy_refuted_seq_regress.
