(* C18 — Live-tail delivery matches the subscription's filter.
   Statements only; every proof is `exact <lemma>`; assumptions printed.

   Model: Model/LiveFilter.v (QueryFilter::from_sql / apply after the two fix:
   commits; TopicFilter::matches; FilteredReceiver over the broadcast queue).
   Full statement of the property: for every flushed batch and every WHERE
   clause built from the supported comparison / AND / OR forms the subscriber
   receives exactly the rows at or after the merge point that satisfy the
   clause, once, in flush order; a topic subscription receives a batch iff its
   metadata satisfies the topic filter.  The live-tail half is proved for all
   clauses whose literals are compared with columns of a physical type the
   filter handles (number/number in any Int64/Float64 mix, string/Utf8); the
   remaining combinations are the open known class "type-mismatch"
   (C18_refuted_type_mismatch, C18_modulo_known). *)
From CS Require Import Base.Prelude Model.LiveFilter Proofs.LiveFilterProofs.
Open Scope Z_scope.

(* Topic subscription: for every filter expression (nested And / Or lists
   included), every interleaving of sends and receive calls of a subscriber
   that keeps up, the delivered payloads are exactly those of the sent batches
   whose metadata matches, in send order, each once. *)
Theorem C18_topic_exact :
  forall (P : Type) (f : tfilter) (evs : list (tevent P)),
  delivered f evs = map snd (filter (fun x => matches f (fst x)) (sends evs)).
Proof. exact topic_exact. Qed.
Print Assumptions C18_topic_exact.

(* ... and `matches` decides the declarative meaning of the filter: shard equal,
   tenant equal, some batch metric listed, all / any of the sub-filters. *)
Theorem C18_topic_matches_meaning :
  forall (m : bmeta) (f : tfilter), matches f m = true <-> tsat m f.
Proof. exact matches_tsat. Qed.
Print Assumptions C18_topic_matches_meaning.

(* Live tail, one flushed batch: apply (from_sql WHERE) keeps exactly the rows
   with timestamp >= merge that satisfy the clause under SQL three-valued
   logic, for arbitrary AND / OR / parenthesis nesting, both operand orders,
   signed literals, Int64 / Float64 / Utf8 columns with nulls. *)
Theorem C18_live_exact :
  forall (sel : option sexpr) (b : batch) (merge : Z),
  wf_batch b = true -> ts_col_ok b = true -> clause_ok sel b ->
  apply (from_sql sel) b merge = spec_apply sel b merge.
Proof. exact live_exact. Qed.
Print Assumptions C18_live_exact.

(* The same for the whole live tail of a keeping-up subscriber: batch by batch
   in flush order, batches without a satisfying row skipped. *)
Theorem C18_live_tail_exact :
  forall (sel : option sexpr) (merge : Z) (received : list batch),
  Forall (fun b => wf_batch b = true /\ ts_col_ok b = true /\ clause_ok sel b) received ->
  live_tail (from_sql sel) merge received = spec_tail sel merge received.
Proof. exact live_tail_exact. Qed.
Print Assumptions C18_live_tail_exact.

(* The subscription point is the return of the streaming call: for every
   interleaving of flushes and iterations of the forwarding task after it
   (flushes may all precede the task's first live iteration — it is still
   handing over the historical result), the consumer gets exactly the specified
   rows of every batch flushed since, each once, in flush order. *)
Theorem C18_executor_exact :
  forall (sel : option sexpr) (merge : Z) (evs : list xevent),
  Forall (fun b => wf_batch b = true /\ ts_col_ok b = true /\ clause_ok sel b) (xflushes evs) ->
  xdelivered (from_sql sel) merge evs = spec_tail sel merge (xflushes evs).
Proof. exact executor_exact. Qed.
Print Assumptions C18_executor_exact.

(* Row form of the same: a batch is delivered iff some row is wanted (at or
   after the merge point and satisfying the clause); it has one row per wanted
   original row, in batch order, and its k-th row carries in every column the
   cell of the k-th wanted row — each wanted row once, nothing else. *)
Theorem C18_live_rows_exact :
  forall (sel : option sexpr) (b : batch) (merge : Z),
  wf_batch b = true -> ts_col_ok b = true -> clause_ok sel b ->
  match apply (from_sql sel) b merge with
  | Some fb => b_rows fb = length (wanted sel b merge) /\ wanted sel b merge <> nil /\
               forall name k, cell fb name k =
                              match nth_error (wanted sel b merge) k with
                              | Some j => cell b name j
                              | None => None
                              end
  | None => wanted sel b merge = nil
  end.
Proof. exact live_rows_exact. Qed.
Print Assumptions C18_live_rows_exact.

(* What "the rows the mask selects" means: the k-th delivered row is the
   original row at the k-th kept index ... *)
Theorem C18_delivered_rows :
  forall (mask : list bool) (b : batch) (name : str) (k : nat),
  wf_batch b = true -> length mask = b_rows b ->
  cell (filter_batch mask b) name k =
  match nth_error (kept_indices mask) k with Some j => cell b name j | None => None end.
Proof. exact filter_batch_cells. Qed.
Print Assumptions C18_delivered_rows.

(* ... and the kept indices are the selected positions in ascending order
   (each once). *)
Theorem C18_kept_in_order :
  forall (mask : list bool),
  kept_indices mask = filter (fun i => nth i mask false) (seq 0 (length mask)) /\
  NoDup (kept_indices mask).
Proof. exact (fun mask => conj (kept_indices_filter mask) (kept_indices_nodup mask)). Qed.
Print Assumptions C18_kept_in_order.

(* Open known finding: a comparison between a literal and a column of a type
   the live filter does not pair it with is skipped — every row is delivered
   although none satisfies the clause. *)
Theorem C18_refuted_type_mismatch :
  exists (w : sexpr) (b : batch) (merge : Z),
    supported w = true /\ cols_present w b = true /\ wf_batch b = true /\ ts_col_ok b = true /\
    known_class (Some w) b = true /\
    apply (from_sql (Some w)) b merge = Some b /\ spec_apply (Some w) b merge = None.
Proof. exact refuted_type_mismatch. Qed.
Print Assumptions C18_refuted_type_mismatch.

(* Everything outside that class is exact. *)
Theorem C18_modulo_known :
  forall (w : sexpr) (b : batch) (merge : Z),
  supported w = true -> cols_present w b = true ->
  wf_batch b = true -> ts_col_ok b = true ->
  known_class (Some w) b = false ->
  apply (from_sql (Some w)) b merge = spec_apply (Some w) b merge.
Proof. exact live_modulo_known. Qed.
Print Assumptions C18_modulo_known.
