(* C14 — A shard split can be resumed from any interruption and conserves data.
   Statements only; every proof is `exact <lemma>`; assumptions printed.

   Vocabulary (Model/Split.v, Proofs/SplitProofs.v):
   - a *script* is a list of fault plans: the first for execute_split, the
     others for successive resume_split calls; a plan maps request indices of
     that run to fail-before / fail-after / crash-before / crash-after;
     `script_state arg s0 script` is the durable state after running it;
   - `s0 arg chunks` is the world before the split (active old shard `arg`,
     its chunks registered and stored); `wf_input` = chunk ids distinct, old
     shard active;
   - `FinalSt arg s`: no progress file, no split state, two active new shards
     covering [lo, split) / [split, hi) and [min, split] / [split, max], the old
     shard pending deletion with its ranges unchanged;
   - `conserve arg chunks s`: the rows served by the lower (upper) new shard are
     a permutation of the old rows below (at or above) the split point;
   - `first_blocked pl`: the plan stops request 0 of the initial run before it
     takes effect — then nothing ever happened (C14_never_began). *)
From CS Require Import Base.Prelude Model.Split Proofs.SplitData Proofs.SplitProofs.
Open Scope Z_scope.

(* For EVERY fault script — any number of interrupted runs, any faults in each,
   nested interruptions included — whose initial run got as far as its first
   request: one further fault-free resume returns Ok and leaves the system in
   the final state with the data conserved. *)
Theorem C14_resume_reaches_final_and_conserves :
  forall arg chunks pl r, wf_input arg chunks -> ~ first_blocked pl ->
  exists w b, resume (fresh (script_state arg (s0 arg chunks) (pl :: r)) []) = (w, ROk b) /\
              FinalSt arg (w_st w) /\ conserve arg chunks (w_st w).
Proof. exact final_after_any_started_script. Qed.
Print Assumptions C14_resume_reaches_final_and_conserves.

(* the same in the "resume^n" form (n = 1 suffices) *)
Theorem C14_exists_n_resumes :
  forall arg chunks pl r, wf_input arg chunks -> ~ first_blocked pl ->
  exists n, let s := resumes_state (script_state arg (s0 arg chunks) (pl :: r)) (repeat [] n) in
            FinalSt arg s /\ conserve arg chunks s.
Proof. exact exists_n_resumes_reach_final. Qed.
Print Assumptions C14_exists_n_resumes.

(* Resumable holds of every reachable state, with no side condition: a
   fault-free resume returns Ok and ends in Final /\ conserve, or finds the
   untouched initial world. *)
Theorem C14_resumable_after_any_script :
  forall arg chunks script, wf_input arg chunks ->
  Resumable arg chunks (script_state arg (s0 arg chunks) script).
Proof. exact resumable_after_any_script. Qed.
Print Assumptions C14_resumable_after_any_script.

(* the invariant behind it: it holds initially ... *)
Theorem C14_invariant_reachable :
  forall arg chunks script, wf_input arg chunks ->
  Inv arg chunks (script_state arg (s0 arg chunks) script).
Proof. exact reachable_inv. Qed.
Print Assumptions C14_invariant_reachable.

(* ... every run, failing or not, under any plan, preserves it ... *)
Theorem C14_every_run_preserves_invariant :
  forall arg chunks s pl, wf_input arg chunks -> Inv arg chunks s ->
  Inv arg chunks (w_st (fst (run_resume s pl))).
Proof. exact resume_preserves_inv. Qed.
Print Assumptions C14_every_run_preserves_invariant.

(* ... and it implies Resumable. *)
Theorem C14_invariant_implies_resumable :
  forall arg chunks s, wf_input arg chunks -> Inv arg chunks s -> Resumable arg chunks s.
Proof. exact Inv_Resumable. Qed.
Print Assumptions C14_invariant_implies_resumable.

(* if the very first request of the initial run is stopped before it takes
   effect, nothing has happened and nothing ever will by resuming *)
Theorem C14_never_began :
  forall arg chunks pl r, wf_input arg chunks -> first_blocked pl ->
  script_state arg (s0 arg chunks) (pl :: r) = s0 arg chunks.
Proof. exact never_began. Qed.
Print Assumptions C14_never_began.

(* No old-shard data is removed before the cut-over has completed. *)
Theorem C14_no_old_data_removed_before_cutover :
  forall arg chunks script, wf_input arg chunks ->
  let s := script_state arg (s0 arg chunks) script in
  intact arg chunks s \/ CutoverComplete arg s.
Proof. exact no_old_data_removed_before_cutover. Qed.
Print Assumptions C14_no_old_data_removed_before_cutover.

(* conserve, spelled out per row: served exactly as often as the old shard held
   it, by the shard on its side of the split point only *)
Theorem C14_conserve_exactly_once :
  forall arg chunks s, conserve arg chunks s ->
  forall r,
    (count_occ row_eq_dec (rows_of SA s) r + count_occ row_eq_dec (rows_of SB s) r
     = count_occ row_eq_dec (old_rows chunks) r)%nat /\
    (In r (rows_of SA s) -> row_ts r < pt arg) /\
    (In r (rows_of SB s) -> pt arg <= row_ts r).
Proof. exact conserve_exactly_once. Qed.
Print Assumptions C14_conserve_exactly_once.

(* the final state is stable under further resumes, whatever their plan *)
Theorem C14_final_stable :
  forall arg s pl, FinalSt arg s -> w_st (fst (run_resume s pl)) = s.
Proof. exact final_stable. Qed.
Print Assumptions C14_final_stable.
