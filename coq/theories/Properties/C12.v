(* C12 — Statistics-based chunk pruning never excludes a matching chunk.
   Statements only; every proof is `exact <lemma>`; assumptions printed.

   Reading.  `eval_stats p st = false` is the verdict "prune" of
   ColumnPredicate::evaluate_against_stats (transcribed in Model/StatsPrune.v
   from the code as it is after the fix: commits).  `in_stats r st`: every
   non-NULL value of row r in a column that has statistics lies within them
   (bounds that are null / boolean / array bound nothing: "mistyped statistics
   = may match"; a NaN is within no numeric bound).  `sat xc p r` is the SQL
   three-valued meaning of p on r; Int x Float compares in f64 as the engine
   does; `xc` is what the engine makes of comparisons across type classes
   (string vs number, ...), `xg` what it makes of a BETWEEN / IN whose members
   belong to different type classes — the theorems hold for every xc and xg.
   BETWEEN and IN are coerced as a group (one float member => all compared in f64).

   The full-strength statement
     C12_sound : forall xc xg p st rows, (forall r, In r rows -> in_stats r st) ->
                 eval_stats p st = false -> forall r, In r rows -> sat xc xg p r <> TT
   is FALSE of the code: see C12_refuted_int_stats_float_row and
   C12_refuted_float_literal_in_between.  The strongest true statement is
   C12_modulo_known; C12_sound_well_typed is the full statement on well-typed
   inputs (no implicit coercion), where the class cannot occur. *)
From CS Require Import Base.Prelude Base.F64Order Model.StatsPrune Proofs.StatsPruneProofs.
Open Scope Z_scope.

(* Every predicate tree (all six comparisons, IN / NOT IN, BETWEEN, AND / OR /
   NOT), all statistics (missing, mistyped, integer, u64 above i64::MAX, float,
   string), all rows within them: a pruned chunk holds no satisfying row —
   outside the one known class. *)
Theorem C12_modulo_known :
  forall (xc : cop -> value -> value -> tv) (xg : list value -> tv)
         (p : pred) (st : stats) (rows : list row),
  (forall r, In r rows -> in_stats r st) ->
  eval_stats p st = false ->
  forall r, In r rows -> known_mixed p st r = false -> sat xc xg p r <> TT.
Proof. exact sound_modulo_known_rows. Qed.
Print Assumptions C12_modulo_known.

(* Known class (open finding), first trigger: integer statistics, integer
   literal, float row value: statistics [2^53+4, 2^53+4], `v <= 2^53+3`, row
   value 2^53+4 as f64.  The code compares literal and statistic in i64 and
   prunes; the engine compares row and literal in f64, where 2^53+3 rounds to
   2^53+4. *)
Theorem C12_refuted_int_stats_float_row :
  exists p st r,
    in_stats r st /\ eval_stats p st = false /\ sat xc_unknown xg_unknown p r = TT /\
    known_mixed p st r = true.
Proof. exact refuted_mixed. Qed.
Print Assumptions C12_refuted_int_stats_float_row.

(* Second trigger: integer column and statistics, but a float literal in the
   same BETWEEN makes the engine compare all three operands in f64:
   `v BETWEEN 0.5 AND 2^53`, statistics [2^53+1, 2^53+1], row 2^53+1. *)
Theorem C12_refuted_float_literal_in_between :
  in_stats w_between_row w_between_stats /\
  eval_stats w_between_pred w_between_stats = false /\
  sat xc_unknown xg_unknown w_between_pred w_between_row = TT /\
  known_mixed w_between_pred w_between_stats w_between_row = true.
Proof. exact refuted_mixed_between. Qed.
Print Assumptions C12_refuted_float_literal_in_between.

(* Full statement for well-typed queries and rows: every column has one type
   (integer, float, string, boolean); row values and the literals compared
   with the column are NULL or of that type.  Statistics are arbitrary. *)
Theorem C12_sound_well_typed :
  forall (xc : cop -> value -> value -> tv) (xg : list value -> tv) (ty : typing)
         (p : pred) (st : stats) (rows : list row),
  pred_typed ty p = true ->
  (forall r, In r rows -> in_stats r st /\ row_typed ty r) ->
  eval_stats p st = false ->
  forall r, In r rows -> sat xc xg p r <> TT.
Proof. exact sound_well_typed. Qed.
Print Assumptions C12_sound_well_typed.

(* get_chunks_with_predicates drops a chunk only if one of the extracted
   predicates is unsatisfiable on every row within the chunk's statistics. *)
Theorem C12_gate_sound :
  forall (xc : cop -> value -> value -> tv) (xg : list value -> tv)
         (preds : list pred) (st : stats) (rows : list row),
  (forall r, In r rows -> in_stats r st) ->
  gate preds st = false ->
  forall r, In r rows ->
    (forall p, In p preds -> known_mixed p st r = false) ->
    exists p, In p preds /\ sat xc xg p r <> TT.
Proof. exact gate_sound. Qed.
Print Assumptions C12_gate_sound.

(* convert_expr_to_predicate: whatever it converts means the same as the
   SQL expression (comparisons, [NOT] IN, BETWEEN, AND / OR / NOT). *)
Theorem C12_convert_exact :
  forall (xc : cop -> value -> value -> tv) (xg : list value -> tv) (e : expr) (p : pred),
  convert e = Some p -> forall r, esat xc xg e r = sat xc xg p r.
Proof. exact convert_exact. Qed.
Print Assumptions C12_convert_exact.

(* expression -> predicate -> verdict *)
Theorem C12_convert_then_prune_sound :
  forall (xc : cop -> value -> value -> tv) (xg : list value -> tv)
         (e : expr) (p : pred) (st : stats) (rows : list row),
  convert e = Some p ->
  (forall r, In r rows -> in_stats r st) ->
  eval_stats p st = false ->
  forall r, In r rows -> known_mixed p st r = false -> esat xc xg e r <> TT.
Proof. exact convert_then_prune_sound. Qed.
Print Assumptions C12_convert_then_prune_sound.

(* Regression witnesses of the two repaired defects: the code before the fix
   (shared Lt|LtEq and Gt|GtEq arms) pruned statistics [5,9] for `v <= 5` and
   `v >= 9`; the repaired arms keep the chunk. *)
Theorem C12_fixed_end_points :
  in_stats [(w_col, VInt 5)] w_59_stats /\
  eval_stats_shared_arms w_le_pred w_59_stats = false /\
  sat xc_unknown xg_unknown w_le_pred [(w_col, VInt 5)] = TT /\
  in_stats [(w_col, VInt 9)] w_59_stats /\
  eval_stats_shared_arms w_ge_pred w_59_stats = false /\
  sat xc_unknown xg_unknown w_ge_pred [(w_col, VInt 9)] = TT /\
  eval_stats w_le_pred w_59_stats = true /\
  eval_stats w_ge_pred w_59_stats = true.
Proof. exact refuted_shared_arms. Qed.
Print Assumptions C12_fixed_end_points.

(* `v NOT BETWEEN 10 AND 20` used to be converted to BETWEEN and pruned the
   chunk [30,40] whose every row matches; it is no longer converted. *)
Theorem C12_fixed_not_between :
  let e := EBetween (ECol w_col) true (ELit (SInt64 10)) (ELit (SInt64 20)) in
  let st := [(w_col, mkStats (JInt 30) (JInt 40) false)] in
  let r := [(w_col, VInt 35)] in
  exists p, convert_negation_dropped e = Some p /\
    in_stats r st /\ eval_stats p st = false /\ esat xc_unknown xg_unknown e r = TT /\
    convert e = None.
Proof. exact refuted_negation_dropped. Qed.
Print Assumptions C12_fixed_not_between.
