(* C02 — Catalog mutations are atomic and never lost under concurrency.
   Statements only; every proof is `exact <lemma>`; assumptions printed.

   s := cat_run sched (cat_init None progs) is the state reached by ANY
   schedule `sched` (one step = one object-store request of one client, or a
   clock tick) of ANY number of metadata clients running ANY programs of
   register / delete / complete-compaction calls against a catalog.json that
   does not exist initially (so the first writes race to create it; a load of
   the absent catalog takes three GETs).  s_log s = every version of
   catalog.json ever written, in the order of the successful conditional PUTs;
   c_done (s_cl s c) = the finished mutations of client c with their results
   (FCommit 0 = Ok, FAbort 1 = Err(target not found), FRetries =
   Err(TooManyRetries)).  Registered intervals have min <= max (op_ok). *)
From CS Require Import Base.Prelude Base.CasProto Proofs.CasProtoProofs
     Model.Catalog Proofs.CatalogProofs Model.CatalogCas Proofs.CatalogCasProofs.
Open Scope Z_scope.

(* The generic theorem, once, for an arbitrary decide (any value / operation /
   output types, any number of extra GETs of a first load, any retry bound,
   object initially absent or holding v0): the versions written form a chain
   in which each commit was decided against its predecessor; a reader sees the
   last one; per client the commits are exactly its FCommit results in program
   order (so a mutation that reported failure wrote nothing, one that reported
   success is there exactly once); programs are conserved; every FAbort is
   decide's answer to a version that existed. *)
Theorem C02_cas_linearizable :
  forall (V Op Out : Type) (decide : Z -> Op -> option V -> decision V Out)
         (extra_gets max_retries : nat) (v0 : option V) (now0 : Z)
         (progs : nat -> list Op) (sched : list label),
  let s := run decide extra_gets max_retries sched (init_sys v0 now0 progs) in
  chain decide v0 (s_log s) /\
  cur_val s = last_val v0 (s_log s) /\
  (forall c, map op_out (by_client c (s_log s)) = successes (c_done (s_cl s c))) /\
  (forall c, map fst (c_done (s_cl s c)) ++ inflight (c_pc (s_cl s c)) ++ c_todo (s_cl s c) = progs c) /\
  (forall c op o, In (op, FAbort o) (c_done (s_cl s c)) ->
     exists now prev, hist v0 (s_log s) prev /\ decide now op prev = Abort o).
Proof. exact (@cas_linearizable). Qed.
Print Assumptions C02_cas_linearizable.

(* Every mutation that reports success is reflected (exactly once, in the
   client's program order); one that reports failure has no commit. *)
Theorem C02_successes_reflected :
  forall (progs : nat -> list cop) (sched : list label) (c : nat),
  let s := cat_run sched (cat_init None progs) in
  map op_out (by_client c (s_log s)) = successes (c_done (s_cl s c)) /\
  length (by_client c (s_log s)) = length (successes (c_done (s_cl s c))).
Proof. exact successes_reflected. Qed.
Print Assumptions C02_successes_reflected.

(* The outcome equals a one-at-a-time ordering of the successful mutations:
   the stored catalog is the sequential run of the committed operations (in
   commit order) from the empty catalog, and its chunk map is the plain map
   obtained by applying them one after the other. *)
Theorem C02_sequential_equivalence :
  forall (progs : nat -> list cop) (sched : list label),
  (forall c o, In o (progs c) -> op_ok o) ->
  let s := cat_run sched (cat_init None progs) in
  cat_of (cur_val s) = s3_run (map (fun k => k_op k) (s_log s)) /\
  forall p, s3_look (cat_of (cur_val s)) p = aget N.eqb p (spec_run (map (fun k => k_op k) (s_log s))).
Proof. exact sequential_equivalence. Qed.
Print Assumptions C02_sequential_equivalence.

(* No reader ever observes a catalog version in which chunk list and time
   index disagree: in every version ever written (and in whatever is stored at
   any moment) every chunk is listed in every hour bucket of its interval and
   every path in the time index is a chunk of the chunk map. *)
Theorem C02_catalog_wf_all_versions :
  forall (progs : nat -> list cop) (sched : list label),
  (forall c o, In o (progs c) -> op_ok o) ->
  let s := cat_run sched (cat_init None progs) in
  Forall (fun k => cat_wf (k_val k) /\ cat_closed (k_val k)) (s_log s) /\
  match cur_val s with Some c => cat_wf c /\ cat_closed c | None => True end.
Proof. exact catalog_wf_all_versions. Qed.
Print Assumptions C02_catalog_wf_all_versions.

(* The only failure besides TooManyRetries is the missing compaction target,
   judged against a version that really existed. *)
Theorem C02_failures_justified :
  forall (progs : nat -> list cop) (sched : list label) (c : nat) (op : cop) (o : N),
  let s := cat_run sched (cat_init None progs) in
  In (op, FAbort o) (c_done (s_cl s c)) ->
  o = 1%N /\ exists srcs tgt prev, op = OComplete srcs tgt /\ hist None (s_log s) prev /\
                                   s3_complete (cat_of prev) srcs tgt = None.
Proof. exact failures_justified. Qed.
Print Assumptions C02_failures_justified.
