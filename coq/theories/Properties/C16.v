(* C16 — The tiered cache is transparent.
   Statements only; every proof is `exact <lemma>`; assumptions printed.

   Model: Model/Cache.v (backing store = write-once association list that only
   grows; L1 / optional L2 = partial maps; an eviction oracle that may drop any
   entry of any tier between any two steps and may let any single lookup come
   back empty (EStepMiss); TieredCache::get_or_fetch and the
   CachedObjectStore entry points as step sequences; any number of readers
   interleaved with each other, with evictions and with new-object writes). *)
From CS Require Import Base.Prelude Model.Cache Proofs.CacheProofs.
Open Scope N_scope.

(* Invariant: in every reachable state — after ANY schedule of reader steps,
   evictions, arrivals and new-object writes — whatever L1 or L2 holds under a
   key is what the backing store holds under that key. *)
Theorem C16_cached_subset_store :
  forall (sched : list event) (st0 : store) (l2_on : bool),
  let s := run sched (init st0 l2_on) in
  (forall k b, aget N.eqb k (s_l1 s) = Some b ->
     exists o, aget N.eqb k (s_store s) = Some o /\ o_data o = b) /\
  (forall m k b, s_l2 s = Some m -> aget N.eqb k m = Some b ->
     exists o, aget N.eqb k (s_store s) = Some o /\ o_data o = b).
Proof. exact cached_subset_store. Qed.
Print Assumptions C16_cached_subset_store.

(* Transparency, all interleavings: a reader arriving after any schedule `pre`
   with any request q (whole / get_opts with any options / ranged / head),
   followed by ANY continuation `post` (steps of this and of other readers in
   any order, lookups that come back empty, evictions of anything at any time,
   further readers, new-object writes): if it has completed, its result is exactly what the backing store
   itself answers to q (`store_read`; error kinds re-wrapped by `view` on the
   cached path) on a store snapshot `mid` lying between its arrival and now. *)
Theorem C16_transparent :
  forall (pre : list event) (q : req) (post : list event) (st0 : store) (l2_on : bool),
  let s1 := run pre (init st0 l2_on) in
  let s := run post (apply_event s1 (EStart q)) in
  forall r, result_of s (length (s_threads s1)) = Some r ->
  exists mid, prefix (s_store s1) mid /\ prefix mid (s_store s) /\
              r = view q (store_read mid q).
Proof. exact transparent. Qed.
Print Assumptions C16_transparent.

(* ... and when the object existed at arrival, that answer is the answer of
   the store as it is now and as it was at arrival (write-once makes it stable). *)
Theorem C16_transparent_existing :
  forall (pre : list event) (q : req) (post : list event) (st0 : store) (l2_on : bool),
  let s1 := run pre (init st0 l2_on) in
  let s := run post (apply_event s1 (EStart q)) in
  forall r o, result_of s (length (s_threads s1)) = Some r ->
  aget N.eqb (rkey q) (s_store s1) = Some o ->
  r = view q (store_read (s_store s) q) /\ r = view q (store_read (s_store s1) q).
Proof. exact transparent_existing. Qed.
Print Assumptions C16_transparent_existing.

(* A read of an object the backing store does not have fails (NotFound): it is
   never answered from cached content of another object. *)
Theorem C16_absent_fails :
  forall (pre : list event) (q : req) (post : list event) (st0 : store) (l2_on : bool),
  let s1 := run pre (init st0 l2_on) in
  let s := run post (apply_event s1 (EStart q)) in
  forall r, result_of s (length (s_threads s1)) = Some r ->
  aget N.eqb (rkey q) (s_store s) = None ->
  r = view q (Failed E_NOTFOUND).
Proof. exact absent_fails. Qed.
Print Assumptions C16_absent_fails.

(* A successful whole-object read returns exactly the stored bytes of its key. *)
Theorem C16_whole_exact :
  forall (pre : list event) (k : key) (post : list event) (st0 : store) (l2_on : bool),
  let s1 := run pre (init st0 l2_on) in
  let s := run post (apply_event s1 (EStart (QGet k))) in
  forall x, result_of s (length (s_threads s1)) = Some (Done x) ->
  exists o, aget N.eqb k (s_store s) = Some o /\ x = whole_resp (o_data o).
Proof. exact whole_exact. Qed.
Print Assumptions C16_whole_exact.

(* A successful ranged read returns exactly the requested slice. *)
Theorem C16_range_exact :
  forall (pre : list event) (k : key) (a b : N) (post : list event) (st0 : store) (l2_on : bool),
  let s1 := run pre (init st0 l2_on) in
  let s := run post (apply_event s1 (EStart (QGetRange k a b))) in
  forall x, result_of s (length (s_threads s1)) = Some (Done x) ->
  exists o lo hi, aget N.eqb k (s_store s) = Some o /\
    as_range (RBounded a b) (lenN (o_data o)) = Some (lo, hi) /\
    x = mkResp (slice lo hi (o_data o)) lo hi (lenN (o_data o)).
Proof. exact range_exact. Qed.
Print Assumptions C16_range_exact.

Theorem C16_slice_is_firstn_skipn :
  forall (lo hi : N) (l : bytes),
  slice lo hi l = firstn (N.to_nat (hi - lo)) (skipn (N.to_nat lo) l).
Proof. exact slice_spec. Qed.
Print Assumptions C16_slice_is_firstn_skipn.

(* "completed" is not vacuous: in any schedule that gives the reader
   max_steps (= 5) of its own steps, it has completed. *)
Theorem C16_reads_complete :
  forall (pre : list event) (q : req) (post : list event) (st0 : store) (l2_on : bool),
  let s1 := run pre (init st0 l2_on) in
  let s := run post (apply_event s1 (EStart q)) in
  (max_steps <= steps_of (length (s_threads s1)) post)%nat ->
  exists r, result_of s (length (s_threads s1)) = Some r.
Proof. exact reads_complete. Qed.
Print Assumptions C16_reads_complete.

(* Sequential histories (core): every read of every history of new-object
   writes and whole / ranged / conditional / head reads completes and returns
   exactly the backing store's answer at that point, for every choice of
   evictions before every step and of lookups that come back empty; the store ends up as the writes alone make it. *)
Theorem C16_transparent_sequential :
  forall (h : list sop) (st0 : store) (l2_on : bool),
  snd (seq_run h (init st0 l2_on) []) = spec_results h st0 /\
  s_store (fst (seq_run h (init st0 l2_on) [])) = spec_store h st0.
Proof. exact transparent_sequential. Qed.
Print Assumptions C16_transparent_sequential.

(* Write-once: a new-object write never changes what an existing key holds. *)
Theorem C16_write_once :
  forall (st : store) (k : key) (o : obj) (k' : key) (o' : obj),
  aget N.eqb k' st = Some o' -> aget N.eqb k' (fst (store_put st k o)) = Some o'.
Proof. exact store_put_write_once. Qed.
Print Assumptions C16_write_once.

(* Two different objects never share a cache key. *)
Theorem C16_cache_key_injective :
  forall k1 k2 : key, cache_key k1 = cache_key k2 -> k1 = k2.
Proof. exact cache_key_inj. Qed.
Print Assumptions C16_cache_key_injective.
