(* C20 — Compaction converges and levels only move up.
   Statements only; every proof is `exact <lemma>`; assumptions printed.

   Model: Model/Compaction.v (candidate selection of both metadata backends,
   fault-free single-compactor cycle) on top of Model/Catalog.v.  [ord]
   parameters = hash-map iteration orders; [in_oracle] = size / rows / time
   bounds of a merged chunk as a function of its sources.  A state is a
   catalog plus the counter that names merged chunks; [s3_Inv] / [local_Inv]
   (duplicate-free keys, all keys below the counter) hold for every catalog
   reached by any history of register / delete / complete_compaction and are
   preserved by every cycle. *)
From CS Require Import Base.Prelude Model.Catalog Model.Compaction Proofs.CompactionProofs.
Open Scope N_scope.

(* ---- initial states: every catalog history; preserved by cycles ---- *)
Theorem C20_initial_states_object_store :
  forall (h : list cop), s3_Inv (s3_init (s3_run h)).
Proof. exact s3_reachable_inv. Qed.
Print Assumptions C20_initial_states_object_store.

Theorem C20_initial_states_in_memory :
  forall (h : list cop), local_Inv (local_init (local_run h)).
Proof. exact local_reachable_inv. Qed.
Print Assumptions C20_initial_states_in_memory.

Theorem C20_invariant_preserved_object_store :
  forall (h : list cinput) (st : cstate cat), s3_Inv st -> s3_Inv (run_cycles s3_backend h st).
Proof. exact s3_run_cycles_inv. Qed.
Print Assumptions C20_invariant_preserved_object_store.

Theorem C20_invariant_preserved_in_memory :
  forall (h : list cinput) (st : cstate lcat), local_Inv st -> local_Inv (run_cycles local_backend h st).
Proof. exact local_run_cycles_inv. Qed.
Print Assumptions C20_invariant_preserved_in_memory.

(* ---- groups_disjoint + groups_single_level: in every candidate call of
   every cycle (any configuration, any hash order) no chunk occurs twice
   (neither in two groups nor twice in one), and every member is a chunk the
   call has seen at exactly the level being compacted; what the call has seen
   are chunks of the state the cycle started from or chunks merged since. ---- *)
Theorem C20_groups_disjoint_single_level_object_store :
  forall (i : cinput) (st : cstate cat) (lvl : N) (seen : list crow) (gs : list (list path)),
  s3_Inv st -> In (ESel lvl seen gs) (cycle_events s3_backend i st) ->
  NoDup (concat gs) /\
  (forall g p, In g gs -> In p g -> exists r, In r seen /\ r_path r = p /\ r_level r = u32_of lvl) /\
  NoDup (map r_path seen) /\
  (forall r, In r seen -> In r (s3_rows (st_cat st)) \/ st_fresh st <= r_path r).
Proof. exact s3_groups_ok. Qed.
Print Assumptions C20_groups_disjoint_single_level_object_store.

Theorem C20_groups_disjoint_single_level_in_memory :
  forall (i : cinput) (st : cstate lcat) (lvl : N) (seen : list crow) (gs : list (list path)),
  local_Inv st -> In (ESel lvl seen gs) (cycle_events local_backend i st) ->
  NoDup (concat gs) /\
  (forall g p, In g gs -> In p g -> exists r, In r seen /\ r_path r = p /\ r_level r = u32_of lvl) /\
  NoDup (map r_path seen) /\
  (forall r, In r seen -> In r (local_rows (st_cat st)) \/ st_fresh st <= r_path r).
Proof. exact local_groups_ok. Qed.
Print Assumptions C20_groups_disjoint_single_level_in_memory.

(* the selection functions on their own, for every catalog content *)
Theorem C20_selection_functions :
  (forall thr rows, NoDup (map r_path rows) -> sel_ok 0 rows (s3_l0 thr rows)) /\
  (forall thr rows, NoDup (map r_path rows) -> sel_ok 0 rows (local_l0 thr rows)) /\
  (forall lvl tgt rows gs, NoDup (map r_path rows) -> s3_level lvl tgt rows = Some gs -> sel_ok lvl rows gs) /\
  (forall lvl tgt rows gs, NoDup (map r_path rows) -> local_level lvl tgt rows = Some gs -> sel_ok lvl rows gs) /\
  (forall ord rows, NoDup (map r_path rows) ->
     NoDup (map r_path (reorder ord rows)) /\ forall r, In r (reorder ord rows) <-> In r rows).
Proof. exact selection_groups_ok. Qed.
Print Assumptions C20_selection_functions.

(* ---- every merge of a cycle takes a non-empty group returned by a
   candidate call of that level, all of whose members are at the level being
   compacted, and publishes the target one level higher
   (= 1 + max source level). ---- *)
Theorem C20_merge_level_rule_object_store :
  forall (i : cinput) (st : cstate cat) (lvl : N) (g : list path) (t : path) (m : cmeta) (nl : option N),
  s3_Inv st -> In (EMerge lvl g t m nl) (cycle_events s3_backend i st) ->
  g <> [] /\ nl = Some (u32_of lvl + 1) /\
  exists seen gs, In (ESel lvl seen gs) (cycle_events s3_backend i st) /\ In g gs /\
    forall p, In p g -> exists r, In r seen /\ r_path r = p /\ r_level r = u32_of lvl.
Proof. exact s3_merge_rule. Qed.
Print Assumptions C20_merge_level_rule_object_store.

Theorem C20_merge_level_rule_in_memory :
  forall (i : cinput) (st : cstate lcat) (lvl : N) (g : list path) (t : path) (m : cmeta) (nl : option N),
  local_Inv st -> In (EMerge lvl g t m nl) (cycle_events local_backend i st) ->
  g <> [] /\ nl = Some (u32_of lvl + 1) /\
  exists seen gs, In (ESel lvl seen gs) (cycle_events local_backend i st) /\ In g gs /\
    forall p, In p g -> exists r, In r seen /\ r_path r = p /\ r_level r = u32_of lvl.
Proof. exact local_merge_rule. Qed.
Print Assumptions C20_merge_level_rule_in_memory.

(* ---- level_monotone: over every history of cycles (configurations, hash
   orders, oracles varying freely) a path that is live at two moments has the
   same level at both (so it never decreases; data only moves up through
   merges, previous theorem), and a path that disappeared never comes back. ---- *)
Theorem C20_level_monotone_object_store :
  forall (h1 h2 : list cinput) (st : cstate cat) (p : path) (a b : N),
  s3_Inv st ->
  level_in s3_backend (st_cat (run_cycles s3_backend h1 st)) p = Some a ->
  level_in s3_backend (st_cat (run_cycles s3_backend (h1 ++ h2) st)) p = Some b ->
  a = b.
Proof. exact s3_level_monotone. Qed.
Print Assumptions C20_level_monotone_object_store.

Theorem C20_level_monotone_in_memory :
  forall (h1 h2 : list cinput) (st : cstate lcat) (p : path) (a b : N),
  local_Inv st ->
  level_in local_backend (st_cat (run_cycles local_backend h1 st)) p = Some a ->
  level_in local_backend (st_cat (run_cycles local_backend (h1 ++ h2) st)) p = Some b ->
  a = b.
Proof. exact local_level_monotone. Qed.
Print Assumptions C20_level_monotone_in_memory.

Theorem C20_no_resurrection_object_store :
  forall (h1 h2 h3 : list cinput) (st : cstate cat) (p : path) (a : N),
  s3_Inv st ->
  level_in s3_backend (st_cat (run_cycles s3_backend h1 st)) p = Some a ->
  level_in s3_backend (st_cat (run_cycles s3_backend (h1 ++ h2) st)) p = None ->
  level_in s3_backend (st_cat (run_cycles s3_backend (h1 ++ h2 ++ h3) st)) p = None.
Proof. exact s3_no_resurrection. Qed.
Print Assumptions C20_no_resurrection_object_store.

Theorem C20_no_resurrection_in_memory :
  forall (h1 h2 h3 : list cinput) (st : cstate lcat) (p : path) (a : N),
  local_Inv st ->
  level_in local_backend (st_cat (run_cycles local_backend h1 st)) p = Some a ->
  level_in local_backend (st_cat (run_cycles local_backend (h1 ++ h2) st)) p = None ->
  level_in local_backend (st_cat (run_cycles local_backend (h1 ++ h2 ++ h3) st)) p = None.
Proof. exact local_no_resurrection. Qed.
Print Assumptions C20_no_resurrection_in_memory.

(* ---- converges: measure = 2 * #chunks + #level-0 chunks.  For all initial
   chunk sets, thresholds (0 and 1 included), target sizes and level limits:
   a cycle without a merge changes nothing; every merge strictly decreases
   the measure; so any history of cycles performs at most measure <= 3 *
   #chunks merges, one of the first measure + 1 cycles changes nothing, and
   with a fixed input the state is a fixpoint from that cycle on. ---- *)
Theorem C20_converges_object_store :
  (forall i st, s3_Inv st -> merges_of (cycle_events s3_backend i st) = O -> cycle_state s3_backend i st = st) /\
  (forall i st, s3_Inv st -> merges_of (cycle_events s3_backend i st) <> O ->
                (measure s3_backend (cycle_state s3_backend i st) < measure s3_backend st)%nat) /\
  (forall h st, s3_Inv st ->
     (total_merges s3_backend h st + measure s3_backend (run_cycles s3_backend h st) <= measure s3_backend st)%nat) /\
  (forall st, (measure s3_backend st <= 3 * length (s3_rows (st_cat st)))%nat) /\
  (forall h st, s3_Inv st -> (measure s3_backend st < length h)%nat ->
     exists n, (n <= measure s3_backend st)%nat /\ (n < length h)%nat /\
               run_cycles s3_backend (firstn (S n) h) st = run_cycles s3_backend (firstn n h) st) /\
  (forall i st, s3_Inv st -> exists n, (n <= measure s3_backend st)%nat /\
     forall k, run_cycles s3_backend (repeat i (n + k)) st = run_cycles s3_backend (repeat i n) st).
Proof. exact s3_converges. Qed.
Print Assumptions C20_converges_object_store.

Theorem C20_converges_in_memory :
  (forall i st, local_Inv st -> merges_of (cycle_events local_backend i st) = O -> cycle_state local_backend i st = st) /\
  (forall i st, local_Inv st -> merges_of (cycle_events local_backend i st) <> O ->
                (measure local_backend (cycle_state local_backend i st) < measure local_backend st)%nat) /\
  (forall h st, local_Inv st ->
     (total_merges local_backend h st + measure local_backend (run_cycles local_backend h st) <= measure local_backend st)%nat) /\
  (forall st, (measure local_backend st <= 3 * length (local_rows (st_cat st)))%nat) /\
  (forall h st, local_Inv st -> (measure local_backend st < length h)%nat ->
     exists n, (n <= measure local_backend st)%nat /\ (n < length h)%nat /\
               run_cycles local_backend (firstn (S n) h) st = run_cycles local_backend (firstn n h) st) /\
  (forall i st, local_Inv st -> exists n, (n <= measure local_backend st)%nat /\
     forall k, run_cycles local_backend (repeat i (n + k)) st = run_cycles local_backend (repeat i n) st).
Proof. exact local_converges. Qed.
Print Assumptions C20_converges_in_memory.

(* the fault-free single-compactor cycle never takes the error exit of
   `complete_compaction(..).await?` (the registered target is always found) *)
Theorem C20_cycle_no_error_object_store :
  forall (i : cinput) (st : cstate cat), s3_Inv st -> snd (fst (cycle s3_backend i st)) <> CSErr.
Proof. exact s3_cycle_no_error. Qed.
Print Assumptions C20_cycle_no_error_object_store.

Theorem C20_cycle_no_error_in_memory :
  forall (i : cinput) (st : cstate lcat), local_Inv st -> snd (fst (cycle local_backend i st)) <> CSErr.
Proof. exact local_cycle_no_error. Qed.
Print Assumptions C20_cycle_no_error_in_memory.
