(* C10 — Concurrent queries do not affect each other's results.
   Statements only; every proof is `exact <lemma>`; assumptions printed. *)
From CS Require Import Base.Prelude Model.QueryBind Proofs.QueryBindProofs.

(* For any number of queries with arbitrary selected chunk sets and EVERY
   interleaving of their atomic steps (lock, register, plan, unlock, execute;
   a query waiting for the lock does not move): the table provider a query's
   plan captures is the one built from its own chunk set -- never the set
   selected for another query. *)
Theorem C10_captured_own :
  forall (sets : list (qid * chunkset)) (ids sched : list qid) (i : qid) (c : chunkset),
    captured (run proto_fixed sets sched (init ids)) i = Some c -> c = sel sets i.
Proof. exact captured_own. Qed.
Print Assumptions C10_captured_own.

(* ... and its execution scans exactly that set. *)
Theorem C10_result_own :
  forall (sets : list (qid * chunkset)) (ids sched : list qid) (i : qid) (c : chunkset),
    result (run proto_fixed sets sched (init ids)) i = Some c -> c = sel sets i.
Proof. exact result_own. Qed.
Print Assumptions C10_result_own.

(* Result under concurrency = result alone: two runs with different company and
   different schedules (e.g. the query alone) in which the query completes
   scan the same chunk set. *)
Theorem C10_schedule_independent :
  forall (sets : list (qid * chunkset)) (ids ids' sched sched' : list qid) (i : qid) (c c' : chunkset),
    result (run proto_fixed sets sched (init ids)) i = Some c ->
    result (run proto_fixed sets sched' (init ids')) i = Some c' ->
    c = c'.
Proof. exact schedule_independent. Qed.
Print Assumptions C10_schedule_independent.

(* The same on a node whose table is already bound to any chunk set [t] by
   earlier queries. *)
Theorem C10_result_own_on_used_node :
  forall (sets : list (qid * chunkset)) (t : chunkset) (ids sched : list qid) (i : qid) (c : chunkset),
    result (run proto_fixed sets sched (init_bound t ids)) i = Some c -> c = sel sets i.
Proof. exact result_own_bound. Qed.
Print Assumptions C10_result_own_on_used_node.

(* Histories with failures: any set of queries whose binding fails (a read error
   while the schema of their chunk files is inferred: the shared binding and its
   bookkeeping stay as they were) and query futures dropped at any point, in any
   interleaving with the steps of the other queries, from any previously bound
   table -- every query that completes scanned its own chunk set.  In
   particular a retry after a failed binding is not evaluated against the
   previous query's chunks. *)
Theorem C10_result_own_with_failed_and_dropped_queries :
  forall (faults : list qid) (sets : list (qid * chunkset)) (t : chunkset) (ids : list qid) (evs : list ev) (i : qid) (c : chunkset),
    result (run_ev faults proto_fixed sets evs (init_bound t ids)) i = Some c -> c = sel sets i.
Proof. exact result_own_faulty. Qed.
Print Assumptions C10_result_own_with_failed_and_dropped_queries.

(* ... and the bookkeeping of bound paths always equals the bound table. *)
Theorem C10_bookkeeping_matches_binding :
  forall (faults : list qid) (sets : list (qid * chunkset)) (t : chunkset) (ids : list qid) (evs : list ev),
    tbl (run_ev faults proto_fixed sets evs (init_bound t ids)) = paths (run_ev faults proto_fixed sets evs (init_bound t ids)).
Proof. exact paths_match_table. Qed.
Print Assumptions C10_bookkeeping_matches_binding.

(* The same for the start / resume / cancel commands through which the harness drives
   the real query node (they are compositions of the same steps). *)
Theorem C10_commands_result_own :
  forall (sets : list (qid * chunkset)) (ids : list qid) (cs : list cmd) (i : qid) (c : chunkset),
    result (run_cmds [] proto_fixed sets cs [] (init ids)) i = Some c -> c = sel sets i.
Proof. exact cmds_result_own. Qed.
Print Assumptions C10_commands_result_own.

Theorem C10_commands_result_own_on_used_node :
  forall (faults : list qid) (sets : list (qid * chunkset)) (t : chunkset) (ids : list qid) (cs : list cmd) (i : qid) (c : chunkset),
    result (run_cmds faults proto_fixed sets cs [] (init_bound t ids)) i = Some c -> c = sel sets i.
Proof. exact cmds_result_own_bound. Qed.
Print Assumptions C10_commands_result_own_on_used_node.

(* The code before the repair released the lock before planning:
   Reg A . Reg B . Plan A evaluates A against B's chunk set. *)
Theorem C10_refuted_before_fix :
  result (run proto_unlocked_plan w_sets w_sched (init [1%N; 2%N])) 1%N = Some [2%N; 3%N] /\
  sel w_sets 1%N = [1%N; 2%N].
Proof. exact refuted_unlocked_plan. Qed.
Print Assumptions C10_refuted_before_fix.
