(* C07 — Time-range chunk lookup is exact, on both metadata backends.
   Statements only; every proof is `exact <lemma>`; assumptions printed. *)
From CS Require Import Base.Prelude Model.Catalog Proofs.CatalogProofs Proofs.CatalogTie.
From CSGen Require Import Consts Funs.
Open Scope Z_scope.

(* For every history of register / delete / complete-compaction operations
   whose registered intervals have min <= max, and EVERY query range (s, e)
   (inverted ranges included), the object-store backend returns exactly the
   live chunks whose closed interval meets the closed range, each once. *)
Theorem C07_exact_object_store :
  forall (h : list cop) (s e : Z), hist_ok h ->
  match s3_get (s3_run h) s e with
  | Done l => NoDup (map fst l) /\
              forall p m, In (p, m) l <-> In (p, m) (spec_get (spec_run h) s e)
  | _ => False
  end.
Proof. exact s3_get_exact. Qed.
Print Assumptions C07_exact_object_store.

(* The same for the in-memory backend. *)
Theorem C07_exact_in_memory :
  forall (h : list cop) (s e : Z), hist_ok h ->
  match local_get (local_run h) s e with
  | Done l => NoDup (map fst l) /\
              forall p m, In (p, m) l <-> In (p, m) (spec_get (spec_run h) s e)
  | _ => False
  end.
Proof. exact local_get_exact. Qed.
Print Assumptions C07_exact_in_memory.

(* Both backends give the same answer for the same history. *)
Theorem C07_backends_agree :
  forall (h : list cop) (s e : Z), hist_ok h ->
  match s3_get (s3_run h) s e, local_get (local_run h) s e with
  | Done a, Done b => forall p m, In (p, m) a <-> In (p, m) b
  | _, _ => False
  end.
Proof. exact backends_agree. Qed.
Print Assumptions C07_backends_agree.

(* get_chunk / list_chunks see exactly the live map. *)
Theorem C07_live_map_object_store :
  forall (h : list cop) (p : path), hist_ok h ->
  option_map e_meta (aget N.eqb p (c_chunks (s3_run h))) = aget N.eqb p (spec_run h).
Proof. exact s3_list_exact. Qed.
Print Assumptions C07_live_map_object_store.

Theorem C07_live_map_in_memory :
  forall (h : list cop) (p : path), hist_ok h ->
  aget N.eqb p (l_chunks (local_run h)) = aget N.eqb p (spec_run h).
Proof. exact local_list_exact. Qed.
Print Assumptions C07_live_map_in_memory.

(* The bucket widths used at the different call sites of the code (taken from
   the Rust sources on every run) agree and are positive. *)
Theorem C07_bucket_widths_agree : widths_agree.
Proof. exact widths_agree_holds. Qed.
Print Assumptions C07_bucket_widths_agree.

(* The interval test and the bucket computations of the model are, expression
   for expression, the ones translated from the Rust sources on this run
   (generated/Funs.v): TimeRange::overlaps, both hour_bucket functions and the
   inline bucket computation of get_chunks_with_predicates. *)
Theorem C07_model_functions_are_the_code :
  (forall cmin cmax s e, overlaps cmin cmax s e = Funs.timerange_overlaps cmin cmax s e) /\
  (forall t, bucketw Consts.S3_REGISTER_BUCKET_NANOS t = Funs.s3_hour_bucket t) /\
  (forall s e, bucketw Consts.S3_GET_BUCKET_NANOS s = Funs.s3_get_start_bucket s e /\
               bucketw Consts.S3_GET_BUCKET_NANOS e = Funs.s3_get_end_bucket s e) /\
  (forall t, bucketw Consts.LOCAL_BUCKET_NANOS t = Funs.local_hour_bucket t).
Proof. exact catalog_functions_are_the_code. Qed.
Print Assumptions C07_model_functions_are_the_code.
