(* C13 — Shard metadata changes are fenced by generation.
   Statements only; every proof is `exact <lemma>`; assumptions printed.

   s := shard_run sched (shard_init v0 progs) is the state reached by ANY
   schedule `sched` (one step = one object-store request of one client, or a
   clock tick) of ANY number of clients running ANY programs of
   update_shard_metadata calls (equal or different expected generations, any
   state / payload) against one shard object that initially is absent
   (v0 = None) or holds any shard v0.  s_log s = the successful conditional
   PUTs in the order they happened (every version ever written). *)
From Coq Require Import Sorting.Sorted.
From CS Require Import Base.Prelude Base.CasProto Proofs.CasProtoProofs Model.Shard Proofs.ShardProofs.

(* Every successful update carries the generation it was based on -- the
   version it replaced had exactly the expected generation (a creation
   expected 0) -- and stores expected + 1 with the caller's state / payload. *)
Theorem C13_gen_plus_one :
  forall (v0 : option shard) (progs : nat -> list sop) (sched : list label),
  let s := shard_run sched (shard_init v0 progs) in
  Forall (fun k =>
    gen_of (k_prev k) = so_expected (k_op k) /\
    (k_prev k = None -> so_expected (k_op k) = 0%N) /\
    k_val k = mkShard (so_expected (k_op k) + 1) (so_state (k_op k)) (so_data (k_op k)) /\
    k_out k = SOk) (s_log s).
Proof. exact gen_plus_one. Qed.
Print Assumptions C13_gen_plus_one.

(* The stored generation rises by exactly one with every version written:
   the versions carry generations g0+1, g0+2, ... *)
Theorem C13_stored_generation_monotone :
  forall (v0 : option shard) (progs : nat -> list sop) (sched : list label),
  let s := shard_run sched (shard_init v0 progs) in
  consecutive (gen_of v0) (map (fun k => sh_gen (k_val k)) (s_log s)).
Proof. exact stored_generation_monotone. Qed.
Print Assumptions C13_stored_generation_monotone.

(* Of several updates based on the same generation at most one succeeds. *)
Theorem C13_at_most_one_winner_per_generation :
  forall (v0 : option shard) (progs : nat -> list sop) (sched : list label),
  let s := shard_run sched (shard_init v0 progs) in
  StronglySorted N.lt (map (fun k => so_expected (k_op k)) (s_log s)) /\
  NoDup (map (fun k => so_expected (k_op k)) (s_log s)).
Proof. exact at_most_one_winner_per_generation. Qed.
Print Assumptions C13_at_most_one_winner_per_generation.

(* Creating a shard succeeds for at most one creator. *)
Theorem C13_single_creator :
  forall (v0 : option shard) (progs : nat -> list sop) (sched : list label),
  let s := shard_run sched (shard_init v0 progs) in
  match s_log s with
  | [] => True
  | k :: r => k_prev k = v0 /\ Forall (fun k' => k_prev k' <> None) r
  end.
Proof. exact single_creator. Qed.
Print Assumptions C13_single_creator.

(* The versions written are exactly the updates that returned Ok (per client,
   in program order); an update that returned an error wrote nothing. *)
Theorem C13_successes_are_the_commits :
  forall (v0 : option shard) (progs : nat -> list sop) (sched : list label) (c : nat),
  let s := shard_run sched (shard_init v0 progs) in
  map op_out (by_client c (s_log s)) = successes (c_done (s_cl s c)) /\
  length (by_client c (s_log s)) = length (successes (c_done (s_cl s c))).
Proof. exact successes_are_the_commits. Qed.
Print Assumptions C13_successes_are_the_commits.

(* The others are rejected as stale, and truthfully: the reported actual
   generation differs from the expected one and was really stored. *)
Theorem C13_rejected_as_stale :
  forall (v0 : option shard) (progs : nat -> list sop) (sched : list label) (c : nat) (op : sop) (o : sout),
  let s := shard_run sched (shard_init v0 progs) in
  In (op, FAbort o) (c_done (s_cl s c)) ->
  (exists sh, hist v0 (s_log s) (Some sh) /\ sh_gen sh <> so_expected op /\
              o = SStale (so_expected op) (sh_gen sh)) \/
  (v0 = None /\ so_expected op <> 0%N /\ o = SNotFound).
Proof. exact rejected_as_stale. Qed.
Print Assumptions C13_rejected_as_stale.

(* ... and never with TooManyRetries. *)
Theorem C13_never_too_many_retries :
  forall (v0 : option shard) (progs : nat -> list sop) (sched : list label) (c : nat) (op : sop),
  ~ In (op, FRetries) (c_done (s_cl (shard_run sched (shard_init v0 progs)) c)).
Proof. exact never_too_many_retries. Qed.
Print Assumptions C13_never_too_many_retries.

(* What is stored at any time is the result of applying the successful
   updates one at a time, in commit order, with the in-memory backend's
   (atomic) update: a writer acting on outdated state never overwrote a
   newer one. *)
Theorem C13_sequential :
  forall (v0 : option shard) (progs : nat -> list sop) (sched : list label),
  let s := shard_run sched (shard_init v0 progs) in
  cur_val s = local_shard_run v0 (map (fun k => k_op k) (s_log s)).
Proof. exact shard_sequential. Qed.
Print Assumptions C13_sequential.

(* ShardRouter::update_routing never replaces a cached entry by an older
   generation, never drops one, and caches at least the offered generation. *)
Theorem C13_router_never_downgrades :
  forall (c : rcache) (id gen data id' : N),
  match router_gen c id', router_gen (router_update c id gen data) id' with
  | Some g, Some g' => (g <= g')%N
  | Some _, None => False
  | None, _ => True
  end /\
  match router_gen (router_update c id gen data) id with
  | Some g' => (gen <= g')%N
  | None => False
  end.
Proof. exact router_never_downgrades. Qed.
Print Assumptions C13_router_never_downgrades.
