(* C08 — Compaction leases are exclusive while live and reclaimable once expired.
   Statements only; every proof is `exact <lemma>`; assumptions printed.

   Model: Model/Lease.v (both metadata backends), retry machine Base/CasProto.v.
   Times are in milliseconds of the one shared clock; TTL, renewal extension,
   renewal period, retry bound and backoff come from the Rust sources
   (generated/Consts.v).

     LInv v        unique lease ids  /\  StrongExcl v
     StrongExcl v  any two DISTINCT ACTIVE leases of v have disjoint chunk
                   lists (expired or not: stronger than the property)
     Excl t v      any two distinct leases of v that are active and unexpired
                   at instant t have disjoint chunk lists (the property) *)
From CS Require Import Base.Prelude Base.CasProto Model.Lease Proofs.LeaseProofs.
Open Scope Z_scope.

(* Object-store backend.  For every number of nodes, all programs of lease
   operations, every schedule at object-store-request granularity with clock
   ticks anywhere (first-write races and retry exhaustion included): every
   version of compaction-leases.json ever written, and whatever can be read at
   the end of the schedule (the schedule being arbitrary: at any moment),
   satisfies the exclusion at every instant t. *)
Theorem C08_exclusive_object_store :
  forall (v0 : option table) (now0 : Z) (progs : nat -> list lop) (sched : list label),
  opt_inv v0 ->
  let s := s3_run sched (s3_init v0 now0 progs) in
  (forall k, In k (s_log s) -> LInv (k_val k) /\ forall t, Excl t (k_val k)) /\
  (forall v, cur_val s = Some v -> LInv v /\ forall t, Excl t v).
Proof. exact c08_object_store. Qed.
Print Assumptions C08_exclusive_object_store.

(* In-memory backend: every history of operations and clock ticks. *)
Theorem C08_exclusive_in_memory :
  forall (now0 : Z) (h : list hstep),
  let s := local_run now0 h in
  LInv (ls_tab s) /\ forall t, Excl t (ls_tab s).
Proof. exact c08_in_memory. Qed.
Print Assumptions C08_exclusive_in_memory.

(* The operation bodies that both backend models execute — written with the
   comparison expressions translated from the Rust sources on every run
   (generated/Funs.v) — are the bodies `lease_body` that the clauses below
   speak about. *)
Theorem C08_code_comparisons_are_the_named_predicates :
  forall b cfg now op t, lease_body_code b cfg now op t = lease_body b cfg now op t.
Proof. exact body_code_eq. Qed.
Print Assumptions C08_code_comparisons_are_the_named_predicates.

(* Either backend: an acquire goes through (object store: reaches its
   conditional PUT) and yields a live lease with expires_at = now + TTL exactly
   when no lease that is live at `now` shares a chunk with the request. *)
Theorem C08_acquire_succeeds_iff_no_live_overlap :
  forall b cfg now id h cs lv t, 0 < acq_ttl cfg ->
  ((exists t' l, lease_body b cfg now (OAcquire id h cs lv) t = Write t' (RLease id l) /\
                 aget N.eqb id t' = Some l /\ live now l = true /\
                 l_holder l = h /\ l_chunks l = cs /\ l_expires l = now + acq_ttl cfg)
   <-> (forall j l, In (j, l) t -> live now l = true -> ~ share cs (l_chunks l))).
Proof. exact acquire_succeeds_iff. Qed.
Print Assumptions C08_acquire_succeeds_iff_no_live_overlap.

(* A lease whose holder stopped renewing becomes acquirable after its TTL. *)
Theorem C08_expired_is_acquirable :
  forall b cfg now id h cs lv t, 0 < acq_ttl cfg ->
  (forall j l, In (j, l) t -> share cs (l_chunks l) -> is_active l = false \/ l_expires l <= now) ->
  exists t' l, lease_body b cfg now (OAcquire id h cs lv) t = Write t' (RLease id l) /\
               aget N.eqb id t' = Some l /\ live now l = true /\
               l_holder l = h /\ l_chunks l = cs /\ l_expires l = now + acq_ttl cfg.
Proof. exact expired_is_acquirable. Qed.
Print Assumptions C08_expired_is_acquirable.

(* A holder whose lease was reclaimed (or finished) is told when it next
   renews: renew returns an error exactly when the id is absent or terminal... *)
Theorem C08_reclaimed_holder_is_told :
  forall b cfg now id t,
  (exists o, lease_body b cfg now (ORenew id) t = NoWrite o /\ (o = ENotFound \/ o = ENotActive))
  <-> (aget N.eqb id t = None \/ exists l, aget N.eqb id t = Some l /\ is_active l = false).
Proof. exact renew_error_iff. Qed.
Print Assumptions C08_reclaimed_holder_is_told.

(* ... and once the id has left the file it never comes back: along every
   sequence of committed operations no renew of it commits and it is absent
   from every later version (lease ids are UUIDs: no acquire re-uses it). *)
Theorem C08_reclaimed_never_renewed :
  forall (id : N) (log : list (commit table lop lout)) (v : option table),
  chain s3_decide v log ->
  aget N.eqb id (tbl v) = None ->
  Forall (fun k => not_acquire_of id (k_op k)) log ->
  Forall (fun k => k_op k <> ORenew id /\ aget N.eqb id (k_val k) = None) log.
Proof. exact c08_reclaimed_never_renewed. Qed.
Print Assumptions C08_reclaimed_never_renewed.

(* A lease that is renewed in time is never handed to someone else
   (object-store backend, every schedule): if every commit after the acquire is
   decided before the lease's current deadline (acquire time + TTL, then last
   own renew + extension), nobody completes/fails it and no acquire re-uses
   its id, then in every later version it is still present, active, with the
   same holder and chunks, and no other active lease shares a chunk with it. *)
Theorem C08_renewed_in_time_not_stolen_object_store :
  forall (v0 : option table) (now0 : Z) (progs : nat -> list lop) (sched : list label),
  opt_inv v0 ->
  let s := s3_run sched (s3_init v0 now0 progs) in
  forall pre k0 post id h cs lv,
    s_log s = pre ++ k0 :: post ->
    k_op k0 = OAcquire id h cs lv ->
    in_time s3_cfg id (k_now k0 + acq_ttl s3_cfg) (log_ops post) ->
    Forall (fun k => (exists e, holds id h cs e (k_val k)) /\
                     forall j l2, In (j, l2) (k_val k) -> j <> id -> is_active l2 = true ->
                                  ~ share cs (l_chunks l2)) post.
Proof. exact c08_renewed_object_store. Qed.
Print Assumptions C08_renewed_in_time_not_stolen_object_store.

Theorem C08_renewed_in_time_not_stolen_in_memory :
  forall (id hd : N) (cs : list N) (h : list hstep) (s : lstate) (e : Z),
  LInv (ls_tab s) ->
  holds id hd cs e (ls_tab s) ->
  in_time local_cfg id e (timed (ls_now s) h) ->
  let s' := local_run_from local_cfg h s in
  (exists e', holds id hd cs e' (ls_tab s')) /\
  forall j l2, In (j, l2) (ls_tab s') -> j <> id -> is_active l2 = true -> ~ share cs (l_chunks l2).
Proof. exact c08_renewed_in_memory. Qed.
Print Assumptions C08_renewed_in_time_not_stolen_in_memory.

(* The holder's schedule satisfies "in time": renewal period + the longest
   total backoff of a renew is below every TTL / extension in the code, so the
   next renew round is decided before the deadline set by the previous one. *)
Theorem C08_renew_period_within_ttl :
  forall s d d' : Z,
  s <= d -> d' <= s + renew_period_ms + backoff_total_ms ->
  d' < d + renew_ext s3_cfg /\ d' < d + acq_ttl s3_cfg /\
  d' < d + renew_ext local_cfg /\ d' < d + acq_ttl local_cfg.
Proof. exact renew_period_within_ttl. Qed.
Print Assumptions C08_renew_period_within_ttl.

(* The executable predicate used by the harness-side model output is Excl. *)
Theorem C08_exclb_is_excl : forall t v, exclb t v = true <-> Excl t v.
Proof. exact exclb_iff. Qed.
Print Assumptions C08_exclb_is_excl.
