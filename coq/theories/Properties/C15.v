(* C15 — Dual-write routes each row to exactly one new shard; split-time reads
   stay exact.  Statements only; every proof is `exact <lemma>`; assumptions
   printed.

   Full statement of the read half (kept visible):
     reads_exact_during_split :
       forall history h ending flushed with a shard in DualWrite/Backfill and
       every query q of the C04 family (aggregates included),
         result (query during the split) == result (same query, no split)
       as multisets.
   As coded this is false; it is proved for every query outside the three
   executable classes of [known_class] (C15_modulo_known) and refuted by a
   witness inside each class (the C15_refuted_ theorems).  The class "two series of one
   metric sharing a timestamp collapse" was repaired in the code (fix: commit,
   see known-findings.json); C15_series_collapse_repaired keeps its witness. *)
From CS Require Import Base.Prelude Model.Dedup Proofs.DedupProofs.
From Coq Require Import Permutation.
Open Scope Z_scope.

(* Routing.  While the batch's shard is in DualWrite or Backfill (split point
   of 8 bytes, two new shards), every Int64-timestamped batch is accepted, the
   old shard receives the whole batch, and exactly one chunk per non-empty side
   is registered: rows below the split point under the first new shard, rows
   at or above it under the second; each row of the batch is on exactly one
   side. For all states, batches and split points. *)
Theorem C15_routing_exact : forall st sid ss b sp a0 a1,
  aget N.eqb sid (i_splits st) = Some ss -> valid_split ss sp a0 a1 -> ib_ts b = TsInt64 ->
  let st1 := append_and_maybe_flush st b in
  let lo := filter (lower_side sp) (ib_rows b) in
  let up := filter (upper_side sp) (ib_rows b) in
  write st sid b = (with_chunks st1 (side_chunk a0 lo ++ side_chunk a1 up), Done tt) /\
  stored st1 = stored st ++ ib_rows b /\
  new_rows st1 = new_rows st /\
  Permutation (lo ++ up) (ib_rows b) /\
  (forall r, In r lo <-> In r (ib_rows b) /\ ts_value r < sp) /\
  (forall r, In r up <-> In r (ib_rows b) /\ sp <= ts_value r) /\
  (forall r, In r (ib_rows b) -> (In r lo /\ ~ In r up) \/ (In r up /\ ~ In r lo)).
Proof. exact routing_exact. Qed.
Print Assumptions C15_routing_exact.

(* The same per shard path: the first new shard gains exactly the lower rows,
   the second exactly the upper rows, no other shard changes, the old shard
   gains the batch. *)
Theorem C15_routing_exact_per_shard : forall st sid ss b sp a0 a1,
  aget N.eqb sid (i_splits st) = Some ss -> valid_split ss sp a0 a1 -> ib_ts b = TsInt64 -> a0 <> a1 ->
  let st' := fst (write st sid b) in
  snd (write st sid b) = Done tt /\
  shard_rows st' a0 = shard_rows st a0 ++ filter (lower_side sp) (ib_rows b) /\
  shard_rows st' a1 = shard_rows st a1 ++ filter (upper_side sp) (ib_rows b) /\
  (forall s, s <> a0 -> s <> a1 -> shard_rows st' s = shard_rows st s) /\
  stored st' = stored st ++ ib_rows b.
Proof. exact routing_exact_shards. Qed.
Print Assumptions C15_routing_exact_per_shard.

(* The dual-write split accepts exactly Int64 timestamps with an 8-byte point. *)
Theorem C15_split_accepts_iff : forall b point,
  (exists lo up, split_batch_by_key b point = Done (lo, up)) <->
  ib_ts b = TsInt64 /\ exists sp, split_ts point = Some sp.
Proof. exact split_accepts_iff. Qed.
Print Assumptions C15_split_accepts_iff.

(* Histories: whatever the sequence of split-state changes, writes (accepted,
   rejected or panicking), flushes, pre-existing historical chunks and
   back-fill runs, the old shard holds exactly the written / pre-existing rows,
   each once, and every row under a new shard (dual-write chunk or back-fill
   copy) is a copy of one of them. *)
Theorem C15_old_shard_holds_all_writes : forall h st,
  Permutation (stored (hrun st h)) (stored st ++ written_rows h).
Proof. exact stored_is_written. Qed.
Print Assumptions C15_old_shard_holds_all_writes.

Theorem C15_new_shards_hold_copies : forall h st x,
  In x (new_rows (hrun st h)) -> In x (new_rows st) \/ In x (stored (hrun st h)).
Proof. exact new_rows_are_copies. Qed.
Print Assumptions C15_new_shards_hold_copies.

(* dedup_batches over batches that carry both gating columns is the
   first-occurrence de-duplication of the concatenated rows; batches lacking a
   gating column pass through. *)
Theorem C15_dedup_across_batches : forall bs seen, forallb keyed bs = true ->
  result_rows (dedup_batches_aux seen bs) = snd (fst (dedup_rows seen (result_rows bs))).
Proof. exact dedup_batches_rows. Qed.
Print Assumptions C15_dedup_across_batches.

Theorem C15_dedup_passthrough : forall seen b bs, keyed b = false ->
  dedup_batches_aux seen (b :: bs) = b :: dedup_batches_aux seen bs.
Proof. exact dedup_passthrough. Qed.
Print Assumptions C15_dedup_passthrough.

(* Reads, pure form: for ANY scan holding the ingested rows and arbitrary
   copies of them (any order, any batching), a query outside the known classes
   returns during a split exactly what it returns over the ingested rows. *)
Theorem C15_modulo_known : forall (ing : list row) (scanned : list (list row)) (q : query),
  same_set ing (concat scanned) ->
  known_class ing q = KNone ->
  Permutation (result_rows (run_query true q scanned)) (result_rows (run_query false q [ing])).
Proof. exact modulo_known. Qed.
Print Assumptions C15_modulo_known.

(* Reads, history form. *)
Theorem C15_history_modulo_known : forall (flush_rows : N) (h : list hop) (q : query),
  let st := hrun (init_state flush_rows) h in
  i_buffer st = [] -> has_active_split st = true ->
  known_class (written_rows h) q = KNone ->
  Permutation (old_rows st) (written_rows h) /\
  Permutation (result_rows (query_state st q)) (result_rows (run_query false q [written_rows h])).
Proof. exact history_modulo_known. Qed.
Print Assumptions C15_history_modulo_known.

(* Back-fill copies: each lives under a new shard and holds only rows of one
   historical chunk of the old shard. *)
Theorem C15_backfill_copies : forall sp news hist c,
  In c (fst (backfill_chunks sp news hist)) ->
  is_old c = false /\ exists h, In h hist /\ incl (c_rows c) (c_rows h).
Proof. exact backfill_chunks_spec. Qed.
Print Assumptions C15_backfill_copies.

(* The repaired class: distinct rows sharing timestamp and metric name are all
   kept by SELECT *. *)
Theorem C15_series_all_kept : forall ing scanned w,
  same_set ing (concat scanned) -> NoDup (filter (where_row w) ing) ->
  Permutation (result_rows (run_query true (mkQuery w (PRaw true true true)) scanned))
              (filter (where_row w) ing).
Proof. exact series_all_kept. Qed.
Print Assumptions C15_series_all_kept.

Theorem C15_series_collapse_repaired :
  let st := hrun (init_state 1) wit_series in
  let scanned := concat (scan st) in
  length (legacy_dedup_rows [] scanned) = 3%nat /\
  ~ In (rw 50 7 2 20) (legacy_dedup_rows [] scanned) /\
  Permutation (result_rows (query_state st (q_all (PRaw true true true)))) (written_rows wit_series) /\
  known_class (written_rows wit_series) (q_all (PRaw true true true)) = KNone.
Proof. exact series_collapse_repaired. Qed.
Print Assumptions C15_series_collapse_repaired.

(* The open classes, each with a witness history. *)
Theorem C15_refuted_aggregate_inflated :
  exists (h : list hop) (q : query),
    let st := hrun (init_state 1) h in
    i_buffer st = [] /\ has_active_split st = true /\
    known_class (written_rows h) q = KAggregate /\
    result_rows (query_state st q) = [mkRow None None [8]] /\
    result_rows (run_query false q [written_rows h]) = [mkRow None None [4]] /\
    ~ Permutation (result_rows (query_state st q)) (result_rows (run_query false q [written_rows h])).
Proof. exact refuted_aggregate_inflated. Qed.
Print Assumptions C15_refuted_aggregate_inflated.

Theorem C15_refuted_projection_duplicates :
  exists (h : list hop) (q : query),
    let st := hrun (init_state 1) h in
    i_buffer st = [] /\ has_active_split st = true /\
    known_class (written_rows h) q = KProjection /\
    length (result_rows (query_state st q)) = 8%nat /\
    length (result_rows (run_query false q [written_rows h])) = 4%nat /\
    ~ Permutation (result_rows (query_state st q)) (result_rows (run_query false q [written_rows h])).
Proof. exact refuted_projection_duplicates. Qed.
Print Assumptions C15_refuted_projection_duplicates.

Theorem C15_refuted_identical_rows_collapse :
  exists (h : list hop) (q : query),
    let st := hrun (init_state 1) h in
    i_buffer st = [] /\ has_active_split st = true /\
    known_class (written_rows h) q = KIdentical /\
    length (result_rows (query_state st q)) = 2%nat /\
    length (result_rows (run_query false q [written_rows h])) = 3%nat /\
    ~ Permutation (result_rows (query_state st q)) (result_rows (run_query false q [written_rows h])).
Proof. exact refuted_identical_rows_collapse. Qed.
Print Assumptions C15_refuted_identical_rows_collapse.
