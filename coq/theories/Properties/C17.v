(* C17 — Ingest protocol conversion is faithful, and no payload can crash the
   receiver.  Statements only; every proof is `exact <lemma>`; assumptions
   printed. *)
From Coq Require Import ZArith List Reals Sorting.Sorted.
From Flocq Require Import Core IEEE754.BinarySingleNaN.
From CS Require Import Base.Prelude Model.Proto Model.ProtoConv Model.Otlp.
From CS Require Import Proofs.ProtoProofs Proofs.ProtoConvProofs Proofs.ProtoFloatProofs Proofs.OtlpProofs.
Open Scope N_scope.

(* parse_total.  Every byte string (a Rust slice is shorter than 2^63 bytes)
   is answered by the hand-written protobuf reader with Ok or Err — never a
   panic (debug overflow check, out-of-range slice) and never a hang (the
   cursor strictly increases, so length + 1 loop iterations suffice) — in debug
   and in release builds. *)
Theorem C17_parse_total : forall (m : build) (data : bytes),
  N.of_nat (length data) < I63 ->
  match parse_write_request (current m) data with
  | Done _ | Failed _ => True
  | Panic | Hang => False
  end.
Proof. exact parse_total. Qed.
Print Assumptions C17_parse_total.

(* Debug and release builds of the current reader give the same answer on
   every input: no usize addition overflows any more. *)
Theorem C17_mode_irrelevant : forall (data : bytes), N.of_nat (length data) < I63 ->
  parse_write_request (current Release) data = parse_write_request (current Debug) data.
Proof. exact mode_irrelevant. Qed.
Print Assumptions C17_mode_irrelevant.

(* The reader before the repair (commit 10ed38f) is refuted by a length varint
   near 2^64: panic in debug builds, out-of-range slice or endless loop in
   release builds.  The same inputs are answered with an error today. *)
Theorem C17_legacy_refuted_len_overflow :
  parse_write_request (legacy Debug) witness_known = Panic /\
  parse_write_request (legacy Release) witness_known_wrap = Panic /\
  parse_write_request (legacy Debug) witness_skip = Panic /\
  parse_write_request (legacy Release) witness_skip = Hang.
Proof. exact legacy_refuted_len_overflow. Qed.
Print Assumptions C17_legacy_refuted_len_overflow.

Theorem C17_witnesses_answered_today :
  parse_write_request (current Debug) witness_known = Failed E_TRUNC_TIMESERIES /\
  parse_write_request (current Release) witness_known_wrap = Failed E_TRUNC_TIMESERIES /\
  parse_write_request (current Debug) witness_skip = Failed E_TRUNC_FIELD /\
  parse_write_request (current Release) witness_skip = Failed E_TRUNC_FIELD.
Proof. exact current_witnesses_answered. Qed.
Print Assumptions C17_witnesses_answered_today.

(* parse_encode.  The reader inverts the canonical encoder on every
   well-formed request: any number of series, labels (valid UTF-8) and samples
   (any i64 timestamp, any 64-bit value pattern). *)
Theorem C17_parse_encode : forall (m : build) (r : request),
  wf_request r -> N.of_nat (length (enc_request r)) < I63 ->
  parse_write_request (current m) (enc_request r) = Done r.
Proof. exact parse_encode. Qed.
Print Assumptions C17_parse_encode.

(* non-vacuity of the well-formedness hypothesis: every ASCII string is a
   well-formed label string *)
Theorem C17_ascii_strings_wf : forall s, Forall (fun b => b < 128) s -> wf_string s.
Proof. exact ascii_wf. Qed.
Print Assumptions C17_ascii_strings_wf.

(* convert_faithful.  When the conversion succeeds: the label columns are
   exactly the label names other than "__name__", strictly increasing; the rows
   are, series by series and sample by sample in request order, one row per
   sample carrying the exact nanosecond timestamp (which fits i64), the metric
   name of its own series, the routed value of its own sample and, in every
   label column, what its own series says about that label (null when the
   series does not carry it) — rows of different series are never mixed. *)
Theorem C17_convert_faithful : forall (r : request) (b : batch),
  convert r = Done b ->
  StronglySorted blt (b_cols b) /\
  (forall c, In c (b_cols b) <->
             c <> NAME /\ exists t l, In t r /\ In l (ts_labels t) /\ l_name l = c) /\
  exists rows : list (list row),
    b_rows b = concat rows /\
    Forall2 (fun t rs => Forall2 (row_faithful (b_cols b) t) (ts_samples t) rs) r rows.
Proof. exact convert_faithful. Qed.
Print Assumptions C17_convert_faithful.

Theorem C17_convert_row_count : forall r b,
  convert r = Done b ->
  length (b_rows b) = fold_right (fun t n => (length (ts_samples t) + n)%nat) 0%nat r.
Proof. exact convert_row_count. Qed.
Print Assumptions C17_convert_row_count.

(* The conversion never crashes; it rejects exactly the empty request and the
   requests with a timestamp that has no i64 nanosecond representation. *)
Theorem C17_convert_total : forall r : request,
  match convert r with
  | Done _ => True
  | Failed c => (c = E_NO_SERIES /\ r = []) \/
                (c = E_TS_RANGE /\ exists t s, In t r /\ In s (ts_samples t) /\ in_i64 (s_ts s * 1000000) = false)
  | Panic | Hang => False
  end.
Proof. exact convert_total. Qed.
Print Assumptions C17_convert_total.

(* The HTTP handler answers every body (decompressed or undecodable) with a
   status code: 204, 400 or 500 — never a panic, never a hang. *)
Theorem C17_handler_total : forall (m : build) (body : option bytes),
  (forall d, body = Some d -> N.of_nat (length d) < I63) ->
  match handle m body with
  | H204 | H400 | H500 => True
  | HPanic | HHang => False
  end.
Proof. exact handle_total. Qed.
Print Assumptions C17_handler_total.

(* what "metric name" and "the value of a label" mean *)
Theorem C17_metric_name_is_first_name_label : forall ls,
  (exists pre l post, ls = pre ++ l :: post /\ l_name l = NAME /\
                      (forall x, In x pre -> l_name x <> NAME) /\ metric_name ls = l_value l)
  \/ ((forall x, In x ls -> l_name x <> NAME) /\ metric_name ls = []).
Proof. exact metric_name_spec. Qed.
Print Assumptions C17_metric_name_is_first_name_label.

Theorem C17_label_cell_is_last_value : forall c ls v,
  lookup_last c ls = Some v <->
  exists pre l post, ls = pre ++ l :: post /\ l_name l = c /\ l_value l = v /\
                     (forall x, In x post -> l_name x <> c).
Proof. exact lookup_last_some. Qed.
Print Assumptions C17_label_cell_is_last_value.

Theorem C17_label_cell_null_iff_absent : forall c ls,
  lookup_last c ls = None <-> (forall l, In l ls -> l_name l <> c).
Proof. exact lookup_last_none. Qed.
Print Assumptions C17_label_cell_null_iff_absent.

(* value_equal.  The routed value is numerically equal to the sample: an
   integer column holds exactly the real value of the (finite) sample, the f64
   column holds the sample's own bit pattern. *)
Theorem C17_value_equal : forall bits : N,
  match route bits with
  | RU64 u => f64_is_finite (f64_of_bits bits) = true /\
              @BinarySingleNaN.B2R 53 1024 (f64_of_bits bits) = IZR (Z.of_N u) /\ (Z.of_N u <= i64_max)%Z
  | RI64 i => f64_is_finite (f64_of_bits bits) = true /\
              @BinarySingleNaN.B2R 53 1024 (f64_of_bits bits) = IZR i /\ (i64_min <= i < 0)%Z
  | RF64 b => b = bits
  end.
Proof. exact value_equal. Qed.
Print Assumptions C17_value_equal.

(* the routing before commit 5679380 stored 2^63 as 2^63 - 1 *)
Theorem C17_legacy_refuted_2p63 :
  route_legacy 4890909195324358656 = RU64 9223372036854775807 /\
  route 4890909195324358656 = RF64 4890909195324358656.
Proof. exact legacy_refuted_2p63. Qed.
Print Assumptions C17_legacy_refuted_2p63.

(* OTLP: one row per data point, in request order. *)
Theorem C17_otlp_rows : forall (r : oreq) (b : obatch),
  export_to_arrow r = Done b ->
  Forall2 (fun t rw =>
             o_ts rw = as_i64 (src_time (tg_src t)) /\
             o_name rw = tg_name t /\
             o_bits rw = dp_bits (point_of t) /\
             o_cells rw = map (fun c => map_get c (dp_labels (point_of t))) (ob_cols b))
          (all_tagged r) (ob_rows b).
Proof. exact otlp_rows. Qed.
Print Assumptions C17_otlp_rows.

(* OTLP, full statement: every data point becomes one row with its exact
   timestamp, metric name and a numerically equal value.  It is FALSE of the
   code as it is (the two theorems below); what holds is the statement outside
   the two recorded classes. *)
Theorem C17_otlp_refuted_int_precision :
  known_int_precision w_int = true /\
  export_to_arrow w_int = Done (mkOBatch [] [mkORow 1 [109] 4845873199050653696 []]) /\
  bits_of_int 9007199254740992 = 4845873199050653696.
Proof. exact otlp_refuted_int_precision. Qed.
Print Assumptions C17_otlp_refuted_int_precision.

Theorem C17_otlp_refuted_time_wrap :
  known_time_wrap w_time = true /\
  export_to_arrow w_time = Done (mkOBatch [] [mkORow (-9223372036854775808) [109] 0 []]).
Proof. exact otlp_refuted_time_wrap. Qed.
Print Assumptions C17_otlp_refuted_time_wrap.

Theorem C17_otlp_modulo_known : forall (r : oreq) (b : obatch),
  known_int_precision r = false -> known_time_wrap r = false ->
  export_to_arrow r = Done b ->
  Forall2 (fun t rw =>
             o_ts rw = Z.of_N (src_time (tg_src t)) /\
             o_name rw = tg_name t /\
             (forall i, src_int (tg_src t) = Some i ->
                        @BinarySingleNaN.B2R 53 1024 (f64_of_bits (o_bits rw)) = IZR i) /\
             (forall d, src_double (tg_src t) = Some d -> o_bits rw = d) /\
             o_cells rw = map (fun c => map_get c (dp_labels (point_of t))) (ob_cols b))
          (all_tagged r) (ob_rows b).
Proof. exact otlp_modulo_known. Qed.
Print Assumptions C17_otlp_modulo_known.

(* OTLP labels: the label of key k in the row of a data point is the last value
   its own attributes give to k, otherwise what its resource says (the last
   resource attribute of that key); nothing else. *)
Theorem C17_otlp_labels : forall (t : tagged) (k : bytes),
  map_get k (dp_labels (point_of t))
  = match kv_last k (src_attrs (tg_src t)) with
    | Some v => Some v
    | None => map_get k (tg_res t)
    end.
Proof. exact otlp_labels. Qed.
Print Assumptions C17_otlp_labels.

Theorem C17_otlp_resource_labels : forall (r : oreq) (t : tagged),
  In t (all_tagged r) ->
  exists rm, In rm r /\
    forall k, map_get k (tg_res t)
              = match rm_resource rm with Some a => kv_last k a | None => None end.
Proof. exact otlp_resource_labels. Qed.
Print Assumptions C17_otlp_resource_labels.
