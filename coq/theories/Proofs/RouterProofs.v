(* Proofs/RouterProofs.v — lemmas and main theorems about Model/Router.v (C19). *)
From CS Require Import Base.Prelude Model.Router.
From CSGen Require Import Consts.
Open Scope N_scope.

(* ------------------------------------------------------------------------ *)
(* association lists keyed by N                                               *)
(* ------------------------------------------------------------------------ *)
Section AListN.
  Context {V : Type}.
  Implicit Types (l : list (N * V)) (k : N) (v : V).

  Lemma aget_aset_same k v l : aget N.eqb k (aset N.eqb k v l) = Some v.
  Proof.
    induction l as [|[k' v'] r IH]; cbn.
    - now rewrite N.eqb_refl.
    - destruct (N.eqb k k') eqn:E; cbn; rewrite E; auto.
  Qed.

  Lemma aget_aset_other k k' v l : k <> k' -> aget N.eqb k (aset N.eqb k' v l) = aget N.eqb k l.
  Proof.
    intros Hne. induction l as [|[k2 v2] r IH]; cbn.
    - destruct (N.eqb k k') eqn:E; auto. apply N.eqb_eq in E. contradiction.
    - destruct (N.eqb k' k2) eqn:E; cbn.
      + apply N.eqb_eq in E. subst k2. destruct (N.eqb k k') eqn:E2; auto.
        apply N.eqb_eq in E2. contradiction.
      + destruct (N.eqb k k2); auto.
  Qed.

  Lemma aget_adel_same k l : aget N.eqb k (adel N.eqb k l) = None.
  Proof.
    induction l as [|[k' v'] r IH]; cbn; auto.
    destruct (N.eqb k k') eqn:E; auto. cbn. now rewrite E.
  Qed.

  Lemma aget_adel_other k k' l : k <> k' -> aget N.eqb k (adel N.eqb k' l) = aget N.eqb k l.
  Proof.
    intros Hne. induction l as [|[k2 v2] r IH]; cbn; auto.
    destruct (N.eqb k' k2) eqn:E; cbn.
    - apply N.eqb_eq in E. subst k2. destruct (N.eqb k k') eqn:E2; auto.
      apply N.eqb_eq in E2. contradiction.
    - destruct (N.eqb k k2); auto.
  Qed.

  Lemma aget_In k v l : aget N.eqb k l = Some v -> In (k, v) l.
  Proof.
    induction l as [|[k' v'] r IH]; cbn; [discriminate|].
    destruct (N.eqb k k') eqn:E; intros Hg.
    - apply N.eqb_eq in E. inversion Hg. subst. now left.
    - right. auto.
  Qed.

  Lemma aget_key_in k v l : aget N.eqb k l = Some v -> In k (map fst l).
  Proof. intros Hg. apply aget_In in Hg. now apply (in_map fst) in Hg. Qed.

  Lemma keys_aset_in k k' v l : In k (map fst (aset N.eqb k' v l)) -> k = k' \/ In k (map fst l).
  Proof.
    induction l as [|[k2 v2] r IH]; cbn.
    - intros [Hk|[]]; auto.
    - destruct (N.eqb k' k2) eqn:E; cbn.
      + intros [Hk|Hk]; auto.
      + intros [Hk|Hk]; auto. destruct (IH Hk); auto.
  Qed.

  Lemma nodup_aset k v l : NoDup (map fst l) -> NoDup (map fst (aset N.eqb k v l)).
  Proof.
    induction l as [|[k2 v2] r IH]; cbn; intros Hnd.
    - constructor; [intros []|constructor].
    - inversion Hnd as [|x xs Hnotin Hnd']; subst.
      destruct (N.eqb k k2) eqn:E; cbn.
      + constructor; auto.
      + constructor; auto. intros Hin. apply keys_aset_in in Hin. destruct Hin as [Hk|Hk]; auto.
        subst. now rewrite N.eqb_refl in E.
  Qed.

  Lemma keys_adel_in k k' l : In k (map fst (adel N.eqb k' l)) -> In k (map fst l).
  Proof.
    induction l as [|[k2 v2] r IH]; cbn; auto.
    destruct (N.eqb k' k2); cbn; intuition.
  Qed.

  Lemma nodup_adel k l : NoDup (map fst l) -> NoDup (map fst (adel N.eqb k l)).
  Proof.
    induction l as [|[k2 v2] r IH]; cbn; intros Hnd; auto.
    inversion Hnd as [|x xs Hnotin Hnd']; subst.
    destruct (N.eqb k k2); auto. cbn. constructor; auto.
    intros Hin. apply keys_adel_in in Hin. contradiction.
  Qed.

  Lemma nodup_keys_functional l k v1 v2 :
    NoDup (map fst l) -> In (k, v1) l -> In (k, v2) l -> v1 = v2.
  Proof.
    induction l as [|[k' v'] r IH]; cbn; intros Hnd H1 H2; [contradiction|].
    inversion Hnd as [|x xs Hnotin Hnd']; subst.
    destruct H1 as [H1|H1], H2 as [H2|H2].
    - congruence.
    - inversion H1; subst. exfalso. apply Hnotin. now apply (in_map fst) in H2.
    - inversion H2; subst. exfalso. apply Hnotin. now apply (in_map fst) in H1.
    - eauto.
  Qed.
End AListN.

Lemma memN_In x l : memN x l = true <-> In x l.
Proof.
  induction l as [|y r IH]; cbn; [split; [discriminate|contradiction]|].
  rewrite orb_true_iff, IH, N.eqb_eq. intuition.
Qed.

Lemma dedupN_aux_In x l : forall seen, In x l -> In x seen \/ In x (dedupN_aux seen l).
Proof.
  induction l as [|y r IH]; cbn; intros seen Hin; [contradiction|].
  destruct (memN y seen) eqn:E.
  - destruct Hin as [->|Hin]; auto. left. now apply memN_In.
  - destruct Hin as [->|Hin]; [right; now left|].
    destruct (IH (y :: seen) Hin) as [[->|Hs]|Hd]; auto; right; [now left|now right].
Qed.

Lemma dedupN_In x l : In x l -> In x (dedupN l).
Proof. intros Hin. destruct (dedupN_aux_In x l [] Hin) as [[]|Hd]; exact Hd. Qed.

(* ------------------------------------------------------------------------ *)
(* constants of the code                                                      *)
(* ------------------------------------------------------------------------ *)
Lemma max_attempts_pos : 0 < Consts.ROUTER_MAX_ROUTE_ATTEMPTS.
Proof. reflexivity. Qed.

Lemma vnodes_pos : 0 < Consts.ROUTER_VIRTUAL_NODES.
Proof. reflexivity. Qed.

(* "overloaded" is a meaningful notion: the threshold is a percentage *)
Lemma threshold_is_a_percentage : 0 < Consts.ROUTER_LOAD_THRESHOLD <= 100.
Proof. split; [reflexivity|discriminate]. Qed.

(* the loop of route_write is bounded by the constant the model uses *)
Lemma loop_bound_is_max_attempts : Consts.ROUTER_ROUTE_LOOP_BOUND = Consts.ROUTER_MAX_ROUTE_ATTEMPTS.
Proof. reflexivity. Qed.

(* ------------------------------------------------------------------------ *)
(* eligibility                                                                *)
(* ------------------------------------------------------------------------ *)
Definition eligible_spec (i : ninfo) : Prop :=
  n_status i = Healthy /\ (n_type i = Ingester \/ n_type i = Combined) /\ n_load i < Consts.ROUTER_LOAD_THRESHOLD.

Lemma can_accept_writes_spec i : can_accept_writes i = true <-> eligible_spec i.
Proof.
  unfold can_accept_writes, eligible_spec.
  rewrite !andb_true_iff, N.ltb_lt.
  destruct (n_status i), (n_type i); intuition; discriminate.
Qed.

Lemma can_accept_set_shards l i : can_accept_writes (set_shards l i) = can_accept_writes i.
Proof. reflexivity. Qed.

Lemma eligible_reg_update_shards r n l m :
  eligible (reg_update n (set_shards l) r) m = eligible r m.
Proof.
  unfold eligible, reg_update.
  destruct (aget N.eqb n r) as [i|] eqn:E; auto.
  destruct (N.eq_dec m n) as [->|Hne].
  - now rewrite aget_aset_same, E, can_accept_set_shards.
  - now rewrite aget_aset_other.
Qed.

Lemma eligible_update_node_shards st n m :
  eligible (st_reg (update_node_shards st n)) m = eligible (st_reg st) m.
Proof. apply eligible_reg_update_shards. Qed.

Lemma asg_update_node_shards st n : st_asg (update_node_shards st n) = st_asg st.
Proof. reflexivity. Qed.

Lemma ring_update_node_shards st n : st_ring (update_node_shards st n) = st_ring st.
Proof. reflexivity. Qed.

(* what get_healthy_ingesters returns is in the registry and can accept writes *)
Lemma iter_nodes_in order r n i : In (n, i) (iter_nodes order r) -> aget N.eqb n r = Some i.
Proof.
  unfold iter_nodes. rewrite in_flat_map. intros [k [_ Hin]].
  destruct (aget N.eqb k r) as [j|] eqn:E; [|contradiction].
  destruct Hin as [Heq|[]]. inversion Heq; subst. exact E.
Qed.

Lemma healthy_in order r n i :
  In (n, i) (healthy_ingesters order r) -> aget N.eqb n r = Some i /\ can_accept_writes i = true.
Proof.
  unfold healthy_ingesters. rewrite filter_In. cbn. intros [Hin Hc].
  split; auto. eapply iter_nodes_in; eauto.
Qed.

Lemma healthy_eligible order r p : In p (healthy_ingesters order r) -> eligible r (fst p) = true.
Proof.
  destruct p as [n i]. intros Hin. apply healthy_in in Hin. destruct Hin as [Hg Hc].
  unfold eligible. cbn. now rewrite Hg.
Qed.

(* ... and every node that can accept writes is returned *)
Lemma eligible_in_healthy order r n :
  eligible r n = true -> exists i, In (n, i) (healthy_ingesters order r).
Proof.
  unfold eligible. destruct (aget N.eqb n r) as [i|] eqn:E; [|discriminate]. intros Hc.
  exists i. unfold healthy_ingesters. apply filter_In. split; auto.
  unfold iter_nodes. apply in_flat_map. exists n. split.
  - unfold iter_keys. apply dedupN_In, in_or_app. right. eapply aget_key_in; eauto.
  - rewrite E. now left.
Qed.

Lemma min_by_key_in key l p : min_by_key key l = Some p -> In p l.
Proof.
  revert p. induction l as [|x r IH]; cbn; [discriminate|]. intros p.
  destruct (min_by_key key r) as [y|] eqn:E.
  - destruct (key (snd y) <? key (snd x)); intros Hp; inversion Hp; subst; auto.
  - intros Hp. inversion Hp. now left.
Qed.

Lemma min_by_key_some key l : l <> [] -> exists p, min_by_key key l = Some p.
Proof.
  destruct l as [|x r]; [congruence|]. intros _. cbn.
  destruct (min_by_key key r) as [y|]; [destruct (key (snd y) <? key (snd x))|]; eauto.
Qed.

(* ------------------------------------------------------------------------ *)
(* ring                                                                       *)
(* ------------------------------------------------------------------------ *)
Lemma ring_insert_nodes h n r x : In x (map snd (ring_insert h n r)) -> x = n \/ In x (map snd r).
Proof.
  induction r as [|[h' n'] t IH]; cbn.
  - intros [Hx|[]]; auto.
  - destruct (h <? h')%Z; [|destruct (h =? h')%Z]; cbn.
    + intros [Hx|[Hx|Hx]]; auto.
    + intros [Hx|Hx]; auto.
    + intros [Hx|Hx]; auto. destruct (IH Hx); auto.
Qed.

Lemma ring_insert_nonempty h n r : ring_insert h n r <> [].
Proof. destruct r as [|[h' n'] t]; cbn; [discriminate|]. destruct (h <? h')%Z; [|destruct (h =? h')%Z]; discriminate. Qed.

Lemma fold_ring_insert_nodes n hs : forall r x,
  In x (map snd (fold_left (fun acc h => ring_insert h n acc) hs r)) -> x = n \/ In x (map snd r).
Proof.
  induction hs as [|h t IH]; cbn; intros r x Hin; auto.
  destruct (IH _ _ Hin) as [Hx|Hx]; auto. now apply ring_insert_nodes in Hx.
Qed.

Lemma fold_ring_insert_nonempty n hs : forall r, (hs <> [] \/ r <> []) ->
  fold_left (fun acc h => ring_insert h n acc) hs r <> [].
Proof.
  induction hs as [|h t IH]; cbn; intros r Hne.
  - destruct Hne; congruence.
  - apply IH. right. apply ring_insert_nonempty.
Qed.

Lemma ring_add_node_nodes H n r x : In x (map snd (ring_add_node H n r)) -> x = n \/ In x (map snd r).
Proof. apply fold_ring_insert_nodes. Qed.

Lemma fold_add_node_nodes H nodes : forall r x,
  In x (map snd (fold_left (fun acc (p : node * ninfo) => ring_add_node H (fst p) acc) nodes r)) ->
  In x (map fst nodes) \/ In x (map snd r).
Proof.
  induction nodes as [|p t IH]; cbn; intros r x Hin; auto.
  destruct (IH _ _ Hin) as [Hx|Hx]; auto.
  apply ring_add_node_nodes in Hx. destruct Hx; auto.
Qed.

Lemma ring_build_nodes H nodes x : In x (map snd (ring_build H nodes)) -> In x (map fst nodes).
Proof. intros Hin. apply fold_add_node_nodes in Hin. destruct Hin as [Hx|[]]; auto. Qed.

Lemma ring_get_in r h n : ring_get r h = Some n -> In n (map snd r).
Proof.
  unfold ring_get. destruct r as [|[h0 n0] t]; [discriminate|].
  destruct (find (fun p => (h <=? fst p)%Z) ((h0, n0) :: t)) as [p|] eqn:E; intros Hs; inversion Hs; subst.
  - apply find_some in E. destruct E as [Hin _]. now apply (in_map snd) in Hin.
  - now left.
Qed.

Lemma ring_get_nonempty r h : r <> [] -> exists n, ring_get r h = Some n.
Proof.
  destruct r as [|[h0 n0] t]; [congruence|]. intros _. unfold ring_get.
  destruct (find _ _); eauto.
Qed.

Lemma ring_add_node_nonempty H n r : (vnode_hashes H n <> [] \/ r <> []) -> ring_add_node H n r <> [].
Proof.
  intros Hne. apply fold_ring_insert_nonempty. destruct Hne as [Hne|Hne]; auto. left.
  pose proof vnodes_pos as Hp.
  destruct (N.to_nat Consts.ROUTER_VIRTUAL_NODES) eqn:E; [lia|].
  destruct (vnode_hashes H n); [congruence|]. cbn. discriminate.
Qed.

Lemma fold_add_node_nonempty H nodes : forall r,
  (forall n, vnode_hashes H n <> []) -> (nodes <> [] \/ r <> []) ->
  fold_left (fun acc (p : node * ninfo) => ring_add_node H (fst p) acc) nodes r <> [].
Proof.
  induction nodes as [|p t IH]; cbn; intros r Hh Hne.
  - destruct Hne; congruence.
  - apply IH; auto. right. apply ring_add_node_nonempty. left. apply Hh.
Qed.

Lemma ring_build_nonempty H nodes :
  (forall n, vnode_hashes H n <> []) -> nodes <> [] -> ring_build H nodes <> [].
Proof. intros Hh Hne. apply fold_add_node_nonempty; auto. Qed.

(* ------------------------------------------------------------------------ *)
(* assign_shard                                                               *)
(* ------------------------------------------------------------------------ *)
Lemma with_reg_same st : with_reg st (st_reg st) = st.
Proof. now destruct st. Qed.

Lemma current_ok_spec st s n :
  current_ok st s = Some n <-> aget N.eqb s (st_asg st) = Some n /\ eligible (st_reg st) n = true.
Proof.
  unfold current_ok. destruct (aget N.eqb s (st_asg st)) as [m|]; [|split; [discriminate|intros [? _]; discriminate]].
  destruct (eligible (st_reg st) m) eqn:E; split.
  - intros Hs. inversion Hs; subst. auto.
  - intros [Hs _]. exact Hs.
  - discriminate.
  - intros [Hs He]. inversion Hs; subst. congruence.
Qed.

(* what a strategy returns: same registry and assignments, and a node that can accept writes *)
Definition pick_ok (st st1 : state) (r : outcome node) : Prop :=
  st_reg st1 = st_reg st /\ st_asg st1 = st_asg st /\
  match r with
  | Done n => eligible (st_reg st) n = true
  | Failed _ => True
  | Panic | Hang => False
  end.

Lemma assign_consistent_hash_ok H order st s st1 r :
  assign_consistent_hash H order st s = (st1, r) -> pick_ok st st1 r.
Proof.
  unfold assign_consistent_hash, pick_ok.
  destruct (ring_get (st_ring st) (shard_hash H s)) as [n|] eqn:Eg.
  - destruct (eligible (st_reg st) n) eqn:Ee.
    + intros Heq. inversion Heq; subst. auto.
    + destruct (healthy_ingesters order (st_reg st)) as [|p t] eqn:Eh.
      * intros Heq. inversion Heq; subst. auto.
      * destruct (ring_get (ring_build H (p :: t)) (shard_hash H s)) as [m|] eqn:Eg2;
          intros Heq; inversion Heq; subst; cbn; repeat split; auto.
        apply ring_get_in, ring_build_nodes in Eg2. apply in_map_iff in Eg2.
        destruct Eg2 as [q [Hq Hin]]. subst m. rewrite <- Eh in Hin. eapply healthy_eligible; eauto.
  - destruct (healthy_ingesters order (st_reg st)) as [|p t] eqn:Eh.
    + intros Heq. inversion Heq; subst. auto.
    + destruct (ring_get (ring_build H (p :: t)) (shard_hash H s)) as [m|] eqn:Eg2;
        intros Heq; inversion Heq; subst; cbn; repeat split; auto.
      apply ring_get_in, ring_build_nodes in Eg2. apply in_map_iff in Eg2.
      destruct Eg2 as [q [Hq Hin]]. subst m. rewrite <- Eh in Hin. eapply healthy_eligible; eauto.
Qed.

Lemma assign_min_ok key order st st1 r :
  match min_by_key key (healthy_ingesters order (st_reg st)) with
  | Some p => (st, Done (fst p))
  | None => (st, Failed E_NO_HEALTHY)
  end = (st1, r) -> pick_ok st st1 r.
Proof.
  unfold pick_ok. destruct (min_by_key key (healthy_ingesters order (st_reg st))) as [p|] eqn:E;
    intros Heq; inversion Heq; subst; repeat split; auto.
  apply min_by_key_in in E. eapply healthy_eligible; eauto.
Qed.

Lemma strategy_pick_ok strat H order st s st1 r :
  match strat with
  | ConsistentHash => assign_consistent_hash H order st s
  | RoundRobin => assign_round_robin order st
  | LoadBased => assign_load_based order st
  end = (st1, r) -> pick_ok st st1 r.
Proof.
  destruct strat.
  - apply assign_consistent_hash_ok.
  - apply assign_min_ok.
  - apply assign_min_ok.
Qed.

(* the shape of every result of assign_shard *)
Inductive assign_result (st : state) (s : shard) : state -> outcome node -> Prop :=
| AR_kept n : current_ok st s = Some n -> assign_result st s st (Done n)
| AR_new st1 n :
    current_ok st s = None -> st_reg st1 = st_reg st -> st_asg st1 = st_asg st ->
    eligible (st_reg st) n = true ->
    assign_result st s (update_node_shards (with_asg st1 (aset N.eqb s n (st_asg st1))) n) (Done n)
| AR_err st1 e :
    current_ok st s = None -> st_reg st1 = st_reg st -> st_asg st1 = st_asg st ->
    assign_result st s st1 (Failed e).

Lemma assign_shard_result strat H order st s st' r :
  assign_shard strat H order st s = (st', r) -> assign_result st s st' r.
Proof.
  unfold assign_shard, assign_shard_gen.
  destruct (current_ok st s) as [n|] eqn:Ec.
  - intros Heq. inversion Heq; subst. now constructor.
  - destruct (match strat with
              | ConsistentHash => assign_consistent_hash H order st s
              | RoundRobin => assign_round_robin order st
              | LoadBased => assign_load_based order st
              end) as [st1 r1] eqn:Ep.
    apply strategy_pick_ok in Ep. destruct Ep as [Hr [Ha Hk]].
    destruct r1 as [n|e| |]; try contradiction; intros Heq; inversion Heq; subst.
    + now apply AR_new.
    + now apply AR_err.
Qed.

(* the node assign_shard returns can accept writes, in the state it returns *)
Lemma assign_shard_eligible strat H order st s st' n :
  assign_shard strat H order st s = (st', Done n) -> eligible (st_reg st') n = true.
Proof.
  intros Ha. apply assign_shard_result in Ha. inversion Ha; subst.
  - match goal with Hc : current_ok _ _ = Some _ |- _ => apply current_ok_spec in Hc; tauto end.
  - rewrite eligible_update_node_shards. cbn. congruence.
Qed.

Lemma assign_shard_assigned strat H order st s st' n :
  assign_shard strat H order st s = (st', Done n) -> aget N.eqb s (st_asg st') = Some n.
Proof.
  intros Ha. apply assign_shard_result in Ha. inversion Ha; subst.
  - match goal with Hc : current_ok _ _ = Some _ |- _ => apply current_ok_spec in Hc; tauto end.
  - rewrite asg_update_node_shards. cbn. apply aget_aset_same.
Qed.

Lemma assign_shard_returns strat H order st s :
  snd (assign_shard strat H order st s) <> Hang /\ snd (assign_shard strat H order st s) <> Panic.
Proof.
  destruct (assign_shard strat H order st s) as [st' r] eqn:Ea.
  apply assign_shard_result in Ea. inversion Ea; subst; cbn; split; discriminate.
Qed.

(* eligibility of every node is the same before and after assign_shard *)
Lemma assign_shard_keeps_eligibility strat H order st s st' r m :
  assign_shard strat H order st s = (st', r) -> eligible (st_reg st') m = eligible (st_reg st) m.
Proof.
  intros Ha. apply assign_shard_result in Ha. inversion Ha; subst; auto.
  - rewrite eligible_update_node_shards. cbn. congruence.
  - congruence.
Qed.

(* ------------------------------------------------------------------------ *)
(* route_write                                                                *)
(* ------------------------------------------------------------------------ *)

(* 1. bounded: whatever happens to the registry between assignment and lookup, the call
      returns within MAX_ROUTE_ATTEMPTS + 1 loop tests *)
Lemma route_gen_fuel_bound interf strat H (orders : N -> list node) s : forall fuel attempt st,
  (N.to_nat (Consts.ROUTER_MAX_ROUTE_ATTEMPTS - attempt) < fuel)%nat ->
  snd (route_write_gen interf fuel attempt strat H orders st s) <> Hang.
Proof.
  induction fuel as [|f IH]; intros attempt st Hlt; [lia|].
  cbn [route_write_gen].
  destruct (Consts.ROUTER_MAX_ROUTE_ATTEMPTS <=? attempt) eqn:Ele; [cbn; discriminate|].
  apply N.leb_gt in Ele.
  destruct (assign_shard strat H (orders attempt) st s) as [st1 r] eqn:Ea.
  pose proof (assign_shard_returns strat H (orders attempt) st s) as [Hnh Hnp]. rewrite Ea in Hnh, Hnp. cbn in Hnh, Hnp.
  destruct r as [n|e| |]; cbn; try discriminate; try congruence.
  destruct (aget N.eqb n (interf attempt (st_reg st1))) as [i|]; [|cbn; discriminate].
  destruct (can_accept_writes i); [cbn; discriminate|].
  apply IH. lia.
Qed.

(* 2. an Ok(node) can accept writes in the registry as it is at the moment of the lookup *)
Lemma route_gen_eligible interf strat H (orders : N -> list node) s : forall fuel attempt st st' n,
  route_write_gen interf fuel attempt strat H orders st s = (st', Done n) ->
  eligible (st_reg st') n = true.
Proof.
  induction fuel as [|f IH]; intros attempt st st' n; cbn [route_write_gen]; [discriminate|].
  destruct (Consts.ROUTER_MAX_ROUTE_ATTEMPTS <=? attempt); [discriminate|].
  destruct (assign_shard strat H (orders attempt) st s) as [st1 r] eqn:Ea.
  destruct r as [m|e| |]; try discriminate.
  cbn [st_reg with_reg].
  destruct (aget N.eqb m (interf attempt (st_reg st1))) as [i|] eqn:Eg; [|discriminate].
  destruct (can_accept_writes i) eqn:Ec.
  - intros Heq. inversion Heq; subst. unfold eligible. cbn. now rewrite Eg.
  - apply IH.
Qed.

(* 3. without interference the first attempt always settles it: route_write is assign_shard *)
Lemma route_no_interf_single strat H (orders : N -> list node) st s f attempt :
  attempt < Consts.ROUTER_MAX_ROUTE_ATTEMPTS ->
  route_write_gen no_interf (S f) attempt strat H orders st s = assign_shard strat H (orders attempt) st s.
Proof.
  intros Hlt. cbn [route_write_gen].
  apply N.leb_gt in Hlt. rewrite Hlt.
  destruct (assign_shard strat H (orders attempt) st s) as [st1 r] eqn:Ea.
  destruct r as [n|e| |]; auto.
  pose proof (assign_shard_eligible _ _ _ _ _ _ _ Ea) as He.
  unfold no_interf. rewrite with_reg_same.
  unfold eligible in He. destruct (aget N.eqb n (st_reg st1)) as [i|]; [|discriminate].
  now rewrite He.
Qed.

Lemma route_write_is_assign strat H order st s :
  route_write strat H order st s = assign_shard strat H order st s.
Proof.
  unfold route_write, ROUTE_FUEL.
  apply (route_no_interf_single strat H (fun _ => order) st s _ 0 max_attempts_pos).
Qed.

(* fuel bound 1: a single loop iteration, in EVERY state (reachable or not) *)
Theorem route_terminates strat H order st s :
  snd (route_write_gen no_interf 1 0 strat H (fun _ => order) st s) <> Hang /\
  forall f, route_write_gen no_interf (S f) 0 strat H (fun _ => order) st s
            = route_write_gen no_interf 1 0 strat H (fun _ => order) st s.
Proof.
  split.
  - rewrite route_no_interf_single by apply max_attempts_pos. apply assign_shard_returns.
  - intros f. now rewrite !route_no_interf_single by apply max_attempts_pos.
Qed.

Theorem route_returns strat H order st s :
  snd (route_write strat H order st s) <> Hang /\ snd (route_write strat H order st s) <> Panic.
Proof. rewrite route_write_is_assign. apply assign_shard_returns. Qed.

Theorem route_eligible strat H order st s st' n :
  route_write strat H order st s = (st', Done n) ->
  exists i, aget N.eqb n (st_reg st') = Some i /\ eligible_spec i.
Proof.
  intros Hr. apply route_gen_eligible in Hr. unfold eligible in Hr.
  destruct (aget N.eqb n (st_reg st')) as [i|]; [|discriminate].
  exists i. split; auto. now apply can_accept_writes_spec.
Qed.

(* ... and that node could already accept writes before the call (routing changes nobody's
   status, type or load) *)
Theorem route_eligible_before strat H order st s st' n :
  route_write strat H order st s = (st', Done n) -> eligible (st_reg st) n = true.
Proof.
  rewrite route_write_is_assign. intros Ha.
  rewrite <- (assign_shard_keeps_eligibility _ _ _ _ _ _ _ n Ha). eapply assign_shard_eligible; eauto.
Qed.

(* the returned node is the node the shard is assigned to *)
Theorem route_result_assigned strat H order st s st' n :
  route_write strat H order st s = (st', Done n) -> aget N.eqb s (st_asg st') = Some n.
Proof. rewrite route_write_is_assign. apply assign_shard_assigned. Qed.

(* under interference: bounded, and an Ok is eligible at the moment of its lookup *)
Theorem route_bounded_under_interference interf strat H (orders : N -> list node) st s :
  snd (route_write_gen interf ROUTE_FUEL 0 strat H orders st s) <> Hang /\
  forall st' n, route_write_gen interf ROUTE_FUEL 0 strat H orders st s = (st', Done n) ->
                eligible (st_reg st') n = true.
Proof.
  split.
  - apply route_gen_fuel_bound. unfold ROUTE_FUEL. lia.
  - intros st' n. apply route_gen_eligible.
Qed.

(* availability: an error only when no node can accept writes *)
Theorem route_available strat H order st s :
  (forall n, vnode_hashes H n <> []) ->
  (exists n, eligible (st_reg st) n = true) ->
  exists n, snd (route_write strat H order st s) = Done n.
Proof.
  intros Hh [m Hm]. rewrite route_write_is_assign.
  unfold assign_shard, assign_shard_gen.
  destruct (current_ok st s) as [n|]; [cbn; eauto|].
  destruct (eligible_in_healthy order _ _ Hm) as [i Hin].
  assert (Hne : healthy_ingesters order (st_reg st) <> []) by (intros E; rewrite E in Hin; contradiction).
  destruct strat.
  - unfold assign_consistent_hash.
    destruct (match ring_get (st_ring st) (shard_hash H s) with
              | Some n => if eligible (st_reg st) n then Some n else None
              | None => None end) as [n|]; [cbn; eauto|].
    destruct (healthy_ingesters order (st_reg st)) as [|p t] eqn:Eh; [congruence|].
    assert (Hrb : ring_build H (p :: t) <> []) by (apply ring_build_nonempty; auto).
    destruct (ring_get_nonempty _ (shard_hash H s) Hrb) as [n Hn].
    rewrite Hn. cbn. eauto.
  - unfold assign_round_robin.
    destruct (min_by_key_some (fun i => N.of_nat (length (n_shards i))) _ Hne) as [p Hp]. rewrite Hp. cbn. eauto.
  - unfold assign_load_based.
    destruct (min_by_key_some n_load _ Hne) as [p Hp]. rewrite Hp. cbn. eauto.
Qed.

(* ------------------------------------------------------------------------ *)
(* histories                                                                  *)
(* ------------------------------------------------------------------------ *)
Definition asg_wf (st : state) : Prop := NoDup (map fst (st_asg st)).

Arguments route_write : simpl never.
Arguments rebalance : simpl never.
Arguments heartbeat : simpl never.

Lemma fold_update_shards_asg nodes : forall st,
  st_asg (fold_left (fun acc (p : node * ninfo) => update_node_shards acc (fst p)) nodes st) = st_asg st.
Proof. induction nodes as [|p t IH]; cbn; intros st; auto. now rewrite IH. Qed.

Lemma fold_update_shards_eligible nodes m : forall st,
  eligible (st_reg (fold_left (fun acc (p : node * ninfo) => update_node_shards acc (fst p)) nodes st)) m
  = eligible (st_reg st) m.
Proof. induction nodes as [|p t IH]; cbn; intros st; auto. now rewrite IH, eligible_update_node_shards. Qed.

Lemma apply_moves_nodup moves : forall a, NoDup (map fst a) -> NoDup (map fst (apply_moves moves a)).
Proof. induction moves as [|m t IH]; cbn; intros a Hnd; auto. apply IH, nodup_aset, Hnd. Qed.

Lemma rebalance_moves_sound H r a s o x :
  In (s, o, x) (rebalance_moves H r a) ->
  In (s, o) a /\ ring_get r (shard_hash H s) = Some x /\ x <> o.
Proof.
  unfold rebalance_moves. rewrite in_flat_map. intros [[qs qn] [Hq Hin]]. cbn in Hin.
  destruct (ring_get r (shard_hash H qs)) as [y|] eqn:Ey; [|contradiction].
  destruct (N.eqb y qn) eqn:E; [contradiction|]. destruct Hin as [Heq|[]].
  inversion Heq; subst. repeat split; auto. intros ->. now rewrite N.eqb_refl in E.
Qed.

Lemma rebalance_moves_complete H r a s o x :
  In (s, o) a -> ring_get r (shard_hash H s) = Some x -> x <> o -> In (s, o, x) (rebalance_moves H r a).
Proof.
  intros Hin Hx Hne. unfold rebalance_moves. apply in_flat_map. exists (s, o). split; auto.
  cbn. rewrite Hx. destruct (N.eqb x o) eqn:E; [apply N.eqb_eq in E; contradiction|now left].
Qed.

Lemma apply_moves_other s moves : forall a,
  (forall mv, In mv moves -> fst (fst mv) <> s) -> aget N.eqb s (apply_moves moves a) = aget N.eqb s a.
Proof.
  induction moves as [|m t IH]; cbn; intros a Hm; auto.
  rewrite IH by (intros; apply Hm; now right).
  apply aget_aset_other. intros E. apply (Hm m); auto.
Qed.

(* if every move of shard s goes to x, then after the moves s is on x or was never moved *)
Lemma apply_moves_get s x n moves : forall a,
  (forall mv, In mv moves -> fst (fst mv) = s -> snd mv = x) ->
  aget N.eqb s (apply_moves moves a) = Some n ->
  n = x \/ (aget N.eqb s a = Some n /\ forall mv, In mv moves -> fst (fst mv) <> s).
Proof.
  induction moves as [|mv tl IH]; cbn; intros a Hall Hg.
  - right. split; auto.
  - destruct (IH _ (fun mv' Hin => Hall mv' (or_intror Hin)) Hg) as [->|[Hg2 Hnone]]; auto.
    destruct (N.eq_dec (fst (fst mv)) s) as [Es|Es].
    + subst s. rewrite aget_aset_same in Hg2. injection Hg2 as <-. left. apply Hall; auto.
    + rewrite aget_aset_other in Hg2 by congruence. right. split; auto.
      intros mv' [<-|Hin]; auto.
Qed.

Lemma rebalance_asg_wf H order st st' m : rebalance H order st = (st', m) -> asg_wf st -> asg_wf st'.
Proof.
  unfold rebalance, asg_wf. destruct (healthy_ingesters order (st_reg st)) as [|p t].
  - intros Heq. inversion Heq; subst. auto.
  - intros Heq Hwf. inversion Heq; subst. rewrite fold_update_shards_asg. cbn. now apply apply_moves_nodup.
Qed.

Lemma rebalance_keeps_unassigned H order st st' m s :
  rebalance H order st = (st', m) -> aget N.eqb s (st_asg st) = None -> aget N.eqb s (st_asg st') = None.
Proof.
  unfold rebalance. destruct (healthy_ingesters order (st_reg st)) as [|p t].
  - intros Heq. inversion Heq; subst. auto.
  - intros Heq Hold. inversion Heq; subst. rewrite fold_update_shards_asg. cbn.
    rewrite apply_moves_other; auto.
    intros [[ms mo] mx] Hin. cbn. intros ->. apply rebalance_moves_sound in Hin.
    destruct Hin as [Hin _]. apply (in_map fst) in Hin. cbn in Hin.
    clear - Hold Hin. induction (st_asg st) as [|[k v] l IH]; cbn in *; [contradiction|].
    destruct (N.eqb s k) eqn:E; [discriminate|].
    destruct Hin as [->|Hin]; [now rewrite N.eqb_refl in E|auto].
Qed.

Lemma assign_shard_asg_wf strat H order st s st' r :
  assign_shard strat H order st s = (st', r) -> asg_wf st -> asg_wf st'.
Proof.
  unfold asg_wf. intros Ha Hwf. apply assign_shard_result in Ha. inversion Ha; subst; auto.
  - rewrite asg_update_node_shards. cbn. apply nodup_aset.
    match goal with Hq : st_asg _ = st_asg st |- _ => now rewrite Hq end.
  - match goal with Hq : st_asg _ = st_asg st |- _ => now rewrite Hq end.
Qed.

Lemma assign_shard_other strat H order st s st' r s' :
  assign_shard strat H order st s = (st', r) -> s' <> s ->
  aget N.eqb s' (st_asg st') = aget N.eqb s' (st_asg st).
Proof.
  intros Ha Hne. apply assign_shard_result in Ha. inversion Ha; subst; auto.
  - rewrite asg_update_node_shards. cbn. rewrite aget_aset_other by auto. congruence.
  - congruence.
Qed.

(* route_write under interference: the assignment map stays a map, and only the routed shard's
   entry can change *)
Lemma route_gen_asg_wf interf strat H (orders : N -> list node) s : forall fuel attempt st st' r,
  route_write_gen interf fuel attempt strat H orders st s = (st', r) -> asg_wf st -> asg_wf st'.
Proof.
  induction fuel as [|f IH]; intros attempt st st' r; cbn [route_write_gen].
  - intros Heq Hwf. inversion Heq; subst. exact Hwf.
  - destruct (Consts.ROUTER_MAX_ROUTE_ATTEMPTS <=? attempt).
    + intros Heq Hwf. inversion Heq; subst. exact Hwf.
    + destruct (assign_shard strat H (orders attempt) st s) as [st1 r1] eqn:Ea. intros Heq Hwf.
      pose proof (assign_shard_asg_wf _ _ _ _ _ _ _ Ea Hwf) as Hwf1.
      destruct r1 as [n|e| |]; try (inversion Heq; subst; exact Hwf1).
      cbn [st_reg with_reg] in Heq.
      destruct (aget N.eqb n (interf attempt (st_reg st1))) as [i|]; [|inversion Heq; subst; exact Hwf1].
      destruct (can_accept_writes i); [inversion Heq; subst; exact Hwf1|].
      eapply IH; [exact Heq|]. unfold asg_wf, unassign. cbn. apply nodup_adel. exact Hwf1.
Qed.

Lemma route_gen_other_shards interf strat H (orders : N -> list node) s s' : s' <> s -> forall fuel attempt st st' r,
  route_write_gen interf fuel attempt strat H orders st s = (st', r) ->
  aget N.eqb s' (st_asg st') = aget N.eqb s' (st_asg st).
Proof.
  intros Hne. induction fuel as [|f IH]; intros attempt st st' r; cbn [route_write_gen].
  - intros Heq. inversion Heq; subst. reflexivity.
  - destruct (Consts.ROUTER_MAX_ROUTE_ATTEMPTS <=? attempt).
    + intros Heq. inversion Heq; subst. reflexivity.
    + destruct (assign_shard strat H (orders attempt) st s) as [st1 r1] eqn:Ea. intros Heq.
      pose proof (assign_shard_other _ _ _ _ _ _ _ _ Ea Hne) as Ho.
      destruct r1 as [n|e| |]; try (inversion Heq; subst; exact Ho).
      cbn [st_reg with_reg] in Heq.
      destruct (aget N.eqb n (interf attempt (st_reg st1))) as [i|]; [|inversion Heq; subst; exact Ho].
      destruct (can_accept_writes i); [inversion Heq; subst; exact Ho|].
      rewrite (IH _ _ _ _ Heq). unfold unassign. cbn. rewrite aget_adel_other by auto. exact Ho.
Qed.

Arguments route_write_gen : simpl never.

Lemma step_asg_wf strat H st o st' r : step strat H st o = (st', r) -> asg_wf st -> asg_wf st'.
Proof.
  destruct o; cbn; try (intros Heq Hwf; inversion Heq; subst; exact Hwf).
  - destruct (heartbeat n (st_reg st)). intros Heq Hwf. inversion Heq; subst. exact Hwf.
  - destruct (rebalance H order st) as [st1 m] eqn:Er. intros Heq. inversion Heq; subst.
    eapply rebalance_asg_wf; eauto.
  - destruct (route_write strat H order st s) as [st1 r1] eqn:Er. intros Heq. inversion Heq; subst.
    rewrite route_write_is_assign in Er. eapply assign_shard_asg_wf; eauto.
  - destruct (route_write_gen (interf_of specs) ROUTE_FUEL 0 strat H (order_at orders) st s) as [st1 r1] eqn:Er.
    intros Heq. inversion Heq; subst. eapply route_gen_asg_wf; eauto.
Qed.

Lemma run_from_asg_wf strat H h : forall st, asg_wf st -> asg_wf (run_from strat H st h).
Proof.
  induction h as [|o t IH]; cbn; intros st Hwf; auto.
  apply IH. destruct (step strat H st o) as [st' r] eqn:Es. cbn. eapply step_asg_wf; eauto.
Qed.

(* a shard is assigned to one node at a time, after every history *)
Theorem one_node_per_shard strat H h s n1 n2 :
  In (s, n1) (st_asg (run strat H h)) -> In (s, n2) (st_asg (run strat H h)) -> n1 = n2.
Proof.
  apply nodup_keys_functional. apply (run_from_asg_wf strat H h init_state). constructor.
Qed.

(* a shard's assignment changes only by a rebalance, or by routing that very shard while its
   node cannot accept writes *)
Theorem moves_only_when_ineligible_or_rebalanced strat H st o st' r s n :
  step strat H st o = (st', r) ->
  aget N.eqb s (st_asg st) = Some n ->
  aget N.eqb s (st_asg st') <> Some n ->
  (exists order, o = ORebalance order) \/
  (exists order, o = ORoute s order /\ eligible (st_reg st) n = false) \/
  (exists orders specs, o = ORouteI s orders specs).
Proof.
  destruct o; cbn; try (intros Heq; inversion Heq; subst; cbn; congruence).
  - destruct (heartbeat n0 (st_reg st)). intros Heq. inversion Heq; subst. cbn. congruence.
  - intros _ _ _. left. eauto.
  - destruct (route_write strat H order st s0) as [st1 r1] eqn:Er. intros Heq Hold Hnew.
    inversion Heq; subst. right. left. exists order.
    rewrite route_write_is_assign in Er. apply assign_shard_result in Er.
    inversion Er; subst; try congruence.
    rewrite asg_update_node_shards in Hnew. cbn in Hnew.
    destruct (N.eq_dec s s0) as [->|Hne].
    + split; auto.
      match goal with Hc : current_ok _ _ = None |- _ => unfold current_ok in Hc; rewrite Hold in Hc end.
      destruct (eligible (st_reg st) n); [discriminate|reflexivity].
    + rewrite aget_aset_other in Hnew by auto. congruence.
  - destruct (route_write_gen (interf_of specs) ROUTE_FUEL 0 strat H (order_at orders) st s0) as [st1 r1] eqn:Er.
    intros Heq Hold Hnew. inversion Heq; subst. right. right.
    destruct (N.eq_dec s s0) as [->|Hne]; [eauto|].
    exfalso. apply Hnew. rewrite (route_gen_other_shards _ _ _ _ _ _ Hne _ _ _ _ _ Er). exact Hold.
Qed.

(* the same, along histories: a shard leaves its node only by a rebalance, by routing that very
   shard while its node cannot accept writes, or by a route of that very shard during which
   other tasks changed the registry (the node then failed the lookup of some attempt) *)
Theorem moves_only_when_ineligible_or_rebalanced_hist strat H h o s n :
  let st := run strat H h in
  let st' := run strat H (h ++ [o]) in
  aget N.eqb s (st_asg st) = Some n ->
  aget N.eqb s (st_asg st') <> Some n ->
  (exists order, o = ORebalance order) \/
  (exists order, o = ORoute s order /\ eligible (st_reg st) n = false) \/
  (exists orders specs, o = ORouteI s orders specs).
Proof.
  cbn. unfold run, run_from. rewrite fold_left_app. cbn.
  destruct (step strat H (fold_left (fun acc o0 => fst (step strat H acc o0)) h init_state) o) as [st' r] eqn:Es.
  cbn. eapply moves_only_when_ineligible_or_rebalanced; eauto.
Qed.

(* a shard becomes assigned only by being routed *)
Theorem assigned_only_by_route strat H st o st' r s :
  step strat H st o = (st', r) ->
  aget N.eqb s (st_asg st) = None ->
  aget N.eqb s (st_asg st') <> None ->
  (exists order, o = ORoute s order) \/ (exists orders specs, o = ORouteI s orders specs).
Proof.
  destruct o; cbn; try (intros Heq; inversion Heq; subst; cbn; congruence).
  - destruct (heartbeat n (st_reg st)). intros Heq. inversion Heq; subst. cbn. congruence.
  - destruct (rebalance H order st) as [st1 m] eqn:Er. intros Heq Hold Hnew. inversion Heq; subst.
    exfalso. apply Hnew. eapply rebalance_keeps_unassigned; eauto.
  - destruct (route_write strat H order st s0) as [st1 r1] eqn:Er. intros Heq Hold Hnew.
    inversion Heq; subst. left. exists order.
    rewrite route_write_is_assign in Er. apply assign_shard_result in Er.
    inversion Er; subst; try congruence.
    rewrite asg_update_node_shards in Hnew. cbn in Hnew.
    destruct (N.eq_dec s s0) as [->|Hne]; auto.
    rewrite aget_aset_other in Hnew by auto. congruence.
  - destruct (route_write_gen (interf_of specs) ROUTE_FUEL 0 strat H (order_at orders) st s0) as [st1 r1] eqn:Er.
    intros Heq Hold Hnew. inversion Heq; subst. right.
    destruct (N.eq_dec s s0) as [->|Hne]; [eauto|].
    exfalso. apply Hnew. rewrite (route_gen_other_shards _ _ _ _ _ _ Hne _ _ _ _ _ Er). exact Hold.
Qed.

(* after a rebalance that found a healthy ingester, every assigned shard sits on a node that
   can accept writes *)
Theorem rebalance_all_eligible H order st st' m s n :
  rebalance H order st = (st', m) ->
  healthy_ingesters order (st_reg st) <> [] ->
  (forall k, vnode_hashes H k <> []) ->
  aget N.eqb s (st_asg st') = Some n -> eligible (st_reg st') n = true.
Proof.
  unfold rebalance.
  destruct (healthy_ingesters order (st_reg st)) as [|p t] eqn:Eh; [congruence|].
  intros Heq _ Hh. inversion Heq; subst. clear Heq.
  rewrite fold_update_shards_asg, fold_update_shards_eligible, ?eligible_update_node_shards.
  cbn [st_asg st_reg update_node_shards with_reg].
  set (r := ring_build H (p :: t)).
  assert (Hring : forall k x, ring_get r k = Some x -> eligible (st_reg st) x = true).
  { intros k x Hg. apply ring_get_in, ring_build_nodes, in_map_iff in Hg.
    destruct Hg as [q [<- Hin]]. rewrite <- Eh in Hin. eapply healthy_eligible; eauto. }
  assert (Hrb : r <> []) by (apply ring_build_nonempty; auto; discriminate).
  destruct (ring_get_nonempty r (shard_hash H s) Hrb) as [x Hx].
  intros Hget.
  assert (Hall : forall mv, In mv (rebalance_moves H r (st_asg st)) -> fst (fst mv) = s -> snd mv = x).
  { intros [[ms mo] mx] Hin. cbn. intros ->. apply rebalance_moves_sound in Hin.
    destruct Hin as [_ [Hr _]]. rewrite Hx in Hr. now inversion Hr. }
  destruct (apply_moves_get s x n _ _ Hall Hget) as [->|[Hg Hnone]].
  - eapply Hring; eauto.
  - destruct (N.eq_dec x n) as [->|Hne]; [eapply Hring; eauto|].
    exfalso. apply (Hnone (s, n, x)); auto.
    apply rebalance_moves_complete; auto. now apply aget_In.
Qed.

(* the property in one statement: after every history, under every strategy, for every shard
   and every iteration order, route_write returns — either a node that is registered, healthy,
   of an ingesting type and below the load threshold (and the shard is assigned to exactly that
   node), or an error; it neither hangs nor panics *)
Theorem route_total_and_eligible strat H h s order :
  match route_write strat H order (run strat H h) s with
  | (st', Done n) =>
      (exists i, aget N.eqb n (st_reg st') = Some i /\ eligible_spec i) /\
      aget N.eqb s (st_asg st') = Some n
  | (_, Failed _) => True
  | (_, Hang) | (_, Panic) => False
  end.
Proof.
  destruct (route_write strat H order (run strat H h) s) as [st' r] eqn:Er.
  pose proof (route_returns strat H order (run strat H h) s) as [Hh Hp]. rewrite Er in Hh, Hp. cbn in Hh, Hp.
  destruct r as [n|e| |]; auto.
  split; [eapply route_eligible; eauto|eapply route_result_assigned; eauto].
Qed.

(* ------------------------------------------------------------------------ *)
(* the code before the fix: the loop witness                                  *)
(* ------------------------------------------------------------------------ *)
Definition witness_hashes : hashes := mkHashes (fun _ => [5%Z]) (fun _ => 0%Z).
(* one ingester; shard 2 routed to it; the node drained *)
Definition witness_state : state :=
  mkState [(0, mkNode Ingester Draining 0 [2])] [(2, 0)] [(5%Z, 0)].

Lemma legacy_route_unfold strat H order st s f st1 n i :
  assign_shard_gen legacy_assign_consistent_hash strat H order st s = (st1, Done n) ->
  aget N.eqb n (st_reg st1) = Some i -> can_accept_writes i = false ->
  legacy_route_write (S f) strat H order st s = legacy_route_write f strat H order (unassign s st1) s.
Proof. intros Ha Hg Hc. cbn [legacy_route_write]. now rewrite Ha, Hg, Hc. Qed.

Definition witness_loop_state : state :=
  mkState [(0, mkNode Ingester Draining 0 [2; 3])] [(2, 0)] [(5%Z, 0)].
Definition witness_assigned_state : state :=
  mkState [(0, mkNode Ingester Draining 0 [2; 3])] [(2, 0); (3, 0)] [(5%Z, 0)].

(* one turn of the recursion: assign to the drained node 0 again, see that it cannot accept
   writes, unassign, call again — in the same state as before *)
Lemma legacy_loop_step st f :
  st = witness_state \/ st = witness_loop_state ->
  legacy_route_write (S f) ConsistentHash witness_hashes [0] st 3
  = legacy_route_write f ConsistentHash witness_hashes [0] witness_loop_state 3.
Proof.
  intros [-> | ->];
    apply (legacy_route_unfold ConsistentHash witness_hashes [0] _ 3 f witness_assigned_state 0
             (mkNode Ingester Draining 0 [2; 3])); vm_compute; reflexivity.
Qed.

Lemma legacy_loops_from_loop_state : forall fuel,
  snd (legacy_route_write fuel ConsistentHash witness_hashes [0] witness_loop_state 3) = Hang.
Proof.
  induction fuel as [|f IH]; [reflexivity|].
  rewrite legacy_loop_step by (now right). exact IH.
Qed.

(* pre-fix: routing any shard after the only ring node was drained never returns *)
Theorem prefix_route_loops_forever : forall fuel,
  snd (legacy_route_write fuel ConsistentHash witness_hashes [0] witness_state 3) = Hang.
Proof.
  destruct fuel as [|f]; [reflexivity|].
  rewrite legacy_loop_step by (now left). apply legacy_loops_from_loop_state.
Qed.

(* the same state, repaired code: an error (no node can accept writes), at once *)
Example fixed_route_on_witness :
  snd (route_write ConsistentHash witness_hashes [0] witness_state 3) = Failed E_NO_HEALTHY.
Proof. vm_compute. reflexivity. Qed.

(* the witness state is what the history of DESIGN §6 produces (both versions agree up to there) *)
Example witness_state_reached :
  run ConsistentHash witness_hashes [ORegister 0 Ingester Healthy 0 []; ORoute 2 [0]; ODrain 0] = witness_state.
Proof. vm_compute. reflexivity. Qed.

(* ------------------------------------------------------------------------ *)
(* non-vacuity                                                                *)
(* ------------------------------------------------------------------------ *)
Definition ex_hashes : hashes :=
  mkHashes (fun n => [Z.of_N n * 100 + 10; Z.of_N n * 100 + 50]%Z) (fun s => (Z.of_N s * 37)%Z).
Definition ex_history : list op :=
  [ORegister 0 Ingester Healthy 0 []; ORegister 1 Combined Healthy 10 []; ORoute 1 [0; 1]; ORoute 4 [1; 0]].

(* route returns Ok (route_eligible is not vacuous) *)
Example ex_route_ok :
  snd (route_write ConsistentHash ex_hashes [0; 1] (run ConsistentHash ex_hashes ex_history) 1) = Done 0.
Proof. vm_compute. reflexivity. Qed.

(* a shard moves because its node was drained (the premises of moves_only_... are satisfiable) *)
Example ex_move_when_ineligible :
  let st := run ConsistentHash ex_hashes (ex_history ++ [ODrain 0]) in
  aget N.eqb 1 (st_asg st) = Some 0 /\
  aget N.eqb 1 (st_asg (fst (step ConsistentHash ex_hashes st (ORoute 1 [0; 1])))) = Some 1.
Proof. vm_compute. split; reflexivity. Qed.

(* interference: the node is drained by somebody else between assignment and lookup at every
   attempt — the call still returns, with the bounded-retry error *)
Example ex_interference_bounded :
  snd (route_write_gen (fun _ r => reg_update 0 (set_status Draining) (reg_update 1 (set_status Draining) r))
         ROUTE_FUEL 0 ConsistentHash ex_hashes (fun _ => [0; 1])
         (run ConsistentHash ex_hashes ex_history) 7) = Failed E_NO_HEALTHY.
Proof. vm_compute. reflexivity. Qed.

(* a rebalance that finds healthy ingesters (premise of rebalance_all_eligible) *)
Example ex_rebalance_premises :
  healthy_ingesters [0; 1] (st_reg (run ConsistentHash ex_hashes ex_history)) <> [] /\
  (forall k, vnode_hashes ex_hashes k <> []).
Proof. split; [vm_compute; discriminate|intros k; cbn; discriminate]. Qed.

(* a shard moves during a route because another task drained its node between the assignment
   and the lookup (third case of moves_only_when_ineligible_or_rebalanced): the retry is taken
   once and the call returns the other node *)
Example ex_move_under_interference :
  let h := [ORegister 0 Ingester Healthy 0 []; ORegister 1 Ingester Healthy 0 []; ORoute 1 [0; 1]] in
  let st := run RoundRobin ex_hashes h in
  aget N.eqb 1 (st_asg st) = Some 0 /\ eligible (st_reg st) 0 = true /\
  step RoundRobin ex_hashes st (ORouteI 1 [[0; 1]] [[RStatus 0 Draining]])
  = (mkState [(0, mkNode Ingester Draining 0 [1]); (1, mkNode Ingester Healthy 0 [1])] [(1, 1)] [],
     RRoute (Done 1)).
Proof. vm_compute. repeat split; reflexivity. Qed.
