(* Proofs/LeaseProofs.v — C08: compaction leases are exclusive while live and
   reclaimable once expired (model: Model/Lease.v; retry machine: Base/CasProto.v).

   Plan:
     1. facts about the table operations (filter / aset / aget);
     2. every operation body preserves  LInv = unique keys + StrongExcl
        (any two DISTINCT ACTIVE leases have disjoint chunk lists — expiry is
        ignored, so this is stronger than the property);
     3. object-store backend: CasProto.cas_invariant lifts 2 to every version
        ever written and to everything a reader can ever GET, for every
        schedule of requests and clock ticks, any number of nodes;
     4. in-memory backend: induction over histories of operations and ticks;
     5. the time-dependent clauses: acquire succeeds exactly when no live
        lease overlaps; renew tells a reclaimed holder; a lease whose every
        later committed operation is decided before its current deadline is
        never dropped (and nobody else gets its chunks); the arithmetic
        renew period + total backoff < TTL from the Rust constants. *)
From CS Require Import Base.Prelude Base.CasProto Proofs.CasProtoProofs Model.Lease.
From CSGen Require Import Consts Funs.
Open Scope Z_scope.

(* ------------------------------------------------------------------ *)
(* 1. lists                                                            *)
(* ------------------------------------------------------------------ *)
Lemma memN_iff x l : memN x l = true <-> In x l.
Proof.
  induction l as [|y r IH]; simpl; [split; [discriminate|tauto]|].
  rewrite orb_true_iff, N.eqb_eq, IH. split; intros [H|H]; auto.
Qed.

Lemma filter_nil_iff {A} (f : A -> bool) l : filter f l = [] <-> forall x, In x l -> f x = false.
Proof.
  induction l as [|a r IH]; simpl; [split; [intros _ x []|reflexivity]|].
  destruct (f a) eqn:E.
  - split; [discriminate|]. intros H. rewrite (H a) in E; [discriminate|left; reflexivity].
  - rewrite IH. split.
    + intros H x [Hx|Hx]; [subst; exact E|apply H; exact Hx].
    + intros H x Hx. apply H. right. exact Hx.
Qed.

Lemma aget_In k (v : lease) t : aget N.eqb k t = Some v -> In (k, v) t.
Proof.
  induction t as [|[k' v'] r IH]; simpl; [discriminate|].
  destruct (N.eqb k k') eqn:E.
  - intros H. inversion H; subst. apply N.eqb_eq in E. subst. left. reflexivity.
  - intros H. right. apply IH. exact H.
Qed.

Lemma aget_none_notin k t : aget N.eqb k t = None -> forall v : lease, ~ In (k, v) t.
Proof.
  induction t as [|[k' v'] r IH]; simpl; [intros _ v []|].
  destruct (N.eqb k k') eqn:E; [discriminate|].
  intros H v [Hx|Hx].
  - inversion Hx; subst. rewrite N.eqb_refl in E. discriminate.
  - apply (IH H v Hx).
Qed.

Lemma In_aset_weak j (x : lease) k v t :
  In (j, x) (aset N.eqb k v t) -> (j = k /\ x = v) \/ In (j, x) t.
Proof.
  induction t as [|[k' v'] r IH]; simpl.
  - intros [H|[]]. inversion H; subst. left. split; reflexivity.
  - destruct (N.eqb k k') eqn:E.
    + apply N.eqb_eq in E. subst k'. intros [H|H].
      * inversion H; subst. left. split; reflexivity.
      * right. right. exact H.
    + intros [H|H]; [right; left; exact H|].
      destruct (IH H) as [A|A]; [left; exact A|right; right; exact A].
Qed.

Lemma aget_aset_same k (v : lease) t : aget N.eqb k (aset N.eqb k v t) = Some v.
Proof.
  induction t as [|[k' v'] r IH]; simpl.
  - rewrite N.eqb_refl. reflexivity.
  - destruct (N.eqb k k') eqn:E; simpl; rewrite E; [reflexivity|exact IH].
Qed.

Lemma aget_aset_other k k' (v : lease) t : k <> k' -> aget N.eqb k (aset N.eqb k' v t) = aget N.eqb k t.
Proof.
  intros Hne. induction t as [|[k2 v2] r IH]; simpl.
  - destruct (N.eqb k k') eqn:E; [apply N.eqb_eq in E; contradiction|reflexivity].
  - destruct (N.eqb k' k2) eqn:E2; simpl.
    + apply N.eqb_eq in E2. subst k2.
      destruct (N.eqb k k') eqn:E; [apply N.eqb_eq in E; contradiction|reflexivity].
    + destruct (N.eqb k k2); [reflexivity|exact IH].
Qed.

Lemma aget_filter_keep (f : N * lease -> bool) k v t :
  aget N.eqb k t = Some v -> f (k, v) = true -> aget N.eqb k (filter f t) = Some v.
Proof.
  induction t as [|[k' v'] r IH]; simpl; [discriminate|].
  destruct (N.eqb k k') eqn:E.
  - intros H Hf. inversion H; subst v'. apply N.eqb_eq in E. subst k'.
    rewrite Hf. simpl. rewrite N.eqb_refl. reflexivity.
  - intros H Hf. destruct (f (k', v')); simpl; [rewrite E|]; apply IH; assumption.
Qed.

Lemma aget_filter_none (f : N * lease -> bool) k t :
  aget N.eqb k t = None -> aget N.eqb k (filter f t) = None.
Proof.
  induction t as [|[k' v'] r IH]; simpl; [reflexivity|].
  destruct (N.eqb k k') eqn:E; [discriminate|].
  intros H. destruct (f (k', v')); simpl; [rewrite E|]; apply IH; exact H.
Qed.

Definition keys_nodup (t : table) : Prop := NoDup (map fst t).

Lemma keys_filter (f : N * lease -> bool) t : keys_nodup t -> keys_nodup (filter f t).
Proof.
  unfold keys_nodup. induction t as [|[k v] r IH]; simpl; [intros H; exact H|].
  intros H. inversion H as [|? ? Hn Hr]; subst.
  destruct (f (k, v)); simpl; [|apply IH; exact Hr].
  constructor; [|apply IH; exact Hr].
  intros Hin. apply Hn. apply in_map_iff in Hin. destruct Hin as [[k' v'] [Hk Hin]].
  apply filter_In in Hin. apply in_map_iff. exists (k', v'). split; [exact Hk|tauto].
Qed.

Lemma keys_aset k (v : lease) t :
  map fst (aset N.eqb k v t) = if amem N.eqb k t then map fst t else map fst t ++ [k].
Proof.
  unfold amem. induction t as [|[k' v'] r IH]; simpl; [reflexivity|].
  destruct (N.eqb k k') eqn:E; simpl; [reflexivity|].
  rewrite IH. destruct (aget N.eqb k r); reflexivity.
Qed.

Lemma aget_none_key k (t : table) : aget N.eqb k t = None -> ~ In k (map fst t).
Proof.
  intros H Hin. apply in_map_iff in Hin. destruct Hin as [[k' v] [Hk Hin]]. simpl in Hk. subst k'.
  apply (aget_none_notin _ _ H v Hin).
Qed.

Lemma nodup_snoc (l : list N) k : NoDup l -> ~ In k l -> NoDup (l ++ [k]).
Proof.
  induction l as [|a r IH]; simpl; intros H Hn.
  - constructor; [intros []|constructor].
  - inversion H as [|? ? Ha Hr]; subst. constructor.
    + intros Hin. apply in_app_or in Hin. destruct Hin as [Hin|[Hin|[]]]; [apply Ha; exact Hin|].
      apply Hn. left. symmetry. exact Hin.
    + apply IH; [exact Hr|]. intros Hin. apply Hn. right. exact Hin.
Qed.

Lemma keys_aset_nodup k (v : lease) t : keys_nodup t -> keys_nodup (aset N.eqb k v t).
Proof.
  unfold keys_nodup. intros H. rewrite keys_aset. unfold amem.
  destruct (aget N.eqb k t) eqn:E; [exact H|].
  apply nodup_snoc; [exact H|apply aget_none_key; exact E].
Qed.

(* ------------------------------------------------------------------ *)
(* 1b. the comparisons written in the code are the named predicates     *)
(*     (generated/Funs.v is re-translated from the Rust sources on every *)
(*     run: a changed operator breaks these lemmas)                      *)
(* ------------------------------------------------------------------ *)
Lemma status_code_active l : Z.eqb (status_code (l_status l)) active_code = is_active l.
Proof. unfold is_active, status_code, active_code. destruct (l_status l); reflexivity. Qed.

Lemma acq_keep_spec b now l : acq_keep b now l = negb (expired now l).
Proof.
  unfold acq_keep, expired, lease_s3_acquire_keep, lease_local_acquire_keep.
  destruct b; rewrite status_code_active; reflexivity.
Qed.

Lemma acq_live_spec b now l : acq_live b now l = live now l.
Proof.
  unfold acq_live, live, lease_s3_acquire_live, lease_local_acquire_live.
  destruct b; rewrite status_code_active, Z.gtb_ltb; reflexivity.
Qed.

Lemma renew_refuse_spec b now l : renew_refuse b now l = negb (is_active l).
Proof.
  unfold renew_refuse, lease_s3_renew_refuse, lease_local_renew_refuse.
  destruct b; rewrite status_code_active; reflexivity.
Qed.

Lemma scav_keep_spec b now l : scav_keep b now l = live now l.
Proof.
  unfold scav_keep, live, lease_s3_scavenge_cond, lease_s3_scavenge_then,
    lease_local_scavenge_cond, lease_local_scavenge_then.
  destruct b; rewrite status_code_active, Z.gtb_ltb; destruct (is_active l); reflexivity.
Qed.

(* the bodies the backends run are the bodies the theorems talk about *)
Theorem body_code_eq b cfg now op t : lease_body_code b cfg now op t = lease_body b cfg now op t.
Proof.
  destruct op as [id h cs lv|id|id|id|]; simpl; try reflexivity.
  - assert (E1 : filter (fun x : N * lease => acq_keep b now (snd x)) t = drop_expired now t).
    { unfold drop_expired. apply filter_ext. intros x. apply acq_keep_spec. }
    rewrite E1.
    assert (E2 : flat_map (fun x : N * lease => if acq_live b now (snd x) then l_chunks (snd x) else [])
                          (drop_expired now t) = leased_chunks now (drop_expired now t)).
    { unfold leased_chunks. apply flat_map_ext. intros x. rewrite acq_live_spec. reflexivity. }
    rewrite E2. reflexivity.
  - destruct (aget N.eqb id t) as [l|]; [|reflexivity].
    rewrite renew_refuse_spec. destruct (is_active l); reflexivity.
  - assert (E : filter (fun x : N * lease => scav_keep b now (snd x)) t = keep_live now t).
    { unfold keep_live. apply filter_ext. intros x. apply scav_keep_spec. }
    rewrite E. reflexivity.
Qed.

(* ------------------------------------------------------------------ *)
(* 2. the invariant                                                    *)
(* ------------------------------------------------------------------ *)
Definition share (a b : list N) : Prop := exists c, In c a /\ In c b.

(* any two distinct ACTIVE leases are disjoint, expired or not *)
Definition StrongExcl (t : table) : Prop :=
  forall i j l1 l2, In (i, l1) t -> In (j, l2) t -> i <> j ->
    is_active l1 = true -> is_active l2 = true -> ~ share (l_chunks l1) (l_chunks l2).

(* the property's predicate at instant [now]: any two distinct leases that
   are active and unexpired at [now] are disjoint *)
Definition Excl (now : Z) (t : table) : Prop :=
  forall i j l1 l2, In (i, l1) t -> In (j, l2) t -> i <> j ->
    live now l1 = true -> live now l2 = true -> ~ share (l_chunks l1) (l_chunks l2).

Definition LInv (t : table) : Prop := keys_nodup t /\ StrongExcl t.

Lemma live_active now l : live now l = true -> is_active l = true.
Proof. unfold live. intros H. apply andb_true_iff in H. tauto. Qed.

Lemma strong_excl_at t : StrongExcl t -> forall now, Excl now t.
Proof.
  intros H now i j l1 l2 H1 H2 Hne A1 A2.
  apply (H i j l1 l2 H1 H2 Hne); eapply live_active; eassumption.
Qed.

Lemma LInv_nil : LInv [].
Proof. split; [constructor|]. intros i j l1 l2 []. Qed.

Lemma strong_filter (f : N * lease -> bool) t : StrongExcl t -> StrongExcl (filter f t).
Proof.
  intros H i j l1 l2 H1 H2. apply filter_In in H1. apply filter_In in H2.
  apply H; tauto.
Qed.

Lemma share_sym a b : share a b -> share b a.
Proof. intros [c [A B]]. exists c. tauto. Qed.

(* replacing the lease under an existing key by one with the same chunks and
   no more active than before *)
Lemma strong_update k l l' t :
  StrongExcl t -> aget N.eqb k t = Some l ->
  l_chunks l' = l_chunks l -> (is_active l' = true -> is_active l = true) ->
  StrongExcl (aset N.eqb k l' t).
Proof.
  intros H Hg Hc Ha i j l1 l2 H1 H2 Hne A1 A2.
  pose proof (aget_In _ _ _ Hg) as Hin.
  destruct (In_aset_weak _ _ _ _ _ H1) as [[E1 E1']|O1];
  destruct (In_aset_weak _ _ _ _ _ H2) as [[E2 E2']|O2].
  - subst. contradiction.
  - subst i l1. rewrite Hc. apply (H k j l l2 Hin O2 Hne (Ha A1) A2).
  - subst j l2. rewrite Hc. apply (H i k l1 l O1 Hin Hne A1 (Ha A2)).
  - apply (H i j l1 l2 O1 O2 Hne A1 A2).
Qed.

Lemma In_leased_chunks now t c :
  In c (leased_chunks now t) <-> exists j l, In (j, l) t /\ live now l = true /\ In c (l_chunks l).
Proof.
  unfold leased_chunks. rewrite in_flat_map. split.
  - intros [[j l] [Hin Hc]]. simpl in Hc. destruct (live now l) eqn:E; [|destruct Hc].
    exists j, l. tauto.
  - intros [j [l [Hin [Hl Hc]]]]. exists (j, l). split; [exact Hin|]. simpl. rewrite Hl. exact Hc.
Qed.

(* after the expired actives have been dropped every active lease is live *)
Lemma drop_expired_live now t j l :
  In (j, l) (drop_expired now t) -> is_active l = true -> live now l = true.
Proof.
  unfold drop_expired. intros Hin Ha. apply filter_In in Hin. destruct Hin as [_ Hf]. simpl in Hf.
  unfold expired in Hf. unfold live. rewrite Ha in *. simpl in *.
  apply negb_true_iff in Hf. apply Z.leb_gt in Hf. apply Z.ltb_lt. exact Hf.
Qed.

Lemma live_not_expired now l : live now l = true -> expired now l = false.
Proof.
  unfold live, expired. intros H. apply andb_true_iff in H. destruct H as [A B]. rewrite A. simpl.
  apply Z.ltb_lt in B. apply Z.leb_gt. exact B.
Qed.

Lemma no_conflicts_disjoint now t cs :
  conflicts now t cs = [] ->
  forall j l, In (j, l) t -> live now l = true -> ~ share cs (l_chunks l).
Proof.
  unfold conflicts. intros H j l Hin Hl [c [Hc1 Hc2]].
  rewrite filter_nil_iff in H. specialize (H c Hc1).
  assert (memN c (leased_chunks now t) = true) as Hm.
  { apply memN_iff. apply In_leased_chunks. exists j, l. tauto. }
  rewrite Hm in H. discriminate.
Qed.

Lemma disjoint_no_conflicts now t cs :
  (forall j l, In (j, l) t -> live now l = true -> ~ share cs (l_chunks l)) ->
  conflicts now t cs = [].
Proof.
  intros H. unfold conflicts. apply filter_nil_iff. intros c Hc.
  destruct (memN c (leased_chunks now t)) eqn:E; [|reflexivity].
  apply memN_iff in E. apply In_leased_chunks in E. destruct E as [j [l [Hin [Hl Hcl]]]].
  exfalso. apply (H j l Hin Hl). exists c. tauto.
Qed.

(* inserting a new active lease that is disjoint from every active lease *)
Lemma strong_insert k l t :
  StrongExcl t ->
  (forall j l2, In (j, l2) t -> j <> k -> is_active l2 = true -> ~ share (l_chunks l) (l_chunks l2)) ->
  StrongExcl (aset N.eqb k l t).
Proof.
  intros H Hd i j l1 l2 H1 H2 Hne A1 A2.
  destruct (In_aset_weak _ _ _ _ _ H1) as [[E1 E1']|O1];
  destruct (In_aset_weak _ _ _ _ _ H2) as [[E2 E2']|O2].
  - subst. contradiction.
  - subst i l1. apply (Hd j l2 O2); [intros E; apply Hne; symmetry; exact E|exact A2].
  - subst j l2. intros Hs. apply share_sym in Hs. revert Hs. apply (Hd i l1 O1 Hne A1).
  - apply (H i j l1 l2 O1 O2 Hne A1 A2).
Qed.

Section Body.
  Variable b : backend.
  Variable cfg : lcfg.

  Lemma set_status_chunks l s : l_chunks (set_status l s) = l_chunks l.
  Proof. reflexivity. Qed.

  (* every operation body, on either backend, preserves the invariant *)
  Lemma body_preserves now op t t' o :
    LInv t -> lease_body b cfg now op t = Write t' o -> LInv t'.
  Proof.
    intros [Hk Hs] Hb. destruct op as [id h cs lv|id|id|id|]; simpl in Hb.
    - (* acquire *)
      destruct (conflicts now (drop_expired now t) cs) as [|c r] eqn:Ec.
      + inversion Hb; subst t' o. split.
        * apply keys_aset_nodup. apply keys_filter. exact Hk.
        * apply strong_insert; [apply strong_filter; exact Hs|].
          intros j l2 Hin _ Ha. simpl.
          apply (no_conflicts_disjoint _ _ _ Ec j l2 Hin).
          apply (drop_expired_live _ _ _ _ Hin Ha).
      + destruct b; inversion Hb; subst t' o. split.
        * apply keys_filter. exact Hk.
        * apply strong_filter. exact Hs.
    - (* renew *)
      destruct (aget N.eqb id t) as [l|] eqn:Eg; [|discriminate].
      destruct (is_active l) eqn:Ea; [|discriminate].
      inversion Hb; subst t' o. split.
      + apply keys_aset_nodup. exact Hk.
      + apply (strong_update _ l); [exact Hs|exact Eg|reflexivity|intros _; exact Ea].
    - (* complete *)
      destruct (aget N.eqb id t) as [l|] eqn:Eg; [|discriminate].
      inversion Hb; subst t' o. split.
      + apply keys_aset_nodup. exact Hk.
      + apply (strong_update _ l); [exact Hs|exact Eg|reflexivity|discriminate].
    - (* fail *)
      destruct (aget N.eqb id t) as [l|] eqn:Eg; [|discriminate].
      inversion Hb; subst t' o. split.
      + apply keys_aset_nodup. exact Hk.
      + apply (strong_update _ l); [exact Hs|exact Eg|reflexivity|discriminate].
    - (* scavenge *)
      assert (LInv (keep_live now t)) as HL.
      { split; [apply keys_filter; exact Hk|apply strong_filter; exact Hs]. }
      destruct b.
      + destruct (N.eqb (N.of_nat (length t - length (keep_live now t))) 0); [discriminate|].
        inversion Hb; subst t' o. exact HL.
      + inversion Hb; subst t' o. exact HL.
  Qed.
End Body.

(* ------------------------------------------------------------------ *)
(* 3. object-store backend                                             *)
(* ------------------------------------------------------------------ *)
Definition opt_inv (v : option table) : Prop := match v with Some t => LInv t | None => True end.

Lemma tbl_inv v : opt_inv v -> LInv (tbl v).
Proof. destruct v; simpl; [tauto|intros _; apply LInv_nil]. Qed.

Theorem lease_decide_preserves cfg now op prev v' o :
  opt_inv prev -> lease_decide cfg now op prev = Commit v' o -> LInv v'.
Proof.
  intros Hp Hd. unfold lease_decide in Hd. rewrite body_code_eq in Hd.
  destruct (lease_body ObjectStore cfg now op (tbl prev)) as [t1 o1|o1] eqn:Eb; [|discriminate].
  inversion Hd; subst. apply (body_preserves _ _ _ _ _ _ _ (tbl_inv _ Hp) Eb).
Qed.

(* for EVERY schedule of object-store requests and clock ticks, any number of
   nodes running any programs, any retry bound: every version of the lease
   file ever written, and whatever a reader can GET at the end of the schedule
   (= at any moment, the schedule being arbitrary), has unique ids and no two
   distinct active leases sharing a chunk — in particular no two leases that
   are live at whatever instant t *)
Theorem excl_object_store cfg retries v0 now0 progs sched :
  opt_inv v0 ->
  let s := run (lease_decide cfg) 0 retries sched (init_sys v0 now0 progs) in
  (forall k, In k (s_log s) -> LInv (k_val k) /\ forall t, Excl t (k_val k)) /\
  (forall v, cur_val s = Some v -> LInv v /\ forall t, Excl t v).
Proof.
  intros H0 s.
  destruct (cas_invariant (lease_decide cfg) 0 retries v0 now0 progs LInv sched H0) as [A B].
  { intros now op prev v' o Hp Hd. apply (lease_decide_preserves _ _ _ _ _ _ Hp Hd). }
  fold s in A, B. split.
  - intros k Hin. rewrite Forall_forall in A. specialize (A k Hin).
    split; [exact A|apply strong_excl_at; apply A].
  - intros v Hv. rewrite Hv in B. split; [exact B|apply strong_excl_at; apply B].
Qed.

(* ------------------------------------------------------------------ *)
(* 4. in-memory backend                                                *)
(* ------------------------------------------------------------------ *)
Lemma local_apply_preserves cfg now op t : LInv t -> LInv (fst (local_apply cfg now op t)).
Proof.
  intros H. unfold local_apply. rewrite body_code_eq.
  destruct (lease_body InMemory cfg now op t) as [t1 o1|o1] eqn:Eb; simpl; [|exact H].
  apply (body_preserves _ _ _ _ _ _ _ H Eb).
Qed.

Lemma local_step_preserves cfg s h : LInv (ls_tab s) -> LInv (ls_tab (local_step cfg s h)).
Proof.
  intros H. destruct h as [d|op]; simpl; [exact H|]. apply local_apply_preserves. exact H.
Qed.

Theorem excl_in_memory cfg h : forall s,
  LInv (ls_tab s) ->
  let s' := local_run_from cfg h s in
  LInv (ls_tab s') /\ forall t, Excl t (ls_tab s').
Proof.
  induction h as [|x r IH]; intros s H; simpl.
  - split; [exact H|apply strong_excl_at; apply H].
  - apply IH. apply local_step_preserves. exact H.
Qed.

(* ------------------------------------------------------------------ *)
(* 5. time-dependent clauses                                           *)
(* ------------------------------------------------------------------ *)

(* --- acquire succeeds exactly when no live lease overlaps the request --- *)
Lemma in_drop_expired now t j l : In (j, l) t -> live now l = true -> In (j, l) (drop_expired now t).
Proof.
  intros Hin Hl. unfold drop_expired. apply filter_In. split; [exact Hin|]. simpl.
  rewrite (live_not_expired _ _ Hl). reflexivity.
Qed.

Theorem acquire_succeeds_iff b cfg now id h cs lv t :
  0 < acq_ttl cfg ->
  ((exists t' l, lease_body b cfg now (OAcquire id h cs lv) t = Write t' (RLease id l) /\
                 aget N.eqb id t' = Some l /\ live now l = true /\
                 l_holder l = h /\ l_chunks l = cs /\ l_expires l = now + acq_ttl cfg)
   <-> (forall j l, In (j, l) t -> live now l = true -> ~ share cs (l_chunks l))).
Proof.
  intros Httl. split.
  - intros [t' [l [Hb _]]] j l2 Hin Hl. simpl in Hb.
    destruct (conflicts now (drop_expired now t) cs) as [|c r] eqn:Ec.
    + apply (no_conflicts_disjoint _ _ _ Ec j l2); [apply in_drop_expired; assumption|exact Hl].
    + destruct b; discriminate.
  - intros Hd. simpl.
    rewrite (disjoint_no_conflicts now (drop_expired now t) cs).
    + eexists. eexists. split; [reflexivity|]. split; [apply aget_aset_same|].
      unfold live, is_active. simpl. split; [|tauto]. apply Z.ltb_lt. lia.
    + intros j l Hin Hl. unfold drop_expired in Hin. apply filter_In in Hin. apply (Hd j l); tauto.
Qed.

(* "a lease whose holder stopped renewing becomes acquirable after its TTL":
   if every lease that shares a chunk with the request is terminal or has
   expires_at <= now, the acquire goes through (on the object-store backend:
   reaches its conditional PUT) and the new lease is live *)
Theorem expired_is_acquirable b cfg now id h cs lv t :
  0 < acq_ttl cfg ->
  (forall j l, In (j, l) t -> share cs (l_chunks l) -> is_active l = false \/ l_expires l <= now) ->
  exists t' l, lease_body b cfg now (OAcquire id h cs lv) t = Write t' (RLease id l) /\
               aget N.eqb id t' = Some l /\ live now l = true /\
               l_holder l = h /\ l_chunks l = cs /\ l_expires l = now + acq_ttl cfg.
Proof.
  intros Httl H. apply acquire_succeeds_iff; [exact Httl|].
  intros j l Hin Hl Hs. destruct (H j l Hin Hs) as [A|A].
  - apply live_active in Hl. rewrite Hl in A. discriminate.
  - unfold live in Hl. apply andb_true_iff in Hl. destruct Hl as [_ B]. apply Z.ltb_lt in B. lia.
Qed.

(* and when it does not go through, the error names exactly the requested
   chunks held by a live lease *)
Theorem acquire_conflict_exact b cfg now id h cs lv t o :
  lease_body b cfg now (OAcquire id h cs lv) t = NoWrite o ->
  b = ObjectStore /\ exists c r, o = EConflict (c :: r) /\
    forall x, In x (c :: r) <-> In x cs /\ exists j l, In (j, l) t /\ live now l = true /\ In x (l_chunks l).
Proof.
  intros H. simpl in H. destruct (conflicts now (drop_expired now t) cs) as [|c r] eqn:Ec; [discriminate|].
  destruct b; [|discriminate]. inversion H; subst o. split; [reflexivity|].
  exists c, r. split; [reflexivity|]. intros x. rewrite <- Ec. unfold conflicts.
  rewrite filter_In, memN_iff, In_leased_chunks. split.
  - intros [A [j [l [Hin [Hl Hx]]]]]. split; [exact A|]. exists j, l.
    unfold drop_expired in Hin. apply filter_In in Hin. tauto.
  - intros [A [j [l [Hin [Hl Hx]]]]]. split; [exact A|]. exists j, l.
    split; [apply in_drop_expired; assumption|tauto].
Qed.

(* --- renew: the holder of a reclaimed (absent) or terminal lease is told --- *)
Theorem renew_outcome b cfg now id t :
  match aget N.eqb id t with
  | None => lease_body b cfg now (ORenew id) t = NoWrite ENotFound
  | Some l =>
      if is_active l
      then lease_body b cfg now (ORenew id) t =
             Write (aset N.eqb id (set_expires l (now + renew_ext cfg)) t) RUnit
      else lease_body b cfg now (ORenew id) t = NoWrite ENotActive
  end.
Proof.
  simpl. destruct (aget N.eqb id t) as [l|]; [|reflexivity]. destruct (is_active l); reflexivity.
Qed.

(* renew reports an error exactly when the id is absent or terminal *)
Theorem renew_error_iff b cfg now id t :
  (exists o, lease_body b cfg now (ORenew id) t = NoWrite o /\ (o = ENotFound \/ o = ENotActive))
  <-> (aget N.eqb id t = None \/ exists l, aget N.eqb id t = Some l /\ is_active l = false).
Proof.
  pose proof (renew_outcome b cfg now id t) as H.
  destruct (aget N.eqb id t) as [l|] eqn:Eg.
  - destruct (is_active l) eqn:Ea.
    + split.
      * intros [o [Ho _]]. rewrite H in Ho. discriminate.
      * intros [A|[l' [A B]]]; [discriminate|]. inversion A; subst l'. rewrite Ea in B. discriminate.
    + split.
      * intros _. right. exists l. split; [reflexivity|exact Ea].
      * intros _. exists ENotActive. split; [exact H|right; reflexivity].
  - split.
    + intros _. left. reflexivity.
    + intros _. exists ENotFound. split; [exact H|left; reflexivity].
Qed.

(* an id that is gone stays gone: only an acquire with that very id (UUIDs:
   never) can bring it back *)
Definition not_acquire_of (id : N) (op : lop) : Prop :=
  match op with OAcquire j _ _ _ => j <> id | _ => True end.

Lemma body_absent_stays b cfg now op t t' o id :
  aget N.eqb id t = None -> not_acquire_of id op ->
  lease_body b cfg now op t = Write t' o -> aget N.eqb id t' = None.
Proof.
  intros Hg Hop Hb. destruct op as [j h cs lv|j|j|j|]; simpl in Hb, Hop.
  - destruct (conflicts now (drop_expired now t) cs) as [|c r].
    + inversion Hb; subst. rewrite aget_aset_other; [|intros E; apply Hop; symmetry; exact E].
      apply aget_filter_none. exact Hg.
    + destruct b; inversion Hb; subst. apply aget_filter_none. exact Hg.
  - destruct (aget N.eqb j t) as [l|] eqn:Ej; [|discriminate].
    destruct (is_active l); [|discriminate]. inversion Hb; subst.
    rewrite aget_aset_other; [exact Hg|]. intros E. subst j. rewrite Hg in Ej. discriminate.
  - destruct (aget N.eqb j t) as [l|] eqn:Ej; [|discriminate]. inversion Hb; subst.
    rewrite aget_aset_other; [exact Hg|]. intros E. subst j. rewrite Hg in Ej. discriminate.
  - destruct (aget N.eqb j t) as [l|] eqn:Ej; [|discriminate]. inversion Hb; subst.
    rewrite aget_aset_other; [exact Hg|]. intros E. subst j. rewrite Hg in Ej. discriminate.
  - destruct b.
    + destruct (N.eqb _ 0); [discriminate|]. inversion Hb; subst. apply aget_filter_none. exact Hg.
    + inversion Hb; subst. apply aget_filter_none. exact Hg.
Qed.

Notation lcommit := (commit table lop lout).

(* once the lease id is absent from the stored table, no renew of it ever
   commits again and it stays absent from every later version: every later
   renew attempt is answered ENotFound (renew_outcome) *)
Theorem reclaimed_never_renewed cfg id : forall (log : list lcommit) v,
  chain (lease_decide cfg) v log ->
  aget N.eqb id (tbl v) = None ->
  Forall (fun k => not_acquire_of id (k_op k)) log ->
  Forall (fun k => k_op k <> ORenew id /\ aget N.eqb id (k_val k) = None) log.
Proof.
  induction log as [|k r IH]; intros v Hc Hg Hops; [constructor|].
  destruct Hc as [_ [Hd Hc]]. inversion Hops as [|? ? Hop Hr]; subst.
  unfold lease_decide in Hd. rewrite body_code_eq in Hd.
  destruct (lease_body ObjectStore cfg (k_now k) (k_op k) (tbl v)) as [t1 o1|o1] eqn:Eb; [|discriminate].
  inversion Hd; subst t1 o1.
  assert (aget N.eqb id (k_val k) = None) as Hn by (apply (body_absent_stays _ _ _ _ _ _ _ _ Hg Hop Eb)).
  constructor.
  - split; [|exact Hn]. intros E.
    pose proof (renew_outcome ObjectStore cfg (k_now k) id (tbl v)) as Ho. rewrite Hg in Ho.
    assert (lease_body ObjectStore cfg (k_now k) (ORenew id) (tbl v) = Write (k_val k) (k_out k)) as X
      by (rewrite <- E; exact Eb).
    rewrite Ho in X. discriminate.
  - apply (IH (Some (k_val k))); [exact Hc|exact Hn|exact Hr].
Qed.

(* --- a lease that is renewed in time is never handed to someone else --- *)

(* the table holds lease [id] for holder h on chunks cs, active, not expiring before e *)
Definition holds (id h : N) (cs : list N) (e : Z) (t : table) : Prop :=
  exists l, aget N.eqb id t = Some l /\ is_active l = true /\
            l_holder l = h /\ l_chunks l = cs /\ e <= l_expires l.

(* "renewed in time", for a sequence of (decide time, operation): every
   operation is decided strictly before the current deadline e of lease id;
   a renew of id moves the deadline to its own decide time + extension;
   nobody completes / fails it, and no acquire re-uses its id *)
Fixpoint in_time (cfg : lcfg) (id : N) (e : Z) (ops : list (Z * lop)) : Prop :=
  match ops with
  | [] => True
  | (now, op) :: r =>
      now < e /\
      match op with
      | ORenew j => if N.eqb j id then in_time cfg id (now + renew_ext cfg) r else in_time cfg id e r
      | OComplete j | OFail j | OAcquire j _ _ _ => j <> id /\ in_time cfg id e r
      | OScavenge => in_time cfg id e r
      end
  end.

Definition next_deadline (cfg : lcfg) (id : N) (e now : Z) (op : lop) : Z :=
  match op with
  | ORenew j => if N.eqb j id then now + renew_ext cfg else e
  | _ => e
  end.

Definition leaves_alone (id : N) (op : lop) : Prop :=
  match op with
  | OComplete j | OFail j | OAcquire j _ _ _ => j <> id
  | _ => True
  end.

Lemma in_time_cons cfg id e now op r :
  in_time cfg id e ((now, op) :: r) <->
  now < e /\ leaves_alone id op /\ in_time cfg id (next_deadline cfg id e now op) r.
Proof.
  simpl. destruct op as [j h cs lv|j|j|j|]; simpl; try tauto.
  destruct (N.eqb j id); tauto.
Qed.

Lemma holds_keep (f : N * lease -> bool) id h cs e t :
  holds id h cs e t -> (forall l, aget N.eqb id t = Some l -> f (id, l) = true) ->
  holds id h cs e (filter f t).
Proof.
  intros [l [A B]] Hf. exists l. split; [|exact B]. apply aget_filter_keep; [exact A|apply Hf; exact A].
Qed.

Lemma holds_other id h cs e t k l' : k <> id -> holds id h cs e t -> holds id h cs e (aset N.eqb k l' t).
Proof.
  intros Hne [l [A B]]. exists l. split; [|exact B].
  rewrite aget_aset_other; [exact A|intros E; apply Hne; symmetry; exact E].
Qed.

Lemma body_holds b cfg now op t t' o id h cs e :
  holds id h cs e t -> now < e -> leaves_alone id op ->
  lease_body b cfg now op t = Write t' o ->
  holds id h cs (next_deadline cfg id e now op) t'.
Proof.
  intros Hh Hlt Hop Hb.
  assert (Hnx : forall l, aget N.eqb id t = Some l -> expired now l = false /\ live now l = true).
  { intros l Hl. destruct Hh as [l0 [A [B [_ [_ C]]]]]. rewrite A in Hl. inversion Hl; subst l0.
    unfold expired, live. rewrite B. simpl. split; [apply Z.leb_gt; lia|apply Z.ltb_lt; lia]. }
  destruct op as [j hh cc lv|j|j|j|]; simpl in Hb, Hop; simpl next_deadline.
  - assert (holds id h cs e (drop_expired now t)) as H1.
    { apply holds_keep; [exact Hh|]. intros l Hl. simpl. rewrite (proj1 (Hnx l Hl)). reflexivity. }
    destruct (conflicts now (drop_expired now t) cc) as [|c r].
    + inversion Hb; subst. apply holds_other; assumption.
    + destruct b; inversion Hb; subst. exact H1.
  - destruct (aget N.eqb j t) as [l|] eqn:Ej; [|discriminate].
    destruct (is_active l) eqn:Ea; [|discriminate]. inversion Hb; subst.
    destruct (N.eqb j id) eqn:E.
    + apply N.eqb_eq in E. subst j. destruct Hh as [l0 [A [B [C [D _]]]]].
      rewrite A in Ej. inversion Ej; subst l0.
      exists (set_expires l (now + renew_ext cfg)). split; [apply aget_aset_same|].
      simpl. repeat split; try assumption. lia.
    + apply holds_other; [|exact Hh]. intros E'. subst j. rewrite N.eqb_refl in E. discriminate.
  - destruct (aget N.eqb j t) as [l|] eqn:Ej; [|discriminate]. inversion Hb; subst.
    apply holds_other; assumption.
  - destruct (aget N.eqb j t) as [l|] eqn:Ej; [|discriminate]. inversion Hb; subst.
    apply holds_other; assumption.
  - assert (holds id h cs e (keep_live now t)) as H1.
    { apply holds_keep; [exact Hh|]. intros l Hl. simpl. apply (proj2 (Hnx l Hl)). }
    destruct b.
    + destruct (N.eqb _ 0); [discriminate|]. inversion Hb; subst. exact H1.
    + inversion Hb; subst. exact H1.
Qed.

Lemma holds_weaken id h cs e e' t : e' <= e -> holds id h cs e t -> holds id h cs e' t.
Proof. intros Hle [l [A [B [C [D E]]]]]. exists l. repeat split; try assumption. lia. Qed.

(* along any sequential execution (= what CasProto's linearizability yields
   for the object-store backend): a lease all of whose later committed
   operations are decided in time is present, active, with the same holder and
   chunks, in every later version *)
Theorem in_time_chain cfg id h cs : forall (log : list lcommit) e v,
  chain (lease_decide cfg) (Some v) log ->
  holds id h cs e v ->
  in_time cfg id e (log_ops log) ->
  Forall (fun k => exists e', holds id h cs e' (k_val k)) log.
Proof.
  induction log as [|k r IH]; intros e v Hc Hh Hit; [constructor|].
  destruct Hc as [_ [Hd Hc]].
  change (log_ops (k :: r)) with ((k_now k, k_op k) :: log_ops r) in Hit.
  apply in_time_cons in Hit. destruct Hit as [Hlt [Hop Hit]].
  unfold lease_decide in Hd. rewrite body_code_eq in Hd. simpl tbl in Hd.
  destruct (lease_body ObjectStore cfg (k_now k) (k_op k) v) as [t1 o1|o1] eqn:Eb; [|discriminate].
  inversion Hd; subst t1 o1.
  pose proof (body_holds _ _ _ _ _ _ _ _ _ _ _ Hh Hlt Hop Eb) as Hh'.
  constructor; [eexists; exact Hh'|].
  apply (IH _ _ Hc Hh' Hit).
Qed.

Lemma chain_suffix {V Op Out} (decide : Z -> Op -> option V -> decision V Out)
      (pre post : list (commit V Op Out)) : forall prev,
  chain decide prev (pre ++ post) -> chain decide (last_val prev pre) post.
Proof.
  induction pre as [|k r IH]; intros prev Hc; [exact Hc|].
  simpl in Hc. destruct Hc as [_ [_ Hc]]. apply (IH _ Hc).
Qed.

Lemma chain_prefix {V Op Out} (decide : Z -> Op -> option V -> decision V Out)
      (pre post : list (commit V Op Out)) : forall prev,
  chain decide prev (pre ++ post) -> chain decide prev pre.
Proof.
  induction pre as [|k r IH]; intros prev Hc; [exact I|].
  simpl in Hc. destruct Hc as [A [B Hc]]. simpl. repeat split; try assumption. apply (IH _ Hc).
Qed.

(* a committed acquire leaves its lease in the version it wrote *)
Lemma acquire_commit_holds cfg now id h cs lv prev v' o :
  lease_decide cfg now (OAcquire id h cs lv) prev = Commit v' o ->
  holds id h cs (now + acq_ttl cfg) v'.
Proof.
  unfold lease_decide. rewrite body_code_eq. simpl.
  destruct (conflicts now (drop_expired now (tbl prev)) cs) as [|c r]; [|discriminate].
  intros H. inversion H; subst.
  eexists. split; [apply aget_aset_same|]. simpl. repeat split; try reflexivity; try lia.
Qed.

(* the full statement for the object-store backend, for every schedule: take
   any committed acquire k0 in the log of successful PUTs; if every later
   commit is decided before the lease's deadline of the moment (acquire time +
   TTL, then last own renew + extension), then in EVERY later version the lease
   is still there, active, same holder, same chunks, and NO OTHER active lease
   (expired or not) shares a chunk with it *)
Theorem renewed_in_time_not_stolen cfg retries v0 now0 progs sched :
  opt_inv v0 ->
  let s := run (lease_decide cfg) 0 retries sched (init_sys v0 now0 progs) in
  forall pre k0 post id h cs lv,
    s_log s = pre ++ k0 :: post ->
    k_op k0 = OAcquire id h cs lv ->
    in_time cfg id (k_now k0 + acq_ttl cfg) (log_ops post) ->
    Forall (fun k => (exists e, holds id h cs e (k_val k)) /\
                     forall j l2, In (j, l2) (k_val k) -> j <> id -> is_active l2 = true ->
                                  ~ share cs (l_chunks l2)) post.
Proof.
  intros H0 s pre k0 post id h cs lv Hlog Hop Hit.
  destruct (cas_linearizable (lease_decide cfg) 0 retries v0 now0 progs sched) as [Hc _].
  fold s in Hc. rewrite Hlog in Hc.
  pose proof (chain_suffix _ _ _ _ Hc) as Hc2. simpl in Hc2. destruct Hc2 as [_ [Hd Hpost]].
  rewrite Hop in Hd. pose proof (acquire_commit_holds _ _ _ _ _ _ _ _ _ Hd) as Hh.
  pose proof (in_time_chain cfg id h cs post _ _ Hpost Hh Hit) as Hall.
  destruct (excl_object_store cfg retries v0 now0 progs sched H0) as [Hinv _]. fold s in Hinv.
  rewrite Forall_forall in *. intros k Hin. split; [apply Hall; exact Hin|].
  intros j l2 Hj Hne Ha.
  destruct (Hall k Hin) as [e [l [A [B [_ [D _]]]]]].
  assert (In k (s_log s)) as Hk.
  { rewrite Hlog. apply in_or_app. right. right. exact Hin. }
  destruct (Hinv k Hk) as [[_ Hs] _].
  rewrite <- D. apply (Hs id j l l2 (aget_In _ _ _ A) Hj); [intros E; apply Hne; symmetry; exact E|exact B|exact Ha].
Qed.

(* the same for the in-memory backend: histories of operations and ticks *)
Fixpoint timed (now : Z) (h : list hstep) : list (Z * lop) :=
  match h with
  | [] => []
  | HTick d :: r => timed (now + Z.of_N d) r
  | HOp op :: r => (now, op) :: timed now r
  end.

Theorem renewed_in_time_in_memory cfg id hd cs : forall (h : list hstep) s e,
  LInv (ls_tab s) ->
  holds id hd cs e (ls_tab s) ->
  in_time cfg id e (timed (ls_now s) h) ->
  let s' := local_run_from cfg h s in
  (exists e', holds id hd cs e' (ls_tab s')) /\
  forall j l2, In (j, l2) (ls_tab s') -> j <> id -> is_active l2 = true -> ~ share cs (l_chunks l2).
Proof.
  induction h as [|x r IH]; intros s e HI Hh Hit; simpl.
  - split; [exists e; exact Hh|]. intros j l2 Hj Hne Ha.
    destruct Hh as [l [A [B [_ [D _]]]]]. rewrite <- D.
    apply (proj2 HI id j l l2 (aget_In _ _ _ A) Hj); [intros E; apply Hne; symmetry; exact E|exact B|exact Ha].
  - destruct x as [d|op].
    + simpl in Hit. apply (IH _ e); [exact HI|exact Hh|exact Hit].
    + change (timed (ls_now s) (HOp op :: r)) with ((ls_now s, op) :: timed (ls_now s) r) in Hit.
      apply in_time_cons in Hit. destruct Hit as [Hlt [Hop Hit]].
      pose proof (local_step_preserves cfg s (HOp op) HI) as HI'.
      simpl local_step in *. unfold local_apply in *. rewrite body_code_eq in *.
      destruct (lease_body InMemory cfg (ls_now s) op (ls_tab s)) as [t1 o1|o1] eqn:Eb; simpl in *.
      * apply (IH _ (next_deadline cfg id e (ls_now s) op)); [exact HI'| |exact Hit].
        simpl. apply (body_holds _ _ _ _ _ _ _ _ _ _ _ Hh Hlt Hop Eb).
      * (* nothing written: the table is unchanged; a renew of id itself cannot be refused *)
        assert (next_deadline cfg id e (ls_now s) op = e) as Hnd.
        { destruct op as [j a bb c|j|j|j|]; simpl; try reflexivity.
          destruct (N.eqb j id) eqn:E; [|reflexivity]. apply N.eqb_eq in E. subst j.
          exfalso. pose proof (renew_outcome InMemory cfg (ls_now s) id (ls_tab s)) as Ho.
          destruct Hh as [l [A [B _]]]. rewrite A, B in Ho. rewrite Ho in Eb. discriminate. }
        rewrite Hnd in Hit. apply (IH _ e); [exact HI'|exact Hh|exact Hit].
Qed.

(* --- the arithmetic of the renewal schedule, from the Rust constants ---
   The holder starts a renew every LEASE_RENEW_PERIOD_SECS; a renew sleeps at
   most BASE_BACKOFF_MS * (2^MAX_CAS_RETRIES - 1) ms between its attempts.
   Both TTLs (acquire, renew extension; both backends) exceed the sum. *)
Lemma renew_schedule_fits :
  renew_period_ms + backoff_total_ms < acq_ttl s3_cfg /\
  renew_period_ms + backoff_total_ms < renew_ext s3_cfg /\
  renew_period_ms + backoff_total_ms < acq_ttl local_cfg /\
  renew_period_ms + backoff_total_ms < renew_ext local_cfg /\
  0 < acq_ttl s3_cfg /\ 0 < acq_ttl local_cfg.
Proof. vm_compute. repeat split; reflexivity. Qed.

(* a renew round started at s is decided at d >= s; the next round starts one
   period later and is decided (request latency aside) within the total backoff
   of its start: that is before the deadline d + extension set by the first *)
Lemma periodic_renew_before_deadline (P B E s d d' : Z) :
  P + B < E -> s <= d -> d' <= s + P + B -> d' < d + E.
Proof. lia. Qed.

Theorem renew_period_within_ttl (s d d' : Z) :
  s <= d -> d' <= s + renew_period_ms + backoff_total_ms ->
  d' < d + renew_ext s3_cfg /\ d' < d + acq_ttl s3_cfg /\
  d' < d + renew_ext local_cfg /\ d' < d + acq_ttl local_cfg.
Proof.
  intros H1 H2. destruct renew_schedule_fits as [A [B [C [D _]]]].
  repeat split; eapply periodic_renew_before_deadline; eauto.
Qed.

(* ------------------------------------------------------------------ *)
(* the executable predicate agrees with Excl                           *)
(* ------------------------------------------------------------------ *)
Lemma disjointb_iff a b : disjointb a b = true <-> ~ share a b.
Proof.
  unfold disjointb, share. rewrite forallb_forall. split.
  - intros H [c [A B]]. specialize (H c A). apply memN_iff in B. rewrite B in H. discriminate.
  - intros H c A. destruct (memN c b) eqn:E; [|reflexivity].
    exfalso. apply H. exists c. split; [exact A|apply memN_iff; exact E].
Qed.

Lemma exclb_from_iff t x r :
  exclb_from t x r = true <->
  forall y, In y r -> fst x <> fst y -> live t (snd x) = true -> live t (snd y) = true ->
            ~ share (l_chunks (snd x)) (l_chunks (snd y)).
Proof.
  induction r as [|y r IH]; simpl; [split; [intros _ y []|reflexivity]|].
  rewrite andb_true_iff, IH, !orb_true_iff, negb_true_iff, andb_false_iff, N.eqb_eq, disjointb_iff.
  split.
  - intros [H1 H2] z [Hz|Hz] Hne A B; [subst z|apply H2; assumption].
    destruct H1 as [[[H1|H1]|H1]|H1]; try congruence.
  - intros H. split.
    + destruct (live t (snd x)) eqn:A; [|tauto]. destruct (live t (snd y)) eqn:B; [|tauto].
      destruct (N.eq_dec (fst x) (fst y)) as [E|E]; [tauto|].
      right. apply H; auto.
    + intros z Hz. apply H. right. exact Hz.
Qed.

Theorem exclb_iff t v : exclb t v = true <-> Excl t v.
Proof.
  induction v as [|x r IH]; simpl.
  - split; [intros _ i j l1 l2 []|reflexivity].
  - rewrite andb_true_iff, IH, exclb_from_iff. split.
    + intros [H1 H2] i j l1 l2 [A|A] [B|B] Hne La Lb.
      * subst x. inversion B; subst. contradiction.
      * subst x. apply (H1 (j, l2) B); assumption.
      * subst x. intros Hs. apply share_sym in Hs. revert Hs.
        apply (H1 (i, l1) A); simpl; try assumption. intros E. apply Hne. symmetry. exact E.
      * apply (H2 i j l1 l2); assumption.
    + intros H. split.
      * intros [j l2] Hy Hne La Lb. destruct x as [i l1]. simpl in *.
        apply (H i j l1 l2); [left; reflexivity|right; exact Hy|exact Hne|exact La|exact Lb].
      * intros i j l1 l2 A B. apply H; right; assumption.
Qed.

(* ------------------------------------------------------------------ *)
(* non-vacuity: concrete schedules on the object-store model (times in ms) *)
(* ------------------------------------------------------------------ *)
Definition ex_progs (c : nat) : list lop :=
  match c with
  | O => [OAcquire 1 10 [1; 2]%N 0; ORenew 1]
  | S O => [OAcquire 2 11 [2; 3]%N 0; OAcquire 3 11 [2; 3]%N 0]
  | _ => []
  end.

Definition ex_race : list label := [Req 0; Req 1; Req 0; Req 1; Req 1].

(* first-write race of two overlapping acquires: both load "absent", node 0
   creates the file, node 1's Create fails, it reloads and is refused with the
   shared chunk; exactly one version was written *)
Example ex_overlapping_acquires :
  let s := s3_run ex_race (s3_init None 0 ex_progs) in
  map (fun k => map fst (k_val k)) (s_log s) = [[1%N]] /\
  c_done (s_cl s 1%nat) = [(OAcquire 2 11 [2; 3]%N 0, FAbort (EConflict [2%N]))] /\
  c_done (s_cl s 0%nat) =
    [(OAcquire 1 10 [1; 2]%N 0, FCommit (RLease 1 (mkLease 10 [1; 2]%N 0 0 300000 Active)))].
Proof. vm_compute. repeat split; reflexivity. Qed.

(* the holder stops renewing; once the TTL has passed, the other node's next
   acquire reclaims the chunks (the expired lease is dropped from the file),
   and the old holder's next renew is answered "not found" *)
Example ex_expiry_reclaim_told :
  let s := s3_run (ex_race ++ [Tick 300000; Req 1; Req 1; Req 0]) (s3_init None 0 ex_progs) in
  map (fun k => map fst (k_val k)) (s_log s) = [[1%N]; [3%N]] /\
  c_done (s_cl s 0%nat) =
    [(OAcquire 1 10 [1; 2]%N 0, FCommit (RLease 1 (mkLease 10 [1; 2]%N 0 0 300000 Active)));
     (ORenew 1, FAbort ENotFound)] /\
  Forall (fun k => exclb 300000 (k_val k) = true) (s_log s).
Proof. vm_compute. repeat split; repeat constructor. Qed.

(* one millisecond earlier the lease is still live and the acquire is refused *)
Example ex_not_yet_expired :
  let s := s3_run (ex_race ++ [Tick 299999; Req 1]) (s3_init None 0 ex_progs) in
  map (fun k => map fst (k_val k)) (s_log s) = [[1%N]] /\
  nth_error (c_done (s_cl s 1%nat)) 1 = Some (OAcquire 3 11 [2; 3]%N 0, FAbort (EConflict [2%N])).
Proof. vm_compute. split; reflexivity. Qed.

(* a renew after 120 s moves the deadline to 420 s: at 320 s the other node is refused *)
Example ex_renewed_in_time :
  let s := s3_run (ex_race ++ [Tick 120000; Req 0; Req 0; Tick 200000; Req 1])
                  (s3_init None 0 ex_progs) in
  map (fun k => map (fun x => (fst x, l_expires (snd x))) (k_val k)) (s_log s)
    = [[(1%N, 300000)]; [(1%N, 420000)]] /\
  nth_error (c_done (s_cl s 1%nat)) 1 = Some (OAcquire 3 11 [2; 3]%N 0, FAbort (EConflict [2%N])) /\
  in_time s3_cfg 1 300000 (log_ops (skipn 1 (s_log s))).
Proof. vm_compute. repeat split; reflexivity. Qed.

(* retry exhaustion: node 0's conditional PUT loses MAX_CAS_RETRIES times in a
   row against commits of node 1; it gives up with TooManyRetries and has
   written nothing *)
Definition ex_progs2 (c : nat) : list lop :=
  match c with
  | O => [OAcquire 1 10 [1%N] 0]
  | S O => [OAcquire 2 11 [2%N] 0; OComplete 2; OFail 2; OComplete 2; OFail 2; OComplete 2]
  | _ => []
  end.
Definition ex_round : list label := [Req 0; Req 1; Req 1; Req 0].
Example ex_retry_exhaustion :
  let s := s3_run ([Req 1; Req 1] ++ ex_round ++ ex_round ++ ex_round ++ ex_round ++ ex_round)
                  (s3_init None 0 ex_progs2) in
  c_done (s_cl s 0%nat) = [(OAcquire 1 10 [1%N] 0, FRetries)] /\
  length (s_log s) = 6%nat /\
  Forall (fun k => map fst (k_val k) = [2%N]) (s_log s).
Proof. vm_compute. repeat split; repeat constructor. Qed.

(* the predicate is not trivially true: two live leases sharing chunk 2 *)
Example ex_excl_can_fail :
  let bad := [(1%N, mkLease 10 [1; 2]%N 0 0 300 Active); (2%N, mkLease 11 [2; 3]%N 0 0 300 Active)] in
  ~ Excl 100 bad /\ Excl 300 bad /\ ~ StrongExcl bad.
Proof.
  intros bad. split; [|split].
  - intros H. apply exclb_iff in H. vm_compute in H. discriminate.
  - apply exclb_iff. vm_compute. reflexivity.
  - intros H. pose proof (strong_excl_at _ H 100) as H1. apply exclb_iff in H1. vm_compute in H1. discriminate.
Qed.

(* the in-memory backend keeps the scavenging of a refused acquire, the
   object-store backend does not (no write happens) *)
Example ex_backends_differ_on_refused_acquire :
  let t := [(1%N, mkLease 10 [1%N] 0 0 300 Active); (2%N, mkLease 11 [2%N] 0 0 900 Active)] in
  lease_body ObjectStore s3_cfg 500 (OAcquire 3 12 [2%N] 0) t = NoWrite (EConflict [2%N]) /\
  lease_body InMemory local_cfg 500 (OAcquire 3 12 [2%N] 0) t
    = Write [(2%N, mkLease 11 [2%N] 0 0 900 Active)] (EConflict [2%N]).
Proof. vm_compute. split; reflexivity. Qed.

Example ex_in_memory_history :
  let s := local_run 0 [HOp (OAcquire 1 10 [1; 2]%N 0); HOp (OAcquire 2 11 [2; 3]%N 0);
                        HTick 300000; HOp (OAcquire 3 11 [2; 3]%N 0); HOp (ORenew 1); HOp OScavenge] in
  map fst (ls_tab s) = [3%N] /\
  map (fun o => match o with RLease i _ => Some i | _ => None end) (ls_outs s)
    = [Some 1%N; None; Some 3%N; None; None] /\
  nth_error (ls_outs s) 1 = Some (EConflict [2%N]) /\ nth_error (ls_outs s) 3 = Some ENotFound /\
  nth_error (ls_outs s) 4 = Some (RCount 0).
Proof. vm_compute. repeat split; reflexivity. Qed.

(* ------------------------------------------------------------------ *)
(* the instances with the constants of the Rust sources (Properties/C08.v) *)
(* ------------------------------------------------------------------ *)
Corollary c08_object_store (v0 : option table) (now0 : Z) (progs : nat -> list lop) (sched : list label) :
  opt_inv v0 ->
  let s := s3_run sched (s3_init v0 now0 progs) in
  (forall k, In k (s_log s) -> LInv (k_val k) /\ forall t, Excl t (k_val k)) /\
  (forall v, cur_val s = Some v -> LInv v /\ forall t, Excl t v).
Proof. exact (excl_object_store s3_cfg s3_retries v0 now0 progs sched). Qed.

Corollary c08_in_memory (now0 : Z) (h : list hstep) :
  let s := local_run now0 h in
  LInv (ls_tab s) /\ forall t, Excl t (ls_tab s).
Proof. apply (excl_in_memory local_cfg h (mkLState now0 [] [])). apply LInv_nil. Qed.

Corollary c08_renewed_object_store (v0 : option table) (now0 : Z) (progs : nat -> list lop) (sched : list label) :
  opt_inv v0 ->
  let s := s3_run sched (s3_init v0 now0 progs) in
  forall pre k0 post id h cs lv,
    s_log s = pre ++ k0 :: post ->
    k_op k0 = OAcquire id h cs lv ->
    in_time s3_cfg id (k_now k0 + acq_ttl s3_cfg) (log_ops post) ->
    Forall (fun k => (exists e, holds id h cs e (k_val k)) /\
                     forall j l2, In (j, l2) (k_val k) -> j <> id -> is_active l2 = true ->
                                  ~ share cs (l_chunks l2)) post.
Proof. exact (renewed_in_time_not_stolen s3_cfg s3_retries v0 now0 progs sched). Qed.

Corollary c08_renewed_in_memory (id hd : N) (cs : list N) (h : list hstep) (s : lstate) (e : Z) :
  LInv (ls_tab s) ->
  holds id hd cs e (ls_tab s) ->
  in_time local_cfg id e (timed (ls_now s) h) ->
  let s' := local_run_from local_cfg h s in
  (exists e', holds id hd cs e' (ls_tab s')) /\
  forall j l2, In (j, l2) (ls_tab s') -> j <> id -> is_active l2 = true -> ~ share cs (l_chunks l2).
Proof. exact (renewed_in_time_in_memory local_cfg id hd cs h s e). Qed.

Corollary c08_reclaimed_never_renewed (id : N) (log : list lcommit) (v : option table) :
  chain s3_decide v log ->
  aget N.eqb id (tbl v) = None ->
  Forall (fun k => not_acquire_of id (k_op k)) log ->
  Forall (fun k => k_op k <> ORenew id /\ aget N.eqb id (k_val k) = None) log.
Proof. exact (reclaimed_never_renewed s3_cfg id log v). Qed.
