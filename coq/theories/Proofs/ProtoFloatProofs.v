(* Proofs/ProtoFloatProofs.v — the value routing of convert_prom_to_arrow
   (Model/ProtoConv.route) stores a numerically equal value: an integer column
   receives exactly the real value of the sample; the f64 column receives the
   sample's own bit pattern.  Over Flocq's binary64. *)
From Coq Require Import ZArith List Reals Lia Lra Floats.SpecFloat.
From Flocq Require Import Core IEEE754.BinarySingleNaN IEEE754.Binary IEEE754.Bits.
From CS Require Import Base.Prelude Model.Proto Model.ProtoConv.
Open Scope R_scope.

Local Instance prec_gt_0_53 : Prec_gt_0 53 := eq_refl Lt.
Local Instance prec_lt_emax_53 : Prec_lt_emax 53 1024 := eq_refl Lt.

Notation B2R64 := (@BinarySingleNaN.B2R 53 1024).
Notation fexp64 := (SpecFloat.fexp 53 1024).

(* ---- integer-valued floats ---- *)
Lemma F2R_int_format : forall (m e : Z),
  ((0 <= e)%Z \/ ((e < 0)%Z /\ (m mod 2 ^ (- e) = 0)%Z)) ->
  generic_format radix2 (FIX_exp 0) (F2R (Float radix2 m e)).
Proof.
  intros m e [He|[He Hm]].
  - apply generic_format_F2R. intros _. unfold cexp, FIX_exp. exact He.
  - apply Z.mod_divide in Hm; [|apply Z.pow_nonzero; lia].
    destruct Hm as [k Hk].
    replace (F2R (Float radix2 m e)) with (F2R (Float radix2 k 0)).
    + apply generic_format_F2R. intros _. unfold cexp, FIX_exp. lia.
    + rewrite (F2R_change_exp radix2 e k 0) by lia. f_equal. f_equal.
      rewrite Hk. rewrite Z.sub_0_l. reflexivity.
Qed.

Lemma int_exact : forall x : f64,
  f64_is_int x = true -> B2R64 x = IZR (BinarySingleNaN.Btrunc x).
Proof.
  intros x Hi. rewrite BinarySingleNaN.Btrunc_correct by exact (eq_refl Lt).
  symmetry. apply round_generic; [apply valid_rnd_ZR|].
  destruct x as [s|s| |s m e Hb]; cbn [f64_is_int] in Hi; try discriminate.
  - cbn. apply generic_format_0.
  - cbn [BinarySingleNaN.B2R]. apply F2R_int_format.
    destruct (Z.leb_spec 0 e) as [He|He]; [left; exact He|right].
    split; [exact He|]. apply Z.eqb_eq in Hi.
    destruct s; cbn [cond_Zopp]; [|exact Hi].
    (* negative mantissa *)
    apply Z.mod_divide; [apply Z.pow_nonzero; lia|].
    apply Z.mod_divide in Hi; [|apply Z.pow_nonzero; lia].
    destruct Hi as [k Hk]. exists (- k)%Z. rewrite Hk. ring.
Qed.

(* ---- the constants ---- *)
Lemma B2R_of_SF : forall (x : f64) s m e,
  BinarySingleNaN.B2SF x = S754_finite s m e ->
  B2R64 x = F2R (Float radix2 (cond_Zopp s (Z.pos m)) e).
Proof.
  intros x s m e H. rewrite <- BinarySingleNaN.SF2R_B2SF, H. reflexivity.
Qed.

Lemma of_int_max_value : B2R64 (f64_of_int i64_max) = IZR 9223372036854775808.
Proof.
  rewrite (B2R_of_SF (f64_of_int i64_max) false 4503599627370496 11) by (vm_compute; reflexivity).
  unfold F2R. cbn [Fnum Fexp cond_Zopp]. change (bpow radix2 11) with (IZR 2048).
  rewrite <- mult_IZR. reflexivity.
Qed.

Lemma of_int_min_value : B2R64 (f64_of_int i64_min) = IZR (-9223372036854775808).
Proof.
  rewrite (B2R_of_SF (f64_of_int i64_min) true 4503599627370496 11) by (vm_compute; reflexivity).
  unfold F2R. cbn [Fnum Fexp cond_Zopp]. change (bpow radix2 11) with (IZR 2048).
  rewrite <- mult_IZR. reflexivity.
Qed.

Lemma epsilon_le_1 : B2R64 F64_EPSILON <= 1.
Proof.
  rewrite (B2R_of_SF F64_EPSILON false 4503599627370496 (-104)) by (vm_compute; reflexivity).
  unfold F2R. cbn [Fnum Fexp cond_Zopp].
  change (IZR 4503599627370496) with (IZR (Zpower radix2 52)). rewrite IZR_Zpower by lia.
  rewrite <- bpow_plus. change 1 with (bpow radix2 0). apply bpow_le. lia.
Qed.

(* ---- the lossless test fails below -2^63 ---- *)
Lemma check_fails_below_min : forall x : f64,
  f64_is_finite x = true ->
  B2R64 x <= IZR (-9223372036854775808) - 1 ->
  f64_lt (f64_abs (f64_sub (f64_of_int i64_min) x)) F64_EPSILON = false.
Proof.
  intros x Fx Hx.
  set (a := f64_of_int i64_min).
  assert (Fa : BinarySingleNaN.is_finite a = true) by (vm_compute; reflexivity).
  pose proof (@BinarySingleNaN.Bminus_correct 53 1024 (eq_refl Lt) (eq_refl Lt) mode_NE a x Fa Fx) as Hm.
  fold (f64_sub a x) in Hm.
  set (d := B2R64 a - B2R64 x) in *.
  assert (Hd1 : 1 <= d).
  { unfold d, a. rewrite of_int_min_value. lra. }
  assert (Hg1 : generic_format radix2 fexp64 1).
  { change 1 with (bpow radix2 0). apply generic_format_bpow. vm_compute. discriminate. }
  assert (Hr1 : 1 <= round radix2 fexp64 (round_mode mode_NE) d).
  { apply round_ge_generic; [apply (@BinarySingleNaN.fexp_correct 53 1024 (eq_refl Lt))|apply valid_rnd_N|exact Hg1|exact Hd1]. }
  assert (Hrmax : round radix2 fexp64 (round_mode mode_NE) d < bpow radix2 1024).
  { eapply Rle_lt_trans; [|apply (BinarySingleNaN.abs_B2R_lt_emax _ _ x)].
    apply round_le_generic; [apply (@BinarySingleNaN.fexp_correct 53 1024 (eq_refl Lt))|apply valid_rnd_N| |].
    - apply generic_format_abs. apply (@BinarySingleNaN.generic_format_B2R 53 1024).
    - unfold d, a. rewrite of_int_min_value.
      rewrite Rabs_left by lra. lra. }
  rewrite Rabs_pos_eq in Hm by lra.
  destruct (Rlt_bool_spec (round radix2 fexp64 (round_mode mode_NE) d) (bpow radix2 1024)) as [_|Hc]; [|lra].
  destruct Hm as (Hv & Hf & _).
  unfold f64_lt, f64_abs.
  rewrite BinarySingleNaN.Bltb_correct.
  - rewrite BinarySingleNaN.B2R_Babs. apply Rlt_bool_false.
    rewrite Hv. rewrite Rabs_pos_eq by lra.
    eapply Rle_trans; [apply epsilon_le_1|exact Hr1].
  - rewrite BinarySingleNaN.is_finite_Babs. exact Hf.
  - vm_compute. reflexivity.
Qed.

(* value_equal: what the routing stores is numerically equal to the sample *)
Theorem value_equal : forall bits : N,
  match route bits with
  | RU64 u => f64_is_finite (f64_of_bits bits) = true /\
              B2R64 (f64_of_bits bits) = IZR (Z.of_N u) /\ (Z.of_N u <= i64_max)%Z
  | RI64 i => f64_is_finite (f64_of_bits bits) = true /\
              B2R64 (f64_of_bits bits) = IZR i /\ (i64_min <= i < 0)%Z
  | RF64 b => b = bits
  end.
Proof.
  intro bits. unfold route. set (x := f64_of_bits bits).
  destruct (f64_is_finite x) eqn:Fx; cbn [andb]; [|reflexivity].
  destruct (f64_is_int x) eqn:Ix; cbn [andb]; [|reflexivity].
  destruct (f64_lt x (f64_of_int i64_max)) eqn:Lx; [|reflexivity].
  pose proof (int_exact x Ix) as Hex.
  set (z := BinarySingleNaN.Btrunc x) in *.
  (* z < 2^63 *)
  assert (Hz : (z < 9223372036854775808)%Z).
  { unfold f64_lt in Lx. rewrite BinarySingleNaN.Bltb_correct in Lx;
      [|exact Fx|vm_compute; reflexivity].
    apply Rlt_bool_true_iff in Lx || idtac.
    destruct (Rlt_bool_spec (B2R64 x) (B2R64 (f64_of_int i64_max))) as [H|H]; [|discriminate].
    rewrite of_int_max_value, Hex in H. apply lt_IZR in H. exact H. }
  unfold f64_to_i64. fold z. unfold sat_i64.
  change i64_min with (-9223372036854775808)%Z. change i64_max with 9223372036854775807%Z.
  destruct (Z.ltb_spec z (-9223372036854775808)) as [Hlow|Hlow].
  - (* below i64::MIN: the saturated value fails the lossless test *)
    change (-9223372036854775808)%Z with i64_min.
    rewrite check_fails_below_min; [reflexivity|exact Fx|].
    rewrite Hex. change i64_min with (-9223372036854775808)%Z in Hlow.
    replace (IZR (-9223372036854775808) - 1) with (IZR (-9223372036854775808 - 1)) by (rewrite minus_IZR; reflexivity).
    apply IZR_le. lia.
  - destruct (Z.ltb_spec 9223372036854775807 z) as [Hhi|Hhi]; [lia|].
    destruct (f64_lt (f64_abs (f64_sub (f64_of_int z) x)) F64_EPSILON); [|reflexivity].
    destruct (Z.leb_spec 0 z) as [Hpos|Hneg].
    + split; [auto|]. rewrite Z2N.id by exact Hpos. split; [exact Hex|lia].
    + split; [auto|]. split; [exact Hex|lia].
Qed.

(* the routing before commit 5679380 stored 2^63 as 2^63 - 1 *)
Lemma legacy_refuted_2p63 :
  route_legacy 4890909195324358656 = RU64 9223372036854775807 /\
  route 4890909195324358656 = RF64 4890909195324358656.
Proof. vm_compute. split; reflexivity. Qed.
