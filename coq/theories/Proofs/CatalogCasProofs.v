(* Proofs/CatalogCasProofs.v — C02: catalog mutations are atomic and never lost
   under concurrency; every catalog version ever written is well-formed.
   Corollaries of cas_linearizable for the instance Model/CatalogCas.v and of
   the catalog invariant s3_inv (Proofs/CatalogProofs.v). *)
From CS Require Import Base.Prelude Base.CasProto Proofs.CasProtoProofs
     Model.Catalog Proofs.CatalogProofs Model.CatalogCas.
From CSGen Require Import Consts.
Open Scope Z_scope.

Notation ccommit := (commit cat cop N).

(* ------------------------------------------------------------------ *)
(* decide = s3_apply                                                    *)
(* ------------------------------------------------------------------ *)
Lemma cat_decide_commit now o prev c' out :
  cat_decide now o prev = Commit c' out ->
  out = 0%N /\ s3_apply (cat_of prev) o = (c', 0%N).
Proof.
  unfold cat_decide. destruct (s3_apply (cat_of prev) o) as [c1 rc] eqn:E; simpl.
  destruct (N.eqb rc 0) eqn:R; [|discriminate].
  apply N.eqb_eq in R. subst rc. intros H; inversion H; subst. split; reflexivity.
Qed.

Lemma cat_decide_abort now o prev out :
  cat_decide now o prev = Abort out ->
  out = 1%N /\ exists srcs tgt, o = OComplete srcs tgt /\ s3_complete (cat_of prev) srcs tgt = None.
Proof.
  unfold cat_decide. destruct o as [p m|p|srcs tgt]; simpl; try discriminate.
  destruct (s3_complete (cat_of prev) srcs tgt) as [c'|] eqn:E; simpl; [discriminate|].
  intros H; inversion H; subst. split; [reflexivity|]. exists srcs, tgt. split; [reflexivity|exact E].
Qed.

(* ------------------------------------------------------------------ *)
(* "every time-index path is in the chunk map" is preserved             *)
(* ------------------------------------------------------------------ *)
Lemma In_aset {K A} (eqb : K -> K -> bool) (eqb_spec : forall a b, eqb a b = true <-> a = b)
      k (v : A) l k' v' :
  In (k', v') (aset eqb k v l) -> (k' = k /\ v' = v) \/ In (k', v') l.
Proof.
  induction l as [|[k2 v2] r IH]; simpl.
  - intros [H|[]]. inversion H; subst. left; split; reflexivity.
  - destruct (eqb k k2) eqn:E.
    + apply eqb_spec in E. subst k2. intros [H|H].
      * inversion H; subst. left; split; reflexivity.
      * right; right; exact H.
    + intros [H|H]; [right; left; exact H|].
      destruct (IH H) as [HA|HA]; [left; exact HA|right; right; exact HA].
Qed.

Lemma amem_aset_same {A} p (e : A) l : amem N.eqb p (aset N.eqb p e l) = true.
Proof. unfold amem. rewrite (aget_aset_same N.eqb Neqb_spec). reflexivity. Qed.

Lemma amem_aset_keep {A} q p (e : A) l : amem N.eqb q l = true -> amem N.eqb q (aset N.eqb p e l) = true.
Proof.
  unfold amem. destruct (N.eq_dec q p) as [->|Hn].
  - rewrite (aget_aset_same N.eqb Neqb_spec). reflexivity.
  - rewrite (aget_aset_other N.eqb Neqb_spec) by exact Hn. tauto.
Qed.

Lemma amem_adel_keep {A} q p (l : list (N * A)) :
  q <> p -> amem N.eqb q l = true -> amem N.eqb q (adel N.eqb p l) = true.
Proof. unfold amem. intros Hn. rewrite (aget_adel_other N.eqb Neqb_spec) by exact Hn. tauto. Qed.

Lemma ti_push_In b p ti b' l' q :
  In (b', l') (ti_push b p ti) -> In q l' ->
  q = p \/ exists l0, In (b', l0) ti /\ In q l0.
Proof.
  unfold ti_push. intros Hin Hq.
  destruct (aget Z.eqb b ti) as [l|] eqn:E.
  - apply (In_aset Z.eqb Zeqb_spec) in Hin. destruct Hin as [[Hb Hl]|Hin].
    + subst b' l'. apply in_app_or in Hq. destruct Hq as [Hq|[Hq|[]]]; [|left; symmetry; exact Hq].
      right. exists l. split; [apply (aget_In Z.eqb Zeqb_spec); exact E|exact Hq].
    + right. exists l'. split; assumption.
  - apply (In_aset Z.eqb Zeqb_spec) in Hin. destruct Hin as [[Hb Hl]|Hin].
    + subst l'. destruct Hq as [Hq|[]]. left; symmetry; exact Hq.
    + right. exists l'. split; assumption.
Qed.

Lemma ti_push_all_In bs p : forall ti b' l' q,
  In (b', l') (ti_push_all bs p ti) -> In q l' ->
  q = p \/ exists l0, In (b', l0) ti /\ In q l0.
Proof.
  unfold ti_push_all. induction bs as [|b r IH]; simpl; intros ti b' l' q Hin Hq.
  - right. exists l'. split; assumption.
  - destruct (IH _ _ _ _ Hin Hq) as [A|[l1 [Hin1 Hq1]]]; [left; exact A|].
    exact (ti_push_In _ _ _ _ _ _ Hin1 Hq1).
Qed.

Lemma ti_retain_all_In p ti b l' q :
  In (b, l') (ti_retain_all p ti) -> In q l' ->
  q <> p /\ exists l0, In (b, l0) ti /\ In q l0.
Proof.
  unfold ti_retain_all. intros Hin Hq. apply in_map_iff in Hin.
  destruct Hin as [[b0 l0] [Heq Hin]]. inversion Heq; subst.
  apply In_removeN in Hq. destruct Hq as [Hq Hn]. split; [exact Hn|].
  exists l0. split; assumption.
Qed.

Lemma ti_drop_empty_In ti b l : In (b, l) (ti_drop_empty ti) -> In (b, l) ti.
Proof. unfold ti_drop_empty. intros H. apply filter_In in H. tauto. Qed.

Lemma closed_empty : cat_closed cat_empty.
Proof. intros b l p []. Qed.

Lemma closed_register c p m : cat_closed c -> cat_closed (s3_register c p m).
Proof.
  intros Hc b l q Hin Hq. unfold s3_register in *. simpl in *.
  destruct (ti_push_all_In _ _ _ _ _ _ Hin Hq) as [->|[l0 [Hin0 Hq0]]].
  - apply amem_aset_same.
  - apply amem_aset_keep. exact (Hc _ _ _ Hin0 Hq0).
Qed.

Lemma closed_del1 c p : cat_closed c -> cat_closed (s3_del1 c p).
Proof.
  intros Hc b l q Hin Hq. unfold s3_del1 in *. simpl in *.
  destruct (ti_retain_all_In _ _ _ _ _ Hin Hq) as [Hn [l0 [Hin0 Hq0]]].
  apply amem_adel_keep; [exact Hn|]. exact (Hc _ _ _ Hin0 Hq0).
Qed.

Lemma closed_drop c : cat_closed c -> cat_closed (mkCat (c_chunks c) (ti_drop_empty (c_tindex c))).
Proof.
  intros Hc b l q Hin Hq. simpl in *. apply ti_drop_empty_In in Hin. exact (Hc _ _ _ Hin Hq).
Qed.

Lemma closed_delete c p : cat_closed c -> cat_closed (s3_delete c p).
Proof. intros Hc. apply (closed_drop (s3_del1 c p)). apply closed_del1. exact Hc. Qed.

Lemma closed_fold_del1 srcs : forall c, cat_closed c -> cat_closed (fold_left s3_del1 srcs c).
Proof.
  induction srcs as [|p r IH]; simpl; intros c Hc; [exact Hc|]. apply IH. apply closed_del1. exact Hc.
Qed.

Lemma closed_apply c o : cat_closed c -> cat_closed (fst (s3_apply c o)).
Proof.
  intros Hc. destruct o as [p m|p|srcs tgt]; simpl.
  - apply closed_register; exact Hc.
  - apply closed_delete; exact Hc.
  - rewrite s3_complete_eq. cbv zeta.
    pose proof (closed_fold_del1 srcs c Hc) as H1.
    set (c1 := fold_left s3_del1 srcs c) in *.
    destruct (aget N.eqb tgt (c_chunks c1)) as [e|] eqn:Eg; simpl; [|exact Hc].
    intros b l q Hin Hq. simpl in *. apply ti_drop_empty_In in Hin.
    apply amem_aset_keep. exact (H1 _ _ _ Hin Hq).
Qed.

(* ------------------------------------------------------------------ *)
(* the invariant carried through every version                          *)
(* ------------------------------------------------------------------ *)
Definition op_ok (o : cop) : Prop :=
  match o with ORegister _ m => m_min m <= m_max m | _ => True end.

(* the catalog agrees with the plain map `sp`, its index covers every chunk,
   and the index mentions live chunks only *)
Definition cat_good (c : cat) : Prop := (exists sp, s3_inv c sp) /\ cat_closed c.

Lemma cat_good_empty : cat_good cat_empty.
Proof. split; [exists []; apply s3_empty_inv|apply closed_empty]. Qed.

Lemma cat_good_step now o prev c' out :
  op_ok o ->
  match prev with Some c => cat_good c | None => True end ->
  cat_decide now o prev = Commit c' out -> cat_good c'.
Proof.
  intros Hok Hp Hd. apply cat_decide_commit in Hd. destruct Hd as [_ Ha].
  assert (Hg : cat_good (cat_of prev)) by (destruct prev; [exact Hp|apply cat_good_empty]).
  destruct Hg as [[sp Hinv] Hcl]. replace c' with (fst (s3_apply (cat_of prev) o)) by (rewrite Ha; reflexivity).
  split.
  - exists (spec_apply sp o). apply s3_apply_inv; assumption.
  - apply closed_apply. exact Hcl.
Qed.

(* the spec-level reading of a chain: the catalog written last agrees with
   the plain map obtained by applying the committed operations in order *)
Lemma chain_spec (log : list ccommit) : forall prev sp,
  Forall (fun k => op_ok (k_op k)) log ->
  s3_inv (cat_of prev) sp ->
  chain cat_decide prev log ->
  s3_inv (cat_of (last_val prev log)) (fold_left spec_apply (map (fun k => k_op k) log) sp).
Proof.
  induction log as [|k r IH]; intros prev sp Hok Hinv Hc; [exact Hinv|].
  destruct Hc as [_ [Hd Hc]]. inversion Hok as [|? ? Hk Hr]; subst.
  apply cat_decide_commit in Hd. destruct Hd as [_ Ha].
  simpl. apply (IH (Some (k_val k))); [exact Hr| |exact Hc].
  simpl. replace (k_val k) with (fst (s3_apply (cat_of prev) (k_op k))) by (rewrite Ha; reflexivity).
  apply s3_apply_inv; assumption.
Qed.

Section CatalogRuns.
  Variable progs : nat -> list cop.
  Variable sched : list label.
  Hypothesis progs_ok : forall c o, In o (progs c) -> op_ok o.

  (* the catalog object does not exist before the first registration *)
  Let s := cat_run sched (cat_init None progs).

  Lemma cat_lin :
    chain cat_decide None (s_log s) /\
    cur_val s = last_val None (s_log s) /\
    (forall c, map op_out (by_client c (s_log s)) = successes (c_done (s_cl s c))) /\
    (forall c, map fst (c_done (s_cl s c)) ++ inflight (c_pc (s_cl s c)) ++ c_todo (s_cl s c) = progs c) /\
    (forall c op o, In (op, FAbort o) (c_done (s_cl s c)) ->
       exists now prev, hist None (s_log s) prev /\ cat_decide now op prev = Abort o).
  Proof. exact (cas_linearizable cat_decide cat_extra_gets cat_max_retries None 0 progs sched). Qed.

  Lemma log_ops_ok : Forall (fun k => op_ok (k_op k)) (s_log s).
  Proof.
    pose proof (cas_log_ops_in_progs cat_decide cat_extra_gets cat_max_retries None 0 progs sched) as H.
    eapply Forall_impl; [|exact H]. intros k Hk. exact (progs_ok _ _ Hk).
  Qed.

  (* every version of catalog.json ever written, and whatever a reader can
     GET at any time, has chunk list and time index in agreement *)
  Theorem catalog_wf_all_versions :
    Forall (fun k => cat_wf (k_val k) /\ cat_closed (k_val k)) (s_log s) /\
    match cur_val s with Some c => cat_wf c /\ cat_closed c | None => True end.
  Proof.
    pose proof (cas_invariant_ops cat_decide cat_extra_gets cat_max_retries None 0 progs op_ok cat_good sched
                  progs_ok I cat_good_step) as [A B].
    fold cat_run in A, B. fold (cat_init None progs) in A, B. fold s in A, B.
    assert (Hg : forall c, cat_good c -> cat_wf c /\ cat_closed c).
    { intros c [[sp [Hi _]] Hcl]. split; [exact Hi|exact Hcl]. }
    split.
    - eapply Forall_impl; [|exact A]. intros k Hk. apply Hg. exact Hk.
    - destruct (cur_val s) as [c|]; [apply Hg; exact B|exact I].
  Qed.

  (* the outcome equals a one-at-a-time ordering of the successful mutations:
     the catalog stored now is the result of applying the committed operations
     sequentially (in commit order) to the empty catalog, and its chunk map is
     the plain map obtained by applying them to the empty map *)
  Theorem sequential_equivalence :
    cat_of (cur_val s) = s3_run (map (fun k => k_op k) (s_log s)) /\
    forall p, s3_look (cat_of (cur_val s)) p = aget N.eqb p (spec_run (map (fun k => k_op k) (s_log s))).
  Proof.
    destruct cat_lin as [Hc [Hl _]]. split.
    - rewrite Hl. clear Hl. unfold s3_run.
      change cat_empty with (cat_of None). revert Hc. generalize (@None cat). generalize (s_log s).
      induction l as [|k r IH]; intros prev Hc; [reflexivity|].
      destruct Hc as [_ [Hd Hc]]. apply cat_decide_commit in Hd. destruct Hd as [_ Ha].
      simpl. rewrite Ha. simpl. apply (IH (Some (k_val k))). exact Hc.
    - rewrite Hl. pose proof (chain_spec (s_log s) None [] log_ops_ok s3_empty_inv Hc) as [_ [_ [_ Hag]]].
      intros p. apply Hag.
  Qed.

  (* per client: its mutations that reported success are in the log exactly
     once, in program order; the others wrote nothing *)
  Theorem successes_reflected c :
    map op_out (by_client c (s_log s)) = successes (c_done (s_cl s c)) /\
    length (by_client c (s_log s)) = length (successes (c_done (s_cl s c))).
  Proof.
    destruct cat_lin as [_ [_ [H3 _]]]. split; [apply H3|].
    rewrite <- (H3 c). rewrite map_length. reflexivity.
  Qed.

  (* the only error a mutation can return besides TooManyRetries is the
     missing compaction target, judged against a version that existed *)
  Theorem failures_justified c op o :
    In (op, FAbort o) (c_done (s_cl s c)) ->
    o = 1%N /\ exists srcs tgt prev, op = OComplete srcs tgt /\ hist None (s_log s) prev /\
                                     s3_complete (cat_of prev) srcs tgt = None.
  Proof.
    intros Hin. destruct cat_lin as [_ [_ [_ [_ H5]]]].
    destruct (H5 _ _ _ Hin) as [now [prev [Hh Hd]]].
    apply cat_decide_abort in Hd. destruct Hd as [Ho [srcs [tgt [Hop Hs]]]].
    split; [exact Ho|]. exists srcs, tgt, prev. auto.
  Qed.
End CatalogRuns.

(* ---------------- non-vacuity / witnesses ---------------- *)
Definition ex_meta (a b : Z) : cmeta := mkMeta a b 1%N 1%N.

(* first-write creation race: both clients load an absent catalog (3 GETs
   each), client 0 creates it, client 1's Create conflicts; after its reload
   client 1 registers on top of client 0's version: nothing is lost *)
Example c02_creation_race :
  let progs := fun c => match c with
                        | O => [ORegister 1%N (ex_meta 0 10)]
                        | S O => [ORegister 2%N (ex_meta 5 20)]
                        | _ => [] end in
  let s := cat_run [Req 0; Req 1; Req 0; Req 1; Req 0; Req 1; Req 0; Req 1; Req 1; Req 1]
                   (cat_init None progs) in
  map (fun k => (k_client k, map fst (c_chunks (k_val k)))) (s_log s) = [(O, [1%N]); (S O, [1%N; 2%N])] /\
  c_done (s_cl s 0) = [(ORegister 1%N (ex_meta 0 10), FCommit 0%N)] /\
  c_done (s_cl s 1) = [(ORegister 2%N (ex_meta 5 20), FCommit 0%N)].
Proof. vm_compute. repeat split. Qed.

(* conflict exhaustion: client 1 is starved for MAX_CAS_RETRIES attempts by
   client 0's five registrations, gets TooManyRetries and has written nothing *)
Example c02_conflict_exhaustion :
  let r := fun i => ORegister i (ex_meta 0 10) in
  let progs := fun c => match c with
                        | O => [r 1%N; r 2%N; r 3%N; r 4%N; r 5%N; r 6%N]
                        | S O => [ODelete 9%N]
                        | _ => [] end in
  (* client 0 creates the catalog (3 GETs + PUT); then five times: client 1
     loads, client 0 commits (GET + PUT), client 1's PUT conflicts *)
  let round := [Req 1; Req 0; Req 0; Req 1] in
  let s := cat_run ([Req 0; Req 0; Req 0; Req 0] ++ round ++ round ++ round ++ round ++ round)
                   (cat_init None progs) in
  c_done (s_cl s 1) = [(ODelete 9%N, FRetries)] /\
  by_client 1 (s_log s) = [] /\
  length (s_log s) = 6%nat.
Proof. vm_compute. repeat split. Qed.
