(* Proofs/ProtoConvProofs.v — theorems about the remote-write conversion model
   (Model/ProtoConv.v): one row per sample with exact fields. *)
From Coq Require Import ZArith List Sorting.Sorted.
From CS Require Import Base.Prelude Model.Proto Model.ProtoConv Proofs.ProtoProofs.
Open Scope N_scope.

(* ------------------------------------------------------------------ *)
(* byte strings: equality and order                                    *)

Lemma bytes_eqb_eq : forall a b, bytes_eqb a b = true <-> a = b.
Proof.
  induction a as [|x a IH]; intros [|y b]; cbn [bytes_eqb]; split; intro H;
    try reflexivity; try discriminate.
  - apply andb_true_iff in H. destruct H as [H1 H2]. apply N.eqb_eq in H1. apply IH in H2. congruence.
  - inversion H; subst. rewrite N.eqb_refl. cbn [andb]. apply IH. reflexivity.
Qed.

Lemma bytes_eqb_refl : forall a, bytes_eqb a a = true.
Proof. intro a. apply bytes_eqb_eq. reflexivity. Qed.

Lemma bytes_eqb_neq : forall a b, bytes_eqb a b = false <-> a <> b.
Proof.
  intros a b. split; intro H.
  - intro E. apply bytes_eqb_eq in E. congruence.
  - destruct (bytes_eqb a b) eqn:E; [|reflexivity]. apply bytes_eqb_eq in E. contradiction.
Qed.

Lemma bytes_eqb_sym : forall a b, bytes_eqb a b = bytes_eqb b a.
Proof.
  intros a b. destruct (bytes_eqb a b) eqn:E.
  - apply bytes_eqb_eq in E. subst. symmetry. apply bytes_eqb_refl.
  - symmetry. apply bytes_eqb_neq. apply bytes_eqb_neq in E. congruence.
Qed.

Definition blt (a b : bytes) : Prop := bytes_ltb a b = true.

Lemma bytes_ltb_irrefl : forall a, bytes_ltb a a = false.
Proof.
  induction a as [|x a IH]; cbn [bytes_ltb]; [reflexivity|].
  rewrite N.ltb_irrefl. exact IH.
Qed.

Lemma bytes_ltb_total : forall a b,
  bytes_eqb a b = false -> bytes_ltb a b = false -> bytes_ltb b a = true.
Proof.
  induction a as [|x a IH]; intros [|y b]; cbn [bytes_eqb bytes_ltb]; intros He Hl;
    try discriminate; try reflexivity.
  destruct (N.ltb_spec x y) as [Hxy|Hxy]; [discriminate|].
  destruct (N.ltb_spec y x) as [Hyx|Hyx]; [reflexivity|].
  assert (x = y) by lia. subst y. rewrite N.eqb_refl in He. cbn [andb] in He.
  apply IH; assumption.
Qed.

Lemma bytes_ltb_trans : forall a b c,
  bytes_ltb a b = true -> bytes_ltb b c = true -> bytes_ltb a c = true.
Proof.
  induction a as [|x a IH]; intros [|y b] [|z c]; cbn [bytes_ltb]; intros H1 H2;
    try discriminate; try reflexivity.
  destruct (N.ltb_spec x y), (N.ltb_spec y x), (N.ltb_spec y z), (N.ltb_spec z y),
           (N.ltb_spec x z), (N.ltb_spec z x); try discriminate; try reflexivity; try lia.
  eapply IH; eassumption.
Qed.

(* ------------------------------------------------------------------ *)
(* the sorted set of label names                                       *)

Lemma insert_name_in : forall n l c, In c (insert_name n l) <-> c = n \/ In c l.
Proof.
  intros n l c. induction l as [|x r IH]; cbn [insert_name].
  - cbn. intuition.
  - destruct (bytes_eqb n x) eqn:E.
    + apply bytes_eqb_eq in E. subst x. cbn [In]. intuition.
    + destruct (bytes_ltb n x); cbn [In]; [intuition|]. rewrite IH. intuition.
Qed.

Lemma insert_name_hd : forall n l x, blt x n -> HdRel blt x l -> HdRel blt x (insert_name n l).
Proof.
  intros n l x Hxn Hl. destruct l as [|y r]; cbn [insert_name].
  - constructor. exact Hxn.
  - inversion Hl; subst. destruct (bytes_eqb n y); [constructor; assumption|].
    destruct (bytes_ltb n y); constructor; assumption.
Qed.

Lemma insert_name_sorted : forall n l, Sorted blt l -> Sorted blt (insert_name n l).
Proof.
  intros n l H. induction H as [|x r Hr IH Hhd]; cbn [insert_name].
  - constructor; constructor.
  - destruct (bytes_eqb n x) eqn:E; [constructor; assumption|].
    destruct (bytes_ltb n x) eqn:L.
    + constructor; [constructor; assumption|]. constructor. exact L.
    + constructor; [exact IH|]. apply insert_name_hd; [|exact Hhd].
      unfold blt. apply bytes_ltb_total; assumption.
Qed.

Lemma add_label_names_in : forall ls acc c,
  In c (add_label_names acc ls) <->
  In c acc \/ (c <> NAME /\ exists l, In l ls /\ l_name l = c).
Proof.
  unfold add_label_names. induction ls as [|l ls IH]; intros acc c; cbn [fold_left].
  - split; [auto|]. intros [H|[_ [l [[] _]]]]. exact H.
  - rewrite IH. destruct (bytes_eqb (l_name l) NAME) eqn:E.
    + apply bytes_eqb_eq in E. split.
      * intros [H|[Hc [l' [Hl' Hn]]]]; [auto|]. right. split; [exact Hc|]. exists l'. cbn [In]. auto.
      * intros [H|[Hc [l' [[Hl'|Hl'] Hn]]]]; [auto| |].
        -- subst l'. congruence.
        -- right. split; [exact Hc|]. exists l'. auto.
    + apply bytes_eqb_neq in E. rewrite insert_name_in. split.
      * intros [[H|H]|[Hc [l' [Hl' Hn]]]].
        -- right. split; [congruence|]. exists l. cbn [In]. auto.
        -- auto.
        -- right. split; [exact Hc|]. exists l'. cbn [In]. auto.
      * intros [H|[Hc [l' [[Hl'|Hl'] Hn]]]]; [auto| |].
        -- subst l'. left. left. congruence.
        -- right. split; [exact Hc|]. exists l'. auto.
Qed.

Lemma add_label_names_sorted : forall ls acc, Sorted blt acc -> Sorted blt (add_label_names acc ls).
Proof.
  unfold add_label_names. induction ls as [|l ls IH]; intros acc H; cbn [fold_left]; [exact H|].
  apply IH. destruct (bytes_eqb (l_name l) NAME); [exact H|]. apply insert_name_sorted. exact H.
Qed.

Lemma label_names_gen_in : forall r acc c,
  In c (fold_left (fun acc t => add_label_names acc (ts_labels t)) r acc) <->
  In c acc \/ (c <> NAME /\ exists t l, In t r /\ In l (ts_labels t) /\ l_name l = c).
Proof.
  induction r as [|t r IH]; intros acc c; cbn [fold_left].
  - split; [auto|]. intros [H|[_ [t [l [[] _]]]]]. exact H.
  - rewrite IH, add_label_names_in. split.
    + intros [[H|[Hc [l [Hl Hn]]]]|[Hc [t' [l [Ht' [Hl Hn]]]]]].
      * auto.
      * right. split; [exact Hc|]. exists t, l. cbn [In]. auto.
      * right. split; [exact Hc|]. exists t', l. cbn [In]. auto.
    + intros [H|[Hc [t' [l [[Ht'|Ht'] [Hl Hn]]]]]].
      * auto.
      * subst t'. left. right. split; [exact Hc|]. exists l. auto.
      * right. split; [exact Hc|]. exists t', l. auto.
Qed.

Lemma label_names_in : forall r c,
  In c (label_names r) <-> c <> NAME /\ exists t l, In t r /\ In l (ts_labels t) /\ l_name l = c.
Proof.
  intros r c. unfold label_names. rewrite label_names_gen_in. cbn [In]. intuition.
Qed.

Lemma label_names_sorted : forall r, Sorted blt (label_names r).
Proof.
  intro r. unfold label_names. generalize (@nil bytes) (Sorted_nil blt).
  induction r as [|t r IH]; intros acc H; cbn [fold_left]; [exact H|].
  apply IH. apply add_label_names_sorted. exact H.
Qed.

(* strictly increasing (hence duplicate-free) *)
Lemma label_names_strongly_sorted : forall r, StronglySorted blt (label_names r).
Proof.
  intro r. apply Sorted_StronglySorted; [|apply label_names_sorted].
  intros a b c. unfold blt. apply bytes_ltb_trans.
Qed.

(* ------------------------------------------------------------------ *)
(* metric name and label lookup: what the two functions mean           *)

Lemma metric_name_spec : forall ls,
  (exists pre l post, ls = pre ++ l :: post /\ l_name l = NAME /\
                      (forall x, In x pre -> l_name x <> NAME) /\ metric_name ls = l_value l)
  \/ ((forall x, In x ls -> l_name x <> NAME) /\ metric_name ls = []).
Proof.
  induction ls as [|l ls IH]; cbn [metric_name].
  - right. split; [intros x []|reflexivity].
  - destruct (bytes_eqb (l_name l) NAME) eqn:E.
    + apply bytes_eqb_eq in E. left. exists [], l, ls. cbn [app]. repeat split; auto; intros x [].
    + apply bytes_eqb_neq in E. destruct IH as [(pre & l' & post & H1 & H2 & H3 & H4)|[H1 H2]].
      * left. exists (l :: pre), l', post. subst ls. cbn [app]. repeat split; auto.
        intros x [Hx|Hx]; [subst; exact E|auto].
      * right. split; [|exact H2]. intros x [Hx|Hx]; [subst; exact E|auto].
Qed.

Lemma lookup_last_none : forall c ls,
  lookup_last c ls = None <-> (forall l, In l ls -> l_name l <> c).
Proof.
  intros c. induction ls as [|l ls IH]; cbn [lookup_last].
  - split; [intros _ x []|reflexivity].
  - destruct (lookup_last c ls) eqn:E.
    + split; [discriminate|]. intro H. exfalso.
      assert (Hn : @None bytes = None) by reflexivity.
      assert (Hs : Some b = None); [|discriminate].
      apply IH. intros x Hx. apply H. cbn [In]. auto.
    + destruct (bytes_eqb (l_name l) c) eqn:B.
      * apply bytes_eqb_eq in B. split; [discriminate|]. intro H. exfalso. apply (H l); cbn [In]; auto.
      * apply bytes_eqb_neq in B. split; [|reflexivity]. intros _ x [Hx|Hx]; [subst; exact B|].
        apply IH; auto.
Qed.

Lemma lookup_last_some : forall c ls v,
  lookup_last c ls = Some v <->
  exists pre l post, ls = pre ++ l :: post /\ l_name l = c /\ l_value l = v /\
                     (forall x, In x post -> l_name x <> c).
Proof.
  intros c. induction ls as [|l ls IH]; intro v; cbn [lookup_last].
  - split; [discriminate|]. intros (pre & l & post & H & _). destruct pre; discriminate.
  - destruct (lookup_last c ls) as [w|] eqn:E.
    + split.
      * intro H. inversion H; subst w. destruct (proj1 (IH v) eq_refl) as (pre & l' & post & H1 & H2 & H3 & H4).
        exists (l :: pre), l', post. subst ls. cbn [app]. auto.
      * intros (pre & l' & post & H1 & H2 & H3 & H4). destruct pre as [|p pre]; cbn [app] in H1; inversion H1; subst.
        -- exfalso. assert (Hn : lookup_last (l_name l') post = None) by (apply lookup_last_none; exact H4).
           congruence.
        -- apply IH. exists pre, l', post. auto.
    + destruct (bytes_eqb (l_name l) c) eqn:B.
      * apply bytes_eqb_eq in B. split.
        -- intro H. inversion H; subst v. exists [], l, ls. cbn [app]. repeat split; auto.
           apply lookup_last_none. exact E.
        -- intros (pre & l' & post & H1 & H2 & H3 & H4). destruct pre as [|p pre]; cbn [app] in H1; inversion H1; subst.
           ++ reflexivity.
           ++ exfalso. rewrite lookup_last_none in E. apply (E l'); [|assumption].
              apply in_or_app. right. cbn [In]. auto.
      * apply bytes_eqb_neq in B. split; [discriminate|].
        intros (pre & l' & post & H1 & H2 & H3 & H4). exfalso.
        destruct pre as [|p pre]; cbn [app] in H1; inversion H1; subst.
        -- congruence.
        -- rewrite lookup_last_none in E. apply (E l'); [|reflexivity].
           apply in_or_app. right. cbn [In]. auto.
Qed.

(* ------------------------------------------------------------------ *)
(* rows                                                                *)

(* the cell of the label column called [c] in a row ([None]: no such column, or a null cell) *)
Definition cell (cols : list bytes) (cells : list (option bytes)) (c : bytes) : option bytes :=
  match find (fun p => bytes_eqb (fst p) c) (combine cols cells) with
  | Some (_, v) => v
  | None => None
  end.

Lemma cell_map : forall (f : bytes -> option bytes) cols c,
  cell cols (map f cols) c = if existsb (fun x => bytes_eqb x c) cols then f c else None.
Proof.
  intros f cols c. unfold cell. induction cols as [|x cols IH]; cbn [map combine find existsb fst]; [reflexivity|].
  destruct (bytes_eqb x c) eqn:E; cbn [orb].
  - apply bytes_eqb_eq in E. subst. reflexivity.
  - exact IH.
Qed.

Lemma existsb_bytes_in : forall cols c, existsb (fun x => bytes_eqb x c) cols = true <-> In c cols.
Proof.
  intros cols c. rewrite existsb_exists. split.
  - intros (x & Hx & E). apply bytes_eqb_eq in E. subst. exact Hx.
  - intro H. exists c. split; [exact H|apply bytes_eqb_refl].
Qed.

(* what the property demands of the row that a sample [s] of series [t] became *)
Definition row_faithful (cols : list bytes) (t : series) (s : sample) (rw : row) : Prop :=
  r_ts rw = (s_ts s * 1000000)%Z /\ in_i64 (r_ts rw) = true /\
  r_name rw = metric_name (ts_labels t) /\
  r_val rw = route (s_bits s) /\
  length (r_labels rw) = length cols /\
  forall c, cell cols (r_labels rw) c
            = if bytes_eqb c NAME then None else lookup_last c (ts_labels t).

Lemma Forall2_impl_strong : forall (A B : Type) (P Q : A -> B -> Prop) l1 l2,
  (forall a b, P a b -> Q a b) -> Forall2 P l1 l2 -> Forall2 Q l1 l2.
Proof. intros A B P Q l1 l2 H F. induction F; constructor; auto. Qed.

Lemma collect_Forall2 : forall (A B : Type) (f : A -> outcome B) l bs,
  collect f l = Done bs -> Forall2 (fun a b => In a l /\ f a = Done b) l bs.
Proof.
  intros A B f. induction l as [|a l IH]; intros bs H; cbn [collect] in H.
  - inversion H. constructor.
  - destruct (f a) as [b| | |] eqn:Ea; cbn [obind] in H; try discriminate.
    destruct (collect f l) as [bs'| | |] eqn:El; cbn [obind] in H; try discriminate.
    inversion H; subst. constructor; [split; [cbn [In]; auto|exact Ea]|].
    eapply Forall2_impl_strong; [|apply IH; reflexivity]. cbv beta. intros x y [Hx Hy]. split; [cbn [In]; auto|exact Hy].
Qed.

Lemma cells_of_series : forall r t, In t r -> forall c,
  cell (label_names r) (map (fun c => lookup_last c (ts_labels t)) (label_names r)) c
  = if bytes_eqb c NAME then None else lookup_last c (ts_labels t).
Proof.
  intros r t Ht c. rewrite cell_map.
  destruct (existsb (fun x => bytes_eqb x c) (label_names r)) eqn:E.
  - apply existsb_bytes_in in E. apply label_names_in in E. destruct E as [Hc _].
    apply bytes_eqb_neq in Hc. rewrite Hc. reflexivity.
  - destruct (bytes_eqb c NAME) eqn:N; [reflexivity|]. symmetry. apply lookup_last_none.
    intros l Hl Hn. apply bytes_eqb_neq in N.
    assert (Hin : In c (label_names r)).
    { apply label_names_in. split; [exact N|]. exists t, l. auto. }
    apply existsb_bytes_in in Hin. congruence.
Qed.

(* convert_faithful: when the conversion succeeds,
   - the label columns are exactly the label names other than "__name__" of all
     series, strictly increasing in byte order;
   - the rows are the concatenation, series by series in request order, of one
     row per sample in sample order; each row carries the exact nanosecond
     timestamp (which fits i64), the metric name of ITS series, the routed
     value of ITS sample, and in every label column the value that ITS series
     gives to that label (null when its series does not have the label). *)
Theorem convert_faithful : forall (r : request) (b : batch),
  convert r = Done b ->
  StronglySorted blt (b_cols b) /\
  (forall c, In c (b_cols b) <->
             c <> NAME /\ exists t l, In t r /\ In l (ts_labels t) /\ l_name l = c) /\
  exists rows : list (list row),
    b_rows b = concat rows /\
    Forall2 (fun t rs => Forall2 (row_faithful (b_cols b) t) (ts_samples t) rs) r rows.
Proof.
  intros r b H. unfold convert in H. destruct r as [|t0 r0]; [discriminate|].
  set (r := t0 :: r0) in *.
  destruct (collect (convert_series (label_names r)) r) as [rows| | |] eqn:Ec; cbn [obind] in H; try discriminate.
  inversion H; subst b; clear H. cbn [b_cols b_rows].
  split; [apply label_names_strongly_sorted|].
  split; [apply label_names_in|].
  exists rows. split; [reflexivity|].
  apply collect_Forall2 in Ec.
  eapply Forall2_impl_strong; [|exact Ec]. cbv beta.
  intros t rs [Ht Hs]. unfold convert_series in Hs. apply collect_Forall2 in Hs.
  eapply Forall2_impl_strong; [|exact Hs]. cbv beta.
  intros s rw [_ Hrw]. unfold convert_sample in Hrw.
  destruct (in_i64 (s_ts s * 1000000)) eqn:Ei; [|discriminate].
  inversion Hrw; subst rw; clear Hrw. unfold row_faithful. cbn [r_ts r_name r_val r_labels].
  repeat split; auto.
  - apply map_length.
  - apply cells_of_series. exact Ht.
Qed.

(* the conversion fails only for an empty request or a timestamp without an
   i64 nanosecond representation, and never crashes *)
Lemma collect_failed : forall (A B : Type) (f : A -> outcome B) l,
  (forall a, In a l -> match f a with Panic | Hang => False | _ => True end) ->
  match collect f l with
  | Done _ => True
  | Failed c => exists a, In a l /\ f a = Failed c
  | Panic | Hang => False
  end.
Proof.
  intros A B f. induction l as [|a l IH]; intro H; cbn [collect]; [exact I|].
  pose proof (H a (or_introl eq_refl)) as Ha.
  destruct (f a) as [b|c| |] eqn:Ea; cbn [obind]; auto.
  - specialize (IH (fun x Hx => H x (or_intror Hx))).
    destruct (collect f l) as [bs|c| |]; cbn [obind]; auto.
    destruct IH as [x [Hx Hf]]. exists x. cbn [In]. auto.
  - exists a. cbn [In]. auto.
Qed.

Theorem convert_total : forall r : request,
  match convert r with
  | Done _ => True
  | Failed c => (c = E_NO_SERIES /\ r = []) \/
                (c = E_TS_RANGE /\ exists t s, In t r /\ In s (ts_samples t) /\ in_i64 (s_ts s * 1000000) = false)
  | Panic | Hang => False
  end.
Proof.
  intro r. unfold convert. destruct r as [|t0 r0]; [left; auto|].
  set (r := t0 :: r0).
  assert (Hs : forall t, In t r ->
     match convert_series (label_names r) t with
     | Done _ => True
     | Failed c => c = E_TS_RANGE /\ exists s, In s (ts_samples t) /\ in_i64 (s_ts s * 1000000) = false
     | Panic | Hang => False
     end).
  { intros t _. unfold convert_series.
    pose proof (collect_failed _ _ (convert_sample (label_names r) (metric_name (ts_labels t)) (ts_labels t)) (ts_samples t)) as Hc.
    assert (Hall : forall a, In a (ts_samples t) ->
              match convert_sample (label_names r) (metric_name (ts_labels t)) (ts_labels t) a with
              | Panic | Hang => False | _ => True end).
    { intros a _. unfold convert_sample. destruct (in_i64 (s_ts a * 1000000)); exact I. }
    specialize (Hc Hall).
    destruct (collect _ (ts_samples t)) as [rows|c| |]; auto.
    destruct Hc as [s [Hs Hf]]. unfold convert_sample in Hf.
    destruct (in_i64 (s_ts s * 1000000)) eqn:Ei; [discriminate|]. inversion Hf. split; [reflexivity|]. exists s. auto. }
  pose proof (collect_failed _ _ (convert_series (label_names r)) r) as Hc.
  assert (Hall : forall a, In a r -> match convert_series (label_names r) a with Panic | Hang => False | _ => True end).
  { intros a Ha. specialize (Hs a Ha). destruct (convert_series (label_names r) a); auto. }
  specialize (Hc Hall).
  destruct (collect (convert_series (label_names r)) r) as [rows|c| |]; cbn [obind]; auto.
  destruct Hc as [t [Ht Hf]]. specialize (Hs t Ht). rewrite Hf in Hs. destruct Hs as [Hc [s [Hs1 Hs2]]].
  right. split; [exact Hc|]. exists t, s. auto.
Qed.

(* row count *)
Lemma Forall2_length : forall (A B : Type) (P : A -> B -> Prop) l1 l2, Forall2 P l1 l2 -> length l1 = length l2.
Proof. intros A B P l1 l2 H. induction H; cbn [length]; auto. Qed.

Theorem convert_row_count : forall r b,
  convert r = Done b ->
  length (b_rows b) = fold_right (fun t n => (length (ts_samples t) + n)%nat) 0%nat r.
Proof.
  intros r b H. apply convert_faithful in H. destruct H as (_ & _ & rows & Hr & HF).
  rewrite Hr. clear Hr. induction HF as [|t rs r rows Hh _ IH]; cbn [concat fold_right length]; [reflexivity|].
  rewrite app_length, IH. f_equal. symmetry. eapply Forall2_length. exact Hh.
Qed.

(* the HTTP handler answers every body with a status: it never panics or hangs *)
Theorem handle_total : forall (m : build) (body : option bytes),
  (forall d, body = Some d -> N.of_nat (length d) < I63) ->
  match handle m body with
  | H204 | H400 | H500 => True
  | HPanic | HHang => False
  end.
Proof.
  intros m body Hlen. unfold handle. destruct body as [d|]; [|exact I].
  pose proof (parse_total m d (Hlen d eq_refl)) as Hp.
  destruct (parse_write_request (current m) d) as [r|c| |]; try exact I; try contradiction.
  pose proof (convert_total r) as Hc.
  destruct (convert r); try exact I; contradiction.
Qed.

(* ---- non-vacuity of the hypotheses of parse_encode and convert_faithful ---- *)
Definition ex_req : request :=
  [mkSeries [mkLabel NAME [99;112;117]; mkLabel [104] [97]]
            [mkSample 1000%Z 4605831338911806259; mkSample (-5)%Z 4890909195324358656];
   mkSeries [mkLabel [122] [98]; mkLabel NAME [109]; mkLabel [122] [99]]
            [mkSample 7%Z 13835058055282163712]].

Example parse_encode_nonvacuous :
  wf_request ex_req /\ N.of_nat (length (enc_request ex_req)) < I63 /\
  parse_write_request (current Debug) (enc_request ex_req) = Done ex_req.
Proof.
  split; [|split; [vm_compute; reflexivity|vm_compute; reflexivity]].
  unfold ex_req, wf_request.
  repeat constructor; try apply ascii_wf; repeat constructor; vm_compute; try reflexivity; try discriminate.
Qed.

(* two series with different label sets, a duplicated label (last value wins), a
   metric name that is not the first label, the value 2^63 (kept as f64) and -2.0
   (stored as the integer -2) *)
Example convert_faithful_nonvacuous :
  convert ex_req = Done (mkBatch [[104]; [122]]
    [mkRow 1000000000%Z [99;112;117] (RF64 4605831338911806259) [Some [97]; None];
     mkRow (-5000000)%Z [99;112;117] (RF64 4890909195324358656) [Some [97]; None];
     mkRow 7000000%Z [109] (RI64 (-2)%Z) [None; Some [99]]]).
Proof. vm_compute. reflexivity. Qed.
