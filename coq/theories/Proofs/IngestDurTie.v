(* Proofs/IngestDurTie.v — the arguments and guards of the WAL calls in the
   model's flush and recovery steps ARE the expressions at the call sites of
   src/ingester/mod.rs: generated/Funs.v is re-translated from /repo on every
   run (lib/exprtrans.py, lib/funs.d/ingestdur.py), so a changed truncation
   bound, guard or persisted value makes one of these lemmas unprovable and
   re-opens C01. *)
From CS Require Import Base.Prelude Model.Ingest Model.IngestDur.
From CSGen Require Import Consts Funs.
Open Scope N_scope.

Definition zN (f : Z -> Z) (n : N) : N := Z.to_N (f (Z.of_N n)).

Lemma guard_pos n : Z.gtb (Z.of_N n) 0 = (0 <? n).
Proof. destruct n; reflexivity. Qed.

(* flush_batches: `if flushed_up_to > 0 { truncate_before(flushed_up_to) ... }` *)
Lemma flush_truncate_is_code hw f d v s k :
  dflush_step hw f d v (QTrunc s k) =
  if Funs.ingest_flush_mark_guard (Z.of_N s)
  then Some (if hw then set_segs d (trunc (zN Funs.ingest_flush_truncate_bound s) (d_segs d)) else d,
             v, GPc (QPersist s k))
  else Some (d, v, GOk k).
Proof.
  unfold Funs.ingest_flush_mark_guard, zN, Funs.ingest_flush_truncate_bound.
  rewrite guard_pos, N2Z.id. reflexivity.
Qed.

(* flush_batches: last_flushed_seq.store(flushed_up_to); persist_flushed_seq(dir, flushed_up_to) *)
Lemma flush_persist_is_code hw f d v s k :
  dflush_step hw f d v (QPersist s k) =
  Some (set_flushed d (zN Funs.ingest_flush_persist_value s),
        set_lfs v (zN Funs.ingest_flush_lfs_value s), GPc (QFin k)).
Proof.
  unfold zN, Funs.ingest_flush_persist_value, Funs.ingest_flush_lfs_value. rewrite N2Z.id. reflexivity.
Qed.

(* ensure_wal: read_entries_after(flushed_seq) *)
Lemma recover_replay_is_code d :
  replay_sbs d = filter (fun e => zN Funs.ingest_recover_read_after (d_flushed d) <? fst e) (wal_sbs d).
Proof. unfold zN, Funs.ingest_recover_read_after. rewrite N2Z.id. reflexivity. Qed.

(* ensure_wal: `if flushed_seq > 0 { wal.truncate_before(flushed_seq + 1) }` *)
Lemma recover_truncate_is_code f d v maxs fl0 :
  drstep f d v (QRFinish maxs fl0) =
  (if Funs.ingest_recover_truncate_guard (Z.of_N fl0)
   then set_segs d (trunc (zN Funs.ingest_recover_truncate_bound fl0) (d_segs d)) else d,
   if fl0 <? maxs then set_lws v maxs else v, RUp).
Proof.
  unfold Funs.ingest_recover_truncate_guard, zN, Funs.ingest_recover_truncate_bound.
  rewrite guard_pos. replace (Z.to_N (Z.of_N fl0 + 1)) with (fl0 + 1) by lia. reflexivity.
Qed.

Theorem wal_call_sites_are_the_code :
  (forall hw f d v s k,
     dflush_step hw f d v (QTrunc s k) =
     if Funs.ingest_flush_mark_guard (Z.of_N s)
     then Some (if hw then set_segs d (trunc (zN Funs.ingest_flush_truncate_bound s) (d_segs d)) else d,
                v, GPc (QPersist s k))
     else Some (d, v, GOk k)) /\
  (forall hw f d v s k,
     dflush_step hw f d v (QPersist s k) =
     Some (set_flushed d (zN Funs.ingest_flush_persist_value s),
           set_lfs v (zN Funs.ingest_flush_lfs_value s), GPc (QFin k))) /\
  (forall d, replay_sbs d = filter (fun e => zN Funs.ingest_recover_read_after (d_flushed d) <? fst e) (wal_sbs d)) /\
  (forall f d v maxs fl0,
     drstep f d v (QRFinish maxs fl0) =
     (if Funs.ingest_recover_truncate_guard (Z.of_N fl0)
      then set_segs d (trunc (zN Funs.ingest_recover_truncate_bound fl0) (d_segs d)) else d,
      if fl0 <? maxs then set_lws v maxs else v, RUp)).
Proof.
  split; [exact flush_truncate_is_code|]. split; [exact flush_persist_is_code|].
  split; [exact recover_replay_is_code|exact recover_truncate_is_code].
Qed.
