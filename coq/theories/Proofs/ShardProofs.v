(* Proofs/ShardProofs.v — C13: shard metadata changes are fenced by generation.
   Everything about the object-store backend is a corollary of
   cas_linearizable (Proofs/CasProtoProofs.v) for the instance Model/Shard.v,
   plus one instance-specific state invariant (a loser of a generation race is
   told "stale" after at most one conflict, never "too many retries"). *)
From Coq Require Import Sorting.Sorted.
From CS Require Import Base.Prelude Base.CasProto Proofs.CasProtoProofs Model.Shard.
From CSGen Require Import Consts.

Notation scommit := (commit shard sop sout).

(* ------------------------------------------------------------------ *)
(* shape of a committing decide                                         *)
(* ------------------------------------------------------------------ *)
Lemma shard_decide_commit now op prev v' o :
  shard_decide now op prev = Commit v' o ->
  o = SOk /\ gen_of prev = so_expected op /\
  v' = mkShard (so_expected op + 1) (so_state op) (so_data op) /\
  (prev = None -> so_expected op = 0%N).
Proof.
  unfold shard_decide. destruct prev as [sh|]; simpl.
  - destruct (N.eqb (sh_gen sh) (so_expected op)) eqn:E; [|discriminate].
    apply N.eqb_eq in E. intros H; inversion H; subst. repeat split; try assumption. discriminate.
  - destruct (N.eqb (so_expected op) 0) eqn:E; [|discriminate].
    apply N.eqb_eq in E. intros H; inversion H; subst. rewrite E. repeat split; auto.
Qed.

Lemma shard_decide_abort now op prev o :
  shard_decide now op prev = Abort o ->
  (exists sh, prev = Some sh /\ sh_gen sh <> so_expected op /\ o = SStale (so_expected op) (sh_gen sh)) \/
  (prev = None /\ so_expected op <> 0%N /\ o = SNotFound).
Proof.
  unfold shard_decide. destruct prev as [sh|]; simpl.
  - destruct (N.eqb (sh_gen sh) (so_expected op)) eqn:E; [discriminate|].
    apply N.eqb_neq in E. intros H; inversion H; subst. left. exists sh. auto.
  - destruct (N.eqb (so_expected op) 0) eqn:E; [discriminate|].
    apply N.eqb_neq in E. intros H; inversion H; subst. right. auto.
Qed.

(* the in-memory backend performs the same decision atomically *)
Lemma local_update_atomic cur op now :
  local_update cur op =
  match atomic shard_decide now op cur with
  | (v, FCommit o) => (v, o)
  | (v, FAbort o) => (v, o)
  | (v, FRetries) => (v, SOk)
  end.
Proof.
  unfold local_update, atomic, shard_decide. destruct cur as [sh|]; simpl.
  - destruct (N.eqb (sh_gen sh) (so_expected op)); reflexivity.
  - destruct (N.eqb (so_expected op) 0) eqn:E; simpl; [|reflexivity].
    apply N.eqb_eq in E. rewrite E. reflexivity.
Qed.

Lemma local_run_seq_exec (ops : list (Z * sop)) : forall v,
  seq_exec shard_decide v ops = local_shard_run v (map snd ops).
Proof.
  induction ops as [|[n op] r IH]; intros v; [reflexivity|].
  unfold seq_exec, local_shard_run in *. simpl. rewrite IH. f_equal.
  rewrite (local_update_atomic v op n). destruct (atomic shard_decide n op v) as [v' [o|o|]]; reflexivity.
Qed.

(* ------------------------------------------------------------------ *)
(* the ladder: commit i was based on generation g+i and wrote g+i+1      *)
(* ------------------------------------------------------------------ *)
Fixpoint ladder (g : N) (log : list scommit) : Prop :=
  match log with
  | [] => True
  | k :: r =>
      so_expected (k_op k) = g /\ gen_of (k_prev k) = g /\
      k_val k = mkShard (g + 1) (so_state (k_op k)) (so_data (k_op k)) /\
      k_out k = SOk /\
      ladder (g + 1) r
  end.

Lemma chain_ladder (log : list scommit) : forall prev,
  chain shard_decide prev log -> ladder (gen_of prev) log.
Proof.
  induction log as [|k r IH]; intros prev Hc; [exact I|].
  destruct Hc as [Hp [Hd Hc]]. apply shard_decide_commit in Hd.
  destruct Hd as [Ho [Hg [Hv _]]]. simpl.
  rewrite Hp. rewrite <- Hg in Hv. repeat split; auto.
  specialize (IH _ Hc). rewrite Hv in IH. simpl in IH. exact IH.
Qed.

Lemma ladder_expected_ge g (log : list scommit) :
  ladder g log -> Forall (fun k => (g <= so_expected (k_op k))%N) log.
Proof.
  revert g. induction log as [|k r IH]; intros g H; [constructor|].
  destruct H as [He [_ [_ [_ Hr]]]]. constructor; [lia|].
  specialize (IH _ Hr). eapply Forall_impl; [|exact IH]. simpl. intros a Ha. lia.
Qed.

Lemma ladder_sorted g (log : list scommit) :
  ladder g log -> StronglySorted N.lt (map (fun k => so_expected (k_op k)) log).
Proof.
  revert g. induction log as [|k r IH]; intros g H; simpl; [constructor|].
  destruct H as [He [_ [_ [_ Hr]]]]. constructor; [apply (IH _ Hr)|].
  apply Forall_map. pose proof (ladder_expected_ge _ _ Hr) as Hge.
  eapply Forall_impl; [|exact Hge]. simpl. intros a Ha. lia.
Qed.

Lemma sorted_lt_nodup (l : list N) : StronglySorted N.lt l -> NoDup l.
Proof.
  induction 1 as [|a l Hs IH Hf]; constructor; [|exact IH].
  intros Hin. rewrite Forall_forall in Hf. specialize (Hf _ Hin). lia.
Qed.

(* generations of the versions written: g+1, g+2, ... *)
Fixpoint consecutive (g : N) (l : list N) : Prop :=
  match l with
  | [] => True
  | x :: r => x = (g + 1)%N /\ consecutive x r
  end.

Lemma ladder_consecutive g (log : list scommit) :
  ladder g log -> consecutive g (map (fun k => sh_gen (k_val k)) log).
Proof.
  revert g. induction log as [|k r IH]; intros g H; simpl; [exact I|].
  destruct H as [_ [_ [Hv [_ Hr]]]]. rewrite Hv. simpl. split; [reflexivity|]. apply IH. exact Hr.
Qed.

(* ------------------------------------------------------------------ *)
(* C13 for every schedule                                               *)
(* ------------------------------------------------------------------ *)
Section ShardRuns.
  Variable v0 : option shard.
  Variable progs : nat -> list sop.
  Variable sched : list label.

  Let s := shard_run sched (shard_init v0 progs).

  Lemma shard_lin :
    chain shard_decide v0 (s_log s) /\
    cur_val s = last_val v0 (s_log s) /\
    (forall c, map op_out (by_client c (s_log s)) = successes (c_done (s_cl s c))) /\
    (forall c, map fst (c_done (s_cl s c)) ++ inflight (c_pc (s_cl s c)) ++ c_todo (s_cl s c) = progs c) /\
    (forall c op o, In (op, FAbort o) (c_done (s_cl s c)) ->
       exists now prev, hist v0 (s_log s) prev /\ shard_decide now op prev = Abort o).
  Proof. exact (cas_linearizable shard_decide 0 shard_max_retries v0 0%Z progs sched). Qed.

  (* every successful update carries the generation it was based on (the
     version it replaced had exactly the expected generation; a creation
     expected 0), and wrote expected + 1 together with the caller's payload *)
  Theorem gen_plus_one :
    Forall (fun k =>
      gen_of (k_prev k) = so_expected (k_op k) /\
      (k_prev k = None -> so_expected (k_op k) = 0%N) /\
      k_val k = mkShard (so_expected (k_op k) + 1) (so_state (k_op k)) (so_data (k_op k)) /\
      k_out k = SOk) (s_log s).
  Proof.
    destruct shard_lin as [Hc _]. revert Hc. generalize v0. generalize (s_log s).
    induction l as [|k r IH]; intros prev Hc; [constructor|].
    destruct Hc as [Hp [Hd Hc]]. constructor; [|apply (IH _ Hc)].
    apply shard_decide_commit in Hd. destruct Hd as [Ho [Hg [Hv Hn]]].
    rewrite Hp. repeat split; auto.
  Qed.

  (* the stored generation rises by exactly one with every version written *)
  Theorem stored_generation_monotone :
    consecutive (gen_of v0) (map (fun k => sh_gen (k_val k)) (s_log s)).
  Proof. destruct shard_lin as [Hc _]. apply ladder_consecutive, chain_ladder. exact Hc. Qed.

  (* of all updates based on the same generation at most one succeeds: the
     expected generations of the successful updates are strictly increasing
     in commit order, hence pairwise different *)
  Theorem at_most_one_winner_per_generation :
    StronglySorted N.lt (map (fun k => so_expected (k_op k)) (s_log s)) /\
    NoDup (map (fun k => so_expected (k_op k)) (s_log s)).
  Proof.
    destruct shard_lin as [Hc _]. apply chain_ladder in Hc.
    pose proof (ladder_sorted _ _ Hc) as Hs. split; [exact Hs|apply sorted_lt_nodup; exact Hs].
  Qed.

  (* creating a shard succeeds for at most one creator: only the first commit
     can be a creation, and only when the shard did not exist *)
  Theorem single_creator :
    match s_log s with
    | [] => True
    | k :: r => k_prev k = v0 /\ Forall (fun k' => k_prev k' <> None) r
    end.
  Proof. exact (cas_create_once shard_decide 0 shard_max_retries v0 0%Z progs sched). Qed.

  (* a successful update of a client is in the log exactly once (with Ok); an
     update that returned an error or TooManyRetries wrote nothing *)
  Theorem successes_are_the_commits c :
    map op_out (by_client c (s_log s)) = successes (c_done (s_cl s c)) /\
    length (by_client c (s_log s)) = length (successes (c_done (s_cl s c))).
  Proof.
    destruct shard_lin as [_ [_ [H3 _]]]. split; [apply H3|].
    rewrite <- (H3 c). rewrite map_length. reflexivity.
  Qed.

  (* a rejected update was told the truth: StaleGeneration carries its own
     expected generation and a different generation that really was stored;
     ShardNotFound only if the shard did not exist and expected <> 0 *)
  Theorem rejected_as_stale c op o :
    In (op, FAbort o) (c_done (s_cl s c)) ->
    (exists sh, hist v0 (s_log s) (Some sh) /\ sh_gen sh <> so_expected op /\
                o = SStale (so_expected op) (sh_gen sh)) \/
    (v0 = None /\ so_expected op <> 0%N /\ o = SNotFound).
  Proof.
    intros Hin. destruct shard_lin as [_ [_ [_ [_ H5]]]].
    destruct (H5 _ _ _ Hin) as [now [prev [Hh Hd]]].
    apply shard_decide_abort in Hd. destruct Hd as [[sh [Hp [Hne Ho]]]|[Hp [Hne Ho]]].
    - left. exists sh. subst prev. auto.
    - right. subst prev. split; [|auto]. destruct Hh as [Hh|[k [_ Hk]]]; [symmetry; exact Hh|discriminate].
  Qed.

  (* what is stored now is the last version written; replaying the successful
     updates one at a time, in commit order, on the in-memory backend gives
     the same shard *)
  Theorem shard_sequential :
    cur_val s = local_shard_run v0 (map (fun k => k_op k) (s_log s)).
  Proof.
    pose proof (cas_sequential shard_decide 0 shard_max_retries v0 0%Z progs sched) as H.
    fold shard_run in H. fold (shard_init v0 progs) in H. fold s in H.
    rewrite H. rewrite local_run_seq_exec. unfold log_ops. rewrite map_map. reflexivity.
  Qed.
End ShardRuns.

(* ------------------------------------------------------------------ *)
(* a stale writer never retries more than once                          *)
(* ------------------------------------------------------------------ *)
Definition shard_pc_ok (cur : option (obj shard)) (p : pc shard sop sout) : Prop :=
  match p with
  | Idle => True
  | Loading _ _ _ => False
  | Backoff op att => exists ob, cur = Some ob /\ (so_expected op < sh_gen (o_val ob))%N
  | AfterLoad op att snap dnow v' o =>
      att = O /\ gen_of (option_map o_val snap) = so_expected op /\
      match snap, cur with
      | Some a, Some b => o_ver a = o_ver b \/ (sh_gen (o_val a) < sh_gen (o_val b))%N
      | None, Some b => (so_expected op < sh_gen (o_val b))%N
      | None, None => True
      | Some _, None => False
      end
  end.

Definition no_retries (d : list (sop * fin sout)) : Prop := forall op, ~ In (op, FRetries) d.

Definition shard_state_ok (s : sys shard sop sout) : Prop :=
  forall c, shard_pc_ok (s_cur s) (c_pc (s_cl s c)) /\ no_retries (c_done (s_cl s c)).

Lemma no_retries_app d op r : no_retries d -> r <> FRetries -> no_retries (d ++ [(op, r)]).
Proof.
  intros H Hr op' Hin. apply in_app_or in Hin. destruct Hin as [Hin|[Heq|[]]].
  - exact (H _ Hin).
  - inversion Heq; subst. apply Hr; reflexivity.
Qed.

Lemma shard_decided_ok (s : sys shard sop sout) cl todo op att :
  no_retries (c_done cl) ->
  (att = O \/ exists ob, s_cur s = Some ob /\ (so_expected op < sh_gen (o_val ob))%N) ->
  let x := decided shard_decide s cl todo op att (s_cur s) in
  shard_pc_ok (s_cur s) (c_pc x) /\ no_retries (c_done x).
Proof.
  intros Hnr Hatt. unfold decided.
  destruct (shard_decide (s_now s) op (option_map o_val (s_cur s))) as [v' o|o] eqn:Hd; simpl.
  - split; [|exact Hnr]. apply shard_decide_commit in Hd. destruct Hd as [_ [Hg _]].
    split.
    + destruct Hatt as [Ha|[ob [Hc Hlt]]]; [exact Ha|]. rewrite Hc in Hg. simpl in Hg. lia.
    + split; [exact Hg|]. destruct (s_cur s) as [b|]; [left; reflexivity|exact I].
  - split; [exact I|]. apply no_retries_app; [exact Hnr|discriminate].
Qed.

Lemma shard_state_step v0 now0 progs :
  (2 <= shard_max_retries)%nat ->
  forall s l,
    Inv shard_decide v0 now0 progs s -> shard_state_ok s -> shard_state_ok (shard_step s l).
Proof.
  intros Hmax s l HI HP. destruct l as [c|d]; [|exact HP].
  unfold shard_step, step.
  destruct (HP c) as [Hpc Hnr].
  destruct (c_pc (s_cl s c)) as [|op att k|op att snap dnow v' o|op att] eqn:Epc.
  - (* Idle *)
    destruct (c_todo (s_cl s c)) as [|op rest] eqn:Etodo; [exact HP|].
    intros c'. simpl. unfold upd. destruct (Nat.eqb c' c) eqn:E; [|apply HP].
    unfold do_get. destruct (s_cur s) as [ob|] eqn:Ec.
    + rewrite <- Ec. apply shard_decided_ok; [exact Hnr|left; reflexivity].
    + rewrite <- Ec. apply shard_decided_ok; [exact Hnr|left; reflexivity].
  - (* Loading: unreachable with one GET per load *)
    contradiction.
  - (* AfterLoad *)
    destruct Hpc as [Hatt [Hg Hrel]].
    destruct (put_ok snap (s_cur s)) eqn:Hput.
    + (* success: cur := (fresh, v'), generation of cur + 1 *)
      pose proof (ci_pc (inv_cl HI c)) as Hpk. rewrite Epc in Hpk. simpl in Hpk.
      destruct Hpk as [Hd [_ [_ Hsn]]].
      apply shard_decide_commit in Hd. destruct Hd as [_ [_ [Hv _]]].
      assert (Hnew : sh_gen v' = (so_expected op + 1)%N) by (rewrite Hv; reflexivity).
      assert (Hcurgen : gen_of (option_map o_val (s_cur s)) = so_expected op).
      { rewrite <- Hg. destruct snap as [a|], (s_cur s) as [b|]; simpl in Hput; try discriminate; [|reflexivity].
        apply N.eqb_eq in Hput. destruct Hsn as [_ Hs]. simpl. rewrite (Hs b eq_refl Hput). reflexivity. }
      intros c'. simpl. unfold upd. destruct (Nat.eqb c' c) eqn:E.
      * simpl. split; [exact I|]. apply no_retries_app; [exact Hnr|discriminate].
      * destruct (HP c') as [Hpc' Hnr']. split; [|exact Hnr'].
        destruct (c_pc (s_cl s c')) as [|op' att' k'|op' att' snap' dnow' w' o'|op' att'] eqn:Epc'; simpl; auto.
        -- destruct Hpc' as [Ha' [Hg' Hrel']]. split; [exact Ha'|]. split; [exact Hg'|].
           pose proof (ci_pc (inv_cl HI c')) as Hpk'. rewrite Epc' in Hpk'. simpl in Hpk'.
           destruct Hpk' as [_ [_ [_ Hsn']]].
           destruct snap' as [a'|].
           ++ right. destruct (s_cur s) as [b|] eqn:Ec; [|contradiction]. simpl in Hcurgen.
              destruct Hrel' as [Hveq|Hlt].
              ** destruct Hsn' as [_ Hs']. rewrite (Hs' b eq_refl Hveq). simpl. lia.
              ** simpl. lia.
           ++ simpl in Hg'. simpl. lia.
        -- destruct Hpc' as [ob [Hc Hlt]]. rewrite Hc in Hcurgen. simpl in Hcurgen.
           eexists. split; [reflexivity|]. simpl. lia.
    + (* conflict: the stored generation is already beyond the expected one *)
      assert (Hnext : Nat.leb shard_max_retries (S att) = false).
      { subst att. apply Nat.leb_gt. lia. }
      rewrite Hnext. intros c'. simpl. unfold upd. destruct (Nat.eqb c' c) eqn:E; [|apply HP].
      simpl. split; [|exact Hnr].
      destruct snap as [a|], (s_cur s) as [b|] eqn:Ec; simpl in Hput; try discriminate; try contradiction.
      * exists b. split; [reflexivity|]. simpl in Hg. destruct Hrel as [Hveq|Hlt].
        -- apply N.eqb_neq in Hput. contradiction.
        -- lia.
      * exists b. split; [reflexivity|exact Hrel].
  - (* Backoff: the reload finds a newer generation and aborts with Stale *)
    intros c'. simpl. unfold upd. destruct (Nat.eqb c' c) eqn:E; [|apply HP].
    destruct Hpc as [ob [Hc Hlt]]. unfold do_get. rewrite Hc. rewrite <- Hc.
    apply shard_decided_ok; [exact Hnr|]. right. exists ob. split; assumption.
Qed.

Lemma shard_max_retries_ge2 : (2 <= shard_max_retries)%nat.
Proof. unfold shard_max_retries. apply Nat.leb_le. vm_compute. reflexivity. Qed.

(* no update of shard metadata ever ends in TooManyRetries: a writer that
   loses a race reloads, sees a generation beyond the one it expected and is
   rejected as stale (needs MAX_CAS_RETRIES >= 2, checked against the code's
   constant) *)
Theorem never_too_many_retries v0 progs sched c op :
  ~ In (op, FRetries) (c_done (s_cl (shard_run sched (shard_init v0 progs)) c)).
Proof.
  assert (H : shard_state_ok (shard_run sched (shard_init v0 progs))).
  { unfold shard_run, shard_init.
    apply (run_invariant shard_decide 0 shard_max_retries v0 0%Z progs shard_state_ok).
    - intros c'. simpl. split; [exact I|intros op' []].
    - intros s l HI HP. apply (shard_state_step v0 0%Z progs shard_max_retries_ge2 s l HI HP). }
  destruct (H c) as [_ Hnr]. apply Hnr.
Qed.

(* ------------------------------------------------------------------ *)
(* the router cache                                                     *)
(* ------------------------------------------------------------------ *)
Lemma Neqb_spec' a b : N.eqb a b = true <-> a = b.
Proof. apply N.eqb_eq. Qed.

Lemma aget_aset_same_N {A} k (v : A) l : aget N.eqb k (aset N.eqb k v l) = Some v.
Proof.
  induction l as [|[k' v'] r IH]; simpl.
  - rewrite N.eqb_refl; reflexivity.
  - destruct (N.eqb k k') eqn:E; simpl; rewrite E; [reflexivity|exact IH].
Qed.

Lemma aget_aset_other_N {A} k k' (v : A) l : k <> k' -> aget N.eqb k (aset N.eqb k' v l) = aget N.eqb k l.
Proof.
  intros Hn. induction l as [|[k2 v2] r IH]; simpl.
  - apply N.eqb_neq in Hn. rewrite Hn. reflexivity.
  - destruct (N.eqb k' k2) eqn:E; simpl.
    + apply N.eqb_eq in E; subst k2. apply N.eqb_neq in Hn. rewrite Hn. reflexivity.
    + destruct (N.eqb k k2); [reflexivity|exact IH].
Qed.

(* update_routing never lowers the cached generation of any shard, never
   drops an entry, and afterwards the cached generation of the updated shard
   is at least the offered one *)
Theorem router_never_downgrades c id gen data id' :
  match router_gen c id', router_gen (router_update c id gen data) id' with
  | Some g, Some g' => (g <= g')%N
  | Some _, None => False
  | None, _ => True
  end /\
  match router_gen (router_update c id gen data) id with
  | Some g' => (gen <= g')%N
  | None => False
  end.
Proof.
  unfold router_gen, router_update. split.
  - destruct (N.eq_dec id' id) as [->|Hne].
    + destruct (aget N.eqb id c) as [[g d]|] eqn:E; simpl; [|exact I].
      destruct (N.ltb gen g) eqn:L.
      * rewrite E. simpl. lia.
      * rewrite aget_aset_same_N. simpl. apply N.ltb_ge in L. exact L.
    + assert (Hsame : forall x, aget N.eqb id' (aset N.eqb id x c) = aget N.eqb id' c)
        by (intros x; apply aget_aset_other_N; exact Hne).
      destruct (aget N.eqb id c) as [[g d]|] eqn:E.
      * destruct (N.ltb gen g); [|rewrite Hsame];
          destruct (aget N.eqb id' c) as [[g2 d2]|]; simpl; try lia; exact I.
      * rewrite Hsame. destruct (aget N.eqb id' c) as [[g2 d2]|]; simpl; try lia; exact I.
  - destruct (aget N.eqb id c) as [[g d]|] eqn:E.
    + destruct (N.ltb gen g) eqn:L.
      * rewrite E. simpl. apply N.ltb_lt in L. lia.
      * rewrite aget_aset_same_N. simpl. lia.
    + rewrite aget_aset_same_N. simpl. lia.
Qed.

(* over any history of update_routing calls the cached generation of every
   shard is monotone *)
Theorem router_monotone_history (h : list (N * N * N)) : forall c id',
  match router_gen c id',
        router_gen (fold_left (fun c x => router_update c (fst (fst x)) (snd (fst x)) (snd x)) h c) id' with
  | Some g, Some g' => (g <= g')%N
  | Some _, None => False
  | None, _ => True
  end.
Proof.
  induction h as [|[[id gen] data] r IH]; intros c id'; simpl.
  - destruct (router_gen c id'); [lia|exact I].
  - specialize (IH (router_update c id gen data) id').
    destruct (router_never_downgrades c id gen data id') as [H _].
    destruct (router_gen c id') as [g|]; [|exact I].
    destruct (router_gen (router_update c id gen data) id') as [g1|]; [|contradiction].
    destruct (router_gen _ id') as [g2|]; [lia|contradiction].
Qed.

(* ---------------- non-vacuity / witnesses ---------------- *)
(* two creators race (GET, GET, PUT, PUT), the loser reloads and is told
   "stale 0 -> 1"; then an update based on generation 1 succeeds *)
Example c13_race_example :
  let progs := fun c => match c with
                        | O => [mkSop 0 0 10; mkSop 1 1 11]
                        | S O => [mkSop 0 0 20]
                        | _ => [] end in
  let s := shard_run [Req 0; Req 1; Req 0; Req 1; Req 1; Req 0; Req 0] (shard_init None progs) in
  map (fun k => (k_client k, k_val k)) (s_log s) = [(O, mkShard 1 0 10); (O, mkShard 2 1 11)] /\
  c_done (s_cl s 1) = [(mkSop 0 0 20, FAbort (SStale 0 1))] /\
  cur_val s = Some (mkShard 2 1 11).
Proof. vm_compute. repeat split. Qed.
