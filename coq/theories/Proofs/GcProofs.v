(* Proofs/GcProofs.v — invariants and theorems about Model/Gc.v (C09). *)
From CS Require Import Base.Prelude Model.Gc.
From CSGen Require Import Consts.
Open Scope Z_scope.

(* ------------------------------------------------------------------ *)
(* basic list facts                                                      *)
(* ------------------------------------------------------------------ *)
Lemma memN_In x l : memN x l = true <-> In x l.
Proof.
  induction l as [|y r IH]; simpl; [split; [discriminate|tauto]|].
  rewrite orb_true_iff, IH, N.eqb_eq. split; intros [H|H]; auto.
Qed.

Lemma memN_false x l : memN x l = false <-> ~ In x l.
Proof. rewrite <- memN_In. destruct (memN x l); split; congruence. Qed.

Lemma In_removeN q p l : In q (removeN p l) <-> In q l /\ q <> p.
Proof.
  unfold removeN. rewrite filter_In, negb_true_iff, N.eqb_neq. tauto.
Qed.

Lemma In_remove1 q p l : In q (remove1 p l) -> In q l.
Proof.
  induction l as [|y r IH]; simpl; [tauto|].
  destruct (N.eqb p y); simpl; intuition.
Qed.

Lemma In_add_set q p l : In q (add_set p l) <-> q = p \/ In q l.
Proof.
  unfold add_set. destruct (memN p l) eqn:E.
  - apply memN_In in E. split; [auto|]. intros [->|H]; auto.
  - simpl. split; intros [H|H]; auto.
Qed.

Lemma amem_true_iff {V} k (l : list (N * V)) : amem N.eqb k l = true <-> exists v, In (k, v) l.
Proof.
  unfold amem. induction l as [|[k' v'] r IH]; simpl.
  - split; [discriminate|intros [v []]].
  - destruct (N.eqb k k') eqn:E.
    + apply N.eqb_eq in E. subst. split; [intros _; exists v'; auto|auto].
    + apply N.eqb_neq in E. rewrite IH. split; intros [v H]; exists v; [auto|].
      destruct H as [H|H]; [inversion H; congruence|auto].
Qed.

Lemma amem_false_iff {V} k (l : list (N * V)) : amem N.eqb k l = false <-> forall v, ~ In (k, v) l.
Proof.
  split.
  - intros H v Hin. assert (amem N.eqb k l = true) by (apply amem_true_iff; eauto). congruence.
  - intros H. destruct (amem N.eqb k l) eqn:E; [|reflexivity].
    apply amem_true_iff in E. destruct E as [v Hv]. exfalso; eapply H; eauto.
Qed.

Lemma aget_In {V} k (l : list (N * V)) v : aget N.eqb k l = Some v -> In (k, v) l.
Proof.
  induction l as [|[k' v'] r IH]; simpl; [discriminate|].
  destruct (N.eqb k k') eqn:E.
  - apply N.eqb_eq in E. intros H. inversion H. subst. auto.
  - auto.
Qed.

Lemma amem_aset {V} k q (v : V) l : amem N.eqb k (aset N.eqb q v l) = N.eqb k q || amem N.eqb k l.
Proof.
  unfold amem. induction l as [|[k' v'] r IH]; simpl.
  - destruct (N.eqb k q); reflexivity.
  - destruct (N.eqb q k') eqn:E; simpl.
    + apply N.eqb_eq in E. subst. destruct (N.eqb k k'); reflexivity.
    + destruct (N.eqb k k') eqn:E2; simpl.
      * destruct (N.eqb k q); reflexivity.
      * apply IH.
Qed.

Lemma amem_cat_remove k ps c :
  amem N.eqb k (cat_remove ps c) = amem N.eqb k c && negb (memN k ps).
Proof.
  unfold cat_remove, amem. induction c as [|[k' v'] r IH]; simpl; [reflexivity|].
  destruct (memN k' ps) eqn:M; simpl.
  - destruct (N.eqb k k') eqn:E.
    + apply N.eqb_eq in E. subst. rewrite M. simpl.
      rewrite IH. destruct (aget N.eqb k' r); simpl; rewrite ?M; reflexivity.
    + apply IH.
  - destruct (N.eqb k k') eqn:E.
    + apply N.eqb_eq in E. subst. rewrite M. reflexivity.
    + apply IH.
Qed.

Lemma In_cat_remove e ps c : In e (cat_remove ps c) <-> In e c /\ ~ In (fst e) ps.
Proof.
  unfold cat_remove. rewrite filter_In. destruct e as [p v]. simpl.
  rewrite negb_true_iff, memN_false. tauto.
Qed.

Lemma In_gc_select p cut pend pinned :
  In p (gc_select cut pend pinned) <->
  exists ts, In (p, ts) pend /\ ts <= cut /\ ~ In p pinned.
Proof.
  unfold gc_select. rewrite in_map_iff. split.
  - intros [[q ts] [Hq Hin]]. simpl in Hq. subst q. apply filter_In in Hin.
    destruct Hin as [Hin Hc]. apply andb_true_iff in Hc. destruct Hc as [H1 H2].
    exists ts. rewrite Z.leb_le in H1. rewrite negb_true_iff, memN_false in H2. auto.
  - intros [ts [Hin [H1 H2]]]. exists (p, ts). split; [reflexivity|].
    apply filter_In. split; [assumption|]. apply andb_true_iff.
    rewrite Z.leb_le, negb_true_iff, memN_false. auto.
Qed.

Lemma In_gc_retain e sel pend : In e (gc_retain sel pend) -> In e pend.
Proof. unfold gc_retain. rewrite filter_In. tauto. Qed.

Lemma In_get_chunks p mn mx c s e :
  In (p, (mn, mx)) (get_chunks c s e) -> In (p, (mn, mx)) c /\ mn <= e /\ s <= mx.
Proof.
  unfold get_chunks. destruct (e <? s); [intros []|].
  rewrite filter_In. unfold overlaps. intros [H1 H2]. apply andb_true_iff in H2.
  rewrite Z.leb_le, Z.geb_le in H2. tauto.
Qed.

Lemma In_ret_select p mn mx cut c :
  In (p, (mn, mx)) (ret_select cut c) -> In (p, (mn, mx)) c /\ mx < cut.
Proof.
  unfold ret_select. rewrite filter_In. intros [H1 H2]. apply Z.ltb_lt in H2.
  apply In_get_chunks in H1. tauto.
Qed.

Lemma load_merge_sub file : forall pend e,
  In e (load_merge file pend) -> In e pend \/ In e file.
Proof.
  unfold load_merge. induction file as [|[p ts] r IH]; simpl; intros pend e H; [auto|].
  apply IH in H. destruct H as [H|H]; [|auto].
  destruct (amem N.eqb p pend); [auto|].
  apply in_app_or in H. destruct H as [H|[H|[]]]; auto.
Qed.

Lemma load_merge_keeps file : forall pend e, In e pend -> In e (load_merge file pend).
Proof.
  unfold load_merge. induction file as [|[p ts] r IH]; simpl; intros pend e H; [auto|].
  apply IH. destruct (amem N.eqb p pend); [auto|]. apply in_or_app. auto.
Qed.

Lemma load_merge_covers file : forall pend p ts,
  In (p, ts) file -> exists ts', In (p, ts') (load_merge file pend) /\ (In (p, ts') pend \/ In (p, ts') file).
Proof.
  unfold load_merge. induction file as [|[q tq] r IH]; simpl; intros pend p ts H; [tauto|].
  destruct H as [H|H].
  - inversion H; subst q tq; clear H.
    destruct (amem N.eqb p pend) eqn:E.
    + apply amem_true_iff in E. destruct E as [v Hv]. exists v. split; [|auto].
      apply (load_merge_keeps r). assumption.
    + exists ts. split; [|auto]. apply (load_merge_keeps r). apply in_or_app. simpl. auto.
  - destruct (IH (if amem N.eqb q pend then pend else pend ++ [(q, tq)]) p ts H) as [ts' [H1 H2]].
    exists ts'. split; [assumption|].
    destruct H2 as [H2|H2]; [|auto].
    destruct (amem N.eqb q pend); [auto|].
    apply in_app_or in H2. destruct H2 as [H2|[H2|[]]]; auto.
Qed.

Lemma app_snoc_split {A} (b b1 b2 : list A) x :
  b ++ [x] = b1 ++ b2 -> (b2 = [] /\ b1 = b ++ [x]) \/ exists b2', b2 = b2' ++ [x] /\ b = b1 ++ b2'.
Proof.
  intros H. destruct b2 as [|z b2] using rev_ind.
  - left. rewrite app_nil_r in H. auto.
  - right. clear IHb2. rewrite app_assoc in H. apply app_inj_tail in H. destruct H as [H1 H2].
    subst. exists b2. auto.
Qed.

(* ------------------------------------------------------------------ *)
(* runs                                                                  *)
(* ------------------------------------------------------------------ *)
Lemma run_snoc c h x s : run c (h ++ [x]) s = step c (run c h s) x.
Proof. unfold run. rewrite fold_left_app. reflexivity. Qed.

Lemma run_app c a b s : run c (a ++ b) s = run c b (run c a s).
Proof. unfold run. apply fold_left_app. Qed.

Lemma ok_from_app c a : forall b s,
  ok_from c s (a ++ b) = ok_from c s a && ok_from c (run c a s) b.
Proof.
  induction a as [|x r IH]; simpl; intros b s; [reflexivity|].
  rewrite IH, andb_assoc. reflexivity.
Qed.

Lemma ok_from_snoc c h x s :
  ok_from c s (h ++ [x]) = ok_from c s h && guard (run c h s) x.
Proof. rewrite ok_from_app. simpl. rewrite andb_true_r. reflexivity. Qed.

(* ------------------------------------------------------------------ *)
(* monotone facts of a single step                                       *)
(* ------------------------------------------------------------------ *)
Lemma now_step c s x : tick_nonneg x = true -> now s <= now (step c s x).
Proof.
  intros T. destruct x; simpl in *; try (apply Z.leb_le in T); try lia;
    repeat match goal with
           | |- context [if ?b then _ else _] => destruct b; simpl
           | |- context [match ?l with [] => _ | _ => _ end] => destruct l; simpl
           | |- context [match ?o with Some _ => _ | None => _ end] => destruct o as [[? []]|]; simpl
           end; lia.
Qed.

Lemma ever_step c s x p : In p (ever s) -> In p (ever (step c s x)).
Proof.
  intros H. destruct x; simpl; auto;
    repeat match goal with
           | |- context [if ?b then _ else _] => destruct b; simpl
           | |- context [match ?l with [] => _ | _ => _ end] => destruct l; simpl
           | |- context [match ?o with Some _ => _ | None => _ end] => destruct o as [[? []]|]; simpl
           end; auto.
  - apply in_or_app. auto.
  - apply In_add_set. auto.
  - apply in_or_app. auto.
Qed.

(* the catalog gains a path only through a Register step of that very path *)
Lemma cat_step_gain c s x p :
  amem N.eqb p (cat (step c s x)) = true ->
  amem N.eqb p (cat s) = true \/ exists mn mx, x = Register p mn mx.
Proof.
  destruct x; simpl; auto;
    repeat match goal with
           | |- context [if ?b then _ else _] => destruct b; simpl
           | |- context [match ?l with [] => _ | _ => _ end] => destruct l; simpl
           | |- context [match ?o with Some _ => _ | None => _ end] => destruct o as [[? []]|]; simpl
           end; auto.
  - rewrite amem_aset. intros H. apply orb_true_iff in H. destruct H as [H|H]; [|auto].
    apply N.eqb_eq in H. subst. right. eauto.
  - rewrite amem_cat_remove. intros H. apply andb_true_iff in H. tauto.
  - rewrite amem_cat_remove. intros H. apply andb_true_iff in H. tauto.
Qed.

Lemma cat_step_stays_out c s x p :
  guard s x = true -> In p (ever s) -> amem N.eqb p (cat s) = false ->
  amem N.eqb p (cat (step c s x)) = false.
Proof.
  intros G E H. destruct (amem N.eqb p (cat (step c s x))) eqn:A; [|reflexivity].
  apply cat_step_gain in A. destruct A as [A|[mn [mx A]]]; [congruence|].
  subst x. simpl in G. apply negb_true_iff, memN_false in G. contradiction.
Qed.

(* ------------------------------------------------------------------ *)
(* history-indexed predicates                                            *)
(* ------------------------------------------------------------------ *)
Section Hist.
  Variable c : gcfg.
  Variable t0 : Z.

  Definition runi (h : list label) : st := run c h (init t0).

  (* p has been out of the catalog at every state since a state whose clock
     read at most l *)
  Definition unref_throughout (h : list label) (p : path) (l : Z) : Prop :=
    exists a b, h = a ++ b /\ now (runi a) <= l /\
      forall b1 b2, b = b1 ++ b2 -> amem N.eqb p (cat (runi (a ++ b1))) = false.

  Inductive unref : list label -> path -> Z -> Prop :=
  | U_here h p l : now (runi h) <= l -> amem N.eqb p (cat (runi h)) = false -> unref h p l
  | U_snoc h x p l : unref h p l -> amem N.eqb p (cat (runi (h ++ [x]))) = false -> unref (h ++ [x]) p l.

  Lemma unref_mono h p l l' : unref h p l -> l <= l' -> unref h p l'.
  Proof.
    induction 1; intros Hl.
    - apply U_here; [lia|assumption].
    - apply U_snoc; auto.
  Qed.

  Lemma unref_spec h p l : unref h p l -> unref_throughout h p l.
  Proof.
    induction 1 as [h p l H1 H2|h x p l H IH H2].
    - exists h, []. rewrite app_nil_r. split; [reflexivity|]. split; [assumption|].
      intros b1 b2 E. symmetry in E. apply app_eq_nil in E. destruct E as [-> _].
      rewrite app_nil_r. assumption.
    - destruct IH as [a [b [E [Hn Hall]]]]. subst h.
      exists a, (b ++ [x]). split; [rewrite app_assoc; reflexivity|]. split; [assumption|].
      intros b1 b2 E. apply app_snoc_split in E. destruct E as [[-> ->]|[b2' [-> ->]]].
      + rewrite app_assoc. assumption.
      + apply (Hall b1 b2'). reflexivity.
  Qed.

  (* p was handed to schedule_deletion by some step of the history *)
  Definition scheduled_in (h : list label) (p : path) : Prop :=
    exists a x b, h = a ++ x :: b /\ In p (schedules c (runi a) x).

  Inductive sched : list label -> path -> Prop :=
  | S_here h x p : In p (schedules c (runi h) x) -> sched (h ++ [x]) p
  | S_snoc h x p : sched h p -> sched (h ++ [x]) p.

  Lemma sched_spec h p : sched h p -> scheduled_in h p.
  Proof.
    induction 1 as [h x p H|h x p H IH].
    - exists h, x, []. auto.
    - destruct IH as [a [y [b [E Hin]]]]. subst h. exists a, y, (b ++ [x]).
      split; [|assumption]. rewrite <- app_assoc. reflexivity.
  Qed.

  (* the entry (p, ts) was written into pending-deletions.json from outside,
     and the catalog has not referenced p at any state since *)
  Definition foreign_in (h : list label) (p : path) (ts : Z) : Prop :=
    exists a es b, h = a ++ DiskEdit es :: b /\ In (p, ts) es /\
      forall b1 b2, b = b1 ++ b2 -> amem N.eqb p (cat (runi (a ++ DiskEdit es :: b1))) = false.

  Inductive foreign : list label -> path -> Z -> Prop :=
  | F_here h es p ts : In (p, ts) es -> amem N.eqb p (cat (runi (h ++ [DiskEdit es]))) = false ->
                       foreign (h ++ [DiskEdit es]) p ts
  | F_snoc h x p ts : foreign h p ts -> amem N.eqb p (cat (runi (h ++ [x]))) = false ->
                      foreign (h ++ [x]) p ts.

  Lemma foreign_spec h p ts : foreign h p ts -> foreign_in h p ts.
  Proof.
    induction 1 as [h es p ts H1 H2|h x p ts H IH H2].
    - exists h, es, []. split; [reflexivity|]. split; [assumption|].
      intros b1 b2 E. symmetry in E. apply app_eq_nil in E. destruct E as [-> _]. assumption.
    - destruct IH as [a [es [b [E [Hin Hall]]]]]. subst h.
      exists a, es, (b ++ [x]). split; [rewrite <- app_assoc; reflexivity|]. split; [assumption|].
      intros b1 b2 E. apply app_snoc_split in E. destruct E as [[-> ->]|[b2' [-> ->]]].
      + replace (a ++ DiskEdit es :: b ++ [x]) with ((a ++ DiskEdit es :: b) ++ [x])
          by (rewrite <- app_assoc; reflexivity). assumption.
      + apply (Hall b1 b2'). reflexivity.
  Qed.

  (* where a pending entry (p, ts) comes from: scheduled by the compactor at
     clock reading ts when p left the catalog (and never referenced since), or
     written from outside *)
  Definition origin (h : list label) (p : path) (ts : Z) : Prop :=
    (unref h p ts /\ sched h p) \/ foreign h p ts.

  Definition origin_in (h : list label) (p : path) (ts : Z) : Prop :=
    (unref_throughout h p ts /\ scheduled_in h p) \/ foreign_in h p ts.

  Lemma origin_spec h p ts : origin h p ts -> origin_in h p ts.
  Proof.
    intros [[H1 H2]|H]; [left; split; [apply unref_spec|apply sched_spec]; assumption|].
    right. apply foreign_spec. assumption.
  Qed.

  Lemma origin_snoc h x p ts :
    origin h p ts -> amem N.eqb p (cat (step c (runi h) x)) = false -> origin (h ++ [x]) p ts.
  Proof.
    intros [[H1 H2]|H] Hc.
    - left. split; [|apply S_snoc; assumption].
      apply U_snoc; [assumption|]. unfold runi. rewrite run_snoc. assumption.
    - right. apply F_snoc; [assumption|]. unfold runi. rewrite run_snoc. assumption.
  Qed.

  Lemma origin_new h x p :
    In p (schedules c (runi h) x) -> amem N.eqb p (cat (step c (runi h) x)) = false ->
    now (step c (runi h) x) = now (runi h) ->
    origin (h ++ [x]) p (now (runi h)).
  Proof.
    intros Hs Hc Hn. left. split; [|apply S_here; assumption].
    apply U_here; unfold runi; rewrite run_snoc; fold (runi h); [lia|assumption].
  Qed.

  (* a selected path: some entry at most as late as the pass's cut-off justifies it *)
  Definition good (h : list label) (p : path) (l : Z) : Prop := exists ts, ts <= l /\ origin h p ts.

  (* ---------------- invariants ---------------- *)
  Definition entries (s : st) (p : path) (ts : Z) : Prop :=
    In (p, ts) (pending s) \/ In (p, ts) (disk s) \/ In (p, ts) (psnap s).

  (* state invariant *)
  Definition Sinv (s : st) : Prop :=
    (forall p ts, entries s p ts -> In p (ever s) /\ amem N.eqb p (cat s) = false) /\
    (forall p, In p (gcsel s) -> In p (ever s) /\ amem N.eqb p (cat s) = false) /\
    (forall p, amem N.eqb p (cat s) = true -> In p (ever s)).

  (* history invariant *)
  Definition Hinv (h : list label) (s : st) : Prop :=
    (forall p ts, entries s p ts -> origin h p ts) /\
    (forall p, In p (gcsel s) -> good h p (gc_cutoff s)).

  Lemma schedules_out_of_cat s x p :
    In p (schedules c s x) -> amem N.eqb p (cat (step c s x)) = false.
  Proof.
    destruct x; simpl; try tauto.
    - destruct (amem N.eqb tgt (cat_remove srcs (cat s))) eqn:E; [|intros []].
      intros H. simpl. rewrite amem_cat_remove. apply memN_In in H. rewrite H.
      simpl. apply andb_false_r.
    - intros H. rewrite amem_cat_remove. apply memN_In in H. rewrite H. simpl. apply andb_false_r.
  Qed.

  Lemma schedules_now s x p : In p (schedules c s x) -> now (step c s x) = now s.
  Proof.
    destruct x; simpl; try tauto.
    destruct (amem N.eqb tgt (cat_remove srcs (cat s))); [reflexivity|intros []].
  Qed.

  Ltac split_step :=
    repeat match goal with
           | |- context [if ?b then _ else _] => let E := fresh "E" in destruct b eqn:E; simpl
           | |- context [match ?l with [] => _ | _ => _ end] => let E := fresh "E" in destruct l eqn:E; simpl
           | |- context [match ?o with Some _ => _ | None => _ end] =>
               let E := fresh "E" in destruct o as [[? []]|] eqn:E; simpl
           end.

  (* entries / gcsel of the successor state, step by step *)
  Lemma entries_step s x p ts :
    entries (step c s x) p ts ->
    entries s p ts \/ (In p (schedules c s x) /\ ts = now s) \/
    (exists es, x = DiskEdit es /\ In (p, ts) es).
  Proof.
    unfold entries. destruct x; simpl; auto.
    - (* DiskEdit *)
      intros [H|[H|H]]; auto. apply in_app_or in H. destruct H as [H|H]; auto.
      right. right. eauto.
    - (* Swap *)
      destruct (amem N.eqb tgt (cat_remove srcs (cat s))) eqn:E; simpl; [|auto].
      intros [H|H]; [|auto]. apply in_app_or in H. destruct H as [H|H]; [auto|].
      apply in_map_iff in H. destruct H as [q [Hq Hin]]. inversion Hq; subst. auto.
    - (* GcFilter *) split_step; simpl; auto.
    - (* GcDelete *) split_step; simpl; auto.
    - (* GcEnd *) split_step; simpl; auto. intros [H|H]; [apply In_gc_retain in H|]; auto.
    - (* GcAtomic *) split_step; simpl; auto. intros [H|H]; [apply In_gc_retain in H|]; auto.
    - (* Retention *)
      intros [H|H]; [|auto]. apply in_app_or in H. destruct H as [H|H]; [auto|].
      apply in_map_iff in H. destruct H as [q [Hq Hin]]. inversion Hq; subst. auto.
    - (* PersistSnap *) intros [H|[H|H]]; auto.
    - (* PersistPut *) intros [H|[H|H]]; auto.
    - (* Restart *) intros [[]|[H|[]]]; auto.
    - (* Load *) intros [H|H]; [|auto]. apply load_merge_sub in H. tauto.
    - split_step; auto.
    - split_step; auto.
    - split_step; auto.
    - split_step; auto.
    - split_step; auto.
  Qed.

  Lemma gcsel_step s x p :
    In p (gcsel (step c s x)) ->
    (In p (gcsel s) /\ gc_cutoff (step c s x) = gc_cutoff s) \/
    (exists ts, entries s p ts /\ ts <= gc_cutoff (step c s x) /\
                gc_cutoff (step c s x) = now s - g_grace c /\ x = GcFilter).
  Proof.
    destruct x; simpl; auto.
    - split_step; simpl; auto.
    - (* GcFilter *)
      destruct (gc_active s) eqn:A; simpl; [auto|].
      destruct (gc_select (now s - g_grace c) (pending s) (pins s)) as [|q r] eqn:E; simpl; [auto|].
      intros H. right.
      assert (H' : In p (gc_select (now s - g_grace c) (pending s) (pins s))) by (rewrite E; exact H).
      apply In_gc_select in H'. destruct H' as [ts [H1 [H2 _]]]. exists ts. unfold entries. auto.
    - (* GcDelete *)
      split_step; simpl; auto. intros H. apply In_remove1 in H. auto.
    - split_step; simpl; auto; try tauto;
        try match goal with E : gcsel s = _ |- _ => rewrite E; simpl; auto end.
    - split_step; simpl; auto; try tauto.
    - tauto.
    - split_step; auto.
    - split_step; auto.
    - split_step; auto.
    - split_step; auto.
    - split_step; auto.
  Qed.

  Lemma diskedit_out_of_cat s es p ts :
    guard s (DiskEdit es) = true -> In (p, ts) es ->
    amem N.eqb p (cat (step c s (DiskEdit es))) = false /\ In p (ever (step c s (DiskEdit es))).
  Proof.
    simpl. intros G Hin. rewrite forallb_forall in G. specialize (G _ Hin). simpl in G.
    apply negb_true_iff in G. split; [assumption|].
    apply in_or_app. left. apply in_map_iff. exists (p, ts). auto.
  Qed.

  Lemma sinv_step s x : Sinv s -> guard s x = true -> Sinv (step c s x).
  Proof.
    intros [S1 [S2 S3]] G. split; [|split].
    - intros p ts He. destruct (entries_step _ _ _ _ He) as [Ho|[[Hs ->]|[es [-> Hin]]]].
      + destruct (S1 p ts Ho) as [Hev Hc].
        split; [apply ever_step; assumption|apply cat_step_stays_out; assumption].
      + split; [|apply schedules_out_of_cat; assumption].
        destruct x; simpl in Hs; try tauto.
        * destruct (amem N.eqb tgt (cat_remove srcs (cat s))) eqn:E; [|destruct Hs].
          simpl. rewrite E. simpl. apply in_or_app. auto.
        * simpl. apply S3. apply in_map_iff in Hs. destruct Hs as [[q [mn mx]] [Hq Hin]].
          simpl in Hq. subst q. apply In_ret_select in Hin. apply amem_true_iff. exists (mn, mx). tauto.
      + destruct (diskedit_out_of_cat s es p ts G Hin). auto.
    - intros p Hin.
      destruct (gcsel_step _ _ _ Hin) as [[Ho Hcut]|[ts [Ho _]]].
      + destruct (S2 p Ho) as [Hev Hc].
        split; [apply ever_step; assumption|apply cat_step_stays_out; assumption].
      + destruct (S1 p ts Ho) as [Hev Hc].
        split; [apply ever_step; assumption|apply cat_step_stays_out; assumption].
    - intros p Hc. apply cat_step_gain in Hc. destruct Hc as [Hc|[mn [mx ->]]].
      + apply ever_step. auto.
      + simpl. apply In_add_set. auto.
  Qed.

  Lemma hinv_step h x :
    Sinv (runi h) -> Hinv h (runi h) -> guard (runi h) x = true ->
    Hinv (h ++ [x]) (step c (runi h) x).
  Proof.
    intros [S1 [S2 S3]] [H1 H2] G. set (s := runi h) in *. split.
    - intros p ts He. destruct (entries_step _ _ _ _ He) as [Ho|[[Hs ->]|[es [-> Hin]]]].
      + apply origin_snoc; [apply H1; assumption|].
        destruct (S1 p ts Ho) as [Hev Hc]. apply cat_step_stays_out; assumption.
      + apply origin_new; [assumption|apply schedules_out_of_cat; assumption|
                           apply schedules_now with p; assumption].
      + right. apply F_here; [assumption|]. unfold runi. rewrite run_snoc. fold (runi h). fold s.
        apply (diskedit_out_of_cat s es p ts G Hin).
    - intros p Hin. destruct (gcsel_step _ _ _ Hin) as [[Ho Hcut]|[ts [Ho [Hle _]]]].
      + rewrite Hcut. destruct (H2 p Ho) as [ts [Hle Hor]]. exists ts. split; [assumption|].
        apply origin_snoc; [assumption|].
        destruct (S2 p Ho) as [Hev Hc]. apply cat_step_stays_out; assumption.
      + exists ts. split; [assumption|]. apply origin_snoc; [apply H1; assumption|].
        destruct (S1 p ts Ho) as [Hev Hc]. apply cat_step_stays_out; assumption.
  Qed.

  Lemma sinv_init : Sinv (init t0).
  Proof.
    unfold Sinv, entries, init. simpl. split; [|split]; try tauto.
    intros p H. unfold amem in H. simpl in H. discriminate.
  Qed.

  Lemma invariants h :
    ok_from c (init t0) h = true -> Sinv (runi h) /\ Hinv h (runi h).
  Proof.
    induction h as [|x h IH] using rev_ind; intros Hok.
    - split; [apply sinv_init|]. unfold Hinv, entries, runi, init. simpl. tauto.
    - rewrite ok_from_snoc in Hok. apply andb_true_iff in Hok. destruct Hok as [Hok G].
      destruct (IH Hok) as [S H]. unfold runi. rewrite run_snoc. fold (runi h).
      split; [apply sinv_step; assumption|apply hinv_step; assumption].
  Qed.

  (* ---------------- deletes come from the selection ---------------- *)
  Lemma deletes_selected s x p :
    In p (deletes c s x) ->
    (In p (gcsel s) /\ pass_time c s x = gc_cutoff s + g_grace c) \/
    (exists ts, In (p, ts) (pending s) /\ ts <= now s - g_grace c /\ ~ In p (pins s) /\
                pass_time c s x = now s).
  Proof.
    destruct x; simpl; try tauto.
    - destruct (gc_active s && memN p0 (gcsel s)) eqn:E; [|intros []].
      intros [<-|[]]. apply andb_true_iff in E. destruct E as [_ E]. apply memN_In in E. auto.
    - destruct (gc_active s); [intros []|]. intros H. apply In_gc_select in H.
      destruct H as [ts [H1 [H2 H3]]]. right. exists ts. auto.
  Qed.

  (* gc_after_grace, for arbitrary clock steps and foreign entries: whatever a
     step deletes is justified by an entry (p, ts) whose own timestamp lies at
     least the grace period before the clock reading the pass took at its
     filter; the entry was either scheduled by the compactor at reading ts
     when p left the catalog, or written into the file from outside; p has not
     been referenced since, and is not referenced now *)
  Theorem gc_after_grace h x p :
    ok_from c (init t0) (h ++ [x]) = true ->
    In p (deletes c (runi h) x) ->
    amem N.eqb p (cat (runi h)) = false /\
    exists ts, ts + g_grace c <= pass_time c (runi h) x /\ origin_in h p ts.
  Proof.
    intros Hok Hd. rewrite ok_from_snoc in Hok. apply andb_true_iff in Hok. destruct Hok as [Hok _].
    destruct (invariants h Hok) as [[S1 [S2 S3]] [H1 H2]].
    destruct (deletes_selected _ _ _ Hd) as [[Hs Hpt]|[ts [Hp [Hle [_ Hpt]]]]].
    - destruct (S2 p Hs) as [_ Hc]. split; [assumption|].
      destruct (H2 p Hs) as [ts [Hle Hor]]. exists ts. split; [lia|apply origin_spec; assumption].
    - assert (He : entries (runi h) p ts) by (left; assumption).
      destruct (S1 p ts He) as [_ Hc]. split; [assumption|].
      exists ts. split; [lia|apply origin_spec; apply H1; assumption].
  Qed.

  (* while the wall clock is never stepped back, the filter's reading is not
     later than the reading at the delete *)
  Lemma pass_time_le_now h :
    forallb tick_nonneg h = true ->
    forall p, In p (gcsel (runi h)) -> gc_cutoff (runi h) + g_grace c <= now (runi h).
  Proof.
    induction h as [|x h IH] using rev_ind; intros Hm p Hin.
    - unfold runi, init in Hin. simpl in Hin. destruct Hin.
    - rewrite forallb_app in Hm. apply andb_true_iff in Hm. destruct Hm as [Hm Hx].
      simpl in Hx. rewrite andb_true_r in Hx.
      unfold runi in *. rewrite run_snoc in *. fold (runi h) in *.
      pose proof (now_step c (runi h) x Hx) as Hn.
      destruct (gcsel_step _ _ _ Hin) as [[Ho Hcut]|[ts [_ [_ [Hcut ->]]]]].
      + rewrite Hcut. specialize (IH Hm p Ho). lia.
      + rewrite Hcut. lia.
  Qed.

  (* the statement in the property's words, for a clock that is never stepped
     back and entries the compactor scheduled itself: the deleted file has
     been unreferenced since a clock reading at least one grace period before
     the reading at the delete *)
  Theorem gc_after_grace_monotone h x p :
    ok_from c (init t0) (h ++ [x]) = true ->
    forallb tick_nonneg h = true ->
    In p (deletes c (runi h) x) ->
    exists ts, ts + g_grace c <= now (runi h) /\
      ((unref_throughout h p (now (runi h) - g_grace c) /\ scheduled_in h p) \/ foreign_in h p ts).
  Proof.
    intros Hok Hm Hd. destruct (gc_after_grace h x p Hok Hd) as [_ [ts [Hle Hor]]].
    assert (Hpt : pass_time c (runi h) x <= now (runi h)).
    { destruct (deletes_selected _ _ _ Hd) as [[Hs Hpt]|[ts' [_ [_ [_ Hpt]]]]]; rewrite Hpt; [|lia].
      apply (pass_time_le_now h Hm p Hs). }
    exists ts. split; [lia|].
    destruct Hor as [[Hu Hs]|Hf]; [left|right; assumption].
    split; [|assumption].
    destruct Hu as [a [b [E [Hn Hall]]]]. exists a, b. split; [assumption|]. split; [lia|assumption].
  Qed.

  (* only_scheduled_deleted, part 1: whatever a step deletes was scheduled by
     the compactor or named by an entry written into the file from outside *)
  Theorem deleted_was_scheduled h x p :
    ok_from c (init t0) (h ++ [x]) = true ->
    In p (deletes c (runi h) x) ->
    scheduled_in h p \/ exists ts, foreign_in h p ts.
  Proof.
    intros Hok Hd. destruct (gc_after_grace h x p Hok Hd) as [_ [ts [_ [[_ Hs]|Hf]]]]; eauto.
  Qed.
End Hist.

(* only_scheduled_deleted, part 2: an object disappears only through `deletes` *)
Theorem object_removed_only_by_gc c s x p :
  In p (objs s) -> ~ In p (objs (step c s x)) -> In p (deletes c s x).
Proof.
  intros Hin Hout. destruct x; simpl in *; try contradiction;
    repeat match goal with
           | H : context [if ?b then _ else _] |- _ => let E := fresh "E" in destruct b eqn:E; simpl in H
           | H : context [match ?l with [] => _ | _ => _ end] |- _ => destruct l; simpl in H
           | H : context [match ?o with Some _ => _ | None => _ end] |- _ => destruct o as [[? []]|]; simpl in H
           end; try contradiction.
  - exfalso. apply Hout. apply In_add_set. auto.
  - rewrite In_removeN in Hout. destruct (N.eq_dec p p0) as [->|Hne]; [left; reflexivity|].
    exfalso. apply Hout. auto.
  - rewrite filter_In in Hout. destruct (memN p (gc_select (now s - g_grace c) (pending s) (pins s))) eqn:M.
    + apply memN_In in M. assumption.
    + exfalso. apply Hout. auto.
Qed.

(* the delete log grows exactly by the events of `deletes` *)
Lemma dlog_step c s x :
  exists evs, dlog (step c s x) = evs ++ dlog s /\
    forall e, In e evs -> In (d_path e) (deletes c s x) /\ d_time e = now s /\
                          d_pinned e = memN (d_path e) (pins s).
Proof.
  destruct x; simpl; try (exists []; simpl; split; [reflexivity|tauto]);
    repeat match goal with
           | |- context [if ?b then _ else _] => let E := fresh "E" in destruct b eqn:E; simpl
           | |- context [match ?l with [] => _ | _ => _ end] => destruct l; simpl
           | |- context [match ?o with Some _ => _ | None => _ end] => destruct o as [[? []]|]; simpl
           end; try (exists []; simpl; split; [reflexivity|tauto]).
  - exists [mkDev p (now s) (memN p (pins s))]. split; [reflexivity|].
    intros e [<-|[]]. simpl. auto.
  - exists (rev (del_events (now s) (pins s) (gc_select (now s - g_grace c) (pending s) (pins s)))).
    split; [reflexivity|]. intros e He. apply in_rev in He. unfold del_events in He.
    apply in_map_iff in He. destruct He as [q [<- Hq]]. simpl. auto.
Qed.

(* ------------------------------------------------------------------ *)
(* pins                                                                  *)
(* ------------------------------------------------------------------ *)
Definition all_unpinned (s : st) : Prop := forall e, In e (dlog s) -> d_pinned e = false.
Definition sel_unpinned (s : st) : Prop := forall p, In p (gcsel s) -> ~ In p (pins s).

Lemma In_remove_each q xs : forall l, In q (remove_each xs l) -> In q l.
Proof.
  unfold remove_each. induction xs as [|x r IH]; simpl; intros l H; [assumption|].
  apply IH in H. apply In_remove1 in H. assumption.
Qed.

Lemma pins_step c s x q :
  In q (pins (step c s x)) ->
  In q (pins s) \/ exists k ps, x = QPin k /\ aget N.eqb k (queries s) = Some (mkQ ps false) /\ In q ps.
Proof.
  destruct x; simpl; auto;
    repeat match goal with
           | |- context [if ?b then _ else _] => destruct b; simpl
           | |- context [match ?l with [] => _ | _ => _ end] => destruct l; simpl
           end; auto.
  - destruct (aget N.eqb q0 (queries s)) as [[ps []]|] eqn:E; simpl; auto.
    intros H. apply in_app_or in H. destruct H as [H|H]; [|auto].
    right. exists q0, ps. auto.
  - destruct (aget N.eqb q0 (queries s)) as [[ps []]|] eqn:E; simpl; auto.
  - destruct (aget N.eqb q0 (queries s)) as [[ps []]|] eqn:E; simpl; auto.
    intros H. apply In_remove_each in H. auto.
Qed.

Lemma pin_step_inv c s x :
  pin_in_window s x = false -> sel_unpinned s -> all_unpinned s ->
  sel_unpinned (step c s x) /\ all_unpinned (step c s x).
Proof.
  intros K SU AU. split.
  - intros p Hin Hpin.
    assert (Hsel : In p (gcsel s) \/
                   (x = GcFilter /\ In p (gc_select (now s - g_grace c) (pending s) (pins s)) /\
                    pins (step c s x) = pins s)).
    { clear Hpin K. destruct x; simpl in *; auto;
        repeat match goal with
               | H : context [if ?b then _ else _] |- _ => let E := fresh "E" in destruct b eqn:E; simpl in H
               | H : context [match ?o with Some _ => _ | None => _ end] |- _ => destruct o as [[? []]|]; simpl in H
               end; auto; try contradiction.
      - apply In_remove1 in Hin. auto.
      - match goal with E : gcsel s = _ |- _ => rewrite <- E; auto end. }
    destruct Hsel as [Hsel|[-> [Hsel Hp]]].
    + apply pins_step in Hpin. destruct Hpin as [Hpin|[k [ps [-> [E Hq]]]]].
      * apply (SU p Hsel Hpin).
      * simpl in K. rewrite E in K.
        assert (T : existsb (fun p => memN p (gcsel s)) ps = true).
        { apply existsb_exists. exists p. split; [assumption|apply memN_In; assumption]. }
        congruence.
    + rewrite Hp in Hpin. apply In_gc_select in Hsel. destruct Hsel as [ts [_ [_ Hn]]]. contradiction.
  - intros e He. destruct (dlog_step c s x) as [evs [Eq Hev]]. rewrite Eq in He.
    apply in_app_or in He. destruct He as [He|He]; [|apply AU; assumption].
    destruct (Hev e He) as [Hd [_ Hp]]. rewrite Hp. apply memN_false.
    destruct x; simpl in Hd; try contradiction.
    + destruct (gc_active s && memN p (gcsel s)) eqn:E; [|contradiction].
      destruct Hd as [<-|[]]. apply andb_true_iff in E. destruct E as [_ E]. apply memN_In in E.
      apply SU. assumption.
    + destruct (gc_active s); [contradiction|]. apply In_gc_select in Hd.
      destruct Hd as [ts [_ [_ Hn]]]. assumption.
Qed.

Lemma modulo_known_gen c h : forall s,
  known_class_from c s h = false -> sel_unpinned s -> all_unpinned s ->
  sel_unpinned (run c h s) /\ all_unpinned (run c h s).
Proof.
  induction h as [|x r IH]; simpl; intros s K SU AU; [auto|].
  apply orb_false_iff in K. destruct K as [K1 K2].
  destruct (pin_step_inv c s x K1 SU AU) as [SU' AU'].
  apply (IH _ K2 SU' AU').
Qed.

(* C09_modulo_known: outside the known class no delete ever hits a pinned path *)
Theorem modulo_known c t0 h :
  known_class_from c (init t0) h = false -> all_unpinned (run c h (init t0)).
Proof.
  intros K. apply (modulo_known_gen c h (init t0) K); intros ? [].
Qed.

(* the atomic variant: histories without the split steps are never in the class *)
Lemma atomic_gcsel_empty c h : forall s,
  forallb (fun x => negb (is_split_gc x)) h = true -> gcsel s = [] ->
  gcsel (run c h s) = [] /\ known_class_from c s h = false.
Proof.
  induction h as [|x r IH]; simpl; intros s F E; [auto|].
  apply andb_true_iff in F. destruct F as [F1 F2].
  assert (E' : gcsel (step c s x) = []).
  { destruct x; simpl in *; try discriminate; auto;
      repeat match goal with
             | |- context [if ?b then _ else _] => destruct b; simpl
             | |- context [match ?o with Some _ => _ | None => _ end] => destruct o as [[? []]|]; simpl
             end; auto. }
  destruct (IH _ F2 E') as [H1 H2]. split; [assumption|].
  rewrite H2, orb_false_r. destruct x; simpl; auto.
  destruct (aget N.eqb q (queries s)) as [[ps []]|]; auto.
  rewrite E. induction ps; simpl; auto.
Qed.

Theorem pin_safe_atomic c t0 h :
  forallb (fun x => negb (is_split_gc x)) h = true -> all_unpinned (run c h (init t0)).
Proof.
  intros F. apply modulo_known. apply (atomic_gcsel_empty c h (init t0) F). reflexivity.
Qed.

(* pins of chunk lists that are still in the catalog are never in the class *)
Lemma fresh_pin_not_in_window c t0 h x :
  ok_from c (init t0) h = true -> pin_is_fresh (runi c t0 h) x = true ->
  pin_in_window (runi c t0 h) x = false.
Proof.
  intros Hok F. destruct (invariants c t0 h Hok) as [[_ [S2 _]] _].
  destruct x; simpl in *; auto.
  destruct (aget N.eqb q (queries (runi c t0 h))) as [[ps []]|]; auto.
  destruct (existsb (fun p => memN p (gcsel (runi c t0 h))) ps) eqn:E; [|reflexivity].
  apply existsb_exists in E. destruct E as [p [Hp Hm]]. apply memN_In in Hm.
  destruct (S2 p Hm) as [_ Hc].
  rewrite forallb_forall in F. specialize (F p Hp). congruence.
Qed.

Lemma fresh_pins_not_known c t0 h2 : forall h1,
  ok_from c (init t0) (h1 ++ h2) = true ->
  fresh_pins_from c (runi c t0 h1) h2 = true ->
  known_class_from c (runi c t0 h1) h2 = false.
Proof.
  induction h2 as [|x r IH]; simpl; intros h1 Hok F; [reflexivity|].
  apply andb_true_iff in F. destruct F as [F1 F2].
  assert (Hok1 : ok_from c (init t0) h1 = true).
  { rewrite ok_from_app in Hok. apply andb_true_iff in Hok. tauto. }
  rewrite (fresh_pin_not_in_window c t0 h1 x Hok1 F1). simpl.
  specialize (IH (h1 ++ [x])). unfold runi in *. rewrite run_snoc in IH.
  apply IH; [rewrite <- app_assoc; assumption|assumption].
Qed.

Theorem pin_safe_fresh_views c t0 h :
  ok_from c (init t0) h = true -> fresh_pins_from c (init t0) h = true ->
  all_unpinned (run c h (init t0)).
Proof.
  intros Hok F. apply modulo_known. apply (fresh_pins_not_known c t0 h []); assumption.
Qed.

(* ------------------------------------------------------------------ *)
(* retention                                                             *)
(* ------------------------------------------------------------------ *)
Theorem retention_only_old c s p :
  amem N.eqb p (cat s) = true -> amem N.eqb p (cat (step c s Retention)) = false ->
  exists mn mx, In (p, (mn, mx)) (cat s) /\ mx < ret_cutoff c (bclock s).
Proof.
  simpl. rewrite amem_cat_remove. intros H1 H2. rewrite H1 in H2. simpl in H2.
  apply negb_false_iff, memN_In, in_map_iff in H2. destruct H2 as [[q [mn mx]] [Hq Hin]].
  simpl in Hq. subst q. apply In_ret_select in Hin. exists mn, mx. assumption.
Qed.

(* every retention removal ever logged concerned a chunk older than the cut-off of that pass *)
Lemma rlog_step c s x :
  exists evs, rlog (step c s x) = evs ++ rlog s /\ forall e, In e evs -> r_max e < r_cutoff e.
Proof.
  destruct x; simpl; try (exists []; simpl; split; [reflexivity|tauto]);
    repeat match goal with
           | |- context [if ?b then _ else _] => destruct b; simpl
           | |- context [match ?l with [] => _ | _ => _ end] => destruct l; simpl
           | |- context [match ?o with Some _ => _ | None => _ end] => destruct o as [[? []]|]; simpl
           end; try (exists []; simpl; split; [reflexivity|tauto]).
  eexists. split; [reflexivity|]. intros e He. apply in_rev, in_map_iff in He.
  destruct He as [[q [mn mx]] [<- Hin]]. simpl. apply In_ret_select in Hin. tauto.
Qed.

Theorem retention_log_only_old c h : forall s,
  (forall e, In e (rlog s) -> r_max e < r_cutoff e) ->
  forall e, In e (rlog (run c h s)) -> r_max e < r_cutoff e.
Proof.
  induction h as [|x r IH]; simpl; intros s H; [assumption|].
  apply IH. destruct (rlog_step c s x) as [evs [Eq Hev]]. rewrite Eq.
  intros e He. apply in_app_or in He. destruct He; auto.
Qed.

Theorem retention_log_from_init c t0 h e :
  In e (rlog (run c h (init t0))) -> r_max e < r_cutoff e.
Proof. apply retention_log_only_old. intros e' []. Qed.

(* a chunk leaves the catalog only through Swap (as a source) or Retention (old) *)
Theorem catalog_removal_causes c s x p :
  amem N.eqb p (cat s) = true -> amem N.eqb p (cat (step c s x)) = false ->
  (exists srcs tgt, x = Swap srcs tgt /\ In p srcs) \/
  (x = Retention /\ exists mn mx, In (p, (mn, mx)) (cat s) /\ mx < ret_cutoff c (bclock s)).
Proof.
  intros H1 H2. destruct x; try (simpl in H2; congruence).
  - simpl in H2. rewrite amem_aset, H1, orb_true_r in H2. discriminate.
  - left. simpl in H2. destruct (amem N.eqb tgt (cat_remove srcs (cat s))); [|congruence].
    simpl in H2. rewrite amem_cat_remove, H1 in H2. simpl in H2.
    apply negb_false_iff, memN_In in H2. eauto.
  - simpl in H2. destruct (gc_active s); [congruence|].
    destruct (gc_select (now s - g_grace c) (pending s) (pins s)); simpl in H2; congruence.
  - simpl in H2. destruct (gc_active s && memN p0 (gcsel s)); simpl in H2; congruence.
  - simpl in H2. destruct (gc_active s); [|congruence]. destruct (gcsel s); simpl in H2; congruence.
  - simpl in H2. destruct (gc_active s); simpl in H2; congruence.
  - right. split; [reflexivity|]. apply retention_only_old; assumption.
  - simpl in H2. destruct (amem N.eqb q (queries s)); simpl in H2; congruence.
  - simpl in H2. destruct (amem N.eqb q (queries s)); simpl in H2; congruence.
  - simpl in H2. destruct (aget N.eqb q (queries s)) as [[? []]|]; simpl in H2; congruence.
  - simpl in H2. destruct (aget N.eqb q (queries s)) as [[? []]|]; simpl in H2; congruence.
  - simpl in H2. destruct (aget N.eqb q (queries s)) as [[? []]|]; simpl in H2; congruence.
Qed.

(* ------------------------------------------------------------------ *)
(* persistence across restarts                                           *)
(* ------------------------------------------------------------------ *)
(* what Persist wrote is what Load brings back after a restart *)
Theorem persisted_survive_restart c s p ts :
  In (p, ts) (pending s) ->
  let s1 := run c [PersistSnap; PersistPut; Restart; Load] s in
  exists ts', In (p, ts') (pending s1) /\ In (p, ts') (pending s).
Proof.
  intros H. simpl. destruct (load_merge_covers (pending s) [] p ts H) as [ts' [H1 [[]|H2]]].
  exists ts'. auto.
Qed.

(* ... and any steps in between that leave the file alone do not matter *)
Theorem disk_survives_restart c s p ts :
  In (p, ts) (disk s) ->
  exists ts', In (p, ts') (pending (run c [Restart; Load] s)) /\ In (p, ts') (disk s).
Proof.
  intros H. simpl. destruct (load_merge_covers (disk s) [] p ts H) as [ts' [H1 [[]|H2]]].
  exists ts'. auto.
Qed.

(* a pending entry whose grace period has elapsed and that is not pinned is
   selected by the next filter and deleted by its delete step *)
Theorem pending_entry_collected c s p ts :
  In (p, ts) (pending s) -> gc_active s = false -> ts + g_grace c <= now s -> ~ In p (pins s) ->
  let s1 := step c s GcFilter in
  In p (gcsel s1) /\ gc_active s1 = true /\
  In p (deletes c s1 (GcDelete p)) /\ ~ In p (objs (step c s1 (GcDelete p))).
Proof.
  intros Hin A Hg Hp. simpl. rewrite A.
  assert (Hs : In p (gc_select (now s - g_grace c) (pending s) (pins s))).
  { apply In_gc_select. exists ts. split; [assumption|]. split; [lia|assumption]. }
  destruct (gc_select (now s - g_grace c) (pending s) (pins s)) as [|a r] eqn:E; [destruct Hs|].
  simpl. split; [assumption|]. split; [reflexivity|].
  assert (M : memN p (a :: r) = true) by (apply memN_In; assumption).
  simpl in M. rewrite M. simpl. split; [auto|]. rewrite In_removeN. tauto.
Qed.

(* the same end to end: persisted, restarted, grace elapsed, unpinned => deleted *)
Theorem persisted_then_deleted c s p ts d :
  In (p, ts) (pending s) -> (forall q t, In (q, t) (pending s) -> t <= now s) ->
  g_grace c <= d -> ~ In p (pins s) ->
  let s1 := run c [PersistSnap; PersistPut; Restart; Load; Tick d; GcFilter] s in
  In p (deletes c s1 (GcDelete p)) /\ ~ In p (objs (step c s1 (GcDelete p))).
Proof.
  intros Hin Hts Hd Hp.
  destruct (persisted_survive_restart c s p ts Hin) as [ts' [H1 H2]].
  set (s0 := run c [PersistSnap; PersistPut; Restart; Load; Tick d] s).
  assert (E : run c [PersistSnap; PersistPut; Restart; Load; Tick d; GcFilter] s = step c s0 GcFilter) by reflexivity.
  simpl. change (run c [PersistSnap; PersistPut; Restart; Load; Tick d; GcFilter] s) with (step c s0 GcFilter) in *.
  assert (Hpe : In (p, ts') (pending s0)) by exact H1.
  assert (Ha : gc_active s0 = false) by reflexivity.
  assert (Hn : ts' + g_grace c <= now s0).
  { specialize (Hts p ts' H2). subst s0. simpl. lia. }
  assert (Hpi : ~ In p (pins s0)) by exact Hp.
  destruct (pending_entry_collected c s0 p ts' Hpe Ha Hn Hpi) as [_ [_ [Q1 Q2]]]. auto.
Qed.

(* ------------------------------------------------------------------ *)
(* witnesses                                                             *)
(* ------------------------------------------------------------------ *)
Definition cfg0 : gcfg := mkCfg 0 1 default_skew.

(* filter . pin . delete: the delete hits a path that is pinned at that instant *)
Definition toctou_history : list label :=
  [Register 1%N 0 10; Register 2%N 0 10; QGet 7%N 0 10; Swap [1%N] 2%N; GcFilter; QPin 7%N;
   GcDelete 1%N; QRead 7%N].

Lemma toctou_refutes :
  exists e, In e (dlog (run cfg0 toctou_history (init 100))) /\ d_pinned e = true.
Proof. eexists. split; [vm_compute; left; reflexivity|reflexivity]. Qed.

Lemma toctou_is_known : known_class_from cfg0 (init 100) toctou_history = true.
Proof. vm_compute. reflexivity. Qed.

Lemma toctou_query_loses_file :
  qlog (run cfg0 toctou_history (init 100)) = [mkQev 7%N [1%N]].
Proof. vm_compute. reflexivity. Qed.

(* the selection of the code before the repair removes a straddling chunk *)
Lemma overlap_selection_refuted :
  exists cutoff c p mn mx, In (p, (mn, mx)) (ret_select_overlap cutoff c) /\ ~ (mx < cutoff).
Proof.
  exists 100, [(1%N, (50, 200))], 1%N, 50, 200. split; [vm_compute; auto|lia].
Qed.

(* ... and never selects a chunk that lies before the epoch *)
Lemma overlap_selection_skips_negative :
  ret_select_overlap 100 [(1%N, (-50, -10))] = [] /\ ret_select 100 [(1%N, (-50, -10))] <> [].
Proof. split; vm_compute; [reflexivity|discriminate]. Qed.

(* ------------------------------------------------------------------ *)
(* non-vacuity                                                           *)
(* ------------------------------------------------------------------ *)
Definition cfg5 : gcfg := mkCfg 5 1 default_skew.

(* gc_after_grace / deleted_was_scheduled: an admissible history that reaches a delete *)
Example gc_after_grace_nonvacuous :
  let h := [Register 1%N 0 10; Register 2%N 0 10; Swap [1%N] 2%N; Tick 5; GcFilter] in
  ok_from cfg5 (init 100) (h ++ [GcDelete 1%N]) = true /\
  In 1%N (deletes cfg5 (runi cfg5 100 h) (GcDelete 1%N)) /\
  (* one tick earlier the filter selects nothing *)
  gcsel (runi cfg5 100 [Register 1%N 0 10; Register 2%N 0 10; Swap [1%N] 2%N; Tick 4; GcFilter]) = [].
Proof. vm_compute. auto. Qed.

(* modulo_known: a history with a pin, outside the class, that deletes something;
   the pinned path is skipped by the filter and collected after the unpin *)
Example modulo_known_nonvacuous :
  let h := [Register 1%N 0 10; Register 2%N 0 10; Register 3%N 0 10; QGet 7%N 0 10; QPin 7%N;
            Swap [1%N; 2%N] 3%N; QStale 8%N [2%N]; QPin 8%N; QUnpin 7%N; GcFilter; GcDelete 1%N; GcEnd;
            QRead 8%N; QUnpin 8%N; GcFilter; GcDelete 2%N; GcEnd] in
  known_class_from cfg0 (init 100) h = false /\
  ok_from cfg0 (init 100) h = true /\
  map d_path (dlog (run cfg0 h (init 100))) = [2%N; 1%N] /\
  qlog (run cfg0 h (init 100)) = [mkQev 8%N []].
Proof. vm_compute. auto. Qed.

Example pin_safe_atomic_nonvacuous :
  let h := [Register 1%N 0 10; Register 2%N 0 10; Swap [1%N] 2%N; QStale 7%N [1%N]; QPin 7%N; GcAtomic;
            QUnpin 7%N; GcAtomic] in
  forallb (fun x => negb (is_split_gc x)) h = true /\
  map d_path (dlog (run cfg0 h (init 100))) = [1%N] /\
  objs (run cfg0 h (init 100)) = [2%N].
Proof. vm_compute. auto. Qed.

Example pin_safe_fresh_views_nonvacuous :
  let h := [Register 1%N 0 10; Register 2%N 0 10; QGet 7%N 0 10; QPin 7%N; Swap [1%N] 2%N; GcFilter;
            QRead 7%N; QUnpin 7%N; GcFilter; GcDelete 1%N; GcEnd] in
  ok_from cfg0 (init 100) h = true /\ fresh_pins_from cfg0 (init 100) h = true /\
  map d_path (dlog (run cfg0 h (init 100))) = [1%N] /\ qlog (run cfg0 h (init 100)) = [mkQev 7%N []].
Proof. vm_compute. auto. Qed.

(* retention: one day; an old chunk goes, a chunk straddling the cut-off and a
   chunk that ends exactly at the cut-off stay, a chunk before the epoch goes *)
Definition day : Z := Consts.GC_NANOS_PER_DAY.
Example retention_nonvacuous :
  let now0 := 10 * day in
  let cut := ret_cutoff cfg0 now0 in
  let h := [Register 1%N (cut - 100) (cut - 1); Register 2%N (cut - 100) (cut + 100);
            Register 3%N (cut - 100) cut; Register 4%N (-50) (-10); Retention] in
  map fst (cat (run cfg0 h (init now0))) = [2%N; 3%N] /\
  map fst (pending (run cfg0 h (init now0))) = [1%N; 4%N] /\
  map r_path (rlog (run cfg0 h (init now0))) = [4%N; 1%N].
Proof. vm_compute. auto. Qed.

Example persisted_then_deleted_nonvacuous :
  let s := run cfg5 [Register 1%N 0 10; Register 2%N 0 10; Swap [1%N] 2%N] (init 100) in
  In (1%N, 100) (pending s) /\ (forall q t, In (q, t) (pending s) -> t <= now s) /\ ~ In 1%N (pins s) /\
  objs (run cfg5 [PersistSnap; PersistPut; Restart; Load; Tick 5; GcFilter; GcDelete 1%N] s) = [2%N].
Proof.
  vm_compute. split; [auto|]. split; [|split; [tauto|reflexivity]].
  intros q t [H|[]]. inversion H. subst. discriminate.
Qed.

(* entries dated ahead of the local clock, and a clock stepped back: the entry
   waits until the clock has passed its own timestamp by the grace period *)
Example future_entry_waits :
  let pre := [DiskEdit [(9%N, 125); (8%N, 40)]; Restart; Load] in
  ok_from cfg5 (init 100) (pre ++ [GcFilter; GcDelete 8%N; GcEnd; Tick 29; GcFilter; Tick 1; GcFilter]) = true /\
  (* at 100: only the entry due long ago is selected, not the one 25 s ahead *)
  gcsel (run cfg5 (pre ++ [GcFilter]) (init 100)) = [8%N] /\
  (* at 129 = 125 + 5 - 1: still nothing *)
  gcsel (run cfg5 (pre ++ [GcFilter; GcDelete 8%N; GcEnd; Tick 29; GcFilter]) (init 100)) = [] /\
  (* at 130: due *)
  gcsel (run cfg5 (pre ++ [GcFilter; GcDelete 8%N; GcEnd; Tick 29; GcFilter; Tick 1; GcFilter]) (init 100)) = [9%N].
Proof. vm_compute. auto. Qed.

Example clock_stepped_back_waits :
  let pre := [Register 1%N 0 10; Register 2%N 0 10; Swap [1%N] 2%N; Tick (-30)] in
  ok_from cfg5 (init 100) pre = true /\ forallb tick_nonneg pre = false /\
  gcsel (run cfg5 (pre ++ [Tick 34; GcFilter]) (init 100)) = [] /\
  gcsel (run cfg5 (pre ++ [Tick 35; GcFilter]) (init 100)) = [1%N].
Proof. vm_compute. auto. Qed.

(* the retention cut-off comes from the bounded clock: after the wall clock is
   stepped back it does not move back *)
Example retention_clock_never_backwards :
  let now0 := 10 * day in
  let cut := ret_cutoff cfg0 now0 in
  let h := [Retention; Tick (-5); Register 1%N (cut - 100) (cut - 1); Retention] in
  map fst (cat (run cfg0 h (init now0))) = [] /\ hw (run cfg0 h (init now0)) = now0 + 1.
Proof. vm_compute. auto. Qed.
