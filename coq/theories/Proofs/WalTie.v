(* Proofs/WalTie.v — the operations the model attributes to the two WAL call
   sites of the ingester ARE what the call sites pass.

   generated/Funs.v is re-translated on every run (lib/exprtrans.py,
   lib/funs.d/wal.py) from src/ingester/mod.rs: the guard and the argument of
   `truncate_before` and of `persist_flushed_seq` in flush_batches, the guard
   and the argument of `truncate_before` and the argument of
   `read_entries_after` in ensure_wal.  flush_ops / ensure_wal_ops of
   Model/Wal.v are proved equal to the lists built from these translated
   expressions, so the caller discipline proved for them (flush_disciplined,
   ensure_wal_disciplined) is a statement about the code as it is now; a
   changed bound (e.g. `flushed_up_to + 1`) breaks these lemmas.
   Not captured: the order of the two calls inside flush_batches, and how
   last_wal_seq is maintained (the harness drives the real Ingester for that). *)
From CS Require Import Base.Prelude Model.Wal.
From CSGen Require Import Consts Funs.
Open Scope N_scope.

(* the tail of flush_batches, with flushed_up_to = s *)
Definition flush_ops_code (s : N) : list op :=
  let z := Z.of_N s in
  if Funs.wal_flush_guard z
  then [OTruncate (Z.to_N (Funs.wal_flush_truncate_bound z));
        OPersist (Z.to_N (Funs.wal_flush_persist_mark z))]
  else [].

(* ensure_wal: open, then the guarded truncate_before *)
Definition ensure_wal_ops_code (max : N) (d : disk) : list op :=
  let z := Z.of_N (load_flushed d) in
  OOpen max ::
  (if Funs.wal_ensure_guard z then [OTruncate (Z.to_N (Funs.wal_ensure_truncate_bound z))] else []).

Lemma flush_ops_is_code s : flush_ops s = flush_ops_code s.
Proof. destruct s as [|p]; reflexivity. Qed.

Lemma ensure_wal_ops_is_code max d : ensure_wal_ops max d = ensure_wal_ops_code max d.
Proof.
  unfold ensure_wal_ops, ensure_wal_ops_code. destruct (load_flushed d) as [|p]; reflexivity.
Qed.

(* ensure_wal replays exactly the entries above the mark it loaded *)
Lemma ensure_wal_reads_above_mark fl : Z.to_N (Funs.wal_ensure_read_after (Z.of_N fl)) = fl.
Proof. destruct fl as [|p]; reflexivity. Qed.

Theorem wal_call_sites_are_the_code :
  (forall s, flush_ops s = flush_ops_code s) /\
  (forall max d, ensure_wal_ops max d = ensure_wal_ops_code max d) /\
  (forall fl, Z.to_N (Funs.wal_ensure_read_after (Z.of_N fl)) = fl).
Proof.
  split; [exact flush_ops_is_code|]. split; [exact ensure_wal_ops_is_code|exact ensure_wal_reads_above_mark].
Qed.
