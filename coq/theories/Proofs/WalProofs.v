(* Proofs/WalProofs.v — theorems about the write-ahead-log model (C05).

   1. framing: little-endian round trip, CRC range, header round trip,
      parse (encode* es) = es, parse of a write cut at ANY byte offset;
   2. segments: a directory written by the code has a known shape; open on
      such a directory (reopen_exact);
   3. histories: an invariant carried through arbitrary histories of
      open / append / rotate / truncate / persist / crash / torn append /
      torn flushed-file write (step_inv, run_inv), from which
      history_recovery_exact, history_read_ascending, seq_never_regresses and
      appended_after_reopen_recoverable follow;
   4. the two call sites of the ingester respect the caller discipline the
      history theorems assume; layout constants of encoder and decoder agree;
      concrete histories (non-vacuity) and the two witnesses against the code
      as it was before the repairs. *)
From CS Require Import Base.Prelude Model.Wal.
From CSGen Require Import Consts.
Open Scope N_scope.

(* ---------- lists ---------- *)
Lemma firstn_len_app {A} (l r : list A) n : length l = n -> firstn n (l ++ r) = l.
Proof. intros <-. rewrite firstn_app, Nat.sub_diag, firstn_all. cbn. apply app_nil_r. Qed.

Lemma skipn_len_app {A} (l r : list A) n : length l = n -> skipn n (l ++ r) = r.
Proof. intros <-. rewrite skipn_app, Nat.sub_diag, skipn_all. reflexivity. Qed.

Lemma lenN_app {A} (a b : list A) : lenN (a ++ b) = lenN a + lenN b.
Proof. unfold lenN. rewrite app_length. lia. Qed.

Lemma to_nat_lenN {A} (l : list A) : N.to_nat (lenN l) = length l.
Proof. unfold lenN. apply Nat2N.id. Qed.

(* ---------- little endian ---------- *)
Lemma le_bytes_length n x : length (le_bytes n x) = n.
Proof. revert x. induction n as [|n IH]; intros x; cbn [le_bytes length]; [reflexivity|]. now rewrite IH. Qed.

Lemma le_val_le_bytes n x : le_val (le_bytes n x) = x mod 256 ^ N.of_nat n.
Proof.
  revert x. induction n as [|n IH]; intros x.
  - cbn [le_bytes le_val]. change (N.of_nat 0) with 0. rewrite N.pow_0_r, N.mod_1_r. reflexivity.
  - cbn [le_bytes le_val]. rewrite IH, Nat2N.inj_succ, N.pow_succ_r'.
    rewrite N.mod_mul_r by (try apply N.pow_nonzero; discriminate). reflexivity.
Qed.

Lemma le_val_le_bytes_small n x : x < 256 ^ N.of_nat n -> le_val (le_bytes n x) = x.
Proof. intros H. rewrite le_val_le_bytes. now apply N.mod_small. Qed.

Lemma le_bytes_bytes n x : Forall (fun b => b < 256) (le_bytes n x).
Proof.
  revert x. induction n as [|n IH]; intros x; cbn [le_bytes]; constructor; [|apply IH].
  apply N.mod_lt. discriminate.
Qed.

(* ---------- CRC ---------- *)
Definition fits32 (x : N) : Prop := N.shiftr x 32 = 0.

Lemma fits32_lt x : fits32 x <-> x < U32_LIMIT.
Proof.
  unfold fits32. rewrite N.shiftr_div_pow2. change (2 ^ 32) with U32_LIMIT.
  apply N.div_small_iff. discriminate.
Qed.

Lemma fits32_div2 c : fits32 c -> fits32 (N.div2 c).
Proof.
  unfold fits32. intros H. rewrite N.div2_spec, N.shiftr_shiftr, N.add_comm, <- N.shiftr_shiftr, H.
  reflexivity.
Qed.

Lemma fits32_lxor a b : fits32 a -> fits32 b -> fits32 (N.lxor a b).
Proof. unfold fits32. intros Ha Hb. rewrite N.shiftr_lxor, Ha, Hb. reflexivity. Qed.

Lemma fits32_crc_bit c : fits32 c -> fits32 (crc_bit c).
Proof.
  intros H. unfold crc_bit. destruct (N.odd c).
  - apply fits32_lxor; [now apply fits32_div2 | reflexivity].
  - now apply fits32_div2.
Qed.

Lemma fits32_byte b : b < 256 -> fits32 b.
Proof. intros H. apply fits32_lt. unfold U32_LIMIT. lia. Qed.

Lemma fits32_crc_byte c b : fits32 c -> b < 256 -> fits32 (crc_byte c b).
Proof.
  intros Hc Hb. unfold crc_byte.
  do 8 apply fits32_crc_bit. apply fits32_lxor; [assumption | now apply fits32_byte].
Qed.

Lemma crc32_lt pl : Forall (fun b => b < 256) pl -> crc32 pl < U32_LIMIT.
Proof.
  intros H. apply fits32_lt. unfold crc32. apply fits32_lxor; [|reflexivity].
  assert (G : forall c, fits32 c -> fits32 (fold_left crc_byte pl c)).
  { induction H as [|b l Hb Hl IH]; intros c Hc; cbn [fold_left]; [assumption|].
    apply IH. now apply fits32_crc_byte. }
  apply G. reflexivity.
Qed.

(* the standard check value of CRC-32/IEEE: crc32("123456789") = 0xCBF43926 *)
Example crc32_check : crc32 [49;50;51;52;53;54;55;56;57] = 3421780262.
Proof. vm_compute. reflexivity. Qed.

(* ---------- header ---------- *)
Definition entry_ok (e : entry) : Prop :=
  e_seq e < U64_LIMIT /\ e_flags e = 0 /\ lenN (e_payload e) < U32_LIMIT /\
  Forall (fun b => b < 256) (e_payload e).

Lemma slice_app (a b : N) (p m s : bytes) :
  length p = N.to_nat a -> length m = N.to_nat (b - a) -> slice a b (p ++ m ++ s) = m.
Proof.
  intros Hp Hm. unfold slice. rewrite skipn_len_app by assumption. now apply firstn_len_app.
Qed.

Lemma slice_app_end (a b : N) (p m : bytes) :
  length p = N.to_nat a -> length m = N.to_nat (b - a) -> slice a b (p ++ m) = m.
Proof. intros Hp Hm. rewrite <- (app_nil_r m) at 1. now apply slice_app. Qed.

Lemma encode_header_length seq flags pl : length (encode_header seq flags pl) = N.to_nat WAL_HEADER_LEN.
Proof. unfold encode_header. rewrite !app_length, !le_bytes_length. reflexivity. Qed.

Lemma bytes_eqb_refl a : bytes_eqb a a = true.
Proof. induction a as [|x a IH]; cbn [bytes_eqb]; [reflexivity|]. now rewrite N.eqb_refl, IH. Qed.

(* decode_header inverts encode_header: the decoder offsets read from the
   source agree with the encoder layout *)
Lemma header_roundtrip_gen seq flags pl :
  flags < 256 -> N.land flags WAL_FLAG_COMPRESSED = 0 ->
  decode_header (encode_header seq flags pl) =
  Some (seq mod U64_LIMIT, flags, lenN pl mod U32_LIMIT, crc32 pl mod U32_LIMIT).
Proof.
  intros Hf Hc. unfold decode_header.
  set (h := encode_header seq flags pl).
  assert (Hm : slice 0 WAL_DEC_MAGIC_HI h = MAGIC).
  { subst h. unfold encode_header. apply (slice_app 0 WAL_DEC_MAGIC_HI [] MAGIC); reflexivity. }
  assert (Hv : nth (N.to_nat WAL_DEC_VERSION_AT) h 0 = WAL_VERSION) by reflexivity.
  assert (Hfl : nth (N.to_nat WAL_DEC_FLAGS_AT) h 0 = flags).
  { subst h. unfold encode_header. cbn. now apply N.mod_small. }
  assert (Hs : slice WAL_DEC_SEQ_LO WAL_DEC_SEQ_HI h = le_bytes 8 seq).
  { subst h. unfold encode_header.
    change (MAGIC ++ [WAL_VERSION] ++ [flags mod 256] ++ le_bytes 8 seq ++ le_bytes 4 (lenN pl) ++ le_bytes 4 (crc32 pl))
      with ((MAGIC ++ [WAL_VERSION] ++ [flags mod 256]) ++ le_bytes 8 seq ++ le_bytes 4 (lenN pl) ++ le_bytes 4 (crc32 pl)).
    apply slice_app; [reflexivity | now rewrite le_bytes_length]. }
  assert (Hl : slice WAL_DEC_LEN_LO WAL_DEC_LEN_HI h = le_bytes 4 (lenN pl)).
  { subst h. unfold encode_header.
    change (MAGIC ++ [WAL_VERSION] ++ [flags mod 256] ++ le_bytes 8 seq ++ le_bytes 4 (lenN pl) ++ le_bytes 4 (crc32 pl))
      with ((MAGIC ++ [WAL_VERSION] ++ [flags mod 256]) ++ le_bytes 8 seq ++ le_bytes 4 (lenN pl) ++ le_bytes 4 (crc32 pl)).
    rewrite app_assoc. apply slice_app; [rewrite app_length, le_bytes_length; reflexivity | now rewrite le_bytes_length]. }
  assert (Hcr : slice WAL_DEC_CRC_LO WAL_DEC_CRC_HI h = le_bytes 4 (crc32 pl)).
  { subst h. unfold encode_header.
    change (MAGIC ++ [WAL_VERSION] ++ [flags mod 256] ++ le_bytes 8 seq ++ le_bytes 4 (lenN pl) ++ le_bytes 4 (crc32 pl))
      with ((MAGIC ++ [WAL_VERSION] ++ [flags mod 256]) ++ le_bytes 8 seq ++ le_bytes 4 (lenN pl) ++ le_bytes 4 (crc32 pl)).
    rewrite app_assoc, app_assoc. apply slice_app_end; [rewrite !app_length, !le_bytes_length; reflexivity | now rewrite le_bytes_length]. }
  rewrite Hm, Hv, Hfl, Hs, Hl, Hcr, bytes_eqb_refl, N.eqb_refl, Hc, !le_val_le_bytes.
  reflexivity.
Qed.

Lemma header_roundtrip e : entry_ok e ->
  decode_header (encode_header (e_seq e) (e_flags e) (e_payload e)) =
  Some (e_seq e, e_flags e, lenN (e_payload e), crc32 (e_payload e)).
Proof.
  intros (Hs & Hf & Hl & Hb). rewrite header_roundtrip_gen.
  - rewrite !N.mod_small; [reflexivity | now apply crc32_lt | assumption | assumption].
  - rewrite Hf. reflexivity.
  - rewrite Hf. reflexivity.
Qed.

Lemma enc_entry_length e : length (enc_entry e) = (N.to_nat WAL_HEADER_LEN + length (e_payload e))%nat.
Proof. unfold enc_entry. now rewrite app_length, encode_header_length. Qed.

Lemma header_len_pos : (0 < N.to_nat WAL_HEADER_LEN)%nat.
Proof. vm_compute. lia. Qed.

(* ---------- the reader ---------- *)
Lemma ltb_lenN_false {A} (l : list A) (n : N) : (N.to_nat n <= length l)%nat -> (lenN l <? n) = false.
Proof. intros H. apply N.ltb_ge. unfold lenN. lia. Qed.

Lemma ltb_lenN_true {A} (l : list A) (n : N) : (length l < N.to_nat n)%nat -> (lenN l <? n) = true.
Proof. intros H. apply N.ltb_lt. unfold lenN. lia. Qed.

(* one complete entry in front: the loop takes it and continues behind it *)
Lemma parse_fuel_app_enc f e rest : entry_ok e ->
  parse_fuel (S f) (enc_entry e ++ rest) = e :: parse_fuel f rest.
Proof.
  intros Hok. cbn [parse_fuel].
  rewrite ltb_lenN_false by (rewrite app_length, enc_entry_length; lia).
  unfold enc_entry. rewrite <- app_assoc.
  rewrite firstn_len_app by apply encode_header_length.
  rewrite header_roundtrip by assumption.
  rewrite skipn_len_app by apply encode_header_length.
  rewrite ltb_lenN_false by (rewrite to_nat_lenN, app_length; lia).
  rewrite to_nat_lenN.
  rewrite firstn_len_app by reflexivity.
  rewrite skipn_len_app by reflexivity.
  rewrite N.eqb_refl. destruct e. reflexivity.
Qed.

Lemma parse_fuel_nil f : parse_fuel f [] = [].
Proof. destruct f; reflexivity. Qed.

(* a proper prefix of one encoded entry yields nothing: either the header is
   short, or the header is complete and the payload is short.  The CRC is not
   consulted. *)
Lemma parse_fuel_torn f e k : entry_ok e -> (k < length (enc_entry e))%nat ->
  parse_fuel f (firstn k (enc_entry e)) = [].
Proof.
  intros Hok Hk. destruct f as [|f]; [reflexivity|]. cbn [parse_fuel].
  destruct (Nat.lt_ge_cases k (N.to_nat WAL_HEADER_LEN)) as [Hshort | Hlong].
  - rewrite ltb_lenN_true; [reflexivity|]. rewrite firstn_length. lia.
  - rewrite ltb_lenN_false by (rewrite firstn_length; lia).
    rewrite firstn_firstn, Nat.min_l by assumption.
    unfold enc_entry. rewrite firstn_len_app by apply encode_header_length.
    rewrite header_roundtrip by assumption.
    rewrite firstn_app, encode_header_length.
    rewrite (firstn_all2 (n := k)) by (rewrite encode_header_length; assumption).
    rewrite skipn_len_app by apply encode_header_length.
    rewrite ltb_lenN_true; [reflexivity|].
    rewrite firstn_length, to_nat_lenN. rewrite enc_entry_length in Hk. lia.
Qed.

Lemma enc_entries_app a b : enc_entries (a ++ b) = enc_entries a ++ enc_entries b.
Proof. unfold enc_entries. apply flat_map_app. Qed.

Lemma enc_entries_cons e es : enc_entries (e :: es) = enc_entry e ++ enc_entries es.
Proof. reflexivity. Qed.

Lemma length_le_enc es : (length es <= length (enc_entries es))%nat.
Proof.
  induction es as [|e es IH]; [cbn; lia|].
  rewrite enc_entries_cons, app_length, enc_entry_length. pose proof header_len_pos. cbn [length]. lia.
Qed.

Lemma parse_fuel_prefix es : forall f tail, Forall entry_ok es -> (length es <= f)%nat ->
  parse_fuel f (enc_entries es ++ tail) = es ++ parse_fuel (f - length es) tail.
Proof.
  induction es as [|e es IH]; intros f tail Hok Hf.
  - cbn [enc_entries flat_map app length]. now rewrite Nat.sub_0_r.
  - inversion Hok as [|? ? He Hes]; subst. cbn [length] in Hf.
    destruct f as [|f]; [lia|].
    rewrite enc_entries_cons, <- app_assoc, parse_fuel_app_enc by assumption.
    rewrite IH by (assumption || lia). reflexivity.
Qed.

(* all complete entries, in order, each once *)
Theorem parse_concat_encode es : Forall entry_ok es -> parse (enc_entries es) = es.
Proof.
  intros Hok. unfold parse.
  rewrite <- (app_nil_r (enc_entries es)) at 2.
  rewrite parse_fuel_prefix by (assumption || (pose proof (length_le_enc es); lia)).
  now rewrite parse_fuel_nil, app_nil_r.
Qed.

(* the write of [e] cut at ANY byte offset k: exactly the entries before it *)
Theorem parse_torn_prefix es e k : Forall entry_ok es -> entry_ok e ->
  (k < length (enc_entry e))%nat ->
  parse (enc_entries es ++ firstn k (enc_entry e)) = es.
Proof.
  intros Hok He Hk. unfold parse.
  rewrite parse_fuel_prefix by (assumption || (rewrite app_length; pose proof (length_le_enc es); lia)).
  now rewrite parse_fuel_torn, app_nil_r.
Qed.

(* the general form: a complete entry followed by arbitrary bytes *)
Lemma parse_fuel_enough : forall f1 f2 bs, (length bs < f1)%nat -> (length bs < f2)%nat ->
  parse_fuel f1 bs = parse_fuel f2 bs.
Proof.
  induction f1 as [|f1 IH]; intros f2 bs H1 H2; [lia|].
  destruct f2 as [|f2]; [lia|]. cbn [parse_fuel].
  destruct (lenN bs <? WAL_HEADER_LEN) eqn:Hlen; [reflexivity|].
  destruct (decode_header _) as [[[[seq flags] len] crc]|]; [|reflexivity].
  destruct (lenN (skipn _ bs) <? len); [reflexivity|].
  destruct (crc32 _ =? crc); [|reflexivity].
  f_equal. apply N.ltb_ge in Hlen. unfold lenN in Hlen. pose proof header_len_pos.
  apply IH; rewrite !skipn_length; lia.
Qed.

Theorem parse_app_enc e rest : entry_ok e -> parse (enc_entry e ++ rest) = e :: parse rest.
Proof.
  intros Hok. unfold parse. rewrite parse_fuel_app_enc by assumption. f_equal.
  apply parse_fuel_enough; rewrite ?app_length, ?enc_entry_length; pose proof header_len_pos; lia.
Qed.

(* what open computes from the parsed entries is the length of the clean part *)
Lemma valid_len_acc es : forall acc, fold_left (fun a e => a + entry_size e) es acc = acc + lenN (enc_entries es).
Proof.
  induction es as [|e es IH]; intros acc; cbn [fold_left].
  - unfold lenN. cbn. lia.
  - rewrite IH, enc_entries_cons, lenN_app.
    assert (He : lenN (enc_entry e) = entry_size e).
    { unfold lenN, entry_size. rewrite enc_entry_length. unfold lenN. lia. }
    rewrite He. lia.
Qed.

Lemma valid_len_enc es : valid_len es = lenN (enc_entries es).
Proof. unfold valid_len. now rewrite valid_len_acc. Qed.

(* ---------- last_seq / ascending sequence numbers ---------- *)
Lemma last_seq_app a b :
  last_seq (a ++ b) = match last_seq b with Some s => Some s | None => last_seq a end.
Proof.
  induction a as [|e a IH]; cbn [app last_seq].
  - destruct (last_seq b); reflexivity.
  - rewrite IH. destruct (last_seq b); [reflexivity|]. reflexivity.
Qed.

Lemma last_seq_none l : last_seq l = None -> l = [].
Proof. destruct l as [|e l]; [reflexivity|]. cbn [last_seq]. destruct (last_seq l); discriminate. Qed.

Lemma last_seq_snoc l e : last_seq (l ++ [e]) = Some (e_seq e).
Proof. rewrite last_seq_app. reflexivity. Qed.

Fixpoint asc (l : list N) : Prop :=
  match l with
  | [] => True
  | x :: r => Forall (fun y => x < y) r /\ asc r
  end.

Lemma asc_app a b :
  asc (a ++ b) <-> asc a /\ asc b /\ Forall (fun x => Forall (fun y => x < y) b) a.
Proof.
  induction a as [|x a IH]; cbn [app asc].
  - split; [intros H; repeat split; [assumption | constructor] | intros (_ & H & _); assumption].
  - rewrite IH, Forall_app. split.
    + intros ((H1 & H2) & H3 & H4 & H5). repeat split; try assumption. constructor; assumption.
    + intros ((H1 & H2) & H3 & H4). inversion H4; subst. repeat split; assumption.
Qed.

Definition seqs (l : list entry) : list N := map e_seq l.

Lemma seqs_app a b : seqs (a ++ b) = seqs a ++ seqs b.
Proof. apply map_app. Qed.

Lemma asc_skipn k l : asc (seqs l) -> asc (seqs (skipn k l)).
Proof.
  intros H. rewrite <- (firstn_skipn k l), seqs_app in H. apply asc_app in H. tauto.
Qed.

(* in an ascending list the last number bounds all others *)
Lemma asc_le_last l t : asc (seqs l) -> last_seq l = Some t -> Forall (fun e => e_seq e <= t) l.
Proof.
  induction l as [|e l IH]; intros Ha Hl; [constructor|].
  cbn [seqs map asc] in Ha. destruct Ha as [Hx Hr]. cbn [last_seq] in Hl.
  destruct (last_seq l) as [s|] eqn:El.
  - inversion Hl; subst s. pose proof (IH Hr eq_refl) as Hall. constructor; [|assumption].
    destruct l as [|e2 l2]; [discriminate|].
    assert (Hin : exists e', In e' (e2 :: l2) /\ e_seq e' = t).
    { clear -El. revert El. generalize (e2 :: l2) as l. induction l as [|a l IH]; [discriminate|].
      cbn [last_seq]. destruct (last_seq l) as [s|] eqn:E.
      - intros H; inversion H; subst. destruct (IH eq_refl) as (e' & Hi & He). exists e'. split; [now right|assumption].
      - intros H; inversion H; subst. exists a. split; [now left|reflexivity]. }
    destruct Hin as (e' & Hi & He). rewrite Forall_forall in Hx.
    specialize (Hx (e_seq e') (in_map e_seq _ _ Hi)). lia.
  - inversion Hl; subst. apply last_seq_none in El. subst l. constructor; [lia|constructor].
Qed.

Lemma asc_snoc l e : asc (seqs l) -> Forall (fun x => e_seq x < e_seq e) l -> asc (seqs (l ++ [e])).
Proof.
  intros Ha Hlt. rewrite seqs_app. apply asc_app. repeat split; [assumption | cbn; auto |].
  unfold seqs. rewrite Forall_map. eapply Forall_impl; [|exact Hlt].
  intros a Ha'. cbn. constructor; [assumption|constructor].
Qed.

(* ---------- segment files ---------- *)
Definition below (id : N) (l : segs) : Prop := Forall (fun p => fst p < id) l.

Lemma seg_get_last id b l : below id l -> seg_get id (l ++ [(id, b)]) = Some b.
Proof.
  unfold seg_get. induction 1 as [|[i x] l Hi Hl IH]; cbn [app aget].
  - now rewrite N.eqb_refl.
  - cbn [fst] in Hi. replace (id =? i) with false by (symmetry; apply N.eqb_neq; lia). exact IH.
Qed.

Lemma seg_get_above id id' b l : below id l -> id < id' -> seg_get id' (l ++ [(id, b)]) = None.
Proof.
  unfold seg_get. intros Hl Hlt. induction Hl as [|[i x] l Hi Hl IH]; cbn [app aget].
  - replace (id' =? id) with false by (symmetry; apply N.eqb_neq; lia). reflexivity.
  - cbn [fst] in Hi. replace (id' =? i) with false by (symmetry; apply N.eqb_neq; lia). exact IH.
Qed.

Lemma seg_put_last id b b' l : below id l -> seg_put id b' (l ++ [(id, b)]) = l ++ [(id, b')].
Proof.
  induction 1 as [|[i x] l Hi Hl IH]; cbn [app seg_put].
  - rewrite N.ltb_irrefl, N.eqb_refl. reflexivity.
  - cbn [fst] in Hi. replace (id <? i) with false by (symmetry; apply N.ltb_ge; lia).
    replace (id =? i) with false by (symmetry; apply N.eqb_neq; lia). now rewrite IH.
Qed.

Lemma seg_put_new id id' b b' l : below id l -> id < id' ->
  seg_put id' b' (l ++ [(id, b)]) = l ++ [(id, b); (id', b')].
Proof.
  intros Hl Hlt. induction Hl as [|[i x] l Hi Hl IH]; cbn [app seg_put].
  - replace (id' <? id) with false by (symmetry; apply N.ltb_ge; lia).
    replace (id' =? id) with false by (symmetry; apply N.eqb_neq; lia). reflexivity.
  - cbn [fst] in Hi. replace (id' <? i) with false by (symmetry; apply N.ltb_ge; lia).
    replace (id' =? i) with false by (symmetry; apply N.eqb_neq; lia). now rewrite IH.
Qed.

Lemma last_id_snoc l p : last_id (l ++ [p]) = Some (fst p).
Proof.
  induction l as [|q l IH]; cbn [app last_id]; [reflexivity|]. now rewrite IH.
Qed.

(* ---------- the shape of a directory written by this code ---------- *)
Definition gseg := (N * list entry)%type.
Definition render (g : gseg) : N * bytes := (fst g, enc_entries (snd g)).

(* older segments hold complete entries only; the newest one may end in the
   prefix [tail] of an entry whose write was cut *)
Definition render_all (pre : list gseg) (id : N) (es : list entry) (tail : bytes) : segs :=
  map render pre ++ [(id, enc_entries es ++ tail)].

Definition all_entries (pre : list gseg) (es : list entry) : list entry := flat_map snd pre ++ es.

Definition torn (tail : bytes) : Prop :=
  exists e k, entry_ok e /\ (k < length (enc_entry e))%nat /\ tail = firstn k (enc_entry e).

Lemma torn_nil : torn [].
Proof.
  exists (mkEntry 0 0 []), 0%nat. split; [|split; [|reflexivity]].
  - repeat split; try reflexivity. constructor.
  - rewrite enc_entry_length. pose proof header_len_pos. lia.
Qed.

Lemma parse_torn es tail : Forall entry_ok es -> torn tail -> parse (enc_entries es ++ tail) = es.
Proof. intros Hok (e & k & He & Hk & ->). now apply parse_torn_prefix. Qed.

Lemma below_render id pre : Forall (fun g : gseg => fst g < id) pre -> below id (map render pre).
Proof. unfold below. rewrite Forall_map. intros H. eapply Forall_impl; [|exact H]. intros g Hg. exact Hg. Qed.

Lemma flat_map_parse_render pre : Forall entry_ok (flat_map snd pre) ->
  flat_map (fun p : N * bytes => parse (snd p)) (map render pre) = flat_map snd pre.
Proof.
  induction pre as [|g pre IH]; intros Hok; [reflexivity|].
  cbn [flat_map map] in *. apply Forall_app in Hok. destruct Hok as [H1 H2].
  cbn [render snd]. rewrite parse_concat_encode by assumption. now rewrite IH.
Qed.

Lemma read_entries_render pre id es tail fl :
  Forall entry_ok (all_entries pre es) -> torn tail ->
  read_entries (mkDisk (render_all pre id es tail) fl) = all_entries pre es.
Proof.
  intros Hok Ht. unfold all_entries in *. apply Forall_app in Hok. destruct Hok as [H1 H2].
  unfold read_entries, render_all. cbn [d_segs]. rewrite flat_map_app.
  rewrite flat_map_parse_render by assumption. cbn [flat_map snd].
  rewrite parse_torn by assumption. now rewrite app_nil_r.
Qed.

Lemma last_seq_in_app l id f :
  last_seq_in (l ++ [(id, f)]) =
  match last_seq (parse f) with Some s => Some s
  | None => last_seq_in l end.
Proof.
  induction l as [|[i b] l IH]; cbn [app last_seq_in].
  - destruct (last_seq (parse f)); reflexivity.
  - rewrite IH. destruct (last_seq (parse f)); reflexivity.
Qed.

Lemma last_seq_in_render pre : Forall entry_ok (flat_map snd pre) ->
  last_seq_in (map render pre) = last_seq (flat_map snd pre).
Proof.
  induction pre as [|g pre IH]; intros Hok; [reflexivity|].
  cbn [flat_map map last_seq_in] in *. apply Forall_app in Hok. destruct Hok as [H1 H2].
  destruct g as [i es]. cbn [render fst snd]. rewrite IH by assumption.
  rewrite parse_concat_encode by assumption. now rewrite last_seq_app.
Qed.

Lemma last_seq_in_render_all pre id es tail :
  Forall entry_ok (all_entries pre es) -> torn tail ->
  last_seq_in (render_all pre id es tail) = last_seq (all_entries pre es).
Proof.
  intros Hok Ht. unfold all_entries in *. apply Forall_app in Hok. destruct Hok as [H1 H2].
  unfold render_all. rewrite last_seq_in_app, parse_torn by assumption.
  rewrite last_seq_in_render by assumption. now rewrite last_seq_app.
Qed.

Definition top_of (l : list entry) : N := match last_seq l with Some s => s | None => 0 end.

Lemma top_seq_render pre id es tail fl :
  Forall entry_ok (all_entries pre es) -> torn tail ->
  top_seq (mkDisk (render_all pre id es tail) fl) = top_of (all_entries pre es).
Proof. intros. unfold top_seq, top_of. cbn [d_segs]. now rewrite last_seq_in_render_all. Qed.

(* ---------- open ---------- *)
Lemma firstn_lenN_app {A} (l r : list A) : firstn (N.to_nat (lenN l)) (l ++ r) = l.
Proof. apply firstn_len_app. now rewrite to_nat_lenN. Qed.

Lemma wal_open_shape max pre id es tail fl :
  Forall (fun g : gseg => fst g < id) pre -> Forall entry_ok (all_entries pre es) -> torn tail ->
  let d := mkDisk (render_all pre id es tail) fl in
  let top := N.max (top_of (all_entries pre es)) (load_flushed d) in
  wal_open max d =
  (mkDisk (render_all pre id es []) fl,
   if U64_LIMIT <=? top + 1 then Panic
   else Done (mkWal max id (lenN (enc_entries es)) (top + 1))).
Proof.
  intros Hids Hok Ht d top. pose proof (below_render id pre Hids) as Hb.
  assert (Hes : Forall entry_ok es) by (unfold all_entries in Hok; apply Forall_app in Hok; tauto).
  unfold wal_open. subst d. cbn [d_segs d_flushed].
  assert (Hra : forall t, render_all pre id es t = map render pre ++ [(id, enc_entries es ++ t)]) by reflexivity.
  rewrite (Hra tail), last_id_snoc. cbn [fst].
  unfold seg_touch. rewrite seg_get_last by assumption. rewrite seg_get_last by assumption.
  rewrite parse_torn by assumption. rewrite valid_len_enc. rewrite <- (Hra tail).
  assert (Hsegs : (if lenN (enc_entries es) <? lenN (enc_entries es ++ tail)
                   then seg_put id (firstn (N.to_nat (lenN (enc_entries es))) (enc_entries es ++ tail)) (render_all pre id es tail)
                   else render_all pre id es tail) = render_all pre id es []).
  { destruct (lenN (enc_entries es) <? lenN (enc_entries es ++ tail)) eqn:E.
    - rewrite firstn_lenN_app. rewrite !Hra. rewrite seg_put_last by assumption. now rewrite app_nil_r.
    - apply N.ltb_ge in E. rewrite lenN_app in E. assert (tail = []) as ->.
      { destruct tail; [reflexivity|]. unfold lenN in E. cbn [length] in E. lia. }
      reflexivity. }
  assert (Hsize : (if lenN (enc_entries es) <? lenN (enc_entries es ++ tail)
                   then lenN (enc_entries es) else lenN (enc_entries es ++ tail)) = lenN (enc_entries es)).
  { destruct (lenN (enc_entries es) <? lenN (enc_entries es ++ tail)) eqn:E; [reflexivity|].
    apply N.ltb_ge in E. rewrite lenN_app in *. lia. }
  rewrite Hsegs, Hsize.
  rewrite last_seq_in_render_all by (assumption || apply torn_nil).
  fold (top_of (all_entries pre es)). fold top. destruct (U64_LIMIT <=? top + 1); reflexivity.
Qed.

Lemma wal_open_empty max fl :
  let d := mkDisk [] fl in
  wal_open max d =
  (mkDisk (render_all [] WAL_FIRST_SEGMENT_ID [] []) fl,
   if U64_LIMIT <=? load_flushed d + 1 then Panic
   else Done (mkWal max WAL_FIRST_SEGMENT_ID 0 (load_flushed d + 1))).
Proof.
  intros d. subst d. unfold wal_open. cbn [d_segs d_flushed last_id]. cbv zeta.
  set (x := load_flushed _).
  match goal with |- context [N.max ?a x] => replace a with 0 by reflexivity end.
  rewrite N.max_0_l. destruct (U64_LIMIT <=? x + 1); reflexivity.
Qed.

(* reopening a directory whose newest segment ends in a write cut at any byte:
   exactly the complete entries are read, in order; open removes the partial
   bytes and nothing else; the next sequence number is above both the newest
   complete entry and the flushed mark *)
Theorem reopen_exact max pre id es e k fl :
  Forall (fun g : gseg => fst g < id) pre -> Forall entry_ok (all_entries pre es) ->
  entry_ok e -> (k < length (enc_entry e))%nat ->
  let d := mkDisk (render_all pre id es (firstn k (enc_entry e))) fl in
  read_entries d = all_entries pre es /\
  let d' := fst (wal_open max d) in
  d_segs d' = render_all pre id es [] /\ d_flushed d' = fl /\
  read_entries d' = all_entries pre es /\
  forall w, snd (wal_open max d) = Done w ->
    w_cur w = id /\ w_next w = N.max (top_of (all_entries pre es)) (load_flushed d) + 1.
Proof.
  intros Hids Hok He Hk d.
  assert (Ht : torn (firstn k (enc_entry e))) by (exists e, k; auto).
  split; [now apply read_entries_render|].
  subst d. rewrite wal_open_shape by assumption. cbn [fst snd d_segs d_flushed].
  split; [reflexivity|]. split; [reflexivity|].
  split; [apply read_entries_render; [assumption|apply torn_nil]|].
  intros w Hw. destruct (U64_LIMIT <=? _); [discriminate|]. inversion Hw; subst. split; reflexivity.
Qed.

(* ---------- facts about top_of ---------- *)
Lemma last_seq_in_list l t : last_seq l = Some t -> exists e, In e l /\ e_seq e = t.
Proof.
  induction l as [|a l IH]; [discriminate|]. cbn [last_seq].
  destruct (last_seq l) as [s|] eqn:E.
  - intros H; inversion H; subst. destruct (IH eq_refl) as (e' & Hi & He). exists e'. split; [now right|assumption].
  - intros H; inversion H; subst. exists a. split; [now left|reflexivity].
Qed.

Lemma top_of_snoc A e : top_of (A ++ [e]) = e_seq e.
Proof. unfold top_of. now rewrite last_seq_snoc. Qed.

Lemma top_of_nil : top_of [] = 0.
Proof. reflexivity. Qed.

Lemma top_of_lt A x : Forall (fun e => e_seq e < x) A -> 0 < x -> top_of A < x.
Proof.
  intros HA Hx. unfold top_of. destruct (last_seq A) as [t|] eqn:E; [|assumption].
  destruct (last_seq_in_list A t E) as (e & Hi & <-). rewrite Forall_forall in HA. now apply HA.
Qed.

Lemma top_of_ge A : asc (seqs A) -> Forall (fun e => e_seq e <= top_of A) A.
Proof.
  intros Ha. unfold top_of. destruct (last_seq A) as [t|] eqn:E.
  - now apply asc_le_last.
  - apply last_seq_none in E. subst. constructor.
Qed.

Lemma top_of_suffix A k : (k < length A)%nat -> top_of (skipn k A) = top_of A.
Proof.
  intros Hk. unfold top_of. rewrite <- (firstn_skipn k A) at 2. rewrite last_seq_app.
  destruct (last_seq (skipn k A)) eqn:E; [reflexivity|].
  apply last_seq_none in E. apply (f_equal (@length entry)) in E. rewrite skipn_length in E. cbn in E. lia.
Qed.

Lemma firstn_plus {A} (l : list A) n k : firstn (n + k) l = firstn n l ++ firstn k (skipn n l).
Proof.
  revert l. induction n as [|n IH]; intros l; [reflexivity|].
  destruct l as [|x l]; [cbn [Nat.add firstn skipn]; rewrite ?firstn_nil; reflexivity|].
  cbn [Nat.add firstn skipn app]. now rewrite IH.
Qed.

Lemma skipn_plus {A} (l : list A) n k : skipn (n + k) l = skipn k (skipn n l).
Proof.
  revert l. induction n as [|n IH]; intros l; [reflexivity|].
  destruct l as [|x l]; [now rewrite !skipn_nil|]. cbn [Nat.add skipn]. apply IH.
Qed.

(* ---------- the log part of the history invariant ----------
   A   : the valid entries now in the directory, in order
   fl  : the flushed mark as load_flushed_seq reads it
   ow  : the handle, if the process is up;  tail : partial bytes at the end
   C   : every entry written completely so far;  wm : the watermark;
   tb  : the largest truncation bound so far *)
Definition logok (A : list entry) (fl : N) (ow : option wal) (tail : bytes)
                 (C : list entry) (wm tb : N) : Prop :=
  Forall entry_ok A /\ asc (seqs A) /\
  (forall w, ow = Some w -> tail = [] /\ Forall (fun e => e_seq e < w_next w) A /\ fl < w_next w) /\
  (exists n, (n <= length C)%nat /\ A = skipn n C /\ Forall (fun e => e_seq e < tb) (firstn n C)) /\
  wm <= N.max (top_of A) fl /\ Forall (fun e => e_seq e <= N.max (top_of A) fl) C /\
  tb <= N.max (top_of A) fl + 1.

Lemma logok_drop A fl ow tail tail' C wm tb :
  logok A fl ow tail C wm tb -> logok A fl None tail' C wm tb.
Proof.
  intros (H1 & H2 & H3 & H4 & H5 & H6 & H7).
  split; [assumption|]. split; [assumption|]. split; [discriminate|]. split; [assumption|].
  split; [assumption|]. split; assumption.
Qed.

Lemma logok_wm_fl A fl ow tail C wm tb :
  logok A fl ow tail C wm tb -> logok A fl ow tail C (N.max wm fl) tb.
Proof.
  intros (H1 & H2 & H3 & H4 & H5 & H6 & H7).
  split; [assumption|]. split; [assumption|]. split; [assumption|]. split; [assumption|].
  split; [lia|]. split; assumption.
Qed.

Lemma logok_open A fl ow tail C wm tb w :
  logok A fl ow tail C wm tb -> w_next w = N.max (top_of A) fl + 1 ->
  logok A fl (Some w) [] C (N.max wm fl) tb.
Proof.
  intros (H1 & H2 & H3 & H4 & H5 & H6 & H7) Hw. split; [assumption|]. split; [assumption|]. split.
  { intros w' Hw'. inversion Hw'; subst w'. split; [reflexivity|]. split; [|lia].
    eapply Forall_impl; [|apply (top_of_ge A H2)]. intros e He. cbn beta in *. lia. }
  split; [assumption|]. split; [lia|]. split; assumption.
Qed.

Lemma logok_append A fl w w' C wm tb e :
  logok A fl (Some w) [] C wm tb -> entry_ok e -> e_seq e = w_next w -> w_next w' = w_next w + 1 ->
  logok (A ++ [e]) fl (Some w') [] (C ++ [e]) (N.max wm (N.max (e_seq e) fl)) tb /\
  wm < e_seq e /\ fl < e_seq e /\ tb <= e_seq e.
Proof.
  intros (H1 & H2 & H3 & H4 & H5 & H6 & H7) He Hs Hw'.
  destruct (H3 w eq_refl) as (_ & Hlt & Hfl).
  assert (Htop : top_of A < w_next w) by (apply top_of_lt; [assumption|lia]).
  split; [|lia].
  split; [apply Forall_app; split; [assumption|constructor; [assumption|constructor]]|].
  split; [apply asc_snoc; [assumption|]; rewrite Hs; assumption|].
  split.
  { intros w2 Hw2. inversion Hw2; subst w2. split; [reflexivity|]. split; [|lia].
    apply Forall_app. split.
    - eapply Forall_impl; [|exact Hlt]. intros a Ha. cbn beta in *. lia.
    - constructor; [lia|constructor]. }
  split.
  { destruct H4 as (n & Hn & HA & Htb). exists n. split; [rewrite app_length; lia|]. split.
    - rewrite skipn_app. replace (n - length C)%nat with 0%nat by lia. now rewrite HA.
    - rewrite firstn_app. replace (n - length C)%nat with 0%nat by lia. cbn [firstn]. now rewrite app_nil_r. }
  rewrite top_of_snoc. split; [lia|]. split; [|lia].
  apply Forall_app. split.
  - eapply Forall_impl; [|exact H6]. intros a Ha. cbn beta in *. lia.
  - constructor; [lia|constructor].
Qed.

(* the same append cut short: the sequence number was handed out, nothing
   complete reached the file, the process is gone *)
Lemma logok_torn A fl w tail' C wm tb :
  logok A fl (Some w) [] C wm tb ->
  logok A fl None tail' C (N.max wm fl) tb /\ wm < w_next w /\ fl < w_next w /\ tb <= w_next w.
Proof.
  intros H. pose proof H as (H1 & H2 & H3 & H4 & H5 & H6 & H7).
  destruct (H3 w eq_refl) as (_ & Hlt & Hfl).
  assert (Htop : top_of A < w_next w) by (apply top_of_lt; [assumption|lia]).
  split; [|lia]. apply logok_wm_fl. eapply logok_drop. exact H.
Qed.

Lemma logok_persist A fl ow tail C wm tb x :
  logok A fl ow tail C wm tb -> fl <= x -> x <= top_of A ->
  logok A x ow tail C (N.max wm x) tb.
Proof.
  intros (H1 & H2 & H3 & H4 & H5 & H6 & H7) Hlo Hhi.
  split; [assumption|]. split; [assumption|]. split.
  { intros w Hw. destruct (H3 w Hw) as (Ht & Hlt & Hfl). split; [assumption|]. split; [assumption|].
    assert (top_of A < w_next w) by (apply top_of_lt; [assumption|lia]). lia. }
  split; [assumption|]. split; [lia|]. split; [|lia].
  eapply Forall_impl; [|exact H6]. intros a Ha. cbn beta in *. lia.
Qed.

Lemma logok_persist_torn A fl ow tail C wm tb x :
  logok A fl ow tail C wm tb -> fl <= x -> x <= top_of A ->
  logok A 0 None tail C wm tb.
Proof.
  intros (H1 & H2 & H3 & H4 & H5 & H6 & H7) Hlo Hhi.
  split; [assumption|]. split; [assumption|]. split; [discriminate|].
  split; [assumption|]. split; [lia|]. split; [|lia].
  eapply Forall_impl; [|exact H6]. intros a Ha. cbn beta in *. lia.
Qed.

(* truncation removes a prefix of the valid entries, all below the bound; under
   the caller discipline the mark max(top, flushed) does not move *)
Lemma logok_trunc A fl w C wm tb k b :
  logok A fl (Some w) [] C wm tb -> (k <= length A)%nat ->
  Forall (fun e => e_seq e < b) (firstn k A) ->
  (b <= top_of A \/ b <= fl + 1) ->
  logok (skipn k A) fl (Some w) [] C wm (N.max tb b).
Proof.
  intros (H1 & H2 & H3 & H4 & H5 & H6 & H7) Hk Hb Hdisc.
  assert (Hmark : N.max (top_of (skipn k A)) fl = N.max (top_of A) fl).
  { destruct (Nat.lt_ge_cases k (length A)) as [Hlt | Hge].
    - now rewrite top_of_suffix.
    - rewrite skipn_all2 by assumption. rewrite top_of_nil.
      rewrite firstn_all2 in Hb by assumption.
      unfold top_of in *. destruct (last_seq A) as [t|] eqn:E; [|reflexivity].
      destruct (last_seq_in_list A t E) as (e & Hi & <-).
      rewrite Forall_forall in Hb. specialize (Hb e Hi). cbn beta in Hb. lia. }
  destruct (H3 w eq_refl) as (_ & Hlt & Hfl).
  split. { rewrite <- (firstn_skipn k A) in H1. apply Forall_app in H1. tauto. }
  split; [now apply asc_skipn|].
  split.
  { intros w' Hw'. inversion Hw'; subst w'. split; [reflexivity|]. split; [|assumption].
    rewrite <- (firstn_skipn k A) in Hlt. apply Forall_app in Hlt. tauto. }
  split.
  { destruct H4 as (n & Hn & HA & Htb). exists (n + k)%nat.
    assert (Hlen : length A = (length C - n)%nat) by (rewrite HA; apply skipn_length).
    split; [lia|]. split.
    - rewrite skipn_plus. now rewrite <- HA.
    - rewrite firstn_plus, <- HA. apply Forall_app. split.
      + eapply Forall_impl; [|exact Htb]. intros a Ha. cbn beta in *. lia.
      + eapply Forall_impl; [|exact Hb]. intros a Ha. cbn beta in *. lia. }
  rewrite Hmark. split; [assumption|]. split; [assumption|].
  unfold top_of in *. destruct (last_seq A); lia.
Qed.

Lemma logok_handle_swap A fl w w' tail C wm tb :
  logok A fl (Some w) tail C wm tb -> w_next w' = w_next w -> logok A fl (Some w') tail C wm tb.
Proof.
  intros (H1 & H2 & H3 & H4 & H5 & H6 & H7) Hn.
  split; [assumption|]. split; [assumption|]. split.
  { intros w2 Hw2. inversion Hw2; subst w2. rewrite Hn. now apply H3. }
  split; [assumption|]. split; [assumption|]. split; assumption.
Qed.

Lemma logok_ok A fl ow tail C wm tb : logok A fl ow tail C wm tb -> Forall entry_ok A.
Proof. intros H. apply H. Qed.

Lemma logok_tail A fl w tail C wm tb : logok A fl (Some w) tail C wm tb -> tail = [].
Proof. intros (H1 & H2 & H3 & _). now destruct (H3 w eq_refl). Qed.

Lemma logok_nil fl tb : tb <= fl + 1 -> logok [] fl None [] [] 0 tb.
Proof.
  intros Htb. split; [constructor|]. split; [exact I|]. split; [discriminate|].
  split; [exists 0%nat; repeat split; [cbn; lia|constructor]|].
  rewrite top_of_nil, N.max_0_l. split; [lia|]. split; [constructor|assumption].
Qed.

Lemma top_of_limit A : Forall entry_ok A -> top_of A < U64_LIMIT.
Proof.
  intros H. unfold top_of. destruct (last_seq A) as [t|] eqn:E; [|reflexivity].
  destruct (last_seq_in_list A t E) as (e & Hi & <-). rewrite Forall_forall in H. apply (H e Hi).
Qed.

(* ---------- truncate_before on a directory of the known shape ---------- *)
Fixpoint gtrunc (b : N) (pre : list gseg) : list gseg :=
  match pre with
  | [] => []
  | g :: r =>
    match last_seq (snd g) with
    | Some ls => if ls <? b then gtrunc b r else g :: r
    | None => g :: gtrunc b r
    end
  end.

Lemma trunc_loop_render id b f pre :
  Forall (fun g : gseg => fst g < id) pre -> Forall entry_ok (flat_map snd pre) ->
  trunc_loop id b (map render pre ++ [(id, f)]) = map render (gtrunc b pre) ++ [(id, f)].
Proof.
  induction pre as [|g pre IH]; intros Hids Hok.
  - cbn [map app trunc_loop gtrunc]. now rewrite N.leb_refl.
  - inversion Hids as [|? ? Hg Hr]; subst. cbn [flat_map] in Hok. apply Forall_app in Hok. destruct Hok as [Ho1 Ho2].
    destruct g as [i es]. cbn [fst snd] in *. cbn [map app render fst snd trunc_loop gtrunc].
    replace (id <=? i) with false by (symmetry; apply N.leb_gt; assumption).
    rewrite parse_concat_encode by assumption.
    destruct (last_seq es) as [ls|].
    + destruct (ls <? b); [now apply IH|reflexivity].
    + cbn [map app render fst snd]. now rewrite IH.
Qed.

Lemma gtrunc_below id b pre :
  Forall (fun g : gseg => fst g < id) pre -> Forall (fun g : gseg => fst g < id) (gtrunc b pre).
Proof.
  induction 1 as [|g pre Hg Hr IH]; cbn [gtrunc]; [constructor|].
  destruct (last_seq (snd g)) as [ls|]; [destruct (ls <? b); [assumption|now constructor]|now constructor].
Qed.

(* what is removed is a prefix of the older segments' entries, all below b *)
Lemma gtrunc_entries b pre : asc (seqs (flat_map snd pre)) ->
  exists k, (k <= length (flat_map snd pre))%nat /\
            flat_map snd (gtrunc b pre) = skipn k (flat_map snd pre) /\
            Forall (fun e => e_seq e < b) (firstn k (flat_map snd pre)).
Proof.
  induction pre as [|g pre IH]; intros Ha.
  - exists 0%nat. cbn. repeat split; [lia|constructor].
  - cbn [flat_map] in Ha. rewrite seqs_app in Ha. apply asc_app in Ha. destruct Ha as (Ha1 & Ha2 & _).
    cbn [gtrunc flat_map]. destruct (last_seq (snd g)) as [ls|] eqn:El.
    + destruct (ls <? b) eqn:Eb.
      * destruct (IH Ha2) as (k & Hk & Hs & Hf). exists (length (snd g) + k)%nat.
        split; [rewrite app_length; lia|]. split.
        -- rewrite skipn_plus. rewrite skipn_len_app by reflexivity. assumption.
        -- rewrite firstn_plus. rewrite firstn_len_app by reflexivity. rewrite skipn_len_app by reflexivity.
           apply Forall_app. split; [|assumption].
           apply N.ltb_lt in Eb. pose proof (asc_le_last (snd g) ls Ha1 El) as Hle.
           eapply Forall_impl; [|exact Hle]. intros a Hle'. cbn beta in *. lia.
      * exists 0%nat. cbn [flat_map skipn firstn]. repeat split; [lia|constructor].
    + apply last_seq_none in El. rewrite El. cbn [app]. cbn [flat_map]. rewrite El. cbn [app]. now apply IH.
Qed.

(* ---------- append on a directory of the known shape ---------- *)
Lemma all_entries_rotate pre id es : all_entries (pre ++ [(id, es)]) [] = all_entries pre es.
Proof. unfold all_entries. rewrite flat_map_app. cbn [flat_map snd]. now rewrite !app_nil_r. Qed.

Lemma wal_rotate_shape w pre es fl :
  Forall (fun g : gseg => fst g < w_cur w) pre ->
  wal_rotate w (mkDisk (render_all pre (w_cur w) es []) fl) =
  (mkDisk (render_all (pre ++ [(w_cur w, es)]) (w_cur w + 1) [] []) fl,
   mkWal (w_max w) (w_cur w + 1) 0 (w_next w)).
Proof.
  intros Hids. pose proof (below_render _ _ Hids) as Hb.
  unfold wal_rotate. cbn [d_segs d_flushed]. f_equal. f_equal.
  unfold seg_touch, render_all. rewrite seg_get_above by (assumption || lia).
  rewrite seg_put_new by (assumption || lia).
  rewrite map_app. cbn [map render fst snd enc_entries flat_map app].
  rewrite <- app_assoc. cbn [app]. now rewrite !app_nil_r.
Qed.

Lemma seg_append_shape pre id es fl data :
  Forall (fun g : gseg => fst g < id) pre ->
  mkDisk (seg_append id data (render_all pre id es [])) fl = mkDisk (render_all pre id es data) fl.
Proof.
  intros Hids. pose proof (below_render _ _ Hids) as Hb. f_equal.
  unfold seg_append, render_all. rewrite seg_get_last by assumption.
  rewrite seg_put_last by assumption. now rewrite app_nil_r.
Qed.

Definition rot_pre (r : bool) (pre : list gseg) (id : N) (es : list entry) : list gseg :=
  if r then pre ++ [(id, es)] else pre.
Definition rot_id (r : bool) (id : N) : N := if r then id + 1 else id.
Definition rot_es (r : bool) (es : list entry) : list entry := if r then [] else es.

Lemma rot_all r pre id es : all_entries (rot_pre r pre id es) (rot_es r es) = all_entries pre es.
Proof. destruct r; [apply all_entries_rotate|reflexivity]. Qed.

Lemma rot_below r pre id es :
  Forall (fun g : gseg => fst g < id) pre ->
  Forall (fun g : gseg => fst g < rot_id r id) (rot_pre r pre id es).
Proof.
  intros H. destruct r; cbn [rot_id rot_pre]; [|assumption].
  apply Forall_app. split.
  - eapply Forall_impl; [|exact H]. intros g Hg. cbn beta in *. lia.
  - constructor; [cbn; lia|constructor].
Qed.

Lemma append_cut_shape w pre es fl pl keep :
  Forall (fun g : gseg => fst g < w_cur w) pre ->
  (U64_LIMIT <=? w_next w + 1) = false ->
  exists r w',
    append_cut w (mkDisk (render_all pre (w_cur w) es []) fl) pl keep =
    Done (mkDisk (render_all (rot_pre r pre (w_cur w) es) (rot_id r (w_cur w)) (rot_es r es)
                    (firstn (N.to_nat keep) (enc_entry (mkEntry (w_next w) 0 pl)))) fl,
          w', w_next w) /\
    w_cur w' = rot_id r (w_cur w) /\ w_next w' = w_next w + 1.
Proof.
  intros Hids Hov. unfold append_cut. rewrite Hov.
  set (data := encode_header (w_next w) 0 pl ++ pl).
  change (enc_entry (mkEntry (w_next w) 0 pl)) with data.
  destruct ((0 <? w_max w) && (w_max w <? w_size w + (WAL_HEADER_LEN + lenN pl))).
  - exists true. rewrite wal_rotate_shape by assumption. cbn [w_cur w_max w_size w_next d_segs d_flushed].
    eexists. split; [rewrite seg_append_shape by (apply (rot_below true); assumption); reflexivity|].
    split; reflexivity.
  - exists false. eexists.
    split; [cbn [d_segs d_flushed]; rewrite seg_append_shape by assumption; reflexivity|].
    split; reflexivity.
Qed.

(* a complete write extends the entries of the newest segment *)
Lemma render_all_complete pre id es e :
  render_all pre id es (enc_entry e) = render_all pre id (es ++ [e]) [].
Proof.
  unfold render_all. rewrite enc_entries_app. cbn [enc_entries flat_map]. now rewrite !app_nil_r.
Qed.

Lemma all_entries_snoc pre es e : all_entries pre (es ++ [e]) = all_entries pre es ++ [e].
Proof. unfold all_entries. now rewrite app_assoc. Qed.

(* ---------- the flushed-sequence file ---------- *)
Definition flv (fl : option bytes) : N := load_flushed (mkDisk [] fl).

Lemma load_flushed_flv s fl : load_flushed (mkDisk s fl) = flv fl.
Proof. reflexivity. Qed.

Lemma flv_persist x : x < U64_LIMIT ->
  flv (Some (firstn (N.to_nat WAL_FLUSHED_LEN) (le_bytes 8 x))) = x.
Proof.
  intros Hx. unfold flv, load_flushed. cbn [d_flushed].
  rewrite firstn_all2 by (rewrite le_bytes_length; vm_compute; lia).
  unfold lenN. rewrite le_bytes_length. change (N.of_nat 8 =? WAL_FLUSHED_LEN) with true. cbn iota.
  now apply le_val_le_bytes_small.
Qed.

Lemma flv_short x keep : keep <= WAL_FLUSHED_LEN -> (keep =? WAL_FLUSHED_LEN) = false ->
  flv (Some (firstn (N.to_nat keep) (le_bytes 8 x))) = 0.
Proof.
  intros Hk Hne. apply N.eqb_neq in Hne. unfold flv, load_flushed. cbn [d_flushed].
  replace (lenN (firstn (N.to_nat keep) (le_bytes 8 x)) =? WAL_FLUSHED_LEN) with false; [reflexivity|].
  symmetry. apply N.eqb_neq. unfold lenN. rewrite firstn_length, le_bytes_length.
  change WAL_FLUSHED_LEN with 8 in *. lia.
Qed.

(* ---------- the history invariant ---------- *)
Definition good (st : state) (C : list entry) (wm tb : N) : Prop :=
  exists pre id es tail fl ow,
    st = mkState (mkDisk (render_all pre id es tail) fl) ow /\
    Forall (fun g : gseg => fst g < id) pre /\ torn tail /\
    (forall w, ow = Some w -> w_cur w = id) /\
    logok (all_entries pre es) (flv fl) ow tail C wm tb.

(* nothing has been opened yet *)
Definition fresh (st : state) (C : list entry) (wm tb : N) : Prop :=
  exists fl, st = mkState (mkDisk [] fl) None /\ flv fl = 0 /\ C = [] /\ wm = 0 /\ tb = 0.

Definition Inv (st : state) (C : list entry) (wm tb : N) : Prop := fresh st C wm tb \/ good st C wm tb.

Definition post (C : list entry) (wm tb : N) (r : state * event) : Prop :=
  Inv (fst r) (C ++ complete_ev (snd r)) (wm_step wm (snd r)) (trunc_step tb (snd r)) /\
  match assigned (snd r) with Some (s, fl) => wm < s /\ fl < s /\ tb <= s | None => True end.

Lemma post_none st C wm tb : Inv st C wm tb -> post C wm tb (st, EvNone).
Proof. intros H. split; [|exact I]. cbn. now rewrite app_nil_r. Qed.

Lemma post_panic st C wm tb : Inv st C wm tb -> post C wm tb (st, EvPanic).
Proof. intros H. split; [|exact I]. cbn. now rewrite app_nil_r. Qed.

Lemma payload_ok_spec pl : payload_ok pl = true -> lenN pl < U32_LIMIT /\ Forall (fun b => b < 256) pl.
Proof.
  unfold payload_ok. intros H. apply andb_true_iff in H. destruct H as [H1 H2]. split.
  - now apply N.ltb_lt.
  - rewrite Forall_forall. rewrite forallb_forall in H2. intros b Hb. apply N.ltb_lt. now apply H2.
Qed.

Lemma full_keep s pl : N.to_nat (WAL_HEADER_LEN + lenN pl) = length (enc_entry (mkEntry s 0 pl)).
Proof. rewrite enc_entry_length. cbn [e_payload]. unfold lenN. lia. Qed.

(* ---------- one lemma per operation ---------- *)
Lemma step_open st C wm tb max : Inv st C wm tb -> post C wm tb (step st (OOpen max)).
Proof.
  intros [(fl & -> & Hfl & -> & -> & ->) | (pre & id & es & tail & fl & ow & -> & Hids & Ht & Hcur & Hlog)].
  - cbn [step st_disk]. rewrite wal_open_empty. rewrite !load_flushed_flv.
    assert (Hl0 : logok (all_entries [] []) (flv fl) None [] [] 0 0) by (apply logok_nil; lia).
    destruct (U64_LIMIT <=? flv fl + 1).
    + split; [|exact I]. cbn. right. exists [], WAL_FIRST_SEGMENT_ID, [], [], fl, None.
      repeat split; try constructor; try discriminate; try apply torn_nil; apply Hl0.
    + split; [|exact I]. cbn [fst snd complete_ev wm_step trunc_step w_next app].
      right. exists [], WAL_FIRST_SEGMENT_ID, [], [], fl, (Some (mkWal max WAL_FIRST_SEGMENT_ID 0 (flv fl + 1))).
      split; [reflexivity|]. split; [constructor|]. split; [apply torn_nil|].
      split; [intros w Hw; inversion Hw; reflexivity|].
      eapply logok_open; [exact Hl0|]. cbn [w_next all_entries flat_map app]. now rewrite top_of_nil, N.max_0_l.
  - pose proof (logok_ok _ _ _ _ _ _ _ Hlog) as Hok.
    cbn [step st_disk]. rewrite wal_open_shape by assumption. rewrite !load_flushed_flv.
    destruct (U64_LIMIT <=? _).
    + split; [|exact I]. cbn. rewrite app_nil_r. right. exists pre, id, es, [], fl, None.
      split; [reflexivity|]. split; [assumption|]. split; [apply torn_nil|]. split; [discriminate|].
      eapply logok_drop. exact Hlog.
    + split; [|exact I]. cbn [fst snd complete_ev wm_step trunc_step w_next]. rewrite app_nil_r.
      right. eexists pre, id, es, [], fl, (Some _).
      split; [reflexivity|]. split; [assumption|]. split; [apply torn_nil|].
      split; [intros w Hw; inversion Hw; reflexivity|].
      eapply logok_open; [exact Hlog|]. reflexivity.
Qed.

Lemma step_crash st C wm tb : Inv st C wm tb -> post C wm tb (step st OCrash).
Proof.
  intros [(fl & -> & Hfl & -> & -> & ->) | (pre & id & es & tail & fl & ow & -> & Hids & Ht & Hcur & Hlog)].
  - apply post_none. left. exists fl. repeat split; assumption.
  - apply post_none. right. exists pre, id, es, tail, fl, None.
    split; [reflexivity|]. split; [assumption|]. split; [assumption|]. split; [discriminate|].
    eapply logok_drop. exact Hlog.
Qed.

Lemma step_nohandle st C wm tb o :
  Inv st C wm tb -> st_wal st = None ->
  match o with OAppend _ | ORotate | OTruncate _ | OCrashAppend _ _ => True | _ => False end ->
  post C wm tb (step st o).
Proof.
  intros HI Hw Ho. destruct st as [d ow]. cbn in Hw. subst ow.
  destruct o; try contradiction; cbn [step st_wal]; now apply post_none.
Qed.

Lemma step_append st C wm tb pl :
  Inv st C wm tb -> payload_ok pl = true -> post C wm tb (step st (OAppend pl)).
Proof.
  intros HI Hpl.
  destruct (st_wal st) as [w|] eqn:Ew; [|now apply step_nohandle].
  destruct HI as [(fl & -> & _) | (pre & id & es & tail & fl & ow & -> & Hids & Ht & Hcur & Hlog)]; [discriminate|].
  cbn in Ew. subst ow. pose proof (logok_tail _ _ _ _ _ _ _ Hlog). subst tail.
  pose proof (Hcur w eq_refl). subst id.
  assert (HI : Inv (mkState (mkDisk (render_all pre (w_cur w) es []) fl) (Some w)) C wm tb).
  { right. exists pre, (w_cur w), es, [], fl, (Some w).
    split; [reflexivity|]. split; [assumption|]. split; [assumption|]. split; assumption. }
  cbn [step st_disk st_wal]. unfold wal_append.
  destruct (U64_LIMIT <=? w_next w + 1) eqn:Hov.
  - unfold append_cut. rewrite Hov. now apply post_panic.
  - destruct (append_cut_shape w pre es fl pl (WAL_HEADER_LEN + lenN pl) Hids Hov) as (r & w' & Heq & Hc & Hn).
    rewrite Heq. rewrite (full_keep (w_next w) pl), firstn_all, render_all_complete.
    rewrite load_flushed_flv.
    set (e := mkEntry (w_next w) 0 pl).
    destruct (payload_ok_spec pl Hpl) as [Hlen Hbytes].
    assert (He : entry_ok e).
    { apply N.leb_gt in Hov. repeat split; cbn; try assumption. lia. }
    destruct (logok_append _ _ w w' _ _ _ e Hlog He eq_refl Hn) as (Hlog' & Hr).
    split; [|exact Hr]. cbn [fst snd complete_ev wm_step trunc_step].
    right. exists (rot_pre r pre (w_cur w) es), (rot_id r (w_cur w)), (rot_es r es ++ [e]), [], fl, (Some w').
    split; [reflexivity|]. split; [now apply rot_below|]. split; [apply torn_nil|].
    split; [intros w2 Hw2; inversion Hw2; subst; assumption|].
    rewrite all_entries_snoc, rot_all. exact Hlog'.
Qed.

Lemma step_crash_append st C wm tb pl keep :
  Inv st C wm tb -> payload_ok pl = true -> keep <= WAL_HEADER_LEN + lenN pl ->
  post C wm tb (step st (OCrashAppend pl keep)).
Proof.
  intros HI Hpl Hkeep.
  destruct (st_wal st) as [w|] eqn:Ew; [|now apply step_nohandle].
  destruct HI as [(fl & -> & _) | (pre & id & es & tail & fl & ow & -> & Hids & Ht & Hcur & Hlog)]; [discriminate|].
  cbn in Ew. subst ow. pose proof (logok_tail _ _ _ _ _ _ _ Hlog). subst tail.
  pose proof (Hcur w eq_refl). subst id.
  cbn [step st_disk st_wal].
  destruct (U64_LIMIT <=? w_next w + 1) eqn:Hov.
  - unfold append_cut. rewrite Hov. apply post_panic.
    right. exists pre, (w_cur w), es, [], fl, None.
    split; [reflexivity|]. split; [assumption|]. split; [assumption|]. split; [discriminate|].
    eapply logok_drop. exact Hlog.
  - destruct (append_cut_shape w pre es fl pl keep Hids Hov) as (r & w' & Heq & Hc & Hn).
    rewrite Heq. rewrite load_flushed_flv.
    set (e := mkEntry (w_next w) 0 pl).
    destruct (payload_ok_spec pl Hpl) as [Hlen Hbytes].
    assert (He : entry_ok e).
    { apply N.leb_gt in Hov. repeat split; cbn; try assumption. lia. }
    unfold post. cbn [fst snd complete_ev wm_step trunc_step assigned].
    destruct (keep =? WAL_HEADER_LEN + lenN pl) eqn:Ek.
    + apply N.eqb_eq in Ek. subst keep.
      rewrite (full_keep (w_next w) pl), firstn_all, render_all_complete.
      destruct (logok_append _ _ w w' _ _ _ e Hlog He eq_refl Hn) as (Hlog' & Hr).
      split; [|exact Hr]. cbn [fst snd].
      right. exists (rot_pre r pre (w_cur w) es), (rot_id r (w_cur w)), (rot_es r es ++ [e]), [], fl, None.
      split; [reflexivity|]. split; [now apply rot_below|]. split; [apply torn_nil|].
      split; [discriminate|].
      rewrite all_entries_snoc, rot_all. eapply logok_drop. exact Hlog'.
    + apply N.eqb_neq in Ek.
      destruct (logok_torn _ _ w (firstn (N.to_nat keep) (enc_entry e)) _ _ _ Hlog) as (Hlog' & Hr).
      split; [|exact Hr]. cbn [fst snd]. rewrite app_nil_r.
      right. exists (rot_pre r pre (w_cur w) es), (rot_id r (w_cur w)), (rot_es r es), (firstn (N.to_nat keep) (enc_entry e)), fl, None.
      split; [reflexivity|]. split; [now apply rot_below|].
      split. { exists e, (N.to_nat keep). split; [assumption|]. split; [|reflexivity].
               pose proof (full_keep (w_next w) pl) as Hfk. fold e in Hfk. lia. }
      split; [discriminate|].
      rewrite rot_all. exact Hlog'.
Qed.

Lemma step_rotate st C wm tb : Inv st C wm tb -> post C wm tb (step st ORotate).
Proof.
  intros HI.
  destruct (st_wal st) as [w|] eqn:Ew; [|now apply step_nohandle].
  destruct HI as [(fl & -> & _) | (pre & id & es & tail & fl & ow & -> & Hids & Ht & Hcur & Hlog)]; [discriminate|].
  cbn in Ew. subst ow. pose proof (logok_tail _ _ _ _ _ _ _ Hlog). subst tail.
  pose proof (Hcur w eq_refl). subst id.
  cbn [step st_disk st_wal]. rewrite wal_rotate_shape by assumption.
  apply post_none. right.
  exists (pre ++ [(w_cur w, es)]), (w_cur w + 1), [], [], fl, (Some (mkWal (w_max w) (w_cur w + 1) 0 (w_next w))).
  split; [reflexivity|]. split; [apply (rot_below true); assumption|]. split; [apply torn_nil|].
  split; [intros w2 Hw2; inversion Hw2; reflexivity|].
  rewrite all_entries_rotate. eapply logok_handle_swap; [exact Hlog|reflexivity].
Qed.

Lemma trunc_shape w pre es fl b :
  Forall (fun g : gseg => fst g < w_cur w) pre -> Forall entry_ok (flat_map snd pre) ->
  wal_truncate_before w (mkDisk (render_all pre (w_cur w) es []) fl) b =
  mkDisk (render_all (gtrunc b pre) (w_cur w) es []) fl.
Proof.
  intros Hids Hok. unfold wal_truncate_before, render_all. cbn [d_segs d_flushed].
  now rewrite trunc_loop_render by assumption.
Qed.

Lemma step_truncate st C wm tb b :
  Inv st C wm tb -> op_ok st (OTruncate b) = true -> post C wm tb (step st (OTruncate b)).
Proof.
  intros HI Hop.
  destruct (st_wal st) as [w|] eqn:Ew; [|now apply step_nohandle].
  destruct HI as [(fl & -> & _) | (pre & id & es & tail & fl & ow & -> & Hids & Ht & Hcur & Hlog)]; [discriminate|].
  cbn in Ew. subst ow. pose proof (logok_tail _ _ _ _ _ _ _ Hlog). subst tail.
  pose proof (Hcur w eq_refl). subst id.
  pose proof (logok_ok _ _ _ _ _ _ _ Hlog) as Hok.
  cbn [op_ok st_disk] in Hop. rewrite top_seq_render in Hop by assumption. rewrite load_flushed_flv in Hop.
  assert (Hdisc : b <= top_of (all_entries pre es) \/ b <= flv fl + 1).
  { apply orb_true_iff in Hop. destruct Hop as [H|H]; apply N.leb_le in H; auto. }
  unfold all_entries in Hok. apply Forall_app in Hok. destruct Hok as [Hok1 Hok2].
  cbn [step st_disk st_wal]. rewrite trunc_shape by assumption.
  assert (Hasc : asc (seqs (flat_map snd pre))).
  { destruct Hlog as (_ & Ha & _). unfold all_entries in Ha. rewrite seqs_app in Ha. apply asc_app in Ha. tauto. }
  destruct (gtrunc_entries b pre Hasc) as (k & Hk & Hskip & Hlt).
  split; [|exact I]. cbn [fst snd complete_ev wm_step trunc_step]. rewrite app_nil_r.
  right. exists (gtrunc b pre), (w_cur w), es, [], fl, (Some w).
  split; [reflexivity|]. split; [now apply gtrunc_below|]. split; [apply torn_nil|].
  split; [assumption|].
  assert (Hall : all_entries (gtrunc b pre) es = skipn k (all_entries pre es)).
  { unfold all_entries. rewrite Hskip, skipn_app. replace (k - length (flat_map snd pre))%nat with 0%nat by lia. reflexivity. }
  rewrite Hall. apply logok_trunc; [assumption | unfold all_entries; rewrite app_length; lia | | assumption].
  unfold all_entries. rewrite firstn_app. replace (k - length (flat_map snd pre))%nat with 0%nat by lia.
  cbn [firstn]. now rewrite app_nil_r.
Qed.

Lemma fresh_top fl : top_seq (mkDisk [] fl) = 0.
Proof. reflexivity. Qed.

Lemma flv_zero_cut k : flv (Some (firstn k (le_bytes 8 0))) = 0.
Proof. do 9 (destruct k as [|k]; [vm_compute; reflexivity|]). vm_compute. reflexivity. Qed.

Lemma step_persist_gen st C wm tb x keep :
  Inv st C wm tb -> load_flushed (st_disk st) <= x -> x <= top_seq (st_disk st) -> keep <= WAL_FLUSHED_LEN ->
  forall ow, (ow = st_wal st /\ keep = WAL_FLUSHED_LEN) \/ ow = None ->
  post C wm tb (mkState (persist_cut (st_disk st) x keep) ow, EvPersist x keep).
Proof.
  intros HI Hlo Hhi Hkeep ow How.
  destruct HI as [(fl & -> & Hfl & -> & -> & ->) | (pre & id & es & tail & fl & ow0 & -> & Hids & Ht & Hcur & Hlog)].
  - cbn [st_disk st_wal] in *. rewrite fresh_top in Hhi. assert (x = 0) by lia. subst x.
    split; [|exact I]. cbn [fst snd complete_ev wm_step trunc_step app].
    assert (Hwm : (if keep =? WAL_FLUSHED_LEN then N.max 0 0 else 0) = 0) by (destruct (keep =? WAL_FLUSHED_LEN); reflexivity).
    rewrite Hwm. left. exists (Some (firstn (N.to_nat keep) (le_bytes 8 0))).
    assert (ow = None) as -> by (destruct How as [[-> _]| ->]; reflexivity).
    split; [reflexivity|]. split; [apply flv_zero_cut|]. repeat split; reflexivity.
  - pose proof (logok_ok _ _ _ _ _ _ _ Hlog) as Hok.
    cbn [st_disk st_wal] in *. rewrite top_seq_render in Hhi by assumption. rewrite load_flushed_flv in Hlo.
    assert (Hx : x < U64_LIMIT) by (pose proof (top_of_limit _ Hok); lia).
    split; [|exact I]. cbn [fst snd complete_ev wm_step trunc_step]. rewrite app_nil_r.
    unfold persist_cut. cbn [d_segs d_flushed].
    destruct (keep =? WAL_FLUSHED_LEN) eqn:Ek.
    + apply N.eqb_eq in Ek. subst keep.
      right. exists pre, id, es, tail, (Some (firstn (N.to_nat WAL_FLUSHED_LEN) (le_bytes 8 x))), ow.
      split; [reflexivity|]. split; [assumption|]. split; [assumption|].
      rewrite flv_persist by assumption.
      destruct How as [[-> _]| ->].
      * split; [assumption|]. eapply logok_persist; eassumption.
      * split; [discriminate|]. eapply logok_drop. eapply logok_persist; eassumption.
    + assert (ow = None) as ->.
      { destruct How as [[_ ->]| ->]; [|reflexivity]. rewrite N.eqb_refl in Ek. discriminate. }
      right. exists pre, id, es, tail, (Some (firstn (N.to_nat keep) (le_bytes 8 x))), None.
      split; [reflexivity|]. split; [assumption|]. split; [assumption|]. split; [discriminate|].
      rewrite flv_short by assumption. eapply logok_persist_torn; eassumption.
Qed.

Lemma step_persist st C wm tb x :
  Inv st C wm tb -> op_ok st (OPersist x) = true -> post C wm tb (step st (OPersist x)).
Proof.
  intros HI Hop. cbn [op_ok] in Hop. apply andb_true_iff in Hop. destruct Hop as [H1 H2].
  apply N.leb_le in H1, H2. cbn [step]. unfold persist_flushed.
  apply step_persist_gen; try assumption; [lia|]. left. split; reflexivity.
Qed.

Lemma step_crash_persist st C wm tb x keep :
  Inv st C wm tb -> op_ok st (OCrashPersist x keep) = true -> post C wm tb (step st (OCrashPersist x keep)).
Proof.
  intros HI Hop. cbn [op_ok] in Hop. apply andb_true_iff in Hop. destruct Hop as [Hop H3].
  apply andb_true_iff in Hop. destruct Hop as [H1 H2].
  apply N.leb_le in H1, H2, H3. cbn [step].
  apply step_persist_gen; try assumption. now right.
Qed.

Theorem step_inv st o C wm tb :
  Inv st C wm tb -> op_ok st o = true -> post C wm tb (step st o).
Proof.
  intros HI Hop. destruct o.
  - now apply step_open.
  - apply step_append; assumption.
  - now apply step_rotate.
  - now apply step_truncate.
  - now apply step_persist.
  - now apply step_crash.
  - cbn [op_ok] in Hop. apply andb_true_iff in Hop. destruct Hop as [H1 H2]. apply N.leb_le in H2.
    now apply step_crash_append.
  - now apply step_crash_persist.
  - discriminate.
  - discriminate.
Qed.

(* ---------- from one step to whole histories ---------- *)
Lemma complete_of_snoc evs ev : complete_of (evs ++ [ev]) = complete_of evs ++ complete_ev ev.
Proof. unfold complete_of. rewrite flat_map_app. cbn [flat_map]. now rewrite app_nil_r. Qed.

Lemma watermark_snoc evs ev : watermark (evs ++ [ev]) = wm_step (watermark evs) ev.
Proof. unfold watermark. now rewrite fold_left_app. Qed.

Lemma max_trunc_snoc evs ev : max_trunc (evs ++ [ev]) = trunc_step (max_trunc evs) ev.
Proof. unfold max_trunc. now rewrite fold_left_app. Qed.

Definition InvT (st : state) (seen : list event) : Prop :=
  Inv st (complete_of seen) (watermark seen) (max_trunc seen).

Lemma run_cons st o r :
  run st (o :: r) = (fst (run (fst (step st o)) r), snd (step st o) :: snd (run (fst (step st o)) r)).
Proof.
  cbn [run]. destruct (step st o) as [st1 ev]. cbn [fst snd]. destruct (run st1 r) as [st2 evs]. reflexivity.
Qed.

Lemma run_inv h : forall st seen, InvT st seen -> hist_ok st h = true ->
  InvT (fst (run st h)) (seen ++ snd (run st h)) /\ regress_free seen (snd (run st h)).
Proof.
  induction h as [|o r IH]; intros st seen HI Hok.
  - cbn [run fst snd]. rewrite app_nil_r. split; [assumption|exact I].
  - cbn [hist_ok] in Hok. apply andb_true_iff in Hok. destruct Hok as [Ho Hr].
    destruct (step_inv st o _ _ _ HI Ho) as [HI' Hreg].
    rewrite run_cons. cbn [fst snd].
    assert (HI1 : InvT (fst (step st o)) (seen ++ [snd (step st o)])).
    { unfold InvT. now rewrite complete_of_snoc, watermark_snoc, max_trunc_snoc. }
    destruct (IH _ _ HI1 Hr) as [HI2 Hreg2].
    split.
    + replace (seen ++ snd (step st o) :: snd (run (fst (step st o)) r))
        with ((seen ++ [snd (step st o)]) ++ snd (run (fst (step st o)) r)) by (now rewrite <- app_assoc).
      exact HI2.
    + cbn [regress_free]. split; [|exact Hreg2].
      destruct (assigned (snd (step st o))) as [[s fl]|]; [|exact I].
      destruct Hreg as (H1 & H2 & _). split; assumption.
Qed.

Lemma InvT_init : InvT init [].
Proof. left. exists None. repeat split; reflexivity. Qed.

(* ---------- the history theorems ---------- *)

(* After ANY disciplined history of open / append / rotate / truncate /
   persist / crash (at a boundary, inside an append at any byte, inside the
   flushed-file write at any byte), the directory reads back exactly the
   completely written entries, in order, each once, minus a prefix that
   truncate_before removed — and everything removed lies below a bound that was
   passed to truncate_before. *)
Theorem history_recovery_exact h : hist_ok init h = true ->
  let st := fst (run init h) in
  let evs := snd (run init h) in
  exists n, (n <= length (complete_of evs))%nat /\
    read_entries (st_disk st) = skipn n (complete_of evs) /\
    Forall (fun e => e_seq e < max_trunc evs) (firstn n (complete_of evs)).
Proof.
  intros Hok st evs. destruct (run_inv h init [] InvT_init Hok) as [HI _].
  cbn [app] in HI. fold st evs in HI. unfold InvT in HI.
  destruct HI as [(fl & Hst & _ & HC & _) | (pre & id & es & tail & fl & ow & Hst & Hids & Ht & Hcur & Hlog)].
  - exists 0%nat. rewrite Hst, HC. cbn. repeat split; [lia|constructor].
  - rewrite Hst. cbn [st_disk]. rewrite read_entries_render by (assumption || apply (logok_ok _ _ _ _ _ _ _ Hlog)).
    destruct Hlog as (_ & _ & _ & Hn & _). exact Hn.
Qed.

(* the recovered sequence numbers are strictly increasing: no entry twice, order kept *)
Theorem history_read_ascending h : hist_ok init h = true ->
  asc (seqs (read_entries (st_disk (fst (run init h))))).
Proof.
  intros Hok. destruct (run_inv h init [] InvT_init Hok) as [HI _].
  cbn [app] in HI. unfold InvT in HI.
  destruct HI as [(fl & Hst & _) | (pre & id & es & tail & fl & ow & Hst & Hids & Ht & Hcur & Hlog)].
  - rewrite Hst. exact I.
  - rewrite Hst. cbn [st_disk]. rewrite read_entries_render by (assumption || apply (logok_ok _ _ _ _ _ _ _ Hlog)).
    apply Hlog.
Qed.

(* no sequence number is ever handed out at or below an acknowledged one, a
   completely written one, a completely persisted flushed mark, or the flushed
   mark that is on disk at that moment *)
Theorem seq_never_regresses h : hist_ok init h = true -> regress_free [] (snd (run init h)).
Proof. intros Hok. now destruct (run_inv h init [] InvT_init Hok). Qed.

(* regress_free, spelled out for one position of the trace *)
Lemma regress_free_at evs : forall seen t1 ev t2 s fl,
  regress_free seen evs -> evs = t1 ++ ev :: t2 -> assigned ev = Some (s, fl) ->
  watermark (seen ++ t1) < s /\ fl < s.
Proof.
  induction evs as [|e r IH]; intros seen t1 ev t2 s fl Hrf Heq Has.
  - destruct t1; discriminate.
  - cbn [regress_free] in Hrf. destruct Hrf as [Hh Hr]. destruct t1 as [|a t1].
    + cbn [app] in Heq. inversion Heq; subst. rewrite Has in Hh. now rewrite app_nil_r.
    + cbn [app] in Heq. inversion Heq; subst.
      replace (seen ++ a :: t1) with ((seen ++ [a]) ++ t1) by (now rewrite <- app_assoc).
      eapply IH; [exact Hr|reflexivity|exact Has].
Qed.

(* ---------- entries appended after a reopening are recovered by the next ---------- *)
Lemma run_app h1 : forall st h2,
  run st (h1 ++ h2) =
  (fst (run (fst (run st h1)) h2), snd (run st h1) ++ snd (run (fst (run st h1)) h2)).
Proof.
  induction h1 as [|o r IH]; intros st h2.
  - cbn [app run fst snd]. now destruct (run st h2).
  - cbn [app]. rewrite !run_cons. cbn [fst snd]. rewrite IH. reflexivity.
Qed.

Lemma hist_ok_app h1 : forall st h2,
  hist_ok st (h1 ++ h2) = hist_ok st h1 && hist_ok (fst (run st h1)) h2.
Proof.
  induction h1 as [|o r IH]; intros st h2.
  - reflexivity.
  - cbn [app hist_ok]. rewrite run_cons. cbn [fst]. rewrite IH. now rewrite andb_assoc.
Qed.

Lemma trunc_events_from_ops h : forall st b, In (EvTrunc b) (snd (run st h)) -> In (OTruncate b) h.
Proof.
  induction h as [|o r IH]; intros st b Hin.
  - cbn in Hin. contradiction.
  - rewrite run_cons in Hin. cbn [snd] in Hin. destruct Hin as [Hev | Hin].
    + left. destruct st as [d ow]. destruct o; cbn [step st_wal st_disk] in Hev;
        repeat match type of Hev with
               | snd (match ?x with _ => _ end) = _ => destruct x
               | snd (let '(_, _) := ?x in _) = _ => destruct x
               end; cbn [snd] in Hev; try discriminate.
      now inversion Hev.
    + right. eapply IH. exact Hin.
Qed.

Lemma fold_trunc_le l : forall m s, m <= s -> (forall b, In (EvTrunc b) l -> b <= s) ->
  fold_left trunc_step l m <= s.
Proof.
  induction l as [|ev l IH]; intros m s Hm Hall; [assumption|].
  cbn [fold_left]. apply IH.
  - destruct ev; cbn [trunc_step]; try assumption. specialize (Hall b (or_introl eq_refl)). lia.
  - intros b Hb. apply Hall. now right.
Qed.

(* An append acknowledged with sequence number s — after any history, in
   particular after a crash that left a partial entry behind and a reopening —
   is read back after any continuation (further crashes and reopenings
   included) in which truncate_before is never called with a bound above s. *)
Theorem appended_after_reopen_recoverable h1 pl h2 s fl0 :
  hist_ok init (h1 ++ OAppend pl :: h2) = true ->
  snd (step (fst (run init h1)) (OAppend pl)) = EvAck s pl fl0 ->
  (forall b, In (OTruncate b) h2 -> b <= s) ->
  In (mkEntry s 0 pl) (read_entries (st_disk (fst (run init (h1 ++ OAppend pl :: h2))))).
Proof.
  intros Hok Hack Hb.
  destruct (history_recovery_exact _ Hok) as (n & Hn & Hread & Hlt).
  rewrite Hread.
  pose proof Hok as Hok'. rewrite hist_ok_app in Hok'. apply andb_true_iff in Hok'. destruct Hok' as [Hok1 Hok2].
  cbn [hist_ok] in Hok2. apply andb_true_iff in Hok2. destruct Hok2 as [Hop Hok2].
  destruct (run_inv h1 init [] InvT_init Hok1) as [HI1 _]. cbn [app] in HI1.
  destruct (step_inv _ _ _ _ _ HI1 Hop) as [_ Hreg]. rewrite Hack in Hreg. cbn [assigned] in Hreg.
  destruct Hreg as (_ & _ & Htb).
  set (evs := snd (run init (h1 ++ OAppend pl :: h2))) in *.
  assert (Hevs : evs = snd (run init h1) ++ EvAck s pl fl0 :: snd (run (fst (step (fst (run init h1)) (OAppend pl))) h2)).
  { subst evs. rewrite run_app. cbn [snd]. rewrite run_cons. cbn [snd]. now rewrite Hack. }
  assert (Hmt : max_trunc evs <= s).
  { rewrite Hevs. unfold max_trunc. rewrite fold_left_app. cbn [fold_left trunc_step].
    apply fold_trunc_le; [exact Htb|]. intros b Hin. apply Hb. eapply trunc_events_from_ops. exact Hin. }
  assert (Hin : In (mkEntry s 0 pl) (complete_of evs)).
  { rewrite Hevs. unfold complete_of. rewrite flat_map_app. apply in_or_app. right. cbn [flat_map complete_ev]. now left. }
  rewrite <- (firstn_skipn n (complete_of evs)) in Hin. apply in_app_or in Hin. destruct Hin as [Hin | Hin]; [|exact Hin].
  rewrite Forall_forall in Hlt. specialize (Hlt _ Hin). cbn [e_seq] in Hlt. lia.
Qed.

(* ---------- the ingester's call sites respect the discipline ---------- *)
Lemma wal_open_keeps_flushed max d : d_flushed (fst (wal_open max d)) = d_flushed d.
Proof. unfold wal_open. destruct (U64_LIMIT <=? _); reflexivity. Qed.

(* ensure_wal: open, then truncate_before(flushed + 1) *)
Theorem ensure_wal_disciplined st max : hist_ok st (ensure_wal_ops max (st_disk st)) = true.
Proof.
  unfold ensure_wal_ops. destruct (0 <? load_flushed (st_disk st)) eqn:E; [|reflexivity].
  cbn [hist_ok op_ok]. rewrite andb_true_r. cbn [andb].
  apply orb_true_iff. right. apply N.leb_le.
  assert (Hfl : load_flushed (st_disk (fst (step st (OOpen max)))) = load_flushed (st_disk st)).
  { destruct st as [d ow]. cbn [step st_disk]. pose proof (wal_open_keeps_flushed max d) as Hk.
    destruct (wal_open max d) as [d' [w| | |]]; cbn [fst st_disk] in *; unfold load_flushed; now rewrite Hk. }
  rewrite Hfl. lia.
Qed.

Lemma top_of_skipn_keep A k b :
  Forall (fun e => e_seq e < b) (firstn k A) -> b <= top_of A -> 0 < b -> top_of (skipn k A) = top_of A.
Proof.
  intros Hlt Hb Hpos. destruct (Nat.lt_ge_cases k (length A)) as [Hk|Hk]; [now apply top_of_suffix|].
  rewrite firstn_all2 in Hlt by assumption. exfalso.
  unfold top_of in Hb. destruct (last_seq A) as [t|] eqn:E; [|lia].
  destruct (last_seq_in_list A t E) as (e & Hi & <-). rewrite Forall_forall in Hlt. specialize (Hlt e Hi). cbn beta in Hlt. lia.
Qed.

(* the tail of flush_batches: truncate_before(s); persist_flushed_seq(s) for a
   sequence number s that is in the log and not below the mark on disk *)
Theorem flush_disciplined st C wm tb s :
  Inv st C wm tb -> load_flushed (st_disk st) <= s -> s <= top_seq (st_disk st) ->
  hist_ok st (flush_ops s) = true.
Proof.
  intros HI Hlo Hhi. unfold flush_ops. destruct (0 <? s) eqn:Hs; [|reflexivity]. apply N.ltb_lt in Hs.
  cbn [hist_ok]. rewrite andb_true_r.
  assert (H1 : op_ok st (OTruncate s) = true).
  { cbn [op_ok]. apply orb_true_iff. left. now apply N.leb_le. }
  rewrite H1. cbn [andb op_ok].
  destruct (st_wal st) as [w|] eqn:Ew.
  - destruct HI as [(fl & -> & _) | (pre & id & es & tail & fl & ow & -> & Hids & Ht & Hcur & Hlog)]; [discriminate|].
    cbn in Ew. subst ow. pose proof (logok_tail _ _ _ _ _ _ _ Hlog). subst tail.
    pose proof (Hcur w eq_refl). subst id.
    pose proof (logok_ok _ _ _ _ _ _ _ Hlog) as Hok.
    cbn [st_disk] in *. rewrite top_seq_render in Hhi by assumption.
    pose proof Hok as Hok'. unfold all_entries in Hok'. apply Forall_app in Hok'. destruct Hok' as [Hok1 Hok2].
    cbn [step st_disk st_wal fst]. rewrite trunc_shape by assumption.
    assert (Hasc : asc (seqs (flat_map snd pre))).
    { destruct Hlog as (_ & Ha & _). unfold all_entries in Ha. rewrite seqs_app in Ha. apply asc_app in Ha. tauto. }
    destruct (gtrunc_entries s pre Hasc) as (k & Hk & Hskip & Hlt).
    assert (Hall : all_entries (gtrunc s pre) es = skipn k (all_entries pre es)).
    { unfold all_entries. rewrite Hskip, skipn_app. replace (k - length (flat_map snd pre))%nat with 0%nat by lia. reflexivity. }
    assert (Hok3 : Forall entry_ok (all_entries (gtrunc s pre) es)).
    { rewrite Hall. rewrite <- (firstn_skipn k (all_entries pre es)) in Hok. apply Forall_app in Hok. tauto. }
    rewrite top_seq_render by (assumption || apply torn_nil). rewrite !load_flushed_flv in *.
    rewrite Hall, (top_of_skipn_keep _ k s); try assumption.
    + apply andb_true_iff. split; now apply N.leb_le.
    + unfold all_entries. rewrite firstn_app. replace (k - length (flat_map snd pre))%nat with 0%nat by lia.
      cbn [firstn]. now rewrite app_nil_r.
  - destruct st as [d ow]. cbn in Ew. subst ow. cbn [step st_wal fst st_disk] in *.
    apply andb_true_iff. split; now apply N.leb_le.
Qed.

(* ---------- encoder and decoder layouts read from the source agree ---------- *)
Definition wal_layout_agrees : Prop :=
  WAL_MAGIC_LEN = WAL_ENC_MAGIC_HI /\ WAL_ENC_MAGIC_HI = WAL_DEC_MAGIC_HI /\
  WAL_ENC_VERSION_AT = WAL_DEC_VERSION_AT /\ WAL_ENC_FLAGS_AT = WAL_DEC_FLAGS_AT /\
  WAL_ENC_SEQ_LO = WAL_DEC_SEQ_LO /\ WAL_ENC_SEQ_HI = WAL_DEC_SEQ_HI /\
  WAL_ENC_LEN_LO = WAL_DEC_LEN_LO /\ WAL_ENC_LEN_HI = WAL_DEC_LEN_HI /\
  WAL_ENC_CRC_LO = WAL_DEC_CRC_LO /\ WAL_ENC_CRC_HI = WAL_DEC_CRC_HI /\
  WAL_ENC_CRC_HI = WAL_HEADER_LEN /\
  (* the model's encoder puts the fields where encode_header does *)
  (forall seq flags pl,
     slice 0 WAL_ENC_MAGIC_HI (encode_header seq flags pl) = MAGIC /\
     nth (N.to_nat WAL_ENC_VERSION_AT) (encode_header seq flags pl) 0 = WAL_VERSION /\
     nth (N.to_nat WAL_ENC_FLAGS_AT) (encode_header seq flags pl) 0 = flags mod 256 /\
     slice WAL_ENC_SEQ_LO WAL_ENC_SEQ_HI (encode_header seq flags pl) = le_bytes 8 seq /\
     slice WAL_ENC_LEN_LO WAL_ENC_LEN_HI (encode_header seq flags pl) = le_bytes 4 (lenN pl) /\
     slice WAL_ENC_CRC_LO WAL_ENC_CRC_HI (encode_header seq flags pl) = le_bytes 4 (crc32 pl)).

Theorem wal_layout_agrees_holds : wal_layout_agrees.
Proof.
  unfold wal_layout_agrees. do 11 (split; [reflexivity|]).
  intros sq flags pl. unfold encode_header.
  change (MAGIC ++ [WAL_VERSION] ++ [flags mod 256] ++ le_bytes 8 sq ++ le_bytes 4 (lenN pl) ++ le_bytes 4 (crc32 pl))
    with ((MAGIC ++ [WAL_VERSION] ++ [flags mod 256]) ++ le_bytes 8 sq ++ le_bytes 4 (lenN pl) ++ le_bytes 4 (crc32 pl)).
  split; [reflexivity|]. split; [reflexivity|]. split; [reflexivity|].
  split; [apply slice_app; [reflexivity | now rewrite le_bytes_length]|].
  split.
  - rewrite app_assoc. apply slice_app; [rewrite app_length, le_bytes_length; reflexivity | now rewrite le_bytes_length].
  - rewrite app_assoc, app_assoc. apply slice_app_end; [rewrite !app_length, !le_bytes_length; reflexivity | now rewrite le_bytes_length].
Qed.

(* ---------- non-vacuity: concrete histories ---------- *)
Definition ex_pl : bytes := [1; 2; 3].

(* crash inside the second append's header, reopen, append, crash, reopen *)
Definition ex_torn_history : list op :=
  [OOpen 1000; OAppend ex_pl; OCrashAppend [4; 5] 10; OOpen 1000; OAppend [6]; OCrash; OOpen 1000].

Example ex_torn_ok : hist_ok init ex_torn_history = true.
Proof. vm_compute. reflexivity. Qed.

Example ex_torn_reads :
  read_entries (st_disk (fst (run init ex_torn_history))) = [mkEntry 1 0 ex_pl; mkEntry 2 0 [6]].
Proof. vm_compute. reflexivity. Qed.

(* rotation into an empty segment is cut off completely, the flushed mark is
   persisted, the flushed segment is removed at the next start, crash, reopen:
   numbering continues above the mark *)
Definition ex_regress_history : list op :=
  [OOpen 60; OAppend ex_pl; OAppend ex_pl; OCrashAppend ex_pl 0; OOpen 60; OPersist 2; OCrash;
   OOpen 60; OTruncate 3; OCrash; OOpen 60; OAppend ex_pl].

Example ex_regress_ok : hist_ok init ex_regress_history = true.
Proof. vm_compute. reflexivity. Qed.

Example ex_regress_trace :
  map assigned (snd (run init ex_regress_history)) =
  [None; Some (1, 0); Some (2, 0); Some (3, 0); None; None; None; None; None; None; None; Some (3, 2)] /\
  map fst (d_segs (st_disk (fst (run init ex_regress_history)))) = [2].
Proof. vm_compute. split; reflexivity. Qed.

(* ---------- the code before the two repairs (for the record) ----------
   open as it was: the active segment is not cut back, and the next sequence
   number comes from the log alone. *)
Definition wal_open_legacy (max : N) (d : disk) : disk * outcome wal :=
  let segments := d_segs d in
  let id := match last_id segments with Some i => i | None => WAL_FIRST_SEGMENT_ID end in
  let segs1 := seg_touch id segments in
  let file := match seg_get id segs1 with Some b => b | None => [] end in
  let next := match last_seq_in segments with Some s => s + 1 | None => 1 end in
  (mkDisk segs1 (d_flushed d), Done (mkWal max id (lenN file) next)).

Definition legacy_open (st : state) (max : N) : state :=
  match wal_open_legacy max (st_disk st) with
  | (d', Done w) => mkState d' (Some w)
  | (d', _) => mkState d' None
  end.

(* an append acknowledged after a torn tail was unreadable at the next start,
   and its sequence number was handed out again *)
Theorem legacy_refuted_append_after_torn :
  let st1 := fst (run init [OOpen 1000; OAppend ex_pl; OCrashAppend [4; 5] 10]) in
  let st2 := legacy_open st1 1000 in
  let r := step st2 (OAppend [6]) in
  snd r = EvAck 2 [6] 0 /\
  read_entries (st_disk (fst r)) = [mkEntry 1 0 ex_pl] /\
  option_map w_next (st_wal (legacy_open (fst (step (fst r) OCrash)) 1000)) = Some 2.
Proof. vm_compute. repeat split; reflexivity. Qed.

(* an empty active segment left after the flushed segments were removed made
   numbering restart at 1, below the flushed mark *)
Theorem legacy_refuted_seq_regress :
  let st1 := fst (run init [OOpen 60; OAppend ex_pl; OAppend ex_pl; OCrashAppend ex_pl 0; OOpen 60;
                            OPersist 2; OCrash; OOpen 60; OTruncate 3; OCrash]) in
  load_flushed (st_disk st1) = 2 /\
  option_map w_next (st_wal (legacy_open st1 60)) = Some 1.
Proof. vm_compute. split; reflexivity. Qed.

(* ---------- further non-vacuity instances ---------- *)
Example ex_entry_ok : entry_ok (mkEntry 7 0 ex_pl).
Proof. repeat split; try reflexivity. repeat constructor. Qed.

(* a second entry cut one byte behind its header *)
Example ex_parse_torn :
  parse (enc_entries [mkEntry 7 0 ex_pl] ++ firstn 23 (enc_entry (mkEntry 8 0 [9; 9]))) = [mkEntry 7 0 ex_pl].
Proof. vm_compute. reflexivity. Qed.

(* the premises of appended_after_reopen_recoverable hold for: crash inside an
   append, reopen, append (acknowledged with 2), crash, reopen *)
Example ex_appended_premises :
  let h1 := [OOpen 1000; OAppend ex_pl; OCrashAppend [4; 5] 10; OOpen 1000] in
  let h2 := [OCrash; OOpen 1000] in
  hist_ok init (h1 ++ OAppend [6] :: h2) = true /\
  snd (step (fst (run init h1)) (OAppend [6])) = EvAck 2 [6] 0.
Proof. vm_compute. split; reflexivity. Qed.

(* the premises of flush_disciplined hold after two acknowledged appends *)
Example ex_flush_premises :
  let st := fst (run init [OOpen 60; OAppend ex_pl; OAppend ex_pl]) in
  load_flushed (st_disk st) <= 2 /\ 2 <= top_seq (st_disk st) /\ hist_ok st (flush_ops 2) = true.
Proof. vm_compute. repeat split; discriminate. Qed.
