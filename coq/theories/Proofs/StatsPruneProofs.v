(* Proofs/StatsPruneProofs.v — C12: soundness of statistics-based pruning.
   Main results
     sound_modulo_known   : pruning is sound for every predicate tree, statistics
                            and row outside the known class [known_mixed]
     refuted_mixed        : the full statement fails inside that class (witness)
     refuted_shared_arms  : the code before the fix pruned at the end point
     gate_sound           : the conjunction gate of get_chunks_with_predicates
     convert_exact        : convert_expr_to_predicate preserves the SQL meaning
     refuted_negation_dropped : before the fix NOT BETWEEN became BETWEEN *)
From Coq Require Import List ZArith NArith Bool Reals Lra Lia.
From Flocq Require Import Core IEEE754.BinarySingleNaN IEEE754.Binary IEEE754.Bits.
From CS Require Import Base.Prelude Base.F64Order Model.StatsPrune.
Open Scope Z_scope.

Local Opaque Z2F b64_compare.

(* ------------------------------------------------------------------ *)
(* three-valued logic                                                   *)

Lemma tv_and_TT : forall a b, tv_and a b = TT -> a = TT /\ b = TT.
Proof. intros [] [] H; try discriminate; auto. Qed.
Lemma tv_or_TT : forall a b, tv_or a b = TT -> a = TT \/ b = TT.
Proof. intros [] [] H; try discriminate; auto. Qed.

(* ------------------------------------------------------------------ *)
(* byte strings: lexicographic order                                    *)

Lemma bytes_cmp_eq : forall a b, bytes_cmp a b = Eq -> a = b.
Proof.
  induction a as [|x a IH]; intros [|y b] H; cbn in H; try discriminate; auto.
  destruct (N.compare x y) eqn:E; try discriminate.
  apply N.compare_eq in E. subst y. f_equal. apply IH, H.
Qed.

Lemma bytes_cmp_swap : forall a b, bytes_cmp b a = CompOpp (bytes_cmp a b).
Proof.
  induction a as [|x a IH]; intros [|y b]; cbn; auto.
  rewrite (N.compare_antisym x y).
  destruct (N.compare x y); cbn; auto.
Qed.

Lemma bytes_cmp_lt_trans : forall a b c,
  bytes_cmp a b = Lt -> bytes_cmp b c = Lt -> bytes_cmp a c = Lt.
Proof.
  induction a as [|x a IH]; intros [|y b] [|z c] H1 H2; cbn in *; try discriminate; auto.
  destruct (N.compare x y) eqn:E1; try discriminate;
    destruct (N.compare y z) eqn:E2; try discriminate.
  - apply N.compare_eq in E1. subst y. rewrite E2. eapply IH; eauto.
  - apply N.compare_eq in E1. subst y. rewrite E2. reflexivity.
  - apply N.compare_eq in E2. subst z. rewrite E1. reflexivity.
  - rewrite N.compare_lt_iff in *. assert (Hxz : (x < z)%N) by lia.
    apply N.compare_lt_iff in Hxz. rewrite Hxz. reflexivity.
Qed.

(* s >= l (not Lt) and s <= x  ==>  not x < l *)
Lemma bytes_lower_weak : forall s l x,
  bytes_cmp s l <> Lt -> bytes_cmp s x <> Gt -> bytes_cmp x l <> Lt.
Proof.
  intros s l x H1 H2 H3.
  destruct (bytes_cmp s x) eqn:E; try congruence.
  - apply bytes_cmp_eq in E. subst x. congruence.
  - apply H1. eapply bytes_cmp_lt_trans; eauto.
Qed.
(* s > l and s <= x  ==>  x > l *)
Lemma bytes_lower_strict : forall s l x,
  bytes_cmp s l = Gt -> bytes_cmp s x <> Gt -> bytes_cmp x l = Gt.
Proof.
  intros s l x H1 H2.
  destruct (bytes_cmp s x) eqn:E; try congruence.
  - apply bytes_cmp_eq in E. subst x. exact H1.
  - assert (Hls : bytes_cmp l s = Lt) by (rewrite bytes_cmp_swap, H1; reflexivity).
    assert (Hlx := bytes_cmp_lt_trans _ _ _ Hls E).
    rewrite bytes_cmp_swap, Hlx. reflexivity.
Qed.
(* s <= l and x <= s  ==>  not x > l *)
Lemma bytes_upper_weak : forall s l x,
  bytes_cmp s l <> Gt -> bytes_cmp x s <> Gt -> bytes_cmp x l <> Gt.
Proof.
  intros s l x H1 H2 H3.
  destruct (bytes_cmp x s) eqn:E; try congruence.
  - apply bytes_cmp_eq in E. subst x. congruence.
  - destruct (bytes_cmp s l) eqn:E2; try congruence.
    + apply bytes_cmp_eq in E2. subst l. congruence.
    + rewrite (bytes_cmp_lt_trans _ _ _ E E2) in H3. discriminate.
Qed.
(* s < l and x <= s  ==>  x < l *)
Lemma bytes_upper_strict : forall s l x,
  bytes_cmp s l = Lt -> bytes_cmp x s <> Gt -> bytes_cmp x l = Lt.
Proof.
  intros s l x H1 H2.
  destruct (bytes_cmp x s) eqn:E; try congruence.
  - apply bytes_cmp_eq in E. subst x. exact H1.
  - eapply bytes_cmp_lt_trans; eauto.
Qed.

(* ------------------------------------------------------------------ *)
(* floats: from the boolean comparisons to facts about the embedding fE *)

Lemma f_ge_true : forall a b, f_ge a b = true ->
  f_nan a = false /\ f_nan b = false /\ (fE b <= fE a)%R.
Proof.
  intros a b. unfold f_ge.
  destruct (b64_compare a b) as [c|] eqn:E; [|discriminate].
  apply b64_compare_some in E. destruct E as (Na & Nb & Ec). subst c.
  destruct (Rcompare_spec (fE a) (fE b)); intros; try discriminate; repeat split; auto; lra.
Qed.
Lemma f_le_true : forall a b, f_le a b = true ->
  f_nan a = false /\ f_nan b = false /\ (fE a <= fE b)%R.
Proof.
  intros a b. unfold f_le.
  destruct (b64_compare a b) as [c|] eqn:E; [|discriminate].
  apply b64_compare_some in E. destruct E as (Na & Nb & Ec). subst c.
  destruct (Rcompare_spec (fE a) (fE b)); intros; try discriminate; repeat split; auto; lra.
Qed.
Lemma f_gt_true : forall a b, f_gt a b = true ->
  f_nan a = false /\ f_nan b = false /\ (fE b < fE a)%R.
Proof.
  intros a b. unfold f_gt.
  destruct (b64_compare a b) as [c|] eqn:E; [|discriminate].
  apply b64_compare_some in E. destruct E as (Na & Nb & Ec). subst c.
  destruct (Rcompare_spec (fE a) (fE b)); intros; try discriminate; repeat split; auto; lra.
Qed.
Lemma f_lt_true : forall a b, f_lt a b = true ->
  f_nan a = false /\ f_nan b = false /\ (fE a < fE b)%R.
Proof.
  intros a b. unfold f_lt.
  destruct (b64_compare a b) as [c|] eqn:E; [|discriminate].
  apply b64_compare_some in E. destruct E as (Na & Nb & Ec). subst c.
  destruct (Rcompare_spec (fE a) (fE b)); intros; try discriminate; repeat split; auto; lra.
Qed.
(* the two ways value_in_range can fail on floats *)
Lemma f_range_false : forall f a b, f_ge f a && f_le f b = false ->
  f_nan a = false -> f_nan b = false ->
  f_nan f = true \/ (fE f < fE a)%R \/ (fE b < fE f)%R.
Proof.
  intros f a b H Na Nb.
  destruct (f_nan f) eqn:Nf; [left; reflexivity|right].
  unfold f_ge, f_le in H.
  rewrite (b64_compare_E f a Nf Na), (b64_compare_E f b Nf Nb) in H.
  destruct (Rcompare_spec (fE f) (fE a)); destruct (Rcompare_spec (fE f) (fE b));
    cbn in H; try discriminate; auto.
Qed.

(* le_val in terms of the comparison outcome *)
Definition le_res (c : cres) : bool :=
  match c with COrd Lt | COrd Eq => true | _ => false end.
Lemma le_val_res : forall a b, le_val a b = le_res (vcmp a b).
Proof. reflexivity. Qed.
Lemma le_res_Z : forall a b, le_res (COrd (a ?= b)) = true -> a <= b.
Proof. intros a b. destruct (Z.compare_spec a b); cbn; intros; try discriminate; lia. Qed.
Lemma le_res_bytes : forall a b, le_res (COrd (bytes_cmp a b)) = true -> bytes_cmp a b <> Gt.
Proof. intros a b. destruct (bytes_cmp a b); cbn; intros; congruence. Qed.

Lemma le_fcmp_true : forall a b,
  le_res (fcmp a b) = true ->
  f_nan a = false /\ f_nan b = false /\ (fE a <= fE b)%R.
Proof.
  intros a b. unfold fcmp.
  destruct (b64_compare a b) as [c|] eqn:E; [|discriminate].
  apply b64_compare_some in E. destruct E as (Na & Nb & Ec). subst c.
  destruct (Rcompare_spec (fE a) (fE b)); cbn; intros; try discriminate; repeat split; auto; lra.
Qed.

Section WithXc.
Variable xc : cop -> value -> value -> tv.
Variable xg : list value -> tv.

(* a comparison carried out in f64 is not TT when the operator fails on the embedding *)
Lemma cmp_tv_f64 : forall o x l a b,
  o <> ONe ->
  vcmp x l = fcmp a b ->
  (f_nan a = false -> f_nan b = false -> op_holds o (Rcompare (fE a) (fE b)) = false) ->
  cmp_tv xc o x l <> TT.
Proof.
  intros o x l a b Ho Hv Hop. unfold cmp_tv. rewrite Hv. unfold fcmp.
  destruct (b64_compare a b) as [c|] eqn:E.
  - apply b64_compare_some in E. destruct E as (Na & Nb & Ec). subst c.
    rewrite (Hop Na Nb). discriminate.
  - destruct o; try discriminate. congruence.
Qed.

Lemma cmp_tv_ord : forall o x l c,
  vcmp x l = COrd c -> op_holds o c = false -> cmp_tv xc o x l <> TT.
Proof. intros o x l c Hv Hop. unfold cmp_tv. rewrite Hv, Hop. discriminate. Qed.

(* ------------------------------------------------------------------ *)
(* the comparison arms, one lemma per bound and strictness              *)

(* an integer literal against an integer statistic while the comparison is
   carried out in f64 (float row value, or a float member of the group) *)
Definition mixf (v : pval) (fl : bool) (x : value) (j : json) : bool :=
  match v with PInt _ => (fl || is_vfloat x) && is_jint j | _ => false end.

Ltac zb :=
  repeat match goal with
  | H : (_ >=? _) = true |- _ => apply Z.geb_le in H
  | H : (_ <=? _) = true |- _ => apply Z.leb_le in H
  | H : (_ >? _) = true |- _ => apply Z.gtb_lt in H
  | H : (_ <? _) = true |- _ => apply Z.ltb_lt in H
  end.

Ltac fb :=
  repeat match goal with
  | H : f_ge _ _ = true |- _ => apply f_ge_true in H; destruct H as (? & ? & ?)
  | H : f_le _ _ = true |- _ => apply f_le_true in H; destruct H as (? & ? & ?)
  | H : f_gt _ _ = true |- _ => apply f_gt_true in H; destruct H as (? & ? & ?)
  | H : f_lt _ _ = true |- _ => apply f_lt_true in H; destruct H as (? & ? & ?)
  | H : le_res (fcmp _ _) = true |- _ =>
      apply le_fcmp_true in H; destruct H as (? & ? & ?)
  | H : le_res (COrd (Z.compare _ _)) = true |- _ => apply le_res_Z in H
  | H : le_res (COrd (bytes_cmp _ _)) = true |- _ => apply le_res_bytes in H
  end.

Ltac mono a b :=
  try (let H := fresh "Hm" in assert (H : a <= b) by lia; pose proof (Z2F_mono a b H)).

(* closes a goal [op_holds o (Rcompare u v) = false] from real facts *)
Ltac rfin :=
  match goal with
  | |- op_holds _ (Rcompare ?u ?v) = false =>
      destruct (Rcompare_spec u v); cbn; try reflexivity; exfalso; lra
  end.
(* closes [op_holds o (Z.compare u v) = false] *)
Ltac zfin :=
  match goal with
  | |- op_holds _ (Z.compare ?u ?v) = false =>
      destruct (Z.compare_spec u v); cbn; try reflexivity; exfalso; lia
  end.

Ltac jd j := destruct j as [ | ?jb | ?m | ?a | ?t | ].
Ltac xd x := destruct x as [ | ?xb | ?z | ?f | ?u ].
Ltac f64 := eapply cmp_tv_f64; [discriminate | cbn [vcmp lit]; reflexivity | intros _ _].
Ltac ord := eapply cmp_tv_ord; [cbn [vcmp lit]; reflexivity | ].

(* row value x, bound j, literal v:  j >= v  and  j <= x   ==>   not (x < v) *)
Lemma atom_lt : forall j v x,
  value_gte j v = true -> lower_ok x j = true -> cmp_tv xc OLt x (lit v) <> TT.
Proof.
  intros j v x Hc Hw.
  destruct v as [s | i | g | b | ]; cbn [value_gte] in Hc; try discriminate.
  - (* string *)
    jd j; cbn [as_str] in Hc; try discriminate.
    cbn [lower_ok] in Hw. rewrite le_val_res in Hw.
    xd x; cbn [vcmp] in Hw; try (cbv [le_res] in Hw; discriminate); fb.
    ord. unfold s_ge in Hc.
    assert (H1 : bytes_cmp t s <> Lt) by (destruct (bytes_cmp t s); congruence).
    pose proof (bytes_lower_weak _ _ _ H1 Hw) as H3.
    destruct (bytes_cmp u s); cbn; congruence.
  - (* integer literal: the statistic is an integer *)
    jd j; cbn [as_i64] in Hc; try discriminate.
    destruct (in_i64 m); try discriminate. zb.
    cbn [lower_ok] in Hw. rewrite le_val_res in Hw.
    xd x; cbn [vcmp] in Hw; try (cbv [le_res] in Hw; discriminate); fb.
    + ord. zfin.
    + f64. mono i m. rfin.
  - (* float literal *)
    jd j; cbn [as_f64] in Hc; try discriminate; fb;
      cbn [lower_ok] in Hw; rewrite le_val_res in Hw;
      xd x; cbn [vcmp] in Hw; try (cbv [le_res] in Hw; discriminate); fb; f64;
      try (mono m z); rfin.
Qed.

(* j <= v  and  x <= j   ==>   not (x > v) *)
Lemma atom_gt : forall j v x,
  value_lte j v = true -> upper_ok x j = true -> cmp_tv xc OGt x (lit v) <> TT.
Proof.
  intros j v x Hc Hw.
  destruct v as [s | i | g | b | ]; cbn [value_lte] in Hc; try discriminate.
  - jd j; cbn [as_str] in Hc; try discriminate.
    cbn [upper_ok] in Hw. rewrite le_val_res in Hw.
    xd x; cbn [vcmp] in Hw; try (cbv [le_res] in Hw; discriminate); fb.
    ord. unfold s_le in Hc.
    assert (H1 : bytes_cmp t s <> Gt) by (destruct (bytes_cmp t s); congruence).
    pose proof (bytes_upper_weak _ _ _ H1 Hw) as H3.
    destruct (bytes_cmp u s); cbn; congruence.
  - jd j; cbn [as_i64] in Hc; try discriminate.
    destruct (in_i64 m); try discriminate. zb.
    cbn [upper_ok] in Hw. rewrite le_val_res in Hw.
    xd x; cbn [vcmp] in Hw; try (cbv [le_res] in Hw; discriminate); fb.
    + ord. zfin.
    + f64. mono m i. rfin.
  - jd j; cbn [as_f64] in Hc; try discriminate; fb;
      cbn [upper_ok] in Hw; rewrite le_val_res in Hw;
      xd x; cbn [vcmp] in Hw; try (cbv [le_res] in Hw; discriminate); fb; f64;
      try (mono z m); rfin.
Qed.

Ltac f64p := eapply cmp_tv_f64; [discriminate | cbn [vcmp lit prom]; reflexivity | intros _ _].
Ltac ordp := eapply cmp_tv_ord; [cbn [vcmp lit prom]; reflexivity | ].
Ltac nofl Hk fl :=
  cbn [mixf is_jint is_vfloat] in Hk; rewrite ?andb_true_r, ?orb_false_r, ?orb_true_r in Hk;
  try discriminate Hk; try (subst fl); cbn [prom].

(* j > v  and  j <= x   ==>   not (x <= v), outside the mixed class *)
Lemma atom_le : forall fl j v x,
  value_gt j v = true -> lower_ok x j = true -> mixf v fl x j = false ->
  cmp_tv xc OLe (prom fl x) (prom fl (lit v)) <> TT.
Proof.
  intros fl j v x Hc Hw Hk.
  destruct v as [s | i | g | b | ]; cbn [value_gt] in Hc; try discriminate.
  - jd j; cbn [as_str] in Hc; try discriminate.
    cbn [lower_ok] in Hw. rewrite le_val_res in Hw.
    xd x; cbn [vcmp] in Hw; try (cbv [le_res] in Hw; discriminate); fb.
    destruct fl; ordp; unfold s_gt in Hc;
      (assert (H1 : bytes_cmp t s = Gt) by (destruct (bytes_cmp t s); congruence));
      rewrite (bytes_lower_strict _ _ _ H1 Hw); reflexivity.
  - jd j; cbn [as_i64] in Hc; try discriminate.
    destruct (in_i64 m); try discriminate. zb.
    cbn [lower_ok] in Hw. rewrite le_val_res in Hw.
    xd x; cbn [vcmp] in Hw; try (cbv [le_res] in Hw; discriminate); fb; nofl Hk fl.
    ordp. zfin.
  - jd j; cbn [as_f64] in Hc; try discriminate; fb;
      cbn [lower_ok] in Hw; rewrite le_val_res in Hw;
      xd x; cbn [vcmp] in Hw; try (cbv [le_res] in Hw; discriminate); fb; destruct fl; f64p;
      try (mono m z); rfin.
Qed.

(* j < v  and  x <= j   ==>   not (x >= v), outside the mixed class *)
Lemma atom_ge : forall fl j v x,
  value_lt j v = true -> upper_ok x j = true -> mixf v fl x j = false ->
  cmp_tv xc OGe (prom fl x) (prom fl (lit v)) <> TT.
Proof.
  intros fl j v x Hc Hw Hk.
  destruct v as [s | i | g | b | ]; cbn [value_lt] in Hc; try discriminate.
  - jd j; cbn [as_str] in Hc; try discriminate.
    cbn [upper_ok] in Hw. rewrite le_val_res in Hw.
    xd x; cbn [vcmp] in Hw; try (cbv [le_res] in Hw; discriminate); fb.
    destruct fl; ordp; unfold s_lt in Hc;
      (assert (H1 : bytes_cmp t s = Lt) by (destruct (bytes_cmp t s); congruence));
      rewrite (bytes_upper_strict _ _ _ H1 Hw); reflexivity.
  - jd j; cbn [as_i64] in Hc; try discriminate.
    destruct (in_i64 m); try discriminate. zb.
    cbn [upper_ok] in Hw. rewrite le_val_res in Hw.
    xd x; cbn [vcmp] in Hw; try (cbv [le_res] in Hw; discriminate); fb; nofl Hk fl.
    ordp. zfin.
  - jd j; cbn [as_f64] in Hc; try discriminate; fb;
      cbn [upper_ok] in Hw; rewrite le_val_res in Hw;
      xd x; cbn [vcmp] in Hw; try (cbv [le_res] in Hw; discriminate); fb; destruct fl; f64p;
      try (mono z m); rfin.
Qed.

(* v outside [mn, mx]  and  mn <= x <= mx   ==>   not (x = v) *)
Lemma atom_eq : forall fl mn mx v x,
  value_in_range v mn mx = false ->
  lower_ok x mn = true -> upper_ok x mx = true ->
  mixf v fl x mn = false -> mixf v fl x mx = false ->
  cmp_tv xc OEq (prom fl x) (prom fl (lit v)) <> TT.
Proof.
  intros fl mn mx v x Hc Hl Hu Hk1 Hk2.
  destruct v as [s | i | g | b | ]; cbn [value_in_range] in Hc; try discriminate.
  - destruct mn as [ | | | | t1 | ]; cbn [as_str] in Hc; try discriminate.
    destruct mx as [ | | | | t2 | ]; cbn [as_str] in Hc; try discriminate.
    cbn [lower_ok] in Hl. cbn [upper_ok] in Hu. rewrite le_val_res in Hl, Hu.
    xd x; cbn [vcmp] in Hl, Hu; try (cbv [le_res] in Hl; discriminate); try (cbv [le_res] in Hu; discriminate); fb.
    apply andb_false_iff in Hc.
    destruct fl; ordp; (destruct Hc as [Hc | Hc];
    [ unfold s_ge in Hc;
      (assert (H1 : bytes_cmp t1 s = Gt)
        by (rewrite bytes_cmp_swap; destruct (bytes_cmp s t1); try discriminate; reflexivity));
      rewrite (bytes_lower_strict _ _ _ H1 Hl); reflexivity
    | unfold s_le in Hc;
      (assert (H1 : bytes_cmp t2 s = Lt)
        by (rewrite bytes_cmp_swap; destruct (bytes_cmp s t2); try discriminate; reflexivity));
      rewrite (bytes_upper_strict _ _ _ H1 Hu); reflexivity ]).
  - destruct mn as [ | | m1 | | | ]; cbn [as_i64] in Hc; try discriminate.
    destruct (in_i64 m1); try discriminate.
    destruct mx as [ | | m2 | | | ]; cbn [as_i64] in Hc; try discriminate.
    destruct (in_i64 m2); try discriminate.
    cbn [lower_ok] in Hl. cbn [upper_ok] in Hu. rewrite le_val_res in Hl, Hu.
    xd x; cbn [vcmp] in Hl, Hu; try (cbv [le_res] in Hl; discriminate); try (cbv [le_res] in Hu; discriminate); fb;
      nofl Hk1 fl.
    ordp.
    apply andb_false_iff in Hc; destruct Hc as [Hc | Hc];
      rewrite ?Z.geb_leb in Hc; apply Z.leb_gt in Hc; zfin.
  - destruct mn as [ | | m1 | a1 | | ]; cbn [as_f64] in Hc; try discriminate;
      destruct mx as [ | | m2 | a2 | | ]; cbn [as_f64] in Hc; try discriminate;
      cbn [lower_ok] in Hl; cbn [upper_ok] in Hu; rewrite le_val_res in Hl, Hu;
      xd x; cbn [vcmp] in Hl, Hu; try (cbv [le_res] in Hl; discriminate); try (cbv [le_res] in Hu; discriminate); fb;
      destruct fl;
      (eapply cmp_tv_f64; [discriminate | cbn [vcmp lit prom]; reflexivity | intros Nx Ng]).
    all: match type of Hc with
         | f_ge _ ?a && f_le _ ?b = false =>
             let Na := fresh "Na" in let Nb := fresh "Nb" in
             assert (Na : f_nan a = false) by (first [assumption | apply Z2F_not_nan]);
             assert (Nb : f_nan b = false) by (first [assumption | apply Z2F_not_nan]);
             destruct (f_range_false _ _ _ Hc Na Nb) as [Hn | [Hn | Hn]]
         end.
    all: try congruence.
    all: try (mono m1 z); try (mono z m2).
    all: rfin.
Qed.

(* ------------------------------------------------------------------ *)
(* predicate trees                                                      *)

Lemma prom_false : forall v, prom false v = v.
Proof. reflexivity. Qed.

Lemma mixed_atom_false : forall v s x,
  mixed_atom v s x = false ->
  mixf v false x (st_min s) = false /\ mixf v false x (st_max s) = false.
Proof.
  intros v s x H. unfold mixed_atom in H. unfold mixf.
  destruct v; auto. destruct x; cbn; auto. apply orb_false_iff in H. exact H.
Qed.

(* outside the known class a BETWEEN / IN group is of one class, and an integer
   literal in it is compared exactly or against statistics that are no integers *)
Lemma group_known_false : forall x lits s,
  group_known x lits s = false ->
  uniform (x :: map lit lits) = true /\
  forall v, In v lits ->
    mixf v (existsb is_vfloat (x :: map lit lits)) x (st_min s) = false /\
    mixf v (existsb is_vfloat (x :: map lit lits)) x (st_max s) = false.
Proof.
  intros x lits s H. unfold group_known in H.
  apply orb_false_iff in H. destruct H as (Hu & Hm).
  apply negb_false_iff in Hu. split; [exact Hu|].
  intros v Hv. unfold mixf. destruct v; auto.
  assert (Hp : existsb is_pint lits = true) by (apply existsb_exists; exists (PInt i); auto).
  rewrite Hp, andb_true_r in Hm.
  assert (Hx : (existsb is_vfloat (x :: map lit lits) || is_vfloat x) = existsb is_vfloat (x :: map lit lits)).
  { cbn [existsb]. destruct (is_vfloat x); cbn; auto. apply orb_false_r. }
  rewrite Hx.
  destruct (existsb is_vfloat (x :: map lit lits)); cbn in *; auto.
  apply orb_false_iff in Hm. destruct Hm as (-> & ->). auto.
Qed.

Lemma cmp_tv_null : forall o fl l, cmp_tv xc o (prom fl VNull) l <> TT.
Proof. intros o fl l. unfold cmp_tv. destruct fl; cbn; discriminate. Qed.

Lemma within_bounds : forall x s, within x s = true -> x <> VNull ->
  lower_ok x (st_min s) = true /\ upper_ok x (st_max s) = true.
Proof.
  intros x s H Hn. unfold within in H.
  destruct x; try congruence; apply andb_true_iff in H; exact H.
Qed.

Lemma fold_or_not_TT : forall (f : value -> tv) ls,
  (forall l, In l ls -> f l <> TT) ->
  fold_right (fun l acc => tv_or (f l) acc) FF ls <> TT.
Proof.
  intros f ls. induction ls as [|l ls IH]; intros H; cbn.
  - discriminate.
  - intros Hc. apply tv_or_TT in Hc. destruct Hc as [Hc | Hc].
    + apply (H l); [left; reflexivity | exact Hc].
    + apply IH; [|exact Hc]. intros w Hw. apply H. right. exact Hw.
Qed.

Theorem sound_modulo_known : forall p st r,
  in_stats r st -> known_mixed p st r = false -> eval_stats p st = false ->
  sat xc xg p r <> TT.
Proof.
  intros p st r Hin.
  induction p as [c v | c v | c v | c v | c v | c v | c vs | c vs | c lo hi
                 | l IHl q IHq | l IHl q IHq | q IHq]; cbn [eval_stats known_mixed sat];
    intros Hk He; try discriminate.
  - (* Eq *)
    destruct (cget c st) as [s|] eqn:Ec; [|discriminate].
    destruct (rget c r) eqn:Ex; [apply (cmp_tv_null OEq false) | | | | ];
      rewrite <- Ex in *;
      (assert (Hn : rget c r <> VNull) by congruence);
      destruct (within_bounds _ _ (Hin c s Ec) Hn) as (Hl & Hu);
      destruct (mixed_atom_false _ _ _ Hk) as (K1 & K2);
      exact (atom_eq false _ _ _ _ He Hl Hu K1 K2).
  - (* Lt *)
    destruct (cget c st) as [s|] eqn:Ec; [|discriminate].
    apply negb_false_iff in He.
    destruct (rget c r) eqn:Ex; [apply (cmp_tv_null OLt false) | | | | ];
      rewrite <- Ex in *;
      (assert (Hn : rget c r <> VNull) by congruence);
      destruct (within_bounds _ _ (Hin c s Ec) Hn) as (Hl & Hu);
      eapply atom_lt; eauto.
  - (* LtEq *)
    destruct (cget c st) as [s|] eqn:Ec; [|discriminate].
    apply negb_false_iff in He.
    destruct (rget c r) eqn:Ex; [apply (cmp_tv_null OLe false) | | | | ];
      rewrite <- Ex in *;
      (assert (Hn : rget c r <> VNull) by congruence);
      destruct (within_bounds _ _ (Hin c s Ec) Hn) as (Hl & Hu);
      destruct (mixed_atom_false _ _ _ Hk) as (K1 & K2);
      exact (atom_le false _ _ _ He Hl K1).
  - (* Gt *)
    destruct (cget c st) as [s|] eqn:Ec; [|discriminate].
    apply negb_false_iff in He.
    destruct (rget c r) eqn:Ex; [apply (cmp_tv_null OGt false) | | | | ];
      rewrite <- Ex in *;
      (assert (Hn : rget c r <> VNull) by congruence);
      destruct (within_bounds _ _ (Hin c s Ec) Hn) as (Hl & Hu);
      eapply atom_gt; eauto.
  - (* GtEq *)
    destruct (cget c st) as [s|] eqn:Ec; [|discriminate].
    apply negb_false_iff in He.
    destruct (rget c r) eqn:Ex; [apply (cmp_tv_null OGe false) | | | | ];
      rewrite <- Ex in *;
      (assert (Hn : rget c r <> VNull) by congruence);
      destruct (within_bounds _ _ (Hin c s Ec) Hn) as (Hl & Hu);
      destruct (mixed_atom_false _ _ _ Hk) as (K1 & K2);
      exact (atom_ge false _ _ _ He Hu K2).
  - (* In *)
    destruct (cget c st) as [s|] eqn:Ec; [|discriminate].
    destruct (group_known_false _ _ _ Hk) as (Hu & Hm).
    unfold in_tv, group_tv. rewrite Hu.
    set (fl := existsb is_vfloat (rget c r :: map lit vs)) in *.
    apply (fold_or_not_TT (fun l => cmp_tv xc OEq (prom fl (rget c r)) (prom fl l))).
    intros l Hl. apply in_map_iff in Hl. destruct Hl as (v & <- & Hv).
    assert (Hr : value_in_range v (st_min s) (st_max s) = false).
    { destruct (value_in_range v (st_min s) (st_max s)) eqn:E; auto.
      assert (existsb (fun v => value_in_range v (st_min s) (st_max s)) vs = true)
        by (apply existsb_exists; exists v; auto). congruence. }
    destruct (Hm v Hv) as (K1 & K2).
    destruct (rget c r) eqn:Ex; [apply cmp_tv_null | | | | ];
      rewrite <- Ex in *;
      (assert (Hn : rget c r <> VNull) by congruence);
      destruct (within_bounds _ _ (Hin c s Ec) Hn) as (Hlo & Hhi);
      exact (atom_eq fl _ _ _ _ Hr Hlo Hhi K1 K2).
  - (* Between *)
    destruct (cget c st) as [s|] eqn:Ec; [|discriminate].
    apply negb_false_iff in He.
    destruct (group_known_false _ _ _ Hk) as (Hu & Hm).
    unfold between_tv, group_tv. cbn [map] in Hu, Hm. rewrite Hu.
    set (fl := existsb is_vfloat [rget c r; lit lo; lit hi]) in *.
    destruct (Hm lo (or_introl eq_refl)) as (K1 & K2).
    destruct (Hm hi (or_intror (or_introl eq_refl))) as (K3 & K4).
    intros Hc. apply tv_and_TT in Hc. destruct Hc as (Hge & Hle).
    destruct (rget c r) eqn:Ex; [exact (cmp_tv_null _ _ _ Hge) | | | | ];
      rewrite <- Ex in *;
      (assert (Hn : rget c r <> VNull) by congruence);
      destruct (within_bounds _ _ (Hin c s Ec) Hn) as (Hlo & Hhi);
      apply orb_true_iff in He; destruct He as [He | He];
      first [ exact (atom_ge fl _ _ _ He Hhi K2 Hge) | exact (atom_le fl _ _ _ He Hlo K3 Hle) ].
  - (* And *)
    apply orb_false_iff in Hk. destruct Hk as (K1 & K2).
    intros Hc. apply tv_and_TT in Hc. destruct Hc as (H1 & H2).
    apply andb_false_iff in He. destruct He as [He | He].
    + exact (IHl K1 He H1).
    + exact (IHq K2 He H2).
  - (* Or *)
    apply orb_false_iff in Hk. destruct Hk as (K1 & K2).
    apply orb_false_iff in He. destruct He as (E1 & E2).
    intros Hc. apply tv_or_TT in Hc. destruct Hc as [Hc | Hc].
    + exact (IHl K1 E1 Hc).
    + exact (IHq K2 E2 Hc).
Qed.

End WithXc.

(* ------------------------------------------------------------------ *)
(* the boolean form of in_stats (used by witnesses and by the runner)   *)

Lemma in_statsb_sound : forall r st, in_statsb r st = true -> in_stats r st.
Proof.
  intros r st. unfold in_statsb, in_stats, cget.
  induction st as [|[c' s'] st IH]; cbn [forallb aget fst snd]; intros H c s Hg.
  - discriminate.
  - apply andb_true_iff in H. destruct H as (H1 & H2).
    destruct (N.eqb c c') eqn:E.
    + apply N.eqb_eq in E. subst c'. inversion Hg. subst s'. exact H1.
    + apply IH; assumption.
Qed.

(* ------------------------------------------------------------------ *)
(* corollary: well-typed inputs, on which the known class cannot occur  *)

Lemma val_has_same_class : forall t a b,
  val_has t a = true -> val_has t b = true -> same_class a b = true.
Proof. intros t a b Ha Hb. destruct t, a, b; try discriminate; reflexivity. Qed.

Lemma typed_uniform : forall t g,
  (forall v, In v g -> val_has t v = true) -> uniform g = true.
Proof.
  intros t g H. unfold uniform.
  apply forallb_forall. intros a Ha. apply forallb_forall. intros b Hb.
  exact (val_has_same_class t a b (H a Ha) (H b Hb)).
Qed.

Lemma typed_group_not_known : forall t x lits s,
  val_has t x = true -> forallb (lit_has t) lits = true -> group_known x lits s = false.
Proof.
  intros t x lits s Hx Hl. unfold group_known.
  assert (Hg : forall v, In v (x :: map lit lits) -> val_has t v = true).
  { intros v [<- | Hv]; [exact Hx|]. apply in_map_iff in Hv. destruct Hv as (w & <- & Hw).
    exact (proj1 (forallb_forall _ _) Hl w Hw). }
  rewrite (typed_uniform t _ Hg). cbn [negb orb].
  destruct (existsb is_vfloat (x :: map lit lits)) eqn:Ef; [|reflexivity].
  destruct (existsb is_pint lits) eqn:Ep; [|reflexivity].
  exfalso.
  apply existsb_exists in Ef. destruct Ef as (vf & Hvf & Hf).
  apply existsb_exists in Ep. destruct Ep as (vp & Hvp & Hp).
  assert (H1 := Hg vf Hvf).
  assert (H2 := proj1 (forallb_forall _ _) Hl vp Hvp). unfold lit_has in H2.
  destruct vf; try discriminate. destruct vp; try discriminate.
  destruct t; discriminate.
Qed.

Lemma typed_not_known : forall ty p st r,
  row_typed ty r -> pred_typed ty p = true -> known_mixed p st r = false.
Proof.
  intros ty p st r Hr.
  assert (Ha : forall c v s, lit_has (ty c) v = true -> mixed_atom v s (rget c r) = false).
  { intros c v s Hv. specialize (Hr c). unfold mixed_atom, lit_has in *.
    destruct v; auto. destruct (rget c r); auto. destruct (ty c); discriminate. }
  induction p as [c v | c v | c v | c v | c v | c v | c vs | c vs | c lo hi
                 | l IHl q IHq | l IHl q IHq | q IHq]; cbn [known_mixed pred_typed]; intros Ht; auto.
  - destruct (cget c st); auto.
  - destruct (cget c st); auto.
  - destruct (cget c st); auto.
  - destruct (cget c st); auto. exact (typed_group_not_known (ty c) _ _ _ (Hr c) Ht).
  - destruct (cget c st); auto. apply (typed_group_not_known (ty c)); [exact (Hr c)|].
    cbn [forallb]. rewrite andb_true_r. exact Ht.
  - apply andb_true_iff in Ht. destruct Ht as (T1 & T2). rewrite (IHl T1), (IHq T2). reflexivity.
  - apply andb_true_iff in Ht. destruct Ht as (T1 & T2). rewrite (IHl T1), (IHq T2). reflexivity.
Qed.

(* the full statement for well-typed rows and predicates: every column has one
   type, its row values and the literals compared with it are NULL or of that
   type (integers, floats, strings, booleans); statistics are arbitrary *)
Theorem sound_well_typed : forall xc xg ty p st (rows : list row),
  pred_typed ty p = true ->
  (forall r, In r rows -> in_stats r st /\ row_typed ty r) ->
  eval_stats p st = false ->
  forall r, In r rows -> sat xc xg p r <> TT.
Proof.
  intros xc xg ty p st rows Hp H He r Hr. destruct (H r Hr) as (Hin & Ht).
  exact (sound_modulo_known xc xg p st r Hin (typed_not_known ty p st r Ht Hp) He).
Qed.

(* the general statement, row list form *)
Theorem sound_modulo_known_rows : forall xc xg p st (rows : list row),
  (forall r, In r rows -> in_stats r st) ->
  eval_stats p st = false ->
  forall r, In r rows -> known_mixed p st r = false -> sat xc xg p r <> TT.
Proof.
  intros xc xg p st rows H He r Hr Hk. exact (sound_modulo_known xc xg p st r (H r Hr) Hk He).
Qed.

(* ------------------------------------------------------------------ *)
(* witnesses                                                            *)

Definition xc_unknown : cop -> value -> value -> tv := fun _ _ _ => UU.
Definition xg_unknown : list value -> tv := fun _ => UU.

(* the known class: integer statistics above 2^53, integer literal, float row *)
Definition w_col : colname := 7%N.
Definition w_mixed_pred : pred := PLtEq w_col (PInt (2 ^ 53 + 3)).
Definition w_mixed_stats : stats := [(w_col, mkStats (JInt (2 ^ 53 + 4)) (JInt (2 ^ 53 + 4)) false)].
Definition w_mixed_row : row := [(w_col, VFloat (Z2F (2 ^ 53 + 4)))].

Theorem refuted_mixed :
  exists p st r,
    in_stats r st /\ eval_stats p st = false /\ sat xc_unknown xg_unknown p r = TT /\
    known_mixed p st r = true.
Proof.
  exists w_mixed_pred, w_mixed_stats, w_mixed_row.
  split; [apply in_statsb_sound; vm_compute; reflexivity|].
  repeat split; vm_compute; reflexivity.
Qed.

(* the same class through a float literal in the same BETWEEN: an integer
   column, `v BETWEEN 0.5 AND 2^53` (the engine coerces the three operands to
   f64), statistics [2^53+1, 2^53+1], row 2^53+1 *)
Definition w_half : binary64 := b64_of_bits 4602678819172646912.
Definition w_between_pred : pred := PBetween w_col (PFloat w_half) (PInt (2 ^ 53)).
Definition w_between_stats : stats := [(w_col, mkStats (JInt (2 ^ 53 + 1)) (JInt (2 ^ 53 + 1)) false)].
Definition w_between_row : row := [(w_col, VInt (2 ^ 53 + 1))].

Theorem refuted_mixed_between :
  in_stats w_between_row w_between_stats /\
  eval_stats w_between_pred w_between_stats = false /\
  sat xc_unknown xg_unknown w_between_pred w_between_row = TT /\
  known_mixed w_between_pred w_between_stats w_between_row = true.
Proof.
  split; [apply in_statsb_sound; vm_compute; reflexivity|].
  repeat split; vm_compute; reflexivity.
Qed.

(* before the fix: `v <= 5` on statistics [5, 9] pruned the chunk holding 5 *)
Definition w_le_pred : pred := PLtEq w_col (PInt 5).
Definition w_ge_pred : pred := PGtEq w_col (PInt 9).
Definition w_59_stats : stats := [(w_col, mkStats (JInt 5) (JInt 9) false)].

Theorem refuted_shared_arms :
  in_stats [(w_col, VInt 5)] w_59_stats /\
  eval_stats_shared_arms w_le_pred w_59_stats = false /\
  sat xc_unknown xg_unknown w_le_pred [(w_col, VInt 5)] = TT /\
  in_stats [(w_col, VInt 9)] w_59_stats /\
  eval_stats_shared_arms w_ge_pred w_59_stats = false /\
  sat xc_unknown xg_unknown w_ge_pred [(w_col, VInt 9)] = TT /\
  eval_stats w_le_pred w_59_stats = true /\
  eval_stats w_ge_pred w_59_stats = true.
Proof.
  repeat split; try (apply in_statsb_sound); vm_compute; reflexivity.
Qed.

(* non-vacuity: the hypotheses of the soundness theorems are satisfiable
   together with a pruning verdict *)
Definition w_typing : typing := fun c => if N.eqb c 8 then TStr else TInt.

Example sound_nonvacuous :
  let st := [(w_col, mkStats (JInt 5) (JInt 9) false); (8%N, mkStats (JStr [97%N]) (JStr [99%N]) false)] in
  let r := [(w_col, VInt 7); (8%N, VStr [98%N])] in
  let p := POr (PLtEq w_col (PInt 4))
               (PAnd (PIn 8%N [PStr [100%N]; PStr [101%N]]) (PNot (PBetween w_col (PInt 0) (PInt 3)))) in
  in_stats r st /\ row_typed w_typing r /\ pred_typed w_typing p = true /\
  known_mixed p st r = false /\
  eval_stats p st = false /\ sat xc_unknown xg_unknown p r = FF.
Proof.
  cbv zeta. split; [apply in_statsb_sound; vm_compute; reflexivity|].
  split.
  { intros c. unfold rget, w_typing. cbn [aget].
    destruct (N.eqb c w_col) eqn:E1.
    - apply N.eqb_eq in E1. subst c. reflexivity.
    - destruct (N.eqb c 8) eqn:E2; reflexivity. }
  repeat split; vm_compute; reflexivity.
Qed.

(* floats: statistics [-0.0, 1.5] prune `v > 1.5`, `v < -0.0`, `v = NaN`;
   the row 1.5 is within them and fails all three *)
Example sound_nonvacuous_float :
  let m0 := b64_of_bits 9223372036854775808 in        (* -0.0 *)
  let h := b64_of_bits 4609434218613702656 in         (* 1.5 *)
  let nan := b64_of_bits 9221120237041090560 in
  let st := [(w_col, mkStats (JFloat m0) (JFloat h) false)] in
  let r := [(w_col, VFloat h)] in
  in_stats r st /\ row_typed (fun _ => TFloat) r /\
  eval_stats (PGt w_col (PFloat h)) st = false /\
  eval_stats (PLt w_col (PFloat m0)) st = false /\
  eval_stats (PEq w_col (PFloat nan)) st = false /\
  eval_stats (PGtEq w_col (PFloat h)) st = true.
Proof.
  cbv zeta. split; [apply in_statsb_sound; vm_compute; reflexivity|]. split.
  { intros c. unfold rget. cbn [aget]. destruct (N.eqb c w_col); reflexivity. }
  repeat split; vm_compute; reflexivity.
Qed.

(* ------------------------------------------------------------------ *)
(* the gate of get_chunks_with_predicates                               *)

Theorem gate_sound : forall xc xg preds st (rows : list row),
  (forall r, In r rows -> in_stats r st) ->
  gate preds st = false ->
  forall r, In r rows ->
    (forall p, In p preds -> known_mixed p st r = false) ->
    exists p, In p preds /\ sat xc xg p r <> TT.
Proof.
  intros xc xg preds st rows Hin Hg r Hr Hk.
  unfold gate in Hg.
  assert (Hex : exists p, In p preds /\ eval_stats p st = false).
  { induction preds as [|p ps IH]; cbn in Hg; [discriminate|].
    apply andb_false_iff in Hg. destruct Hg as [Hg | Hg].
    - exists p. split; [left; reflexivity | exact Hg].
    - destruct IH as (q & Hq & He); auto.
      + intros q Hq. apply Hk. right. exact Hq.
      + exists q. split; [right; exact Hq | exact He]. }
  destruct Hex as (p & Hp & He). exists p. split; [exact Hp|].
  exact (sound_modulo_known xc xg p st r (Hin r Hr) (Hk p Hp) He).
Qed.

Lemma chunks_with_predicates_spec : forall (A : Type) preds (chunks : list (A * stats)) c,
  In c (chunks_with_predicates preds chunks) <-> In c chunks /\ gate preds (snd c) = true.
Proof. intros A preds chunks c. unfold chunks_with_predicates. apply filter_In. Qed.

(* ------------------------------------------------------------------ *)
(* convert_expr_to_predicate preserves the meaning of what it converts  *)

Lemma convert_scalar_value : forall e v,
  convert_scalar e = Some v -> scalar_value e = Some (lit v).
Proof. intros e v H. unfold scalar_value. rewrite H. reflexivity. Qed.

Lemma esat_and : forall xc xg l q r, esat xc xg (EBin l BAnd q) r = tv_and (esat xc xg l r) (esat xc xg q r).
Proof. reflexivity. Qed.
Lemma esat_or : forall xc xg l q r, esat xc xg (EBin l BOr q) r = tv_or (esat xc xg l r) (esat xc xg q r).
Proof. reflexivity. Qed.

Theorem convert_exact : forall xc xg e p,
  convert e = Some p -> forall r, esat xc xg e r = sat xc xg p r.
Proof.
  intros xc xg. unfold convert.
  induction e as [c | s | l IHl o q IHq | e IHe negated lo IHlo hi IHhi | e IHe l negated | e IHe | ];
    intros p H r; cbn [convert_gen] in H; try discriminate.
  - (* EBin *)
    destruct l as [c | s | l1 o1 l2 | e1 n1 lo1 hi1 | e1 ls1 n1 | e1 | ].
    + (* column on the left *)
      destruct (is_time_col c); [discriminate|].
      destruct (convert_scalar q) as [v|] eqn:Ev; [|discriminate].
      destruct o; inversion H; subst p; cbn [esat cop_of sat];
        rewrite (convert_scalar_value _ _ Ev); reflexivity.
    + destruct o; discriminate.
    + destruct o; try discriminate;
        (destruct (convert_gen true (EBin l1 o1 l2)) as [a|] eqn:Ea; [|discriminate]);
        (destruct (convert_gen true q) as [b|] eqn:Eb; [|discriminate]);
        inversion H; subst p; rewrite ?esat_and, ?esat_or; cbn [sat];
        rewrite (IHl a eq_refl r), (IHq b eq_refl r); reflexivity.
    + destruct o; try discriminate;
        (destruct (convert_gen true (EBetween e1 n1 lo1 hi1)) as [a|] eqn:Ea; [|discriminate]);
        (destruct (convert_gen true q) as [b|] eqn:Eb; [|discriminate]);
        inversion H; subst p; rewrite ?esat_and, ?esat_or; cbn [sat];
        rewrite (IHl a eq_refl r), (IHq b eq_refl r); reflexivity.
    + destruct o; try discriminate;
        (destruct (convert_gen true (EInList e1 ls1 n1)) as [a|] eqn:Ea; [|discriminate]);
        (destruct (convert_gen true q) as [b|] eqn:Eb; [|discriminate]);
        inversion H; subst p; rewrite ?esat_and, ?esat_or; cbn [sat];
        rewrite (IHl a eq_refl r), (IHq b eq_refl r); reflexivity.
    + destruct o; try discriminate;
        (destruct (convert_gen true (ENot e1)) as [a|] eqn:Ea; [|discriminate]);
        (destruct (convert_gen true q) as [b|] eqn:Eb; [|discriminate]);
        inversion H; subst p; rewrite ?esat_and, ?esat_or; cbn [sat];
        rewrite (IHl a eq_refl r), (IHq b eq_refl r); reflexivity.
    + destruct o; discriminate.
  - (* EBetween *)
    destruct e as [c | | | | | | ]; try discriminate.
    destruct (is_time_col c); [discriminate|].
    destruct negated; cbn [andb] in H; [discriminate|].
    destruct (convert_scalar lo) as [a|] eqn:Ea; [|discriminate].
    destruct (convert_scalar hi) as [b|] eqn:Eb; [|discriminate].
    inversion H; subst p. cbn [esat sat].
    rewrite (convert_scalar_value _ _ Ea), (convert_scalar_value _ _ Eb). reflexivity.
  - (* EInList *)
    destruct e as [c | | | | | | ]; try discriminate.
    destruct (is_time_col c); [discriminate|].
    destruct (convert_scalars l) as [vs|] eqn:Ev; [|discriminate].
    inversion H; subst p. cbn [esat]. rewrite Ev.
    destruct negated; reflexivity.
  - (* ENot *)
    destruct (convert_gen true e) as [a|] eqn:Ea; [|discriminate].
    inversion H; subst p. cbn [esat sat]. rewrite (IHe a eq_refl r). reflexivity.
Qed.

(* before the fix the `negated` flag of BETWEEN was ignored *)
Theorem refuted_negation_dropped :
  let e := EBetween (ECol w_col) true (ELit (SInt64 10)) (ELit (SInt64 20)) in
  let st := [(w_col, mkStats (JInt 30) (JInt 40) false)] in
  let r := [(w_col, VInt 35)] in
  exists p, convert_negation_dropped e = Some p /\
    in_stats r st /\ eval_stats p st = false /\ esat xc_unknown xg_unknown e r = TT /\
    convert e = None.
Proof.
  cbv zeta. eexists. split; [vm_compute; reflexivity|].
  split; [apply in_statsb_sound; vm_compute; reflexivity|].
  repeat split; vm_compute; reflexivity.
Qed.

(* end to end: expression -> predicate -> statistics verdict *)
Theorem convert_then_prune_sound : forall xc xg e p st (rows : list row),
  convert e = Some p ->
  (forall r, In r rows -> in_stats r st) ->
  eval_stats p st = false ->
  forall r, In r rows -> known_mixed p st r = false -> esat xc xg e r <> TT.
Proof.
  intros xc xg e p st rows Hc Hin He r Hr Hk.
  rewrite (convert_exact xc xg e p Hc r). exact (sound_modulo_known xc xg p st r (Hin r Hr) Hk He).
Qed.

Example convert_nonvacuous :
  let e := EBin (EBin (ECol w_col) BLtEq (ELit (SInt64 4))) BOr
                (ENot (EInList (ECol 8%N) [ELit (SUtf8 [97%N])] true)) in
  exists p, convert e = Some p.
Proof. cbv zeta. eexists. vm_compute. reflexivity. Qed.
