(* Proofs/SqlGateProofs.v — C11: an admitted plan has no effects, for plan
   trees of any depth and width (induction on the tree). *)
From CS Require Import Base.Prelude Model.SqlGate.

(* ---------- induction principle for the nested tree ---------- *)
Section PlanInd.
  Variable P : plan -> Prop.
  Hypothesis HQuery : forall op cs, Forall P cs -> P (PQuery op cs).
  Hypothesis HDml : forall k t i, P i -> P (PDml k t i).
  Hypothesis HDdl : forall k cs, Forall P cs -> P (PDdl k cs).
  Hypothesis HCopy : forall t i, P i -> P (PCopy t i).
  Hypothesis HStmt : forall k cs, Forall P cs -> P (PStmt k cs).
  Hypothesis HExplain : forall c, P c -> P (PExplain c).
  Hypothesis HAnalyze : forall c, P c -> P (PAnalyze c).
  Hypothesis HDescribe : P PDescribeTable.

  Fixpoint plan_ind' (p : plan) : P p :=
    let fix all (l : list plan) : Forall P l :=
      match l with
      | [] => @Forall_nil plan P
      | x :: r => @Forall_cons plan P x r (plan_ind' x) (all r)
      end in
    match p with
    | PQuery op cs => @HQuery op cs (all cs)
    | PDml k t i => @HDml k t i (plan_ind' i)
    | PDdl k cs => @HDdl k cs (all cs)
    | PCopy t i => @HCopy t i (plan_ind' i)
    | PStmt k cs => @HStmt k cs (all cs)
    | PExplain c => @HExplain c (plan_ind' c)
    | PAnalyze c => @HAnalyze c (plan_ind' c)
    | PDescribeTable => HDescribe
    end.
End PlanInd.

Lemma flat_map_nil_all :
  forall (A B : Type) (f : A -> list B) (l : list A),
    Forall (fun x => f x = []) l -> flat_map f l = [].
Proof.
  intros A B f l Hall. induction Hall as [|x r Hx _ IH]; cbn.
  - reflexivity.
  - rewrite Hx, IH. reflexivity.
Qed.

(* read-only options never let a DML, COPY, DDL or statement node through *)
Lemma admitted_dml : forall k t i, admitted (PDml k t i) = false.
Proof. reflexivity. Qed.
Lemma admitted_copy : forall t i, admitted (PCopy t i) = false.
Proof. reflexivity. Qed.
Lemma admitted_ddl : forall k cs, admitted (PDdl k cs) = false.
Proof. reflexivity. Qed.
Lemma admitted_stmt : forall k cs, admitted (PStmt k cs) = false.
Proof. reflexivity. Qed.

(* Running an admitted plan writes nothing — whatever the nesting of EXPLAIN /
   EXPLAIN ANALYZE / subqueries around it. *)
Lemma admitted_exec_nil : forall p, admitted p = true -> exec_effects p = [].
Proof.
  unfold admitted.
  induction p as [op cs IH | k t i IH | k cs IH | t i IH | k cs IH | c IH | c IH | ] using plan_ind';
    cbn [admitted_with exec_effects opts_read_only allow_ddl allow_dml allow_statements andb];
    intros Hadm; try discriminate; try reflexivity.
  - (* query operator *)
    apply flat_map_nil_all.
    rewrite forallb_forall in Hadm. rewrite Forall_forall in IH |- *.
    intros x Hin. apply IH; [exact Hin | apply Hadm; exact Hin].
  - (* EXPLAIN ANALYZE *)
    apply IH. exact Hadm.
Qed.

Lemma admitted_eager_none : forall p, admitted p = true -> eager_effects p = None.
Proof.
  intros p Hadm. destruct p as [op cs | k t i | k cs | t i | k cs | c | c | ]; try reflexivity.
  - rewrite admitted_ddl in Hadm. discriminate.
  - rewrite admitted_stmt in Hadm. discriminate.
Qed.

Theorem admitted_effects_nil : forall p, admitted p = true -> effects p = [].
Proof.
  intros p Hadm. unfold effects, sql_effects, collect_effects.
  rewrite (admitted_eager_none p Hadm). cbn [app].
  destruct p as [op cs | k t i | k cs | t i | k cs | c | c | ];
    try (apply admitted_exec_nil; exact Hadm).
  rewrite admitted_stmt in Hadm. discriminate.
Qed.

Lemma admitted_sql_effects_nil : forall p, admitted p = true -> sql_effects p = [].
Proof.
  intros p Hadm. unfold sql_effects. rewrite (admitted_eager_none p Hadm). reflexivity.
Qed.

(* every engine entry point either rejects the statement or has no effect *)
Theorem site_call_readonly :
  forall s p, site_call s p = None \/ site_call s p = Some [].
Proof.
  intros s p. unfold site_call, site_options.
  destruct (admitted_with opts_read_only p) eqn:Hadm.
  - right. unfold site_effects.
    destruct (site_runs s).
    + rewrite (admitted_effects_nil p Hadm). reflexivity.
    + rewrite (admitted_sql_effects_nil p Hadm). reflexivity.
  - left. reflexivity.
Qed.

Lemma site_call_some_nil : forall s p e, site_call s p = Some e -> e = [].
Proof.
  intros s p e Hc. destruct (site_call_readonly s p) as [Hn | Hs]; congruence.
Qed.

Lemma run_sites_readonly : forall ss p, snd (run_sites ss p) = [].
Proof.
  induction ss as [|s r IH]; intros p; cbn [run_sites snd].
  - reflexivity.
  - destruct (site_call s p) as [e|] eqn:Hc.
    + specialize (IH p). destruct (run_sites r p) as [ok e'] eqn:Hr. cbn [snd] in *.
      rewrite (site_call_some_nil s p e Hc), IH. reflexivity.
    + destruct s; try reflexivity.
      destruct r as [|s2 r2]; [reflexivity|].
      cbn [snd]. destruct (site_call s2 p) as [e2|] eqn:Hc2; [|reflexivity].
      exact (site_call_some_nil s2 p e2 Hc2).
Qed.

(* a request is accepted exactly when it is one admitted statement *)
Lemma run_sites_accepts : forall ss p, ss <> [] -> fst (run_sites ss p) = admitted p.
Proof.
  induction ss as [|s r IH]; intros p Hne; [congruence|].
  cbn [run_sites]. unfold site_call at 1, site_options. fold (admitted p).
  destruct (admitted p) eqn:Hadm.
  - destruct r as [|s2 r2].
    + cbn. reflexivity.
    + assert (Hr : fst (run_sites (s2 :: r2) p) = admitted p) by (apply IH; discriminate).
      destruct (run_sites (s2 :: r2) p) as [ok e']. cbn [fst] in *. rewrite Hr. exact Hadm.
  - destruct s; try reflexivity. destruct r; reflexivity.
Qed.

Theorem submit_readonly : forall i stmts, snd (submit i stmts) = [].
Proof.
  intros i stmts. unfold submit.
  destruct stmts as [|p [|q r]]; try reflexivity. apply run_sites_readonly.
Qed.

Theorem submit_accepts_iff :
  forall i stmts, fst (submit i stmts) = true <-> exists p, stmts = [p] /\ admitted p = true.
Proof.
  intros i stmts. unfold submit. destruct stmts as [|p [|q r]]; cbn [fst].
  - split; [discriminate | intros [p [H _]]; discriminate].
  - rewrite run_sites_accepts by (destruct i; discriminate).
    split.
    + intros H. exists p. split; [reflexivity | exact H].
    + intros [p' [Heq H]]. injection Heq as ->. exact H.
  - split; [discriminate | intros [p' [H _]]; discriminate].
Qed.

(* a statement that would write is rejected: anything with an effect is not admitted *)
Theorem effectful_rejected : forall p, effects p <> [] -> admitted p = false.
Proof.
  intros p Hne. destruct (admitted p) eqn:Hadm; [|reflexivity].
  exfalso. apply Hne. apply admitted_effects_nil. exact Hadm.
Qed.

(* ---------- the code before the repair: plain ctx.sql admitted everything ---------- *)
Lemma unrestricted_admits_all : forall p, admitted_with opts_unrestricted p = true.
Proof.
  induction p as [op cs IH | k t i IH | k cs IH | t i IH | k cs IH | c IH | c IH | ] using plan_ind';
    cbn [admitted_with opts_unrestricted allow_ddl allow_dml allow_statements andb];
    try assumption; try reflexivity;
    (rewrite forallb_forall; rewrite Forall_forall in IH; exact IH).
Qed.

Definition select1 : plan := PQuery QProjection [PQuery QEmptyRelation []].
(* COPY (SELECT 1 AS x) TO 's3://cardinalsin-data/default/evil.parquet' *)
Definition w_copy_fresh : plan := PCopy LFresh select1.
(* COPY (SELECT ...) TO '<existing chunk path>' *)
Definition w_copy_chunk : plan := PCopy LChunk select1.
(* DROP TABLE metrics *)
Definition w_drop_metrics : plan := PDdl DropTable [].
(* EXPLAIN ANALYZE COPY ... TO '<catalog path>' *)
Definition w_analyze_copy : plan := PAnalyze (PCopy LCatalog select1).
(* SET datafusion.execution.batch_size = 1 *)
Definition w_set : plan := PStmt SetVariable [].
(* EXPLAIN EXPLAIN-free nesting: EXPLAIN ANALYZE under a query-shaped wrapper *)
Definition w_nested : plan := PExplain (PAnalyze (PAnalyze (PCopy LFresh select1))).

Theorem refuted_before_fix :
  admitted_with opts_unrestricted w_copy_fresh = true /\ effects w_copy_fresh = [EStoreWrite LFresh].
Proof. split; reflexivity. Qed.

(* the three plans per request of the unrepaired query path dropped the table
   at the first of them *)
Theorem refuted_before_fix_ddl_eager :
  run_sites_unrestricted (iface_sites ISqlHttp) w_drop_metrics
  = [ECatalog DropTable; ECatalog DropTable; ECatalog DropTable].
Proof. reflexivity. Qed.

(* regression cases: all of them are rejected now, on every interface *)
Definition regression_cases : list plan :=
  [w_copy_fresh; w_copy_chunk; w_drop_metrics; w_analyze_copy; w_set; w_nested;
   PDml DInsert LChunk select1; PDdl CreateView [select1]; PDdl CreateExternalTable [];
   PStmt Prepare [select1]; PStmt Execute []; PStmt Deallocate [];
   PQuery QProjection [PQuery QSubquery [PCopy LFresh select1]]].

Definition all_ifaces : list iface :=
  [ISqlHttp; ISqlIndexed; IStreaming; IFlightInfo; IFlightPrepare; IFlightPrepareGrpc; IExecuteStream].

Theorem regression_cases_rejected :
  forallb (fun p => forallb (fun i => match submit i [p] with (false, []) => true | _ => false end) all_ifaces)
          regression_cases = true.
Proof. vm_compute. reflexivity. Qed.

(* non-vacuity: admitted plans exist, also with EXPLAIN ANALYZE nesting *)
Example admitted_nonvacuous :
  admitted select1 = true /\ admitted (PExplain (PAnalyze select1)) = true /\
  admitted PDescribeTable = true /\ fst (submit ISqlHttp [select1]) = true.
Proof. repeat split; reflexivity. Qed.
