(* Proofs/QueryBindProofs.v — C10: under the protocol the code follows now
   (the plan is created while the registration lock is held) every query
   captures exactly its own chunk set, for any number of queries and any
   interleaving of their steps; under the former protocol it does not. *)
From CS Require Import Base.Prelude Model.QueryBind.

(* ---------- association-list facts for N keys ---------- *)
Lemma aget_aset_eq : forall (V : Type) (i : N) (v : V) (l : list (N * V)),
  aget N.eqb i (aset N.eqb i v l) = Some v.
Proof.
  intros V i v l. induction l as [|[k w] r IH]; cbn [aset aget].
  - rewrite N.eqb_refl. reflexivity.
  - destruct (N.eqb i k) eqn:E; cbn [aget]; rewrite E; [reflexivity | exact IH].
Qed.

Lemma aget_aset_neq : forall (V : Type) (i j : N) (v : V) (l : list (N * V)),
  j <> i -> aget N.eqb j (aset N.eqb i v l) = aget N.eqb j l.
Proof.
  intros V i j v l Hne. induction l as [|[k w] r IH]; cbn [aset aget].
  - destruct (N.eqb j i) eqn:E; [apply N.eqb_eq in E; congruence | reflexivity].
  - destruct (N.eqb i k) eqn:E; cbn [aget].
    + apply N.eqb_eq in E. subst k.
      destruct (N.eqb j i) eqn:E2; [apply N.eqb_eq in E2; congruence | reflexivity].
    + destruct (N.eqb j k); [reflexivity | exact IH].
Qed.

Lemma eqb_list_eq : forall a b, eqb_list a b = true -> a = b.
Proof.
  induction a as [|x a IH]; intros [|y b] H; cbn [eqb_list] in H; try discriminate.
  - reflexivity.
  - apply andb_prop in H. destruct H as [H1 H2]. apply N.eqb_eq in H1. subst y.
    rewrite (IH b H2). reflexivity.
Qed.

(* ---------- the invariant of the repaired protocol ---------- *)
(* pc: 0 = before Lock, 1 = before Register, 2 = before Pause, 3 = before Plan,
   4 = before Unlock, 5 = before Exec, 6 = finished *)
Definition qinv (sets : list (qid * chunkset)) (st : state) (i : qid) (q : qstate) : Prop :=
  (1 <= q_pc q <= 4 -> lock st = Some i) /\
  (2 <= q_pc q <= 4 -> tbl st = sel sets i) /\
  (forall c, q_cap q = Some c -> c = sel sets i) /\
  (forall c, q_res q = Some c -> c = sel sets i).

Definition inv (sets : list (qid * chunkset)) (st : state) : Prop :=
  tbl st = paths st /\
  forall i q, aget N.eqb i (qs st) = Some q -> qinv sets st i q.

Lemma inv_init_bound : forall sets t ids, inv sets (init_bound t ids).
Proof.
  intros sets t ids. split; [reflexivity|].
  intros i q Hget. unfold init_bound in Hget. cbn [qs] in Hget.
  assert (Hq : q = init_q).
  { induction ids as [|k r IH]; cbn [map aget] in Hget; [discriminate|].
    destruct (N.eqb i k); [injection Hget as <-; reflexivity | exact (IH Hget)]. }
  subst q. unfold qinv, init_q. cbn [q_pc q_cap q_res].
  repeat split; intros; try lia; discriminate.
Qed.

Lemma inv_init : forall sets ids, inv sets (init ids).
Proof. intros sets ids. apply inv_init_bound. Qed.

Lemma register_tbl : forall s st, tbl st = paths st ->
  tbl (register s st) = s /\ paths (register s st) = s /\
  lock (register s st) = lock st /\ qs (register s st) = qs st.
Proof.
  intros s st Htp. unfold register. destruct s as [|x r].
  - cbn. repeat split; reflexivity.
  - destruct (eqb_list (paths st) (x :: r)) eqn:E.
    + apply eqb_list_eq in E. repeat split; congruence.
    + cbn. repeat split; reflexivity.
Qed.

Lemma nth_fixed : forall n k, nth_error proto_fixed n = Some k ->
  (n = 0%nat /\ k = KLock) \/ (n = 1%nat /\ k = KRegister) \/ (n = 2%nat /\ k = KPause) \/
  (n = 3%nat /\ k = KPlan) \/ (n = 4%nat /\ k = KUnlock) \/ (n = 5%nat /\ k = KExec).
Proof.
  intros n k H. unfold proto_fixed in H.
  do 6 (destruct n as [|n]; [cbn in H; injection H as <-; tauto|]).
  cbn in H. destruct n; discriminate.
Qed.

(* qinv looks at the state only through the lock holder and the bound set *)
Lemma qinv_same : forall sets st st' j q,
  lock st' = lock st -> tbl st' = tbl st -> qinv sets st j q -> qinv sets st' j q.
Proof.
  intros sets st st' j q Hl Ht [H1 [H2 [H3 H4]]]. unfold qinv. rewrite Hl, Ht.
  split; [exact H1|]. split; [exact H2|]. split; [exact H3 | exact H4].
Qed.

(* a query that does not hold the lock is outside its critical section, so the
   lock and the binding may change under it *)
Lemma qinv_not_holder : forall sets st st' j q,
  lock st <> Some j -> qinv sets st j q -> qinv sets st' j q.
Proof.
  intros sets st st' j q Hnot [H1 [H2 [H3 H4]]]. unfold qinv.
  split; [intros Hr; exfalso; apply Hnot; apply H1; exact Hr|].
  split; [intros Hr; exfalso; apply Hnot; apply H1; lia|].
  split; [exact H3 | exact H4].
Qed.

(* one step of any query preserves the invariant *)
(* a query that ends without a result (failed binding, dropped future) leaves
   the invariant intact: the binding is untouched and its lock is released *)
Lemma abort_inv : forall sets st i, inv sets st -> inv sets (abort proto_fixed st i).
Proof.
  intros sets st i [Htp Hall]. unfold abort.
  destruct (aget N.eqb i (qs st)) as [q|] eqn:Hq; [|split; assumption].
  pose proof (Hall i q Hq) as [Hlk [Htb [Hcap Hres]]].
  split; [exact Htp|]. intros j qj Hj. cbn [set_q qs] in Hj.
  destruct (N.eq_dec j i) as [->|Hne].
  - rewrite aget_aset_eq in Hj. injection Hj as <-.
    unfold qinv. cbn [q_pc q_cap q_res set_q lock tbl proto_fixed length].
    split; [intros Hr; lia|]. split; [intros Hr; lia|]. split; [exact Hcap | exact Hres].
  - rewrite aget_aset_neq in Hj by exact Hne.
    destruct (Hall j qj Hj) as [Hl' [Ht' [Hc' Hr']]].
    unfold qinv. cbn [set_q lock tbl].
    split.
    + intros Hr. specialize (Hl' Hr). rewrite Hl'.
      destruct (N.eqb j i) eqn:E; [apply N.eqb_eq in E; congruence | reflexivity].
    + split; [exact Ht'|]. split; [exact Hc' | exact Hr'].
Qed.

Lemma step_inv : forall faults sets st i, inv sets st -> inv sets (step faults proto_fixed sets st i).
Proof.
  intros faults sets st i Hinv. pose proof Hinv as [Htp Hall]. unfold step.
  destruct (aget N.eqb i (qs st)) as [q|] eqn:Hq; [|split; assumption].
  destruct (nth_error proto_fixed (q_pc q)) as [k|] eqn:Hk; [|split; assumption].
  pose proof (Hall i q Hq) as [Hlk [Htb [Hcap Hres]]].
  destruct (nth_fixed _ _ Hk) as [[Hpc ->]|[[Hpc ->]|[[Hpc ->]|[[Hpc ->]|[[Hpc ->]|[Hpc ->]]]]]].
  - (* Lock *)
    destruct (lock st) as [h|] eqn:Hl; [split; assumption|].
    split; [exact Htp|]. intros j qj Hj. cbn [set_q qs] in Hj.
    destruct (N.eq_dec j i) as [->|Hne].
    + rewrite aget_aset_eq in Hj. injection Hj as <-.
      unfold qinv. cbn [q_pc q_cap q_res set_q lock tbl]. rewrite Hpc.
      split; [intros _; reflexivity|]. split; [intros Hr; lia|]. split; [exact Hcap | exact Hres].
    + rewrite aget_aset_neq in Hj by exact Hne.
      apply (qinv_not_holder sets st); [rewrite Hl; discriminate | exact (Hall j qj Hj)].
  - (* Register *)
    destruct (memN i faults && reads_files (sel sets i) st); [apply abort_inv; exact Hinv|].
    destruct (register_tbl (sel sets i) st Htp) as [Rt [Rp [Rl Rq]]].
    assert (Hmine : lock st = Some i) by (apply Hlk; lia).
    split; [cbn [set_q tbl paths]; congruence|].
    intros j qj Hj. cbn [set_q qs] in Hj. rewrite Rq in Hj.
    destruct (N.eq_dec j i) as [->|Hne].
    + rewrite aget_aset_eq in Hj. injection Hj as <-.
      unfold qinv. cbn [q_pc q_cap q_res set_q lock tbl]. rewrite Hpc.
      split; [intros _; congruence|]. split; [intros _; exact Rt|]. split; [exact Hcap | exact Hres].
    + rewrite aget_aset_neq in Hj by exact Hne.
      apply (qinv_not_holder sets st); [rewrite Hmine; congruence | exact (Hall j qj Hj)].
  - (* Pause *)
    split; [exact Htp|]. intros j qj Hj. cbn [set_q qs] in Hj.
    destruct (N.eq_dec j i) as [->|Hne].
    + rewrite aget_aset_eq in Hj. injection Hj as <-.
      unfold qinv. cbn [q_pc q_cap q_res set_q lock tbl]. rewrite Hpc.
      split; [intros _; apply Hlk; lia|]. split; [intros _; apply Htb; lia|]. split; [exact Hcap | exact Hres].
    + rewrite aget_aset_neq in Hj by exact Hne.
      apply (qinv_same sets st); [reflexivity | reflexivity | exact (Hall j qj Hj)].
  - (* Plan: the provider bound right now is the query's own *)
    split; [exact Htp|]. intros j qj Hj. cbn [set_q qs] in Hj.
    destruct (N.eq_dec j i) as [->|Hne].
    + rewrite aget_aset_eq in Hj. injection Hj as <-.
      unfold qinv. cbn [q_pc q_cap q_res set_q lock tbl]. rewrite Hpc.
      split; [intros _; apply Hlk; lia|]. split; [intros _; apply Htb; lia|].
      split; [intros c Hc; injection Hc as <-; apply Htb; lia | exact Hres].
    + rewrite aget_aset_neq in Hj by exact Hne.
      apply (qinv_same sets st); [reflexivity | reflexivity | exact (Hall j qj Hj)].
  - (* Unlock *)
    assert (Hmine : lock st = Some i) by (apply Hlk; lia).
    split; [exact Htp|]. intros j qj Hj. cbn [set_q qs] in Hj.
    destruct (N.eq_dec j i) as [->|Hne].
    + rewrite aget_aset_eq in Hj. injection Hj as <-.
      unfold qinv. cbn [q_pc q_cap q_res set_q lock tbl]. rewrite Hpc.
      split; [intros Hr; lia|]. split; [intros Hr; lia|]. split; [exact Hcap | exact Hres].
    + rewrite aget_aset_neq in Hj by exact Hne.
      apply (qinv_not_holder sets st); [rewrite Hmine; congruence | exact (Hall j qj Hj)].
  - (* Exec *)
    split; [exact Htp|]. intros j qj Hj. cbn [set_q qs] in Hj.
    destruct (N.eq_dec j i) as [->|Hne].
    + rewrite aget_aset_eq in Hj. injection Hj as <-.
      unfold qinv. cbn [q_pc q_cap q_res set_q lock tbl]. rewrite Hpc.
      split; [intros Hr; lia|]. split; [intros Hr; lia|]. split; [exact Hcap | exact Hcap].
    + rewrite aget_aset_neq in Hj by exact Hne.
      apply (qinv_same sets st); [reflexivity | reflexivity | exact (Hall j qj Hj)].
Qed.

Lemma run_inv : forall sets sched st, inv sets st -> inv sets (run proto_fixed sets sched st).
Proof.
  intros sets sched. unfold run. induction sched as [|i r IH]; intros st Hinv; cbn [fold_left].
  - exact Hinv.
  - apply IH. apply step_inv. exact Hinv.
Qed.

Lemma run_ev_inv : forall faults sets evs st, inv sets st -> inv sets (run_ev faults proto_fixed sets evs st).
Proof.
  intros faults sets evs. unfold run_ev. induction evs as [|e r IH]; intros st Hinv; cbn [fold_left].
  - exact Hinv.
  - apply IH. destruct e as [i|i]; cbn [apply_ev]; [apply step_inv | apply abort_inv]; exact Hinv.
Qed.

(* Histories with failed bindings and dropped futures: any set of failing
   queries, any interleaving of steps and drops, from any previously bound table. *)
Theorem result_own_faulty : forall faults sets t ids evs i c,
  result (run_ev faults proto_fixed sets evs (init_bound t ids)) i = Some c -> c = sel sets i.
Proof.
  intros faults sets t ids evs i c H.
  destruct (run_ev_inv faults sets evs (init_bound t ids) (inv_init_bound sets t ids)) as [_ Hall].
  unfold result in H.
  destruct (aget N.eqb i (qs (run_ev faults proto_fixed sets evs (init_bound t ids)))) as [q|] eqn:Hq; [|discriminate].
  destruct (Hall i q Hq) as [_ [_ [_ Hr]]]. apply Hr. exact H.
Qed.

(* the bookkeeping of bound paths never disagrees with the bound table *)
Theorem paths_match_table : forall faults sets t ids evs,
  tbl (run_ev faults proto_fixed sets evs (init_bound t ids)) = paths (run_ev faults proto_fixed sets evs (init_bound t ids)).
Proof.
  intros faults sets t ids evs.
  destruct (run_ev_inv faults sets evs (init_bound t ids) (inv_init_bound sets t ids)) as [H _]. exact H.
Qed.

(* Main theorem: any number of queries, any chunk sets, any schedule. *)
Theorem captured_own : forall sets ids sched i c,
  captured (run proto_fixed sets sched (init ids)) i = Some c -> c = sel sets i.
Proof.
  intros sets ids sched i c H.
  destruct (run_inv sets sched (init ids) (inv_init sets ids)) as [_ Hall].
  unfold captured in H.
  destruct (aget N.eqb i (qs (run proto_fixed sets sched (init ids)))) as [q|] eqn:Hq; [|discriminate].
  destruct (Hall i q Hq) as [_ [_ [Hc _]]]. apply Hc. exact H.
Qed.

(* the same from a node whose table is already bound to some chunk set (a node
   that served queries before) *)
Theorem result_own_bound : forall sets t ids sched i c,
  result (run proto_fixed sets sched (init_bound t ids)) i = Some c -> c = sel sets i.
Proof.
  intros sets t ids sched i c H.
  destruct (run_inv sets sched (init_bound t ids) (inv_init_bound sets t ids)) as [_ Hall].
  unfold result in H.
  destruct (aget N.eqb i (qs (run proto_fixed sets sched (init_bound t ids)))) as [q|] eqn:Hq; [|discriminate].
  destruct (Hall i q Hq) as [_ [_ [_ Hr]]]. apply Hr. exact H.
Qed.

Theorem result_own : forall sets ids sched i c,
  result (run proto_fixed sets sched (init ids)) i = Some c -> c = sel sets i.
Proof.
  intros sets ids sched i c H.
  destruct (run_inv sets sched (init ids) (inv_init sets ids)) as [_ Hall].
  unfold result in H.
  destruct (aget N.eqb i (qs (run proto_fixed sets sched (init ids)))) as [q|] eqn:Hq; [|discriminate].
  destruct (Hall i q Hq) as [_ [_ [_ Hr]]]. apply Hr. exact H.
Qed.

(* result under concurrency = result alone: whatever else runs, in whatever
   order, a query that completes scanned the same chunk set as in any other run
   in which it completes -- in particular the run in which it is alone. *)
Theorem schedule_independent : forall sets ids ids' sched sched' i c c',
  result (run proto_fixed sets sched (init ids)) i = Some c ->
  result (run proto_fixed sets sched' (init ids')) i = Some c' ->
  c = c'.
Proof.
  intros sets ids ids' sched sched' i c c' H H'.
  rewrite (result_own sets ids sched i c H), (result_own sets ids' sched' i c' H'). reflexivity.
Qed.

Definition alone (i : qid) : list qid := [i; i; i; i; i; i].

(* ---------- the command level used by the harness is made of the same steps ---------- *)
Lemma advance_inv : forall faults sets fuel st i, inv sets st -> inv sets (advance faults proto_fixed sets fuel st i).
Proof.
  intros faults sets fuel. induction fuel as [|f IH]; intros st i Hinv; cbn [advance]; [exact Hinv|].
  destruct (at_pause proto_fixed st i || done proto_fixed st i); [exact Hinv|].
  destruct (Nat.eqb _ _); [apply step_inv; exact Hinv | apply IH; apply step_inv; exact Hinv].
Qed.

Lemma fold_step_inv : forall faults sets (A : Type) (l : list A) st i,
  inv sets st -> inv sets (fold_left (fun s _ => step faults proto_fixed sets s i) l st).
Proof.
  intros faults sets A l. induction l as [|x r IH]; intros st i Hinv; cbn [fold_left]; [exact Hinv|].
  apply IH. apply step_inv. exact Hinv.
Qed.

Lemma finish_inv : forall faults sets st i, inv sets st -> inv sets (finish faults proto_fixed sets st i).
Proof.
  intros faults sets st i Hinv. unfold finish. destruct (at_pause proto_fixed st i); [|exact Hinv].
  apply fold_step_inv. apply step_inv. exact Hinv.
Qed.

Lemma settle_inv : forall faults sets l st,
  inv sets st -> inv sets (settle faults proto_fixed sets l st).
Proof.
  intros faults sets l. unfold settle. induction l as [|j r IH]; intros st Hinv; cbn [fold_left]; [exact Hinv|].
  apply IH. apply advance_inv. exact Hinv.
Qed.

Lemma run_cmds_inv : forall faults sets cs started st,
  inv sets st -> inv sets (run_cmds faults proto_fixed sets cs started st).
Proof.
  intros faults sets cs. induction cs as [|c r IH]; intros started st Hinv; cbn [run_cmds]; [exact Hinv|].
  destruct c as [i|i|i]; cbn [run_cmd]; apply IH; apply settle_inv.
  - exact Hinv.
  - apply finish_inv. exact Hinv.
  - apply abort_inv. exact Hinv.
Qed.

Theorem cmds_result_own : forall sets ids cs i c,
  result (run_cmds [] proto_fixed sets cs [] (init ids)) i = Some c -> c = sel sets i.
Proof.
  intros sets ids cs i c H.
  destruct (run_cmds_inv [] sets cs [] (init ids) (inv_init sets ids)) as [_ Hall].
  unfold result in H.
  destruct (aget N.eqb i (qs (run_cmds [] proto_fixed sets cs [] (init ids)))) as [q|] eqn:Hq; [|discriminate].
  destruct (Hall i q Hq) as [_ [_ [_ Hr]]]. apply Hr. exact H.
Qed.

Theorem cmds_result_own_bound : forall faults sets t ids cs i c,
  result (run_cmds faults proto_fixed sets cs [] (init_bound t ids)) i = Some c -> c = sel sets i.
Proof.
  intros faults sets t ids cs i c H.
  destruct (run_cmds_inv faults sets cs [] (init_bound t ids) (inv_init_bound sets t ids)) as [_ Hall].
  unfold result in H.
  destruct (aget N.eqb i (qs (run_cmds faults proto_fixed sets cs [] (init_bound t ids)))) as [q|] eqn:Hq; [|discriminate].
  destruct (Hall i q Hq) as [_ [_ [_ Hr]]]. apply Hr. exact H.
Qed.

(* ---------- the protocol before the repair ---------- *)
(* A (id 1) selects chunks {1,2}, B (id 2) selects {2,3};
   Lock/Register/Unlock of A, Lock/Register/Unlock of B, then A plans and runs:
   A is evaluated against B's chunk set. *)
Definition w_sets : list (qid * chunkset) := [(1%N, [1%N; 2%N]); (2%N, [2%N; 3%N])].
Definition w_sched : list qid := [1; 1; 1; 2; 2; 2; 1; 1; 1; 2; 2; 2]%N.

Theorem refuted_unlocked_plan :
  result (run proto_unlocked_plan w_sets w_sched (init [1%N; 2%N])) 1%N = Some [2%N; 3%N] /\
  sel w_sets 1%N = [1%N; 2%N].
Proof. split; timeout 20 vm_compute; reflexivity. Qed.

(* the same schedule under the repaired protocol: B waits for the lock *)
Example fixed_same_schedule :
  result (run proto_fixed w_sets (w_sched ++ w_sched) (init [1%N; 2%N])) 1%N = Some [1%N; 2%N] /\
  result (run proto_fixed w_sets (w_sched ++ w_sched) (init [1%N; 2%N])) 2%N = Some [2%N; 3%N].
Proof. split; timeout 20 vm_compute; reflexivity. Qed.

(* the harness's command sequence Start A, Start B, Resume A, Resume B *)
Example cmds_witness :
  result (run_cmds [] proto_unlocked_plan w_sets [Start 1%N; Start 2%N; Resume 1%N; Resume 2%N] [] (init [1%N; 2%N])) 1%N = Some [2%N; 3%N] /\
  result (run_cmds [] proto_fixed w_sets [Start 1%N; Start 2%N; Resume 1%N; Resume 2%N] [] (init [1%N; 2%N])) 1%N = Some [1%N; 2%N] /\
  result (run_cmds [] proto_fixed w_sets [Start 1%N; Start 2%N; Resume 1%N; Resume 2%N] [] (init [1%N; 2%N])) 2%N = Some [2%N; 3%N].
Proof. repeat split; timeout 20 vm_compute; reflexivity. Qed.

(* non-vacuity: a query alone completes and scans its own set *)
Example solo_completes :
  result (run proto_fixed w_sets (alone 1%N) (init [1%N])) 1%N = Some [1%N; 2%N] /\
  result (run proto_fixed w_sets (alone 2%N) (init [2%N])) 2%N = Some [2%N; 3%N].
Proof. split; timeout 20 vm_compute; reflexivity. Qed.

(* a failed binding followed by a retry of the same query: A binds {1}, B (id 2)
   fails while binding {2}, the retry B' (id 3, same set) is evaluated against
   {2} -- it does not take the "already registered" shortcut on stale
   bookkeeping, because the bookkeeping was not touched by the failure *)
Example retry_after_failed_binding :
  let sets := [(1%N, [1%N]); (2%N, [2%N]); (3%N, [2%N])] in
  let st := run_cmds [2%N] proto_fixed sets
              [Start 1%N; Resume 1%N; Start 2%N; Resume 2%N; Start 3%N; Resume 3%N] [] (init_bound [1%N; 2%N] [1%N; 2%N; 3%N]) in
  result st 1%N = Some [1%N] /\ result st 2%N = None /\ result st 3%N = Some [2%N] /\ tbl st = paths st.
Proof. repeat split; timeout 20 vm_compute; reflexivity. Qed.

(* a query dropped at the pause point releases the lock; the next one proceeds *)
Example dropped_at_pause :
  let sets := [(1%N, [1%N]); (2%N, [2%N])] in
  let st := run_cmds [] proto_fixed sets [Start 1%N; Start 2%N; Cancel 1%N; Resume 2%N] [] (init [1%N; 2%N]) in
  result st 1%N = None /\ result st 2%N = Some [2%N].
Proof. repeat split; timeout 20 vm_compute; reflexivity. Qed.
