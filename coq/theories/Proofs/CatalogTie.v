(* Proofs/CatalogTie.v — the small pure functions the catalog model is built
   from ARE the functions of the Rust code: generated/Funs.v is re-translated
   from /repo on every run (lib/exprtrans.py) and each lemma below is closed by
   computation, so a change of `TimeRange::overlaps`, of either `hour_bucket`
   or of the bucket computation inside `get_chunks_with_predicates` breaks a
   proof obligation of C07 (and of everything that re-uses these lemmas). *)
From CS Require Import Base.Prelude Model.Catalog.
From CSGen Require Import Consts Funs.
Open Scope Z_scope.

Lemma overlaps_is_code cmin cmax s e :
  overlaps cmin cmax s e = Funs.timerange_overlaps cmin cmax s e.
Proof. reflexivity. Qed.

Lemma s3_register_bucket_is_code t :
  bucketw Consts.S3_REGISTER_BUCKET_NANOS t = Funs.s3_hour_bucket t.
Proof. reflexivity. Qed.

Lemma s3_get_buckets_are_code s e :
  bucketw Consts.S3_GET_BUCKET_NANOS s = Funs.s3_get_start_bucket s e /\
  bucketw Consts.S3_GET_BUCKET_NANOS e = Funs.s3_get_end_bucket s e.
Proof. split; reflexivity. Qed.

Lemma local_bucket_is_code t :
  bucketw Consts.LOCAL_BUCKET_NANOS t = Funs.local_hour_bucket t.
Proof. reflexivity. Qed.

(* `contains` is the point version of `overlaps` *)
Lemma contains_is_point_overlap a b t :
  Funs.timerange_contains a b t = overlaps a b t t.
Proof.
  unfold Funs.timerange_contains, overlaps.
  rewrite !Z.geb_leb. reflexivity.
Qed.

Theorem catalog_functions_are_the_code :
  (forall cmin cmax s e, overlaps cmin cmax s e = Funs.timerange_overlaps cmin cmax s e) /\
  (forall t, bucketw Consts.S3_REGISTER_BUCKET_NANOS t = Funs.s3_hour_bucket t) /\
  (forall s e, bucketw Consts.S3_GET_BUCKET_NANOS s = Funs.s3_get_start_bucket s e /\
               bucketw Consts.S3_GET_BUCKET_NANOS e = Funs.s3_get_end_bucket s e) /\
  (forall t, bucketw Consts.LOCAL_BUCKET_NANOS t = Funs.local_hour_bucket t).
Proof.
  repeat split; intros; reflexivity.
Qed.
