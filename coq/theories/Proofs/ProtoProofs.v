(* Proofs/ProtoProofs.v — theorems about the protobuf reader model
   (Model/Proto.v): totality (never Panic / Hang) and the encode/parse round
   trip. *)
From CS Require Import Base.Prelude Model.Proto.
Open Scope N_scope.

(* an outcome that is an answer (Ok or Err), not a crash *)
Definition answered {A : Type} (o : outcome A) : Prop :=
  match o with Done _ | Failed _ => True | Panic | Hang => False end.

Lemma answered_obind : forall (A B : Type) (o : outcome A) (f : A -> outcome B),
  answered o -> (forall a, o = Done a -> answered (f a)) -> answered (obind o f).
Proof.
  intros A B o f Ho Hf. destruct o as [a| | |]; cbn in *; auto.
Qed.

(* ------------------------------------------------------------------ *)
(* read_varint                                                         *)

Lemma varint_loop_answered : forall rest pos shift result,
  answered (varint_loop rest pos shift result).
Proof.
  induction rest as [|b rest IH]; intros pos shift result; cbn [varint_loop].
  - exact I.
  - destruct (N.land b 128 =? 0); [exact I|].
    destruct (64 <=? shift + 7); [exact I|]. apply IH.
Qed.

Lemma varint_loop_bounds : forall rest pos shift result v p,
  varint_loop rest pos shift result = Done (v, p) ->
  pos < p /\ p <= pos + N.of_nat (length rest).
Proof.
  induction rest as [|b rest IH]; intros pos shift result v p H; cbn [varint_loop] in H.
  - discriminate.
  - cbn [length]. rewrite Nat2N.inj_succ.
    destruct (N.land b 128 =? 0).
    + inversion H; subst. lia.
    + destruct (64 <=? shift + 7); [discriminate|].
      apply IH in H. lia.
Qed.

Lemma read_varint_answered : forall data s, answered (read_varint data s).
Proof. intros. apply varint_loop_answered. Qed.

Lemma read_varint_bounds : forall data s v p,
  read_varint data s = Done (v, p) ->
  s < p /\ p <= N.of_nat (length data).
Proof.
  unfold read_varint. intros data s v p H.
  destruct (N.le_gt_cases (N.of_nat (length data)) s) as [Hge|Hlt].
  - rewrite skipn_all2 in H by lia. discriminate.
  - apply varint_loop_bounds in H. rewrite skipn_length in H. lia.
Qed.

(* ------------------------------------------------------------------ *)
(* slices                                                              *)

Lemma slice_done : forall data s e,
  s <= e -> e <= N.of_nat (length data) ->
  slice data s e = Done (firstn (N.to_nat (e - s)) (skipn (N.to_nat s) data)).
Proof.
  intros data s e H1 H2. unfold slice.
  destruct (N.ltb_spec e s); [lia|].
  destruct (N.ltb_spec (N.of_nat (length data)) e); [lia|]. reflexivity.
Qed.

Lemma slice_length : forall data s e bs,
  slice data s e = Done bs -> N.of_nat (length bs) = e - s /\ s <= e /\ e <= N.of_nat (length data).
Proof.
  intros data s e bs H. unfold slice in H.
  destruct (N.ltb_spec e s); [discriminate|].
  destruct (N.ltb_spec (N.of_nat (length data)) e); [discriminate|].
  inversion H; subst. rewrite firstn_length, skipn_length. lia.
Qed.

(* ------------------------------------------------------------------ *)
(* the current (checked) code: delimited fields, skipping              *)

Section Current.
  Variable m : build.
  Let c := current m.

  Lemma read_delim_spec : forall data pos code,
    match read_delim c data (N.of_nat (length data)) pos code with
    | Done (bs, e) => pos < e /\ e <= N.of_nat (length data) /\
                      N.of_nat (length bs) <= N.of_nat (length data)
    | Failed _ => True
    | Panic | Hang => False
    end.
  Proof.
    intros data pos code. unfold read_delim.
    pose proof (read_varint_answered data pos) as Ha.
    destruct (read_varint data pos) as [[v p]| | |] eqn:Hv; cbn [obind answered] in *; auto.
    apply read_varint_bounds in Hv. destruct Hv as [Hv1 Hv2].
    cbn [fst snd]. unfold known_end, c, current. cbn [c_checked]. unfold delimited_end.
    destruct (N.ltb_spec (p + v) U64); cbn [obind]; auto.
    destruct (N.leb_spec (p + v) (N.of_nat (length data))); cbn [obind]; auto.
    rewrite slice_done by lia. cbn [obind].
    rewrite firstn_length, skipn_length. lia.
  Qed.

  Lemma skip_field_spec : forall code wt data pos,
    pos <= N.of_nat (length data) -> N.of_nat (length data) < I63 ->
    match skip_field c code wt data (N.of_nat (length data)) pos with
    | Done p2 => pos < p2
    | Failed _ => True
    | Panic | Hang => False
    end.
  Proof.
    intros code wt data pos Hpos Hlen. unfold skip_field.
    assert (HU : I63 + 8 < U64) by (vm_compute; reflexivity).
    destruct (wt =? 0).
    { pose proof (read_varint_answered data pos) as Ha.
      destruct (read_varint data pos) as [[v p]| | |] eqn:Hv; cbn [obind answered] in *; auto.
      apply read_varint_bounds in Hv. cbn [snd]. lia. }
    destruct (wt =? 1).
    { unfold uadd. destruct (N.ltb_spec (pos + 8) U64); [lia|]. exfalso. lia. }
    destruct (wt =? 2).
    { pose proof (read_varint_answered data pos) as Ha.
      destruct (read_varint data pos) as [[v p]| | |] eqn:Hv; cbn [obind answered] in *; auto.
      apply read_varint_bounds in Hv. cbn [fst snd].
      unfold skip_end, c, current. cbn [c_checked]. unfold delimited_end.
      destruct (N.ltb_spec (p + v) U64); auto.
      destruct (N.leb_spec (p + v) (N.of_nat (length data))); auto. lia. }
    destruct (wt =? 5).
    { unfold uadd. destruct (N.ltb_spec (pos + 4) U64); [lia|]. exfalso. lia. }
    exact I.
  Qed.

  (* what a handler of known arms must guarantee: it answers, and when it
     succeeds the cursor did not move backwards *)
  Definition handler_ok {A : Type} (len : N) (h : handler A) : Prop :=
    forall field wt pos acc, pos <= len ->
      match h field wt pos acc with
      | None => True
      | Some (Done (_, p2)) => pos <= p2
      | Some (Failed _) => True
      | Some Panic | Some Hang => False
      end.

  (* the loop: the cursor strictly increases, so length + 1 iterations are
     enough and the loop never crashes *)
  Lemma msg_loop_answered : forall (A : Type) code (h : handler A) data,
    N.of_nat (length data) < I63 ->
    handler_ok (N.of_nat (length data)) h ->
    forall fuel pos acc,
      N.of_nat (length data) - pos < N.of_nat fuel ->
      answered (msg_loop c code h fuel data (N.of_nat (length data)) pos acc).
  Proof.
    intros A code h data Hlen Hh.
    induction fuel as [|fuel IH]; intros pos acc Hfuel.
    - cbn [msg_loop]. destruct (N.ltb_spec pos (N.of_nat (length data))); [|exact I].
      exfalso. change (N.of_nat 0) with 0 in Hfuel. lia.
    - cbn [msg_loop]. destruct (N.ltb_spec pos (N.of_nat (length data))) as [Hlt|]; [|exact I].
      apply answered_obind; [apply read_varint_answered|].
      intros [tag pos1] Hv. apply read_varint_bounds in Hv. destruct Hv as [Hv1 Hv2].
      cbn [fst snd].
      specialize (Hh (N.shiftr tag 3) (N.land tag 7) pos1 acc Hv2).
      destruct (h (N.shiftr tag 3) (N.land tag 7) pos1 acc) as [o|].
      + destruct o as [[acc' p2]| | |]; cbn [obind answered] in *; auto.
        apply IH. cbn [fst snd]. rewrite Nat2N.inj_succ in Hfuel. lia.
      + pose proof (skip_field_spec code (N.land tag 7) data pos1 Hv2 Hlen) as Hs.
        destruct (skip_field c code (N.land tag 7) data (N.of_nat (length data)) pos1) as [p2| | |];
          cbn [obind answered] in *; auto.
        apply IH. cbn [fst snd]. rewrite Nat2N.inj_succ in Hfuel. lia.
  Qed.

  Lemma parse_msg_answered : forall (A : Type) code (h : bytes -> N -> handler A) data init,
    N.of_nat (length data) < I63 ->
    handler_ok (N.of_nat (length data)) (h data (N.of_nat (length data))) ->
    answered (parse_msg c code h data init).
  Proof.
    intros A code h data init Hlen Hh. unfold parse_msg.
    apply msg_loop_answered; auto. rewrite Nat2N.inj_succ. lia.
  Qed.

  (* ---- the four parsers ---- *)

  Lemma sample_handler_ok : forall data,
    N.of_nat (length data) < I63 ->
    handler_ok (N.of_nat (length data)) (sample_handler c data (N.of_nat (length data))).
  Proof.
    intros data Hlen field wt pos acc Hpos. unfold sample_handler.
    assert (HU : I63 + 8 < U64) by (vm_compute; reflexivity).
    destruct ((field =? 1) && (wt =? 1)).
    { unfold uadd. destruct (N.ltb_spec (pos + 8) U64); [|exfalso; lia].
      cbn [obind].
      destruct (N.ltb_spec (N.of_nat (length data)) (pos + 8)); [exact I|].
      rewrite slice_done by lia. cbn [obind]. lia. }
    destruct ((field =? 2) && (wt =? 0)); [|exact I].
    pose proof (read_varint_answered data pos) as Ha.
    destruct (read_varint data pos) as [[v p]| | |] eqn:Hv; cbn [obind answered] in *; auto.
    apply read_varint_bounds in Hv. cbn [snd]. lia.
  Qed.

  Lemma parse_sample_answered : forall data,
    N.of_nat (length data) < I63 -> answered (parse_sample c data).
  Proof.
    intros data Hlen. unfold parse_sample.
    apply parse_msg_answered; auto. apply sample_handler_ok; auto.
  Qed.

  Lemma label_handler_ok : forall data,
    handler_ok (N.of_nat (length data)) (label_handler c data (N.of_nat (length data))).
  Proof.
    intros data field wt pos acc Hpos. unfold label_handler.
    destruct ((field =? 1) && (wt =? 2)).
    { pose proof (read_delim_spec data pos E_TRUNC_LABEL_NAME) as Hd.
      destruct (read_delim c data (N.of_nat (length data)) pos E_TRUNC_LABEL_NAME) as [[bs e]| | |];
        cbn [obind fst snd] in *; auto. lia. }
    destruct ((field =? 2) && (wt =? 2)); [|exact I].
    pose proof (read_delim_spec data pos E_TRUNC_LABEL_VALUE) as Hd.
    destruct (read_delim c data (N.of_nat (length data)) pos E_TRUNC_LABEL_VALUE) as [[bs e]| | |];
      cbn [obind fst snd] in *; auto. lia.
  Qed.

  Lemma parse_label_answered : forall data,
    N.of_nat (length data) < I63 -> answered (parse_label c data).
  Proof.
    intros data Hlen. unfold parse_label.
    apply parse_msg_answered; auto. apply label_handler_ok.
  Qed.

  Lemma series_handler_ok : forall data,
    N.of_nat (length data) < I63 ->
    handler_ok (N.of_nat (length data)) (series_handler c data (N.of_nat (length data))).
  Proof.
    intros data Hlen field wt pos acc Hpos. unfold series_handler.
    destruct ((field =? 1) && (wt =? 2)).
    { pose proof (read_delim_spec data pos E_TRUNC_LABEL) as Hd.
      destruct (read_delim c data (N.of_nat (length data)) pos E_TRUNC_LABEL) as [[bs e]| | |];
        cbn [obind fst snd] in *; auto.
      pose proof (parse_label_answered bs) as Hp.
      destruct (parse_label c bs); cbn [obind answered] in *; auto; try lia; try (apply Hp; lia). }
    destruct ((field =? 2) && (wt =? 2)); [|exact I].
    pose proof (read_delim_spec data pos E_TRUNC_SAMPLE) as Hd.
    destruct (read_delim c data (N.of_nat (length data)) pos E_TRUNC_SAMPLE) as [[bs e]| | |];
      cbn [obind fst snd] in *; auto.
    pose proof (parse_sample_answered bs) as Hp.
    destruct (parse_sample c bs); cbn [obind answered] in *; auto; try lia; try (apply Hp; lia).
  Qed.

  Lemma parse_timeseries_answered : forall data,
    N.of_nat (length data) < I63 -> answered (parse_timeseries c data).
  Proof.
    intros data Hlen. unfold parse_timeseries.
    apply parse_msg_answered; auto. apply series_handler_ok; auto.
  Qed.

  Lemma request_handler_ok : forall data,
    N.of_nat (length data) < I63 ->
    handler_ok (N.of_nat (length data)) (request_handler c data (N.of_nat (length data))).
  Proof.
    intros data Hlen field wt pos acc Hpos. unfold request_handler.
    destruct ((field =? 1) && (wt =? 2)); [|exact I].
    pose proof (read_delim_spec data pos E_TRUNC_TIMESERIES) as Hd.
    destruct (read_delim c data (N.of_nat (length data)) pos E_TRUNC_TIMESERIES) as [[bs e]| | |];
      cbn [obind fst snd] in *; auto.
    pose proof (parse_timeseries_answered bs) as Hp.
    destruct (parse_timeseries c bs); cbn [obind answered] in *; auto; try lia; try (apply Hp; lia).
  Qed.

  Lemma parse_write_request_answered : forall data,
    N.of_nat (length data) < I63 -> answered (parse_write_request c data).
  Proof.
    intros data Hlen. unfold parse_write_request.
    apply parse_msg_answered; auto. apply request_handler_ok; auto.
  Qed.
End Current.

(* parse_total: every byte string (Rust slices are shorter than 2^63 bytes) is
   answered with Ok or Err by the current code, in debug and release builds *)
Theorem parse_total : forall (m : build) (data : bytes),
  N.of_nat (length data) < I63 ->
  match parse_write_request (current m) data with
  | Done _ | Failed _ => True
  | Panic | Hang => False
  end.
Proof. intros m data H. exact (parse_write_request_answered m data H). Qed.

(* the build mode is irrelevant for the current code: no wrap ever happens *)
(* the code before 10ed38f: the recorded witnesses *)
Definition witness_known : bytes := [10; 255; 255; 255; 255; 255; 255; 255; 255; 255; 1].
Definition witness_known_wrap : bytes := [10; 250; 255; 255; 255; 255; 255; 255; 255; 255; 1].
Definition witness_skip : bytes := [26; 245; 255; 255; 255; 255; 255; 255; 255; 255; 1].

Lemma legacy_refuted_len_overflow :
  parse_write_request (legacy Debug) witness_known = Panic /\
  parse_write_request (legacy Release) witness_known_wrap = Panic /\
  parse_write_request (legacy Debug) witness_skip = Panic /\
  parse_write_request (legacy Release) witness_skip = Hang.
Proof. vm_compute. repeat split; reflexivity. Qed.

Lemma current_witnesses_answered :
  parse_write_request (current Debug) witness_known = Failed E_TRUNC_TIMESERIES /\
  parse_write_request (current Release) witness_known_wrap = Failed E_TRUNC_TIMESERIES /\
  parse_write_request (current Debug) witness_skip = Failed E_TRUNC_FIELD /\
  parse_write_request (current Release) witness_skip = Failed E_TRUNC_FIELD.
Proof. vm_compute. repeat split; reflexivity. Qed.

(* ==================================================================== *)
(* Round trip: parse (encode r) = r                                      *)

(* finite sweeps over byte-sized domains *)
Lemma below_sweep : forall (k : nat) (P : N -> bool),
  forallb P (map N.of_nat (seq 0 k)) = true -> forall r, r < N.of_nat k -> P r = true.
Proof.
  intros k P H r Hr. rewrite forallb_forall in H. apply H.
  rewrite in_map_iff. exists (N.to_nat r). split; [apply N2Nat.id|].
  apply in_seq. lia.
Qed.

Lemma low7_facts : forall r, r < 128 ->
  N.land r 127 = r /\ N.land r 128 = 0 /\
  N.land (N.lor r 128) 127 = r /\ N.land (N.lor r 128) 128 <> 0 /\ N.lor r 128 < 256.
Proof.
  intros r Hr.
  pose proof (below_sweep 128 (fun r =>
     (N.land r 127 =? r) && (N.land r 128 =? 0) && (N.land (N.lor r 128) 127 =? r) &&
     negb (N.land (N.lor r 128) 128 =? 0) && (N.lor r 128 <? 256))) as H.
  specialize (H ltac:(vm_compute; reflexivity) r Hr). cbv beta in H.
  repeat rewrite andb_true_iff in H. destruct H as [[[[H1 H2] H3] H4] H5].
  apply N.eqb_eq in H1. apply N.eqb_eq in H2. apply N.eqb_eq in H3.
  apply negb_true_iff in H4. apply N.eqb_neq in H4. apply N.ltb_lt in H5. auto.
Qed.

Lemma land127_mod : forall n, N.land n 127 = n mod 128.
Proof. intro n. change 127 with (N.ones 7). rewrite N.land_ones. reflexivity. Qed.

Lemma varint_bits : forall n s,
  N.lor (N.shiftl (N.land n 127) s) (N.shiftl (N.shiftr n 7) (s + 7)) = N.shiftl n s.
Proof.
  intros n s. apply N.bits_inj. intro i. rewrite N.lor_spec.
  destruct (N.lt_ge_cases i s) as [Hlo|Hhi].
  - rewrite !N.shiftl_spec_low by lia. reflexivity.
  - rewrite (N.shiftl_spec_high' (N.land n 127) s i) by lia.
    rewrite (N.shiftl_spec_high' n s i) by lia. rewrite N.land_spec.
    destruct (N.lt_ge_cases i (s + 7)) as [Hmid|Htop].
    + rewrite (N.shiftl_spec_low _ (s + 7) i) by lia. rewrite orb_false_r.
      change 127 with (N.ones 7). rewrite N.ones_spec_low by lia. apply andb_true_r.
    + rewrite N.shiftl_spec_high' by lia. rewrite N.shiftr_spec'.
      change 127 with (N.ones 7). rewrite N.ones_spec_high by lia.
      rewrite andb_false_r. cbn [orb]. f_equal. lia.
Qed.

Lemma enc_varint_fuel_nonempty : forall f n, enc_varint_fuel (S f) n <> [].
Proof. intros f n. cbn [enc_varint_fuel]. destruct (n <? 128); discriminate. Qed.

Lemma varint_roundtrip_aux : forall fuel n shift result pos post,
  n < 2 ^ (7 * N.of_nat (S fuel)) -> n * 2 ^ shift < U64 ->
  varint_loop (enc_varint_fuel (S fuel) n ++ post) pos shift result
  = Done (N.lor result (N.shiftl n shift), pos + N.of_nat (length (enc_varint_fuel (S fuel) n))).
Proof.
  induction fuel as [|fuel IH]; intros n shift result pos post Hn Hs.
  - assert (Hn' : n < 128) by (change (2 ^ (7 * N.of_nat 1)) with 128 in Hn; exact Hn).
    cbn [enc_varint_fuel]. destruct (N.ltb_spec n 128) as [_|]; [|lia].
    cbn [app varint_loop length]. destruct (low7_facts n Hn') as (H1 & H2 & _).
    rewrite H1, H2. cbn [N.eqb]. rewrite N.shiftl_mul_pow2, N.mod_small by exact Hs.
    reflexivity.
  - remember (S fuel) as f1. cbn [enc_varint_fuel].
    destruct (N.ltb_spec n 128) as [Hsmall|Hbig].
    + cbn [app varint_loop length]. destruct (low7_facts n Hsmall) as (H1 & H2 & _).
      rewrite H1, H2. cbn [N.eqb]. rewrite N.shiftl_mul_pow2, N.mod_small by exact Hs.
      reflexivity.
    + cbn [app varint_loop length].
      assert (Hr : N.land n 127 < 128) by (rewrite land127_mod; apply N.mod_lt; discriminate).
      destruct (low7_facts (N.land n 127) Hr) as (_ & _ & H3 & H4 & _).
      rewrite H3. apply N.eqb_neq in H4. rewrite H4.
      (* shift + 7 < 64 because n >= 128 and n * 2^shift < 2^64 *)
      assert (Hsh : shift + 7 < 64).
      { apply (N.pow_lt_mono_r_iff 2); [lia|].
        change (2 ^ 64) with U64. rewrite N.pow_add_r. change (2 ^ 7) with 128. nia. }
      destruct (N.leb_spec 64 (shift + 7)) as [|_]; [lia|].
      assert (Hdiv : N.shiftr n 7 = n / 128) by (rewrite N.shiftr_div_pow2; reflexivity).
      rewrite IH.
      * f_equal. f_equal.
        -- rewrite <- N.lor_assoc. f_equal.
           rewrite N.mod_small.
           ++ apply varint_bits.
           ++ rewrite N.shiftl_mul_pow2, land127_mod.
              eapply N.le_lt_trans; [|exact Hs]. apply N.mul_le_mono_r. apply N.mod_le. discriminate.
        -- rewrite Nat2N.inj_succ. lia.
      * rewrite Hdiv. apply N.div_lt_upper_bound; [discriminate|].
        subst f1. rewrite !Nat2N.inj_succ in *.
        replace (7 * N.succ (N.succ (N.of_nat fuel))) with (7 + 7 * N.succ (N.of_nat fuel)) in Hn by lia.
        rewrite N.pow_add_r in Hn. exact Hn.
      * rewrite Hdiv. rewrite N.pow_add_r. change (2 ^ 7) with 128.
        eapply N.le_lt_trans; [|exact Hs].
        rewrite (N.mul_comm (2 ^ shift)), N.mul_assoc. apply N.mul_le_mono_r.
        rewrite N.mul_comm. apply N.mul_div_le. discriminate.
Qed.

Lemma skipn_pre : forall (pre rest : bytes),
  skipn (N.to_nat (N.of_nat (length pre))) (pre ++ rest) = rest.
Proof.
  intros. rewrite Nat2N.id, skipn_app, skipn_all, Nat.sub_diag. reflexivity.
Qed.

Lemma read_varint_enc : forall n pre post, n < U64 ->
  read_varint (pre ++ enc_varint n ++ post) (N.of_nat (length pre))
  = Done (n, N.of_nat (length pre) + N.of_nat (length (enc_varint n))).
Proof.
  intros n pre post Hn. unfold read_varint, enc_varint. rewrite skipn_pre.
  rewrite varint_roundtrip_aux.
  - rewrite N.shiftl_0_r, N.lor_0_l. reflexivity.
  - eapply N.lt_trans; [exact Hn|]. vm_compute. reflexivity.
  - rewrite N.pow_0_r, N.mul_1_r. exact Hn.
Qed.

Lemma enc_varint_small : forall t, t < 128 -> enc_varint t = [t].
Proof.
  intros t Ht. unfold enc_varint. cbn [enc_varint_fuel].
  destruct (N.ltb_spec t 128); [reflexivity|lia].
Qed.

Lemma read_varint_byte : forall t pre post, t < 128 ->
  read_varint (pre ++ t :: post) (N.of_nat (length pre)) = Done (t, N.of_nat (length pre) + 1).
Proof.
  intros t pre post Ht.
  pose proof (read_varint_enc t pre post) as H. rewrite enc_varint_small in H by exact Ht.
  apply H. eapply N.lt_trans; [exact Ht|]. vm_compute. reflexivity.
Qed.

Lemma enc_varint_nonempty : forall n, (1 <= length (enc_varint n))%nat.
Proof.
  intro n. unfold enc_varint. cbn [enc_varint_fuel]. destruct (n <? 128); cbn [length]; lia.
Qed.

(* ---- one length-delimited field of the current code ---- *)
Lemma read_delim_enc : forall m pre payload post code,
  let data := pre ++ enc_varint (N.of_nat (length payload)) ++ payload ++ post in
  N.of_nat (length data) < U64 ->
  read_delim (current m) data (N.of_nat (length data)) (N.of_nat (length pre)) code
  = Done (payload, N.of_nat (length pre) + N.of_nat (length (enc_varint (N.of_nat (length payload))))
                   + N.of_nat (length payload)).
Proof.
  intros m pre payload post code data Hlen. unfold read_delim.
  assert (Hlens : N.of_nat (length data) =
                  N.of_nat (length pre) + N.of_nat (length (enc_varint (N.of_nat (length payload))))
                  + N.of_nat (length payload) + N.of_nat (length post)).
  { unfold data. rewrite !app_length, !Nat2N.inj_add. lia. }
  unfold data at 1. rewrite read_varint_enc by lia. cbn [obind fst snd].
  unfold known_end, current. cbn [c_checked]. unfold delimited_end.
  set (p1 := N.of_nat (length pre) + N.of_nat (length (enc_varint (N.of_nat (length payload))))) in *.
  destruct (N.ltb_spec (p1 + N.of_nat (length payload)) U64) as [_|]; [|lia].
  destruct (N.leb_spec (p1 + N.of_nat (length payload)) (N.of_nat (length data))) as [_|]; [|lia].
  cbn [obind]. rewrite slice_done by lia. cbn [obind]. f_equal. f_equal.
  replace (p1 + N.of_nat (length payload) - p1) with (N.of_nat (length payload)) by lia.
  unfold data. rewrite app_assoc.
  replace p1 with (N.of_nat (length (pre ++ enc_varint (N.of_nat (length payload))))).
  - rewrite skipn_pre. rewrite Nat2N.id, firstn_app, firstn_all, Nat.sub_diag. cbn [firstn].
    apply app_nil_r.
  - unfold p1. rewrite app_length, Nat2N.inj_add. reflexivity.
Qed.

(* ---- one iteration of the message loop on a known single-byte tag ---- *)
Lemma msg_loop_known : forall (A : Type) c code (h : handler A) fuel pre t rest acc acc' p2,
  t < 128 -> (0 < fuel)%nat ->
  h (N.shiftr t 3) (N.land t 7) (N.of_nat (length pre) + 1) acc = Some (Done (acc', p2)) ->
  msg_loop c code h fuel (pre ++ t :: rest) (N.of_nat (length (pre ++ t :: rest))) (N.of_nat (length pre)) acc
  = msg_loop c code h (pred fuel) (pre ++ t :: rest) (N.of_nat (length (pre ++ t :: rest))) p2 acc'.
Proof.
  intros A c code h fuel pre t rest acc acc' p2 Ht Hfuel Hh.
  destruct fuel as [|fuel]; [lia|]. cbn [pred msg_loop].
  destruct (N.ltb_spec (N.of_nat (length pre)) (N.of_nat (length (pre ++ t :: rest)))) as [_|Hge].
  - rewrite read_varint_byte by exact Ht. cbn [obind fst snd]. rewrite Hh. reflexivity.
  - rewrite app_length in Hge. cbn [length] in Hge. lia.
Qed.

Lemma msg_loop_end : forall (A : Type) c code (h : handler A) fuel data acc,
  msg_loop c code h fuel data (N.of_nat (length data)) (N.of_nat (length data)) acc = Done acc.
Proof.
  intros. destruct fuel; cbn [msg_loop]; rewrite N.ltb_irrefl; reflexivity.
Qed.

(* ---- scalar conversions ---- *)
Lemma as_i64_as_u64 : forall z, (- Z.of_N I63 <= z < Z.of_N I63)%Z -> as_i64 (as_u64 z) = z.
Proof.
  intros z Hz. unfold as_i64, as_u64.
  change (Z.of_N I63) with 9223372036854775808%Z in *.
  change (Z.of_N U64) with 18446744073709551616%Z.
  destruct (Z.neg_nonneg_cases z) as [Hneg|Hpos].
  - replace (z mod 18446744073709551616)%Z with (z + 18446744073709551616)%Z.
    + destruct (N.ltb_spec (Z.to_N (z + 18446744073709551616)) I63) as [H|H].
      * unfold I63 in H. lia.
      * rewrite Z2N.id by lia. lia.
    + rewrite <- (Z_mod_plus_full z 1 18446744073709551616). rewrite Z.mul_1_l.
      symmetry. apply Z.mod_small. lia.
  - rewrite Z.mod_small by lia.
    destruct (N.ltb_spec (Z.to_N z) I63) as [H|H].
    + apply Z2N.id. lia.
    + unfold I63 in H. lia.
Qed.

Lemma as_u64_lt : forall z, as_u64 z < U64.
Proof.
  intro z. unfold as_u64.
  pose proof (Z.mod_pos_bound z (Z.of_N U64) ltac:(reflexivity)) as H.
  change (Z.of_N U64) with 18446744073709551616%Z in *. unfold U64. lia.
Qed.

Lemma le_bytes_length : forall k n, length (le_bytes k n) = k.
Proof. induction k; intros; cbn [le_bytes length]; auto. Qed.

Lemma le_value_le_bytes : forall k n, le_value (le_bytes k n) = n mod 256 ^ N.of_nat k.
Proof.
  induction k as [|k IH]; intro n.
  - cbn. rewrite N.mod_1_r. reflexivity.
  - cbn [le_bytes le_value]. rewrite IH. rewrite Nat2N.inj_succ, N.pow_succ_r'.
    rewrite N.mod_mul_r; [reflexivity|discriminate|]. apply N.pow_nonzero. discriminate.
Qed.

(* the same two facts with the shape of the data as a hypothesis *)
Lemma read_delim_at : forall m data pre payload post code,
  data = pre ++ enc_varint (N.of_nat (length payload)) ++ payload ++ post ->
  N.of_nat (length data) < U64 ->
  read_delim (current m) data (N.of_nat (length data)) (N.of_nat (length pre)) code
  = Done (payload, N.of_nat (length pre) + N.of_nat (length (enc_varint (N.of_nat (length payload))))
                   + N.of_nat (length payload)).
Proof. intros m data pre payload post code -> H. apply read_delim_enc. exact H. Qed.

Lemma msg_loop_at : forall (A : Type) c code (h : handler A) fuel data pre t rest acc acc' p2,
  data = pre ++ t :: rest ->
  t < 128 -> (0 < fuel)%nat ->
  h (N.shiftr t 3) (N.land t 7) (N.of_nat (length pre) + 1) acc = Some (Done (acc', p2)) ->
  msg_loop c code h fuel data (N.of_nat (length data)) (N.of_nat (length pre)) acc
  = msg_loop c code h (pred fuel) data (N.of_nat (length data)) p2 acc'.
Proof. intros A c code h fuel data pre t rest acc acc' p2 ->. apply msg_loop_known. Qed.

(* ---- parse_sample ---- *)
Lemma sample_value_step : forall m data pre bs post acc,
  data = pre ++ 9 :: bs ++ post -> length bs = 8%nat ->
  N.of_nat (length data) < I63 ->
  sample_handler (current m) data (N.of_nat (length data)) 1 1 (N.of_nat (length pre) + 1) acc
  = Some (Done (mkSample (s_ts acc) (le_value bs), N.of_nat (length pre) + 9)).
Proof.
  intros m data pre bs post acc Hd Hbs Hlen. unfold sample_handler.
  change ((1 =? 1) && (1 =? 1)) with true. cbv iota.
  assert (Hl : N.of_nat (length data) = N.of_nat (length pre) + 9 + N.of_nat (length post)).
  { rewrite Hd, app_length. cbn [length]. rewrite app_length, Hbs. lia. }
  assert (HU : I63 + 8 < U64) by (vm_compute; reflexivity).
  unfold uadd, current. cbn [c_mode].
  destruct (N.ltb_spec (N.of_nat (length pre) + 1 + 8) U64) as [_|]; [|lia].
  cbn [obind].
  destruct (N.ltb_spec (N.of_nat (length data)) (N.of_nat (length pre) + 1 + 8)) as [|_]; [lia|].
  rewrite slice_done by lia. cbn [obind]. f_equal. f_equal. f_equal; [|lia].
  f_equal.
  replace (N.of_nat (length pre) + 1 + 8 - (N.of_nat (length pre) + 1)) with 8 by lia.
  replace (N.of_nat (length pre) + 1) with (N.of_nat (length (pre ++ [9]))) by (rewrite app_length; cbn [length]; lia).
  replace data with ((pre ++ [9]) ++ bs ++ post) by (rewrite Hd, <- app_assoc; reflexivity).
  rewrite skipn_pre. change (N.to_nat 8) with 8%nat. rewrite <- Hbs.
  rewrite firstn_app, firstn_all, Nat.sub_diag. cbn [firstn]. rewrite app_nil_r. reflexivity.
Qed.

Lemma sample_ts_step : forall m data pre v post acc,
  data = pre ++ 16 :: enc_varint v ++ post -> v < U64 ->
  sample_handler (current m) data (N.of_nat (length data)) 2 0 (N.of_nat (length pre) + 1) acc
  = Some (Done (mkSample (as_i64 v) (s_bits acc),
                N.of_nat (length pre) + 1 + N.of_nat (length (enc_varint v)))).
Proof.
  intros m data pre v post acc Hd Hv. unfold sample_handler.
  change ((2 =? 1) && (0 =? 1)) with false. change ((2 =? 2) && (0 =? 0)) with true. cbv iota.
  replace (N.of_nat (length pre) + 1) with (N.of_nat (length (pre ++ [16]))) by (rewrite app_length; cbn [length]; lia).
  replace data with ((pre ++ [16]) ++ enc_varint v ++ post) by (rewrite Hd, <- app_assoc; reflexivity).
  rewrite read_varint_enc by exact Hv. reflexivity.
Qed.

Lemma enc_varint_length_le : forall u, (length (enc_varint u) <= 10)%nat.
Proof.
  intro u. unfold enc_varint. generalize 10%nat u.
  induction n as [|n IH]; intro x; cbn [enc_varint_fuel length]; [lia|].
  destruct (x <? 128); cbn [length]; [lia|]. specialize (IH (N.shiftr x 7)). lia.
Qed.

Lemma parse_sample_enc : forall m s,
  wf_sample s -> parse_sample (current m) (enc_sample s) = Done s.
Proof.
  intros m [ts bits] [Hts Hbits]. cbn [s_ts s_bits] in *.
  unfold parse_sample, parse_msg.
  remember (as_u64 ts) as u eqn:Hu.
  remember (enc_sample (mkSample ts bits)) as data eqn:Hdata.
  assert (Hd1 : data = [] ++ 9 :: le_bytes 8 bits ++ (16 :: enc_varint u ++ [])).
  { rewrite Hdata, Hu. unfold enc_sample. cbn [s_ts s_bits].
    change (enc_tag 1 1) with [9]. change (enc_tag 2 0) with [16].
    rewrite app_nil_r. reflexivity. }
  assert (Hd2 : data = (9 :: le_bytes 8 bits) ++ 16 :: enc_varint u ++ []).
  { rewrite Hd1. reflexivity. }
  assert (Hl : length data = (10 + length (enc_varint u))%nat).
  { rewrite Hd1. cbn [app length]. rewrite app_length, le_bytes_length. cbn [length].
    rewrite app_length. cbn [length]. lia. }
  pose proof (enc_varint_length_le u) as Hvl.
  assert (Hlen : N.of_nat (length data) < I63) by (rewrite Hl; unfold I63; lia).
  assert (Hu64 : u < U64) by (rewrite Hu; apply as_u64_lt).
  pose proof (msg_loop_at sample (current m) E_WIRE_SAMPLE
                (sample_handler (current m) data (N.of_nat (length data))) (S (length data))
                data [] 9 _ (mkSample 0 0) _ _ Hd1 ltac:(reflexivity) ltac:(lia)
                (sample_value_step m data [] (le_bytes 8 bits) _ (mkSample 0 0) Hd1 (le_bytes_length 8 bits) Hlen)) as S1.
  change (N.of_nat (length (@nil N))) with 0 in S1. rewrite S1. clear S1.
  assert (Hp : N.of_nat (length (9 :: le_bytes 8 bits)) = 0 + 9).
  { cbn [length]. rewrite le_bytes_length. reflexivity. }
  pose proof (msg_loop_at sample (current m) E_WIRE_SAMPLE
                (sample_handler (current m) data (N.of_nat (length data))) (pred (S (length data)))
                data (9 :: le_bytes 8 bits) 16 _ (mkSample 0 (le_value (le_bytes 8 bits))) _ _ Hd2 ltac:(reflexivity) ltac:(cbn [pred]; lia)
                (sample_ts_step m data (9 :: le_bytes 8 bits) u _ (mkSample 0 (le_value (le_bytes 8 bits))) Hd2 Hu64)) as S2.
  rewrite Hp in S2. cbn [s_ts s_bits] in S2 |- *. rewrite S2. clear S2.
  replace (0 + 9 + 1 + N.of_nat (length (enc_varint u))) with (N.of_nat (length data)) by (rewrite Hl; lia).
  rewrite msg_loop_end. f_equal. f_equal.
  - rewrite Hu. apply as_i64_as_u64. exact Hts.
  - rewrite le_value_le_bytes. apply N.mod_small. exact Hbits.
Qed.

(* ---- a tagged length-delimited field ---- *)
Lemma read_delim_tagged : forall m data pre t payload post code,
  data = pre ++ t :: enc_varint (N.of_nat (length payload)) ++ payload ++ post ->
  N.of_nat (length data) < U64 ->
  read_delim (current m) data (N.of_nat (length data)) (N.of_nat (length pre) + 1) code
  = Done (payload, N.of_nat (length pre) + 1 + N.of_nat (length (enc_varint (N.of_nat (length payload))))
                   + N.of_nat (length payload)).
Proof.
  intros m data pre t payload post code Hd Hlen.
  replace (N.of_nat (length pre) + 1) with (N.of_nat (length (pre ++ [t])))
    by (rewrite app_length; cbn [length]; lia).
  apply read_delim_at with (post := post); [|exact Hlen].
  rewrite Hd, <- app_assoc. reflexivity.
Qed.

Lemma I63_lt_U64 : forall n, n < I63 -> n < U64.
Proof. intros n H. eapply N.lt_trans; [exact H|]. vm_compute. reflexivity. Qed.

(* ---- parse_label ---- *)
Lemma parse_label_enc : forall m l,
  wf_label l -> N.of_nat (length (enc_label l)) < I63 ->
  parse_label (current m) (enc_label l) = Done l.
Proof.
  intros m [name value] [[_ Hn] [_ Hv]] Hlen. cbn [l_name l_value] in *.
  unfold parse_label, parse_msg.
  remember (enc_label (mkLabel name value)) as data eqn:Hdata.
  set (V1 := enc_varint (N.of_nat (length name))) in *.
  set (V2 := enc_varint (N.of_nat (length value))) in *.
  assert (Hd1 : data = [] ++ 10 :: V1 ++ name ++ (18 :: V2 ++ value ++ [])).
  { rewrite Hdata. unfold enc_label, enc_delim. cbn [l_name l_value].
    change (enc_tag 1 2) with [10]. change (enc_tag 2 2) with [18].
    rewrite app_nil_r. cbn [app]. rewrite <- !app_assoc. reflexivity. }
  assert (Hd2 : data = (10 :: V1 ++ name) ++ 18 :: V2 ++ value ++ []).
  { rewrite Hd1. cbn [app]. rewrite <- app_assoc. reflexivity. }
  assert (Hl : length data = (2 + length V1 + length name + length V2 + length value)%nat).
  { rewrite Hd1. cbn [app length]. rewrite !app_length. cbn [length]. rewrite !app_length. cbn [length]. lia. }
  pose proof (I63_lt_U64 _ Hlen) as HlenU.
  assert (H1 : label_handler (current m) data (N.of_nat (length data)) (N.shiftr 10 3) (N.land 10 7)
                 (N.of_nat (length (@nil N)) + 1) (mkLabel [] [])
               = Some (Done (mkLabel name [], 0 + 1 + N.of_nat (length V1) + N.of_nat (length name)))).
  { change (N.shiftr 10 3) with 1. change (N.land 10 7) with 2. unfold label_handler.
    change ((1 =? 1) && (2 =? 2)) with true. cbv iota.
    rewrite (read_delim_tagged m data [] 10 name _ E_TRUNC_LABEL_NAME Hd1 HlenU).
    cbn [obind fst snd l_value length N.of_nat]. rewrite Hn. reflexivity. }
  pose proof (msg_loop_at label (current m) E_WIRE_LABEL _ (S (length data)) data [] 10 _ _ _ _ Hd1
             ltac:(reflexivity) ltac:(lia) H1) as S1. clear H1.
  change (N.of_nat (length (@nil N))) with 0 in S1. rewrite S1. clear S1.
  assert (Hp : N.of_nat (length (10 :: V1 ++ name)) = 0 + 1 + N.of_nat (length V1) + N.of_nat (length name)).
  { cbn [length]. rewrite app_length. lia. }
  assert (H2 : label_handler (current m) data (N.of_nat (length data)) (N.shiftr 18 3) (N.land 18 7)
                 (N.of_nat (length (10 :: V1 ++ name)) + 1) (mkLabel name [])
               = Some (Done (mkLabel name value,
                             N.of_nat (length (10 :: V1 ++ name)) + 1 + N.of_nat (length V2) + N.of_nat (length value)))).
  { change (N.shiftr 18 3) with 2. change (N.land 18 7) with 2. unfold label_handler.
    change ((2 =? 1) && (2 =? 2)) with false. change ((2 =? 2) && (2 =? 2)) with true. cbv iota.
    rewrite (read_delim_tagged m data (10 :: V1 ++ name) 18 value _ E_TRUNC_LABEL_VALUE Hd2 HlenU).
    cbn [obind fst snd l_name]. rewrite Hv. reflexivity. }
  rewrite <- Hp.
  rewrite (msg_loop_at label (current m) E_WIRE_LABEL _ (pred (S (length data))) data (10 :: V1 ++ name) 18 _ _ _ _ Hd2
             ltac:(reflexivity) ltac:(cbn [pred]; lia) H2). clear H2.
  replace (N.of_nat (length (10 :: V1 ++ name)) + 1 + N.of_nat (length V2) + N.of_nat (length value))
    with (N.of_nat (length data)) by (rewrite Hp, Hl; lia).
  apply msg_loop_end.
Qed.

(* ---- a run of repeated length-delimited fields with the same tag ---- *)
Lemma loop_items : forall (A X : Type) m code (h : handler A) data (enc : X -> bytes) (t : N)
                          (upd : A -> X -> A),
  t < 128 ->
  forall items,
  (forall pre post x acc, In x items ->
     data = pre ++ t :: enc_varint (N.of_nat (length (enc x))) ++ enc x ++ post ->
     h (N.shiftr t 3) (N.land t 7) (N.of_nat (length pre) + 1) acc
     = Some (Done (upd acc x,
                   N.of_nat (length pre) + 1 + N.of_nat (length (enc_varint (N.of_nat (length (enc x)))))
                   + N.of_nat (length (enc x))))) ->
  forall pre post acc fuel,
  data = pre ++ concat (map (fun x => t :: enc_varint (N.of_nat (length (enc x))) ++ enc x) items) ++ post ->
  (length items <= fuel)%nat ->
  msg_loop (current m) code h fuel data (N.of_nat (length data)) (N.of_nat (length pre)) acc
  = msg_loop (current m) code h (fuel - length items) data (N.of_nat (length data))
      (N.of_nat (length pre) +
       N.of_nat (length (concat (map (fun x => t :: enc_varint (N.of_nat (length (enc x))) ++ enc x) items))))
      (fold_left upd items acc).
Proof.
  intros A X m code h data enc t upd Ht.
  induction items as [|x items IH]; intros Hh pre post acc fuel Hd Hfuel.
  - cbn [map concat length fold_left]. rewrite N.add_0_r, Nat.sub_0_r. reflexivity.
  - cbn [map concat length fold_left] in *.
    set (V := enc_varint (N.of_nat (length (enc x)))) in *.
    set (rest := concat (map (fun x => t :: enc_varint (N.of_nat (length (enc x))) ++ enc x) items)) in *.
    assert (Hd' : data = pre ++ t :: V ++ enc x ++ (rest ++ post)).
    { rewrite Hd. cbn [app]. rewrite <- !app_assoc. reflexivity. }
    rewrite (msg_loop_at A (current m) code h fuel data pre t _ acc _ _ Hd' Ht ltac:(lia)
               (Hh pre (rest ++ post) x acc (or_introl eq_refl) Hd')).
    assert (Hp : N.of_nat (length (pre ++ t :: V ++ enc x))
                 = N.of_nat (length pre) + 1 + N.of_nat (length V) + N.of_nat (length (enc x))).
    { rewrite app_length. cbn [length]. rewrite app_length. lia. }
    fold V. rewrite <- Hp.
    rewrite (IH (fun pre post y acc Hy => Hh pre post y acc (or_intror Hy))
                (pre ++ t :: V ++ enc x) post (upd acc x) (pred fuel)).
    + f_equal; [lia|]. rewrite Hp. rewrite app_length. cbn [length]. rewrite app_length. fold V. lia.
    + rewrite Hd'. rewrite <- !app_assoc. cbn [app]. rewrite <- !app_assoc. reflexivity.
    + lia.
Qed.

Lemma items_le_bytes : forall (X : Type) (f : X -> bytes) (items : list X),
  (forall x, (1 <= length (f x))%nat) ->
  (length items <= length (concat (map f items)))%nat.
Proof.
  intros X f items Hf. induction items as [|x items IH]; cbn [map concat length]; [lia|].
  rewrite app_length. specialize (Hf x). lia.
Qed.

(* ---- parse_timeseries ---- *)
Definition upd_label (acc : series) (l : label) : series :=
  mkSeries (ts_labels acc ++ [l]) (ts_samples acc).
Definition upd_sample (acc : series) (s : sample) : series :=
  mkSeries (ts_labels acc) (ts_samples acc ++ [s]).

Lemma fold_upd_label : forall ls acc,
  fold_left upd_label ls acc = mkSeries (ts_labels acc ++ ls) (ts_samples acc).
Proof.
  induction ls as [|l ls IH]; intro acc; cbn [fold_left].
  - rewrite app_nil_r. destruct acc; reflexivity.
  - rewrite IH. unfold upd_label. cbn [ts_labels ts_samples]. rewrite <- app_assoc. reflexivity.
Qed.

Lemma fold_upd_sample : forall ss acc,
  fold_left upd_sample ss acc = mkSeries (ts_labels acc) (ts_samples acc ++ ss).
Proof.
  induction ss as [|s ss IH]; intro acc; cbn [fold_left].
  - rewrite app_nil_r. destruct acc; reflexivity.
  - rewrite IH. unfold upd_sample. cbn [ts_labels ts_samples]. rewrite <- app_assoc. reflexivity.
Qed.

Lemma payload_shorter : forall (data pre V payload post : bytes) (t : N),
  data = pre ++ t :: V ++ payload ++ post -> N.of_nat (length payload) <= N.of_nat (length data).
Proof.
  intros data pre V payload post t ->. rewrite app_length. cbn [length]. rewrite !app_length. lia.
Qed.

Lemma parse_timeseries_enc : forall m t,
  wf_series t -> N.of_nat (length (enc_series t)) < I63 ->
  parse_timeseries (current m) (enc_series t) = Done t.
Proof.
  intros m [labels samples] [Hwl Hws] Hlen. cbn [ts_labels ts_samples] in *.
  unfold parse_timeseries, parse_msg.
  remember (enc_series (mkSeries labels samples)) as data eqn:Hdata.
  set (F1 := fun l => 10 :: enc_varint (N.of_nat (length (enc_label l))) ++ enc_label l).
  set (F2 := fun s => 18 :: enc_varint (N.of_nat (length (enc_sample s))) ++ enc_sample s).
  assert (Hd : data = concat (map F1 labels) ++ concat (map F2 samples)).
  { rewrite Hdata. unfold enc_series. cbn [ts_labels ts_samples]. reflexivity. }
  assert (Hd1 : data = [] ++ concat (map F1 labels) ++ concat (map F2 samples)) by exact Hd.
  assert (Hd2 : data = concat (map F1 labels) ++ concat (map F2 samples) ++ []) by (rewrite app_nil_r; exact Hd).
  pose proof (I63_lt_U64 _ Hlen) as HlenU.
  assert (Hl : length data = (length (concat (map F1 labels)) + length (concat (map F2 samples)))%nat).
  { rewrite Hd, app_length. reflexivity. }
  assert (Hn1 : (length labels <= length (concat (map F1 labels)))%nat).
  { apply items_le_bytes. intro x. unfold F1. cbn [length]. lia. }
  assert (Hn2 : (length samples <= length (concat (map F2 samples)))%nat).
  { apply items_le_bytes. intro x. unfold F2. cbn [length]. lia. }
  (* labels *)
  pose proof (loop_items series label m E_WIRE_TIMESERIES
                (series_handler (current m) data (N.of_nat (length data))) data enc_label 10 upd_label
                ltac:(reflexivity) labels) as L1.
  fold F1 in L1.
  rewrite Forall_forall in Hwl, Hws.
  specialize (L1 ltac:(
    intros pre post x acc Hx Hdx;
    change (N.shiftr 10 3) with 1; change (N.land 10 7) with 2; unfold series_handler;
    change ((1 =? 1) && (2 =? 2)) with true; cbv iota;
    rewrite (read_delim_tagged m data pre 10 (enc_label x) post E_TRUNC_LABEL Hdx HlenU);
    cbn [obind fst snd];
    rewrite (parse_label_enc m x (Hwl x Hx)) by
      (eapply N.le_lt_trans; [exact (payload_shorter _ _ _ _ _ _ Hdx)|exact Hlen]);
    reflexivity)).
  specialize (L1 [] (concat (map F2 samples)) (mkSeries [] []) (S (length data)) Hd1 ltac:(lia)).
  change (N.of_nat (length (@nil N))) with 0 in L1. rewrite L1. clear L1.
  rewrite fold_upd_label. cbn [ts_labels ts_samples app].
  (* samples *)
  pose proof (loop_items series sample m E_WIRE_TIMESERIES
                (series_handler (current m) data (N.of_nat (length data))) data enc_sample 18 upd_sample
                ltac:(reflexivity) samples) as L2.
  fold F2 in L2.
  specialize (L2 ltac:(
    intros pre post x acc Hx Hdx;
    change (N.shiftr 18 3) with 2; change (N.land 18 7) with 2; unfold series_handler;
    change ((2 =? 1) && (2 =? 2)) with false; change ((2 =? 2) && (2 =? 2)) with true; cbv iota;
    rewrite (read_delim_tagged m data pre 18 (enc_sample x) post E_TRUNC_SAMPLE Hdx HlenU);
    cbn [obind fst snd];
    rewrite (parse_sample_enc m x (Hws x Hx));
    reflexivity)).
  specialize (L2 (concat (map F1 labels)) [] (mkSeries labels []) (S (length data) - length labels)%nat Hd2 ltac:(lia)).
  rewrite N.add_0_l. rewrite L2. clear L2.
  rewrite fold_upd_sample. cbn [ts_labels ts_samples app].
  replace (N.of_nat (length (concat (map F1 labels))) + N.of_nat (length (concat (map F2 samples))))
    with (N.of_nat (length data)) by (rewrite Hl; lia).
  apply msg_loop_end.
Qed.

(* ---- parse_write_request ---- *)
Definition upd_series (acc : request) (t : series) : request := acc ++ [t].

Lemma fold_upd_series : forall ts acc, fold_left upd_series ts acc = acc ++ ts.
Proof.
  induction ts as [|t ts IH]; intro acc; cbn [fold_left].
  - rewrite app_nil_r. reflexivity.
  - rewrite IH. unfold upd_series. rewrite <- app_assoc. reflexivity.
Qed.

Lemma parse_write_request_enc : forall m r,
  wf_request r -> N.of_nat (length (enc_request r)) < I63 ->
  parse_write_request (current m) (enc_request r) = Done r.
Proof.
  intros m r Hwf Hlen. unfold parse_write_request, parse_msg.
  remember (enc_request r) as data eqn:Hdata.
  set (F := fun t => 10 :: enc_varint (N.of_nat (length (enc_series t))) ++ enc_series t).
  assert (Hd : data = [] ++ concat (map F r) ++ []).
  { rewrite Hdata, app_nil_r. reflexivity. }
  pose proof (I63_lt_U64 _ Hlen) as HlenU.
  assert (Hl : length data = length (concat (map F r))).
  { rewrite Hd, app_nil_r. reflexivity. }
  assert (Hn : (length r <= length (concat (map F r)))%nat).
  { apply items_le_bytes. intro x. unfold F. cbn [length]. lia. }
  pose proof (loop_items request series m E_WIRE_REQUEST
                (request_handler (current m) data (N.of_nat (length data))) data enc_series 10 upd_series
                ltac:(reflexivity) r) as L1.
  fold F in L1. unfold wf_request in Hwf. rewrite Forall_forall in Hwf.
  specialize (L1 ltac:(
    intros pre post x acc Hx Hdx;
    change (N.shiftr 10 3) with 1; change (N.land 10 7) with 2; unfold request_handler;
    change ((1 =? 1) && (2 =? 2)) with true; cbv iota;
    rewrite (read_delim_tagged m data pre 10 (enc_series x) post E_TRUNC_TIMESERIES Hdx HlenU);
    cbn [obind fst snd];
    rewrite (parse_timeseries_enc m x (Hwf x Hx)) by
      (eapply N.le_lt_trans; [exact (payload_shorter _ _ _ _ _ _ Hdx)|exact Hlen]);
    reflexivity)).
  specialize (L1 [] [] [] (S (length data)) Hd ltac:(lia)).
  change (N.of_nat (length (@nil N))) with 0 in L1. rewrite L1. clear L1.
  rewrite fold_upd_series. cbn [app].
  replace (0 + N.of_nat (length (concat (map F r)))) with (N.of_nat (length data)) by (rewrite Hl; lia).
  apply msg_loop_end.
Qed.

(* parse_encode: the current reader inverts the canonical encoder on every
   well-formed request (valid UTF-8 labels, i64 timestamps, 64-bit values),
   whatever the number of series, labels and samples *)
Theorem parse_encode : forall (m : build) (r : request),
  wf_request r -> N.of_nat (length (enc_request r)) < I63 ->
  parse_write_request (current m) (enc_request r) = Done r.
Proof. exact parse_write_request_enc. Qed.

(* non-vacuity: ASCII strings are well formed *)
Lemma ascii_wf : forall s, Forall (fun b => b < 128) s -> wf_string s.
Proof.
  intros s H. split.
  - eapply Forall_impl; [|exact H]. cbv beta. intros; lia.
  - induction H as [|b s Hb _ IH]; [reflexivity|].
    cbn [utf8_lossy]. destruct (N.ltb_spec b 128); [|lia]. rewrite IH. reflexivity.
Qed.

(* ==================================================================== *)
(* The build mode is irrelevant for the current code: no usize addition ever
   overflows, so debug and release builds compute the same answer. *)
Section ModeIrrelevant.
  Variable m : build.

  Lemma uadd_small : forall a b, a + b < U64 -> uadd m a b = Done (a + b).
  Proof. intros a b H. unfold uadd. destruct (N.ltb_spec (a + b) U64); [reflexivity|lia]. Qed.

  Lemma skip_field_mode : forall code wt data pos,
    pos <= N.of_nat (length data) -> N.of_nat (length data) < I63 ->
    skip_field (current m) code wt data (N.of_nat (length data)) pos
    = skip_field (current Debug) code wt data (N.of_nat (length data)) pos.
  Proof.
    intros code wt data pos Hpos Hlen. unfold skip_field.
    assert (HU : I63 + 8 < U64) by (vm_compute; reflexivity).
    destruct (wt =? 0); [reflexivity|].
    destruct (wt =? 1).
    { unfold current. cbn [c_mode]. rewrite uadd_small by lia. unfold uadd.
      destruct (N.ltb_spec (pos + 8) U64); [reflexivity|lia]. }
    destruct (wt =? 2); [reflexivity|].
    destruct (wt =? 5); [|reflexivity].
    unfold current. cbn [c_mode]. rewrite uadd_small by lia. unfold uadd.
    destruct (N.ltb_spec (pos + 4) U64); [reflexivity|lia].
  Qed.

  Lemma msg_loop_mode : forall (A : Type) code (h1 h2 : handler A) data,
    N.of_nat (length data) < I63 ->
    (forall field wt pos acc, pos <= N.of_nat (length data) -> h1 field wt pos acc = h2 field wt pos acc) ->
    forall fuel pos acc,
      msg_loop (current m) code h1 fuel data (N.of_nat (length data)) pos acc
      = msg_loop (current Debug) code h2 fuel data (N.of_nat (length data)) pos acc.
  Proof.
    intros A code h1 h2 data Hlen Hh. induction fuel as [|fuel IH]; intros pos acc; cbn [msg_loop]; [reflexivity|].
    destruct (pos <? N.of_nat (length data)); [|reflexivity].
    destruct (read_varint data pos) as [[tag pos1]| | |] eqn:Hv; cbn [obind]; try reflexivity.
    apply read_varint_bounds in Hv. destruct Hv as [_ Hv2]. cbn [fst snd].
    rewrite (Hh _ _ pos1 acc Hv2).
    destruct (h2 (N.shiftr tag 3) (N.land tag 7) pos1 acc) as [o|].
    - destruct o as [[acc' p2]| | |]; cbn [obind]; try reflexivity. apply IH.
    - rewrite skip_field_mode by assumption.
      destruct (skip_field (current Debug) code (N.land tag 7) data (N.of_nat (length data)) pos1); cbn [obind]; try reflexivity.
      apply IH.
  Qed.

  Lemma parse_sample_mode : forall data, N.of_nat (length data) < I63 ->
    parse_sample (current m) data = parse_sample (current Debug) data.
  Proof.
    intros data Hlen. unfold parse_sample, parse_msg. apply msg_loop_mode; [exact Hlen|].
    intros field wt pos acc Hpos. unfold sample_handler.
    assert (HU : I63 + 8 < U64) by (vm_compute; reflexivity).
    destruct ((field =? 1) && (wt =? 1)); [|reflexivity].
    unfold current. cbn [c_mode]. rewrite uadd_small by lia. unfold uadd.
    destruct (N.ltb_spec (pos + 8) U64); [reflexivity|lia].
  Qed.

  Lemma parse_label_mode : forall data, N.of_nat (length data) < I63 ->
    parse_label (current m) data = parse_label (current Debug) data.
  Proof.
    intros data Hlen. unfold parse_label, parse_msg. apply msg_loop_mode; [exact Hlen|].
    intros field wt pos acc Hpos. reflexivity.
  Qed.

  Lemma parse_timeseries_mode : forall data, N.of_nat (length data) < I63 ->
    parse_timeseries (current m) data = parse_timeseries (current Debug) data.
  Proof.
    intros data Hlen. unfold parse_timeseries, parse_msg. apply msg_loop_mode; [exact Hlen|].
    intros field wt pos acc Hpos. unfold series_handler.
    destruct ((field =? 1) && (wt =? 2)).
    { change (read_delim (current m)) with (read_delim (current Debug)).
      pose proof (read_delim_spec Debug data pos E_TRUNC_LABEL) as Hd.
      destruct (read_delim (current Debug) data (N.of_nat (length data)) pos E_TRUNC_LABEL) as [[bs e]| | |];
        cbn [obind fst snd] in *; try reflexivity.
      rewrite parse_label_mode by lia. reflexivity. }
    destruct ((field =? 2) && (wt =? 2)); [|reflexivity].
    change (read_delim (current m)) with (read_delim (current Debug)).
    pose proof (read_delim_spec Debug data pos E_TRUNC_SAMPLE) as Hd.
    destruct (read_delim (current Debug) data (N.of_nat (length data)) pos E_TRUNC_SAMPLE) as [[bs e]| | |];
      cbn [obind fst snd] in *; try reflexivity.
    rewrite parse_sample_mode by lia. reflexivity.
  Qed.

  Lemma parse_write_request_mode : forall data, N.of_nat (length data) < I63 ->
    parse_write_request (current m) data = parse_write_request (current Debug) data.
  Proof.
    intros data Hlen. unfold parse_write_request, parse_msg. apply msg_loop_mode; [exact Hlen|].
    intros field wt pos acc Hpos. unfold request_handler.
    destruct ((field =? 1) && (wt =? 2)); [|reflexivity].
    change (read_delim (current m)) with (read_delim (current Debug)).
    pose proof (read_delim_spec Debug data pos E_TRUNC_TIMESERIES) as Hd.
    destruct (read_delim (current Debug) data (N.of_nat (length data)) pos E_TRUNC_TIMESERIES) as [[bs e]| | |];
      cbn [obind fst snd] in *; try reflexivity.
    rewrite parse_timeseries_mode by lia. reflexivity.
  Qed.
End ModeIrrelevant.

Theorem mode_irrelevant : forall (data : bytes), N.of_nat (length data) < I63 ->
  parse_write_request (current Release) data = parse_write_request (current Debug) data.
Proof. intros data H. apply parse_write_request_mode. exact H. Qed.
